package rules

import (
	"go/constant"
	"go/token"
	"go/types"
	"sort"
	"strings"
	"sync"

	"golang.org/x/tools/go/ssa"

	"verif/internal/core"
)

// Refactoring-robust machinery of the HTTP/2 flow-control rules (C33, C34).
//
// The rules of these properties used to look at one function body: its block
// shape (GuardsAt), its own instructions, values compared by rendered text. A
// behaviour-preserving edit that moves a statement into a private helper, names
// an intermediate boolean (`closed := a || b; if !closed`), or turns a nested if
// into an early return changed what they saw. The engine below gives them a
// view that such edits do not change:
//
//   - h2aEnum enumerates the feasible paths of a function with its private
//     helpers (core.Region) spliced in at their call sites, so "the function"
//     is the same set of instruction sequences whether or not a block was
//     extracted;
//   - along a path every phi has one incoming value, every parameter of a
//     spliced helper is the argument of its call and every result of a spliced
//     call is the value of the return taken: values are compared after this
//     resolution, structurally (same field objects, same operators, same
//     parameters), never by name;
//   - the branch conditions taken on the path (facts) replace guards: a fact
//     holds whatever the block structure that established it, `!x`, `x == false`
//     and boolean phis are unfolded into the comparisons they stand for.

// ---- per-run cache (regions are expensive: whole-package call-site scans) ----

type h2aCache struct {
	mu        sync.Mutex
	regions   map[*ssa.Function][]*ssa.Function
	member    map[*ssa.Function]map[*ssa.Function]bool
	valueFree map[*ssa.Function]bool
}

var h2aCaches sync.Map // *core.Ctx -> *h2aCache

func h2aCacheOf(c *core.Ctx) *h2aCache {
	if v, ok := h2aCaches.Load(c); ok {
		return v.(*h2aCache)
	}
	v, _ := h2aCaches.LoadOrStore(c, &h2aCache{regions: map[*ssa.Function][]*ssa.Function{}, member: map[*ssa.Function]map[*ssa.Function]bool{}, valueFree: map[*ssa.Function]bool{}})
	return v.(*h2aCache)
}

// h2aDropCache releases the cache of a finished run (the cache pins the program).
func h2aDropCache(c *core.Ctx) { h2aCaches.Delete(c) }

// h2aRegionOf is c.P.Region(fn), cached for the run.
func h2aRegionOf(c *core.Ctx, fn *ssa.Function) []*ssa.Function {
	if fn == nil {
		return nil
	}
	k := h2aCacheOf(c)
	k.mu.Lock()
	defer k.mu.Unlock()
	if r, ok := k.regions[fn]; ok {
		return r
	}
	r := c.P.Region(fn)
	k.regions[fn] = r
	m := map[*ssa.Function]bool{}
	for _, g := range r {
		m[g] = true
	}
	k.member[fn] = m
	return r
}

// h2aRegionInstrs visits every instruction of fn's region with its function.
func h2aRegionInstrs(c *core.Ctx, fn *ssa.Function, f func(g *ssa.Function, in ssa.Instruction)) {
	for _, g := range h2aRegionOf(c, fn) {
		g := g
		core.Instrs(g, func(in ssa.Instruction) { f(g, in) })
	}
}

// ---- contextual values ---------------------------------------------------------

// h2aFrame is one activation on a path: the root function, or a private helper
// spliced in at a call site of the parent activation.
type h2aFrame struct {
	fn     *ssa.Function
	site   ssa.CallInstruction
	parent *h2aFrame
	depth  int
}

// h2aCV is an SSA value in the activation it was computed in.
type h2aCV struct {
	v  ssa.Value
	fr *h2aFrame
}

// h2aEv is one executed instruction of a path. nf is the number of facts that
// were established before it.
type h2aEv struct {
	in      ssa.Instruction
	fr      *h2aFrame
	nf      int
	spliced bool // a call whose callee's instructions follow on the path
}

// h2aFact is a branch taken on the path. at is the index of the branch in evs.
type h2aFact struct {
	cond  h2aCV
	taken bool
	at    int
}

// h2aIPath is a feasible path of a function with its private helpers spliced in.
type h2aIPath struct {
	root  *h2aFrame
	evs   []h2aEv
	facts []h2aFact
	phis  map[h2aCV]h2aCV   // phi -> the edge value taken
	rets  map[h2aCV][]h2aCV // spliced call -> values of the return taken
	last  ssa.Instruction   // the exit: a return of the root, or a panic anywhere
}

// Returned reports whether the path leaves the root through a return.
func (p *h2aIPath) Returned() bool { _, ok := p.last.(*ssa.Return); return ok }

// RootResults are the values returned by the root on this path.
func (p *h2aIPath) RootResults() []h2aCV {
	r, ok := p.last.(*ssa.Return)
	if !ok {
		return nil
	}
	var out []h2aCV
	for _, v := range core.RetVals(r) {
		out = append(out, h2aCV{v, p.root})
	}
	return out
}

// strip peels conversions and loads of spilled parameters, then follows the
// path's bindings: parameter -> argument, phi -> edge taken, spliced call ->
// returned value; repeated until nothing changes.
func (p *h2aIPath) strip(cv h2aCV) h2aCV {
	for i := 0; i < 64; i++ {
		switch x := cv.v.(type) {
		case *ssa.ChangeType:
			cv.v = x.X
		case *ssa.ChangeInterface:
			cv.v = x.X
		case *ssa.Convert:
			cv.v = x.X
		case *ssa.MakeInterface:
			cv.v = x.X
		case *ssa.UnOp:
			if x.Op == token.MUL {
				if a, ok := x.X.(*ssa.Alloc); ok {
					if sp := core.SpilledParam(a); sp != nil {
						cv.v = sp
						continue
					}
				}
			}
			return cv
		case *ssa.Parameter:
			if cv.fr == nil || cv.fr.parent == nil || cv.fr.site == nil {
				return cv
			}
			idx := -1
			for j, q := range cv.fr.fn.Params {
				if q == x {
					idx = j
				}
			}
			args := cv.fr.site.Common().Args
			if idx < 0 || idx >= len(args) {
				return cv
			}
			cv = h2aCV{args[idx], cv.fr.parent}
		case *ssa.Phi:
			r, ok := p.phis[cv]
			if !ok {
				return cv
			}
			cv = r
		case *ssa.Call:
			r, ok := p.rets[cv]
			if !ok || len(r) != 1 {
				return cv
			}
			cv = r[0]
		case *ssa.Extract:
			r, ok := p.rets[h2aCV{x.Tuple, cv.fr}]
			if !ok || x.Index >= len(r) {
				return cv
			}
			cv = r[x.Index]
		default:
			return cv
		}
	}
	return cv
}

// same: a and b denote the same quantity on this path. Identical values are;
// otherwise both must have the same structure over the same leaves. As before
// (h2aSame) two loads of one access path and two calls of one function with
// the same arguments count as the same quantity; rules that need freshness
// check the instructions in between.
func (p *h2aIPath) same(a, b h2aCV) bool { return p.sameD(a, b, 0, false) }

// samePure is same without that licence: loads and calls must be identical
// instructions of one activation.
func (p *h2aIPath) samePure(a, b h2aCV) bool { return p.sameD(a, b, 0, true) }

func (p *h2aIPath) sameD(a, b h2aCV, d int, pure bool) bool {
	a, b = p.strip(a), p.strip(b)
	if a.v == nil || b.v == nil {
		return a.v == b.v
	}
	if a.v == b.v && (a.fr == b.fr || h2aFrameFree(a.v)) {
		return true
	}
	if d > 12 {
		return false
	}
	switch x := a.v.(type) {
	case *ssa.Const:
		y, ok := b.v.(*ssa.Const)
		if !ok {
			return false
		}
		if x.Value == nil || y.Value == nil {
			return x.Value == nil && y.Value == nil
		}
		if x.Value.Kind() != y.Value.Kind() {
			return false
		}
		return constant.Compare(x.Value, token.EQL, y.Value)
	case *ssa.UnOp:
		y, ok := b.v.(*ssa.UnOp)
		if !ok || x.Op != y.Op || x.CommaOk != y.CommaOk {
			return false
		}
		if pure && (x.Op == token.MUL || x.Op == token.ARROW) {
			return false
		}
		if x.Op == token.ARROW {
			return false
		}
		return p.sameD(h2aCV{x.X, a.fr}, h2aCV{y.X, b.fr}, d+1, pure)
	case *ssa.FieldAddr:
		y, ok := b.v.(*ssa.FieldAddr)
		return ok && core.FieldObj(x.X, x.Field) == core.FieldObj(y.X, y.Field) && core.FieldObj(x.X, x.Field) != nil && p.sameD(h2aCV{x.X, a.fr}, h2aCV{y.X, b.fr}, d+1, pure)
	case *ssa.Field:
		y, ok := b.v.(*ssa.Field)
		return ok && core.FieldObj(x.X, x.Field) == core.FieldObj(y.X, y.Field) && core.FieldObj(x.X, x.Field) != nil && p.sameD(h2aCV{x.X, a.fr}, h2aCV{y.X, b.fr}, d+1, pure)
	case *ssa.IndexAddr:
		y, ok := b.v.(*ssa.IndexAddr)
		return ok && p.sameD(h2aCV{x.X, a.fr}, h2aCV{y.X, b.fr}, d+1, pure) && p.sameD(h2aCV{x.Index, a.fr}, h2aCV{y.Index, b.fr}, d+1, pure)
	case *ssa.Index:
		y, ok := b.v.(*ssa.Index)
		return ok && p.sameD(h2aCV{x.X, a.fr}, h2aCV{y.X, b.fr}, d+1, pure) && p.sameD(h2aCV{x.Index, a.fr}, h2aCV{y.Index, b.fr}, d+1, pure)
	case *ssa.Lookup:
		y, ok := b.v.(*ssa.Lookup)
		if pure {
			return false
		}
		return ok && x.CommaOk == y.CommaOk && p.sameD(h2aCV{x.X, a.fr}, h2aCV{y.X, b.fr}, d+1, pure) && p.sameD(h2aCV{x.Index, a.fr}, h2aCV{y.Index, b.fr}, d+1, pure)
	case *ssa.BinOp:
		y, ok := b.v.(*ssa.BinOp)
		if !ok || x.Op != y.Op {
			return false
		}
		return p.sameD(h2aCV{x.X, a.fr}, h2aCV{y.X, b.fr}, d+1, pure) && p.sameD(h2aCV{x.Y, a.fr}, h2aCV{y.Y, b.fr}, d+1, pure)
	case *ssa.Extract:
		y, ok := b.v.(*ssa.Extract)
		return ok && x.Index == y.Index && p.sameD(h2aCV{x.Tuple, a.fr}, h2aCV{y.Tuple, b.fr}, d+1, pure)
	case *ssa.TypeAssert:
		y, ok := b.v.(*ssa.TypeAssert)
		return ok && x.CommaOk == y.CommaOk && types.Identical(x.AssertedType, y.AssertedType) && p.sameD(h2aCV{x.X, a.fr}, h2aCV{y.X, b.fr}, d+1, pure)
	case *ssa.Slice:
		y, ok := b.v.(*ssa.Slice)
		if !ok || (x.Low == nil) != (y.Low == nil) || (x.High == nil) != (y.High == nil) || (x.Max == nil) != (y.Max == nil) {
			return false
		}
		if !p.sameD(h2aCV{x.X, a.fr}, h2aCV{y.X, b.fr}, d+1, pure) {
			return false
		}
		if x.Low != nil && !p.sameD(h2aCV{x.Low, a.fr}, h2aCV{y.Low, b.fr}, d+1, pure) {
			return false
		}
		if x.High != nil && !p.sameD(h2aCV{x.High, a.fr}, h2aCV{y.High, b.fr}, d+1, pure) {
			return false
		}
		return x.Max == nil || p.sameD(h2aCV{x.Max, a.fr}, h2aCV{y.Max, b.fr}, d+1, pure)
	case *ssa.Call:
		y, ok := b.v.(*ssa.Call)
		if !ok || pure {
			return false
		}
		cx, cy := &x.Call, &y.Call
		if cx.IsInvoke() != cy.IsInvoke() || len(cx.Args) != len(cy.Args) {
			return false
		}
		if cx.IsInvoke() {
			if cx.Method != cy.Method || !p.sameD(h2aCV{cx.Value, a.fr}, h2aCV{cy.Value, b.fr}, d+1, pure) {
				return false
			}
		} else {
			sx, sy := cx.StaticCallee(), cy.StaticCallee()
			bx, isBx := cx.Value.(*ssa.Builtin)
			by, isBy := cy.Value.(*ssa.Builtin)
			switch {
			case sx != nil && sx == sy:
			case isBx && isBy && bx.Name() == by.Name():
			default:
				return false
			}
		}
		for i := range cx.Args {
			if !p.sameD(h2aCV{cx.Args[i], a.fr}, h2aCV{cy.Args[i], b.fr}, d+1, pure) {
				return false
			}
		}
		return true
	}
	return false
}

// h2aFrameFree: the value means the same in every activation.
func h2aFrameFree(v ssa.Value) bool {
	switch v.(type) {
	case *ssa.Const, *ssa.Global, *ssa.Function, *ssa.Builtin:
		return true
	}
	return false
}

// fieldLoad: cv (modulo conversions and path bindings) is a load of struct
// field fld; returns the struct base in its activation.
func (p *h2aIPath) fieldLoad(cv h2aCV, fld *types.Var) (h2aCV, bool) {
	cv = p.strip(cv)
	b, ok := h2aFieldLoad(cv.v, fld)
	if !ok {
		return h2aCV{}, false
	}
	return p.strip(h2aCV{b, cv.fr}), true
}

// fieldAddr: cv is the address of field fld; returns the base.
func (p *h2aIPath) fieldAddr(cv h2aCV, fld *types.Var) (h2aCV, bool) {
	cv = p.strip(cv)
	b, ok := h2aFieldAddrOf(cv.v, fld)
	if !ok {
		return h2aCV{}, false
	}
	return p.strip(h2aCV{b, cv.fr}), true
}

// rootOf walks an access path (fields, loads, indexing, and the receiver of the
// calls accepted by thru, e.g. a by-value accessor such as FrameHeader.Header)
// down to its root.
func (p *h2aIPath) rootOf(cv h2aCV, thru func(*ssa.CallCommon) bool) h2aCV {
	for i := 0; i < 32; i++ {
		cv = p.strip(cv)
		switch x := cv.v.(type) {
		case *ssa.FieldAddr:
			cv.v = x.X
		case *ssa.Field:
			cv.v = x.X
		case *ssa.IndexAddr:
			cv.v = x.X
		case *ssa.UnOp:
			if x.Op != token.MUL {
				return cv
			}
			cv.v = x.X
		case *ssa.Call:
			if thru != nil && thru(&x.Call) && len(x.Call.Args) > 0 {
				cv.v = x.Call.Args[0]
				continue
			}
			return cv
		default:
			return cv
		}
	}
	return cv
}

// isRootParam: cv resolves to parameter i of the root function.
func (p *h2aIPath) isRootParam(cv h2aCV, i int) bool {
	cv = p.strip(cv)
	return cv.fr == p.root && i < len(p.root.fn.Params) && cv.v == ssa.Value(p.root.fn.Params[i])
}

// intOf: cv is an integer constant on this path.
func (p *h2aIPath) intOf(cv h2aCV) (int64, bool) { return h2aInt(p.strip(cv).v) }

func (p *h2aIPath) isNil(cv h2aCV) bool { return h2aIsNil(p.strip(cv).v) }

// lenOf: cv is len(x).
func (p *h2aIPath) lenOf(cv h2aCV) (h2aCV, bool) {
	cv = p.strip(cv)
	d, ok := h2aLenOf(cv.v)
	if !ok {
		return h2aCV{}, false
	}
	return p.strip(h2aCV{d, cv.fr}), true
}

// callOf: cv is a (not spliced) call of one of the named functions.
func (p *h2aIPath) callOf(cv h2aCV, names ...string) (*ssa.Call, *h2aFrame) {
	cv = p.strip(cv)
	call, ok := cv.v.(*ssa.Call)
	if !ok || h2aCallOf(call, names...) == nil {
		return nil, nil
	}
	return call, cv.fr
}

// evIndex finds the event of instruction in executed in activation fr.
func (p *h2aIPath) evIndex(in ssa.Instruction, fr *h2aFrame) int {
	for i, e := range p.evs {
		if e.in == in && e.fr == fr {
			return i
		}
	}
	return -1
}

// h2aCmp is a comparison established on a path: X op Y.
type h2aCmp struct {
	op   token.Token
	x, y h2aCV
	at   int // event index of the branch
	cond ssa.Value
}

// cmps unfolds the facts established before event index upto (all facts when
// upto < 0) into comparisons: `!c` and `c == false` flip the polarity, boolean
// phis were already resolved to the operand evaluated on the path.
func (p *h2aIPath) cmps(upto int) []h2aCmp {
	var out []h2aCmp
	for _, f := range p.facts {
		if upto >= 0 && f.at >= upto {
			continue
		}
		if c, ok := p.cmpOf(f.cond, f.taken, 0); ok {
			c.at = f.at
			out = append(out, c)
		}
	}
	return out
}

// boolFacts lists the facts as (value, truth) with negations folded, for facts
// that are not comparisons (calls, loads of boolean fields, ok results).
func (p *h2aIPath) boolFact(f h2aFact) (h2aCV, bool) {
	cv, pol := p.strip(f.cond), f.taken
	for i := 0; i < 8; i++ {
		u, ok := cv.v.(*ssa.UnOp)
		if !ok || u.Op != token.NOT {
			break
		}
		cv, pol = p.strip(h2aCV{u.X, cv.fr}), !pol
	}
	return cv, pol
}

func (p *h2aIPath) cmpOf(cond h2aCV, pol bool, d int) (h2aCmp, bool) {
	cv, pol := p.boolFactPol(cond, pol)
	b, ok := cv.v.(*ssa.BinOp)
	if !ok || d > 4 {
		return h2aCmp{}, false
	}
	op := b.Op
	if _, isCmp := h2aNeg[op]; !isCmp {
		return h2aCmp{}, false
	}
	// (c == true/false), (c != true/false) over a boolean c
	if op == token.EQL || op == token.NEQ {
		if k, isK := p.strip(h2aCV{b.Y, cv.fr}).v.(*ssa.Const); isK && k.Value != nil && k.Value.Kind() == constant.Bool {
			want := constant.BoolVal(k.Value) == (op == token.EQL)
			return p.cmpOf(h2aCV{b.X, cv.fr}, pol == want, d+1)
		}
		if k, isK := p.strip(h2aCV{b.X, cv.fr}).v.(*ssa.Const); isK && k.Value != nil && k.Value.Kind() == constant.Bool {
			want := constant.BoolVal(k.Value) == (op == token.EQL)
			return p.cmpOf(h2aCV{b.Y, cv.fr}, pol == want, d+1)
		}
	}
	if !pol {
		op = h2aNeg[op]
	}
	return h2aCmp{op: op, x: p.strip(h2aCV{b.X, cv.fr}), y: p.strip(h2aCV{b.Y, cv.fr}), cond: cv.v}, true
}

func (p *h2aIPath) boolFactPol(cond h2aCV, pol bool) (h2aCV, bool) {
	return p.boolFact(h2aFact{cond: cond, taken: pol})
}

var h2aNeg = map[token.Token]token.Token{token.LSS: token.GEQ, token.GEQ: token.LSS, token.GTR: token.LEQ, token.LEQ: token.GTR, token.EQL: token.NEQ, token.NEQ: token.EQL}

// h2aOrder is an order fact lo <= hi (or lo < hi) drawn from a comparison.
type h2aOrder struct {
	lo, hi h2aCV
	strict bool
	at     int
	cond   ssa.Value
}

// orders turns the comparisons established before upto into order facts; an
// equality yields both directions.
func (p *h2aIPath) orders(upto int) []h2aOrder {
	var out []h2aOrder
	for _, c := range p.cmps(upto) {
		switch c.op {
		case token.LSS:
			out = append(out, h2aOrder{c.x, c.y, true, c.at, c.cond})
		case token.LEQ:
			out = append(out, h2aOrder{c.x, c.y, false, c.at, c.cond})
		case token.GTR:
			out = append(out, h2aOrder{c.y, c.x, true, c.at, c.cond})
		case token.GEQ:
			out = append(out, h2aOrder{c.y, c.x, false, c.at, c.cond})
		case token.EQL:
			out = append(out, h2aOrder{c.x, c.y, false, c.at, c.cond}, h2aOrder{c.y, c.x, false, c.at, c.cond})
		}
	}
	return out
}

// leq proves v <= bound on this path from identity and from the order facts
// established before event upto (transitively).
func (p *h2aIPath) leq(v h2aCV, isBound func(h2aCV) bool, upto int) bool {
	return p.leqD(v, isBound, p.orders(upto), 0)
}

func (p *h2aIPath) leqD(v h2aCV, isBound func(h2aCV) bool, os []h2aOrder, d int) bool {
	v = p.strip(v)
	if isBound(v) {
		return true
	}
	if d > 5 {
		return false
	}
	for _, o := range os {
		if p.same(o.lo, v) && !p.same(o.hi, v) && p.leqD(o.hi, isBound, os, d+1) {
			return true
		}
	}
	return false
}

// posTest: the comparison says something about the sign of a quantity:
// (v, true) for v > 0 / v >= 1 / v != 0, (v, false) for v <= 0 / v < 1 / v == 0.
func (p *h2aIPath) posTest(c h2aCmp) (h2aCV, bool, bool) {
	if k, ok := p.intOf(c.y); ok {
		switch {
		case c.op == token.GTR && k == 0, c.op == token.GEQ && k == 1, c.op == token.NEQ && k == 0:
			return c.x, true, true
		case c.op == token.LEQ && k == 0, c.op == token.LSS && k == 1, c.op == token.EQL && k == 0:
			return c.x, false, true
		}
	}
	if k, ok := p.intOf(c.x); ok {
		switch {
		case c.op == token.LSS && k == 0, c.op == token.LEQ && k == 1, c.op == token.NEQ && k == 0:
			return c.y, true, true
		case c.op == token.GEQ && k == 0, c.op == token.GTR && k == 1, c.op == token.EQL && k == 0:
			return c.y, false, true
		}
	}
	return h2aCV{}, false, false
}

// errOf describes the error value cv (see h2aErrOf) with its StreamID in context.
func (p *h2aIPath) errOf(cv h2aCV) (h2aErr, h2aCV, bool) {
	cv = p.stripKeepIface(cv)
	e, ok := h2aErrOf(cv.v)
	if !ok {
		return e, h2aCV{}, false
	}
	var sid h2aCV
	if e.streamID != nil {
		sid = p.strip(h2aCV{e.streamID, cv.fr})
	}
	return e, sid, true
}

// stripKeepIface follows path bindings only (no conversions): the MakeInterface
// that boxes an error literal must stay visible.
func (p *h2aIPath) stripKeepIface(cv h2aCV) h2aCV {
	for i := 0; i < 64; i++ {
		switch x := cv.v.(type) {
		case *ssa.ChangeInterface:
			cv.v = x.X
		case *ssa.Parameter, *ssa.Phi, *ssa.Call, *ssa.Extract:
			n := p.strip1(cv)
			if n == cv {
				return cv
			}
			cv = n
		default:
			return cv
		}
	}
	return cv
}

// strip1 performs one binding step (parameter, phi, spliced call) or returns cv.
func (p *h2aIPath) strip1(cv h2aCV) h2aCV {
	switch x := cv.v.(type) {
	case *ssa.Parameter:
		if cv.fr == nil || cv.fr.parent == nil || cv.fr.site == nil {
			return cv
		}
		for j, q := range cv.fr.fn.Params {
			if q == x {
				if args := cv.fr.site.Common().Args; j < len(args) {
					return h2aCV{args[j], cv.fr.parent}
				}
			}
		}
	case *ssa.Phi:
		if r, ok := p.phis[cv]; ok {
			return r
		}
	case *ssa.Call:
		if r, ok := p.rets[cv]; ok && len(r) == 1 {
			return r[0]
		}
	case *ssa.Extract:
		if r, ok := p.rets[h2aCV{x.Tuple, cv.fr}]; ok && x.Index < len(r) {
			return r[x.Index]
		}
	}
	return cv
}

// exitSig names how the path leaves the root (see h2aExitSig), looking through
// a spliced helper whose result is returned.
func (p *h2aIPath) exitSig(names map[int64]string) string {
	if _, ok := p.last.(*ssa.Return); !ok {
		return "panic"
	}
	rv := p.RootResults()
	if len(rv) == 0 {
		return "return"
	}
	v := p.stripKeepIface(rv[len(rv)-1])
	if h2aIsNil(v.v) {
		return "return-nil"
	}
	return h2aErrSig(v.v, names)
}

// localVal: the value held by the local variable (Alloc) a in activation fr just
// before event index before: the value of the last whole store on the path; not
// ok when a field of the local was written after that store.
func (p *h2aIPath) localVal(a *ssa.Alloc, fr *h2aFrame, before int) (h2aCV, bool) {
	if before > len(p.evs) {
		before = len(p.evs)
	}
	for i := before - 1; i >= 0; i-- {
		e := p.evs[i]
		if e.fr != fr {
			continue
		}
		st, ok := e.in.(*ssa.Store)
		if !ok {
			continue
		}
		if st.Addr == ssa.Value(a) {
			return p.strip(h2aCV{st.Val, fr}), true
		}
		if fa, isFA := st.Addr.(*ssa.FieldAddr); isFA && fa.X == ssa.Value(a) {
			return h2aCV{}, false
		}
	}
	return h2aCV{}, false
}

// valueOf follows cv through local variables: a load of a local (Alloc) is the
// value last stored into it on the path before the load.
func (p *h2aIPath) valueOf(cv h2aCV) h2aCV {
	for d := 0; d < 6; d++ {
		cv = p.strip(cv)
		u, ok := cv.v.(*ssa.UnOp)
		if !ok || u.Op != token.MUL {
			return cv
		}
		a, ok := u.X.(*ssa.Alloc)
		if !ok {
			return cv
		}
		at := p.evIndex(u, cv.fr)
		if at < 0 {
			return cv
		}
		val, ok := p.localVal(a, cv.fr, at)
		if !ok {
			return cv
		}
		cv = val
	}
	return cv
}

// holds: the local variable a of activation fr holds, just before event at, the
// value want (an instruction of activation want.fr), possibly handed down
// through other locals and parameters.
func (p *h2aIPath) holds(a *ssa.Alloc, fr *h2aFrame, at int, want h2aCV) bool {
	if sp := core.SpilledParam(a); sp != nil {
		v := p.valueOf(h2aCV{sp, fr})
		return v.v == want.v && v.fr == want.fr
	}
	val, ok := p.localVal(a, fr, at)
	if !ok {
		return false
	}
	val = p.valueOf(val)
	return val.v == want.v && val.fr == want.fr
}

// ---- values across call boundaries, without paths -----------------------------------

// h2aParamArgs: when v is a parameter of an unexported function that is only
// called statically (a private helper), the arguments it receives at all call
// sites; nil otherwise.
func h2aParamArgs(c *core.Ctx, v ssa.Value) []ssa.Value {
	par, ok := v.(*ssa.Parameter)
	if !ok {
		return nil
	}
	fn := par.Parent()
	if fn == nil || fn.Parent() != nil || fn.Object() == nil || fn.Object().Exported() || !h2aValueFree(c, fn) {
		return nil
	}
	idx := -1
	for i, q := range fn.Params {
		if q == par {
			idx = i
		}
	}
	var out []ssa.Value
	for _, s := range c.P.CallSites(fn) {
		args := s.Common().Args
		if idx < 0 || idx >= len(args) {
			return nil
		}
		out = append(out, args[idx])
	}
	return out
}

// h2aEvery: pred holds for v, or v is a parameter of a private helper and pred
// holds (recursively) for the argument at every call site.
func h2aEvery(c *core.Ctx, v ssa.Value, pred func(ssa.Value) bool, depth int) bool {
	if pred(v) {
		return true
	}
	if depth <= 0 {
		return false
	}
	args := h2aParamArgs(c, core.StripConv(v))
	if len(args) == 0 {
		return false
	}
	for _, a := range args {
		if !h2aEvery(c, a, pred, depth-1) {
			return false
		}
	}
	return true
}

// h2aSameShape: a and b, possibly values of two different functions, are the same
// expression over constants, globals, fields and parameters of the same position
// and type (the receiver of one method against the receiver of the other).
func h2aSameShape(a, b ssa.Value, d int) bool {
	norm := func(v ssa.Value) ssa.Value {
		v = core.StripConv(v)
		if u, ok := v.(*ssa.UnOp); ok && u.Op == token.MUL {
			if al, isAl := u.X.(*ssa.Alloc); isAl {
				if sp := core.SpilledParam(al); sp != nil {
					return sp
				}
			}
		}
		return v
	}
	a, b = norm(a), norm(b)
	if a == b {
		return true
	}
	if a == nil || b == nil || d > 10 {
		return false
	}
	switch x := a.(type) {
	case *ssa.Parameter:
		y, ok := b.(*ssa.Parameter)
		if !ok || !types.Identical(x.Type(), y.Type()) {
			return false
		}
		ix, iy := -1, -2
		for i, q := range x.Parent().Params {
			if q == x {
				ix = i
			}
		}
		for i, q := range y.Parent().Params {
			if q == y {
				iy = i
			}
		}
		return ix == iy
	case *ssa.Const:
		y, ok := b.(*ssa.Const)
		if !ok {
			return false
		}
		if x.Value == nil || y.Value == nil {
			return x.Value == nil && y.Value == nil
		}
		return x.Value.Kind() == y.Value.Kind() && constant.Compare(x.Value, token.EQL, y.Value)
	case *ssa.UnOp:
		y, ok := b.(*ssa.UnOp)
		return ok && x.Op == y.Op && h2aSameShape(x.X, y.X, d+1)
	case *ssa.FieldAddr:
		y, ok := b.(*ssa.FieldAddr)
		return ok && core.FieldObj(x.X, x.Field) != nil && core.FieldObj(x.X, x.Field) == core.FieldObj(y.X, y.Field) && h2aSameShape(x.X, y.X, d+1)
	case *ssa.Field:
		y, ok := b.(*ssa.Field)
		return ok && core.FieldObj(x.X, x.Field) != nil && core.FieldObj(x.X, x.Field) == core.FieldObj(y.X, y.Field) && h2aSameShape(x.X, y.X, d+1)
	case *ssa.BinOp:
		y, ok := b.(*ssa.BinOp)
		return ok && x.Op == y.Op && h2aSameShape(x.X, y.X, d+1) && h2aSameShape(x.Y, y.Y, d+1)
	case *ssa.Call:
		y, ok := b.(*ssa.Call)
		if !ok || x.Call.IsInvoke() || y.Call.IsInvoke() || x.Call.StaticCallee() == nil || x.Call.StaticCallee() != y.Call.StaticCallee() || len(x.Call.Args) != len(y.Call.Args) {
			return false
		}
		for i := range x.Call.Args {
			if !h2aSameShape(x.Call.Args[i], y.Call.Args[i], d+1) {
				return false
			}
		}
		return true
	}
	return false
}

// ---- enumeration --------------------------------------------------------------------

type h2aEnumState struct {
	inline  map[*ssa.Function]bool
	limit   int
	n       int
	full    bool // false once the limit was hit
	cur     h2aIPath
	visits  map[h2aBlockKey]int
	emit    func(*h2aIPath)
	maxDeep int
}

type h2aBlockKey struct {
	fr *h2aFrame
	b  *ssa.BasicBlock
}

// h2aEnum enumerates the feasible paths of root from its entry to a return of
// root or a panic, each block of an activation visited at most once (loops are
// cut like core.EnumPaths with maxVisit 1). Calls of the functions in inline
// (private helpers of root) are spliced in, up to depth 4 and never
// recursively. Branches whose condition is decided by constants flowing
// through phis, parameters and results on the path, or by an identical earlier
// branch, are pruned. Returns false when more than limit paths exist.
func h2aEnum(root *ssa.Function, inline map[*ssa.Function]bool, limit int, emit func(*h2aIPath)) bool {
	if root == nil || len(root.Blocks) == 0 {
		return true
	}
	s := &h2aEnumState{inline: inline, limit: limit, full: true, visits: map[h2aBlockKey]int{}, emit: emit, maxDeep: 4}
	rf := &h2aFrame{fn: root}
	s.cur = h2aIPath{root: rf, phis: map[h2aCV]h2aCV{}, rets: map[h2aCV][]h2aCV{}}
	s.block(rf, root.Blocks[0], nil, func(ret ssa.Instruction) { s.finish(ret) })
	return s.full
}

// h2aPathsOf collects the paths of fn with its region spliced in.
func h2aPathsOf(c *core.Ctx, fn *ssa.Function, limit int) ([]*h2aIPath, bool) {
	inl := map[*ssa.Function]bool{}
	for _, g := range h2aRegionOf(c, fn) {
		if g != fn && g.Parent() == nil {
			inl[g] = true
		}
	}
	var out []*h2aIPath
	ok := h2aEnum(fn, inl, limit, func(p *h2aIPath) { out = append(out, p) })
	return out, ok
}

func (s *h2aEnumState) finish(last ssa.Instruction) {
	s.n++
	if s.n > s.limit {
		s.full = false
		return
	}
	cp := &h2aIPath{root: s.cur.root, last: last,
		evs:   append([]h2aEv(nil), s.cur.evs...),
		facts: append([]h2aFact(nil), s.cur.facts...),
		phis:  make(map[h2aCV]h2aCV, len(s.cur.phis)),
		rets:  make(map[h2aCV][]h2aCV, len(s.cur.rets)),
	}
	for k, v := range s.cur.phis {
		cp.phis[k] = v
	}
	for k, v := range s.cur.rets {
		cp.rets[k] = v
	}
	s.emit(cp)
}

// block executes b of activation fr (entered from pred) and everything after
// it; onRet continues the caller when fr returns.
func (s *h2aEnumState) block(fr *h2aFrame, b, pred *ssa.BasicBlock, onRet func(ssa.Instruction)) {
	if !s.full {
		return
	}
	key := h2aBlockKey{fr, b}
	if s.visits[key] >= 1 {
		return
	}
	s.visits[key]++
	nEv, nFact := len(s.cur.evs), len(s.cur.facts)
	var setPhis []h2aCV
	defer func() {
		s.visits[key]--
		s.cur.evs = s.cur.evs[:nEv]
		s.cur.facts = s.cur.facts[:nFact]
		for _, k := range setPhis {
			delete(s.cur.phis, k)
		}
	}()
	if pred != nil {
		pi := -1
		for i, q := range b.Preds {
			if q == pred {
				pi = i
			}
		}
		// each block of an activation is entered once, so no phi refers to a phi
		// of its own block that is already rebound; the raw edge value is kept
		// (conversions such as the boxing of an error literal stay visible)
		type bind struct{ k, v h2aCV }
		var binds []bind
		for _, in := range b.Instrs {
			phi, ok := in.(*ssa.Phi)
			if !ok {
				break
			}
			if pi >= 0 && pi < len(phi.Edges) {
				binds = append(binds, bind{h2aCV{phi, fr}, h2aCV{phi.Edges[pi], fr}})
			}
		}
		for _, bd := range binds {
			s.cur.phis[bd.k] = bd.v
			setPhis = append(setPhis, bd.k)
		}
	}
	s.instrs(fr, b, 0, onRet)
}

// instrs executes b from instruction i on.
func (s *h2aEnumState) instrs(fr *h2aFrame, b *ssa.BasicBlock, i int, onRet func(ssa.Instruction)) {
	for ; i < len(b.Instrs); i++ {
		in := b.Instrs[i]
		if _, isPhi := in.(*ssa.Phi); isPhi {
			continue
		}
		s.cur.evs = append(s.cur.evs, h2aEv{in: in, fr: fr, nf: len(s.cur.facts)})
		switch x := in.(type) {
		case *ssa.Call:
			h := x.Call.StaticCallee()
			if h == nil || !s.inline[h] || len(h.Blocks) == 0 || fr.depth >= s.maxDeep || s.active(fr, h) {
				continue
			}
			nf := &h2aFrame{fn: h, site: x, parent: fr, depth: fr.depth + 1}
			s.cur.evs[len(s.cur.evs)-1].spliced = true
			next := i + 1
			callKey := h2aCV{x, fr}
			s.block(nf, h.Blocks[0], nil, func(ret ssa.Instruction) {
				r, _ := ret.(*ssa.Return)
				var vals []h2aCV
				if r != nil {
					for _, v := range core.RetVals(r) {
						vals = append(vals, h2aCV{v, nf})
					}
				}
				old, had := s.cur.rets[callKey]
				s.cur.rets[callKey] = vals
				nEv, nFact := len(s.cur.evs), len(s.cur.facts)
				s.instrs(fr, b, next, onRet)
				s.cur.evs = s.cur.evs[:nEv]
				s.cur.facts = s.cur.facts[:nFact]
				if had {
					s.cur.rets[callKey] = old
				} else {
					delete(s.cur.rets, callKey)
				}
			})
			return
		case *ssa.Return:
			onRet(in)
			return
		case *ssa.Panic:
			s.finish(in)
			return
		case *ssa.If:
			cond := h2aCV{x.Cond, fr}
			forced, known := s.decide(cond)
			at := len(s.cur.evs) - 1
			for k, succ := range b.Succs {
				taken := k == 0
				if known && forced != taken {
					continue
				}
				if b.Succs[0] == b.Succs[1] && k == 1 {
					continue
				}
				nFact := len(s.cur.facts)
				if b.Succs[0] != b.Succs[1] {
					s.cur.facts = append(s.cur.facts, h2aFact{cond, taken, at})
				}
				s.block(fr, succ, b, onRet)
				s.cur.facts = s.cur.facts[:nFact]
			}
			return
		case *ssa.Jump:
			s.block(fr, b.Succs[0], b, onRet)
			return
		}
	}
}

// active: h is already being executed on this path (no recursive splicing).
func (s *h2aEnumState) active(fr *h2aFrame, h *ssa.Function) bool {
	for f := fr; f != nil; f = f.parent {
		if f.fn == h {
			return true
		}
	}
	return false
}

// decide: the branch condition is fixed on this path: by constants, by an
// earlier branch on the very same value, or by an earlier comparison of the very
// same operands that implies or excludes it (`st != nil` taken, later `st == nil`).
// Operands count as the same only when no load or call separates them
// (samePure), so a field that is tested, written and tested again is not decided.
func (s *h2aEnumState) decide(cond h2aCV) (bool, bool) {
	if c := s.evalConst(cond, 0); c != nil && c.Kind() == constant.Bool {
		return constant.BoolVal(c), true
	}
	cv, pol := s.cur.boolFact(h2aFact{cond: cond, taken: true})
	for _, f := range s.cur.facts {
		fv, fpol := s.cur.boolFact(f)
		if s.cur.samePure(fv, cv) {
			return fpol == pol, true
		}
	}
	q, isCmp := s.cur.cmpOf(cond, true, 0)
	if !isCmp {
		return false, false
	}
	for _, f := range s.cur.facts {
		e, ok := s.cur.cmpOf(f.cond, f.taken, 0)
		if !ok {
			continue
		}
		op := e.op
		switch {
		case s.cur.samePure(e.x, q.x) && s.cur.samePure(e.y, q.y):
		case s.cur.samePure(e.x, q.y) && s.cur.samePure(e.y, q.x):
			op = h2aMirror[op]
		default:
			continue
		}
		if v, known := h2aImplies(op, q.op); known {
			return v, true
		}
	}
	return false, false
}

var h2aMirror = map[token.Token]token.Token{token.LSS: token.GTR, token.GTR: token.LSS, token.LEQ: token.GEQ, token.GEQ: token.LEQ, token.EQL: token.EQL, token.NEQ: token.NEQ}

// h2aImplies: given that `x have y` holds, is `x ask y` true, false or open?
func h2aImplies(have, ask token.Token) (val, known bool) {
	type pair struct{ have, ask token.Token }
	t := map[pair]bool{
		{token.LSS, token.LSS}: true, {token.LSS, token.LEQ}: true, {token.LSS, token.NEQ}: true, {token.LSS, token.GTR}: false, {token.LSS, token.GEQ}: false, {token.LSS, token.EQL}: false,
		{token.GTR, token.GTR}: true, {token.GTR, token.GEQ}: true, {token.GTR, token.NEQ}: true, {token.GTR, token.LSS}: false, {token.GTR, token.LEQ}: false, {token.GTR, token.EQL}: false,
		{token.EQL, token.EQL}: true, {token.EQL, token.LEQ}: true, {token.EQL, token.GEQ}: true, {token.EQL, token.NEQ}: false, {token.EQL, token.LSS}: false, {token.EQL, token.GTR}: false,
		{token.LEQ, token.LEQ}: true, {token.LEQ, token.GTR}: false,
		{token.GEQ, token.GEQ}: true, {token.GEQ, token.LSS}: false,
		{token.NEQ, token.NEQ}: true, {token.NEQ, token.EQL}: false,
	}
	v, ok := t[pair{have, ask}]
	return v, ok
}

// nilness: cv, resolved along the path, is the nil constant (true, true), a value
// that cannot be nil - a boxed value, an address, a fresh object - (false, true),
// or unknown.
func (s *h2aEnumState) nilness(cv h2aCV) (isNil, known bool) {
	cv = s.cur.stripKeepIface(cv)
	switch x := cv.v.(type) {
	case *ssa.Const:
		return x.Value == nil, x.Value == nil
	case *ssa.MakeInterface, *ssa.Alloc, *ssa.FieldAddr, *ssa.IndexAddr, *ssa.MakeMap, *ssa.MakeSlice, *ssa.MakeChan, *ssa.MakeClosure, *ssa.Function:
		return false, true
	}
	return false, false
}

func (s *h2aEnumState) evalConst(cv h2aCV, d int) constant.Value {
	if d > 8 {
		return nil
	}
	cv = s.cur.strip(cv)
	switch x := cv.v.(type) {
	case *ssa.Const:
		if x.Value != nil && (x.Value.Kind() == constant.Bool || x.Value.Kind() == constant.Int) {
			return x.Value
		}
	case *ssa.UnOp:
		if x.Op == token.NOT {
			if c := s.evalConst(h2aCV{x.X, cv.fr}, d+1); c != nil && c.Kind() == constant.Bool {
				return constant.MakeBool(!constant.BoolVal(c))
			}
		}
	case *ssa.BinOp:
		if x.Op == token.EQL || x.Op == token.NEQ {
			// comparison with nil of a value whose nilness is fixed on the path:
			// `if err := helper(); err != nil` after the helper returned nil / an error literal
			an, aKnown := s.nilness(h2aCV{x.X, cv.fr})
			bn, bKnown := s.nilness(h2aCV{x.Y, cv.fr})
			if aKnown && bKnown && (an || bn) {
				return constant.MakeBool((an == bn) == (x.Op == token.EQL))
			}
		}
		a, b := s.evalConst(h2aCV{x.X, cv.fr}, d+1), s.evalConst(h2aCV{x.Y, cv.fr}, d+1)
		if a != nil && b != nil && a.Kind() == b.Kind() {
			switch x.Op {
			case token.EQL, token.NEQ, token.LSS, token.LEQ, token.GTR, token.GEQ:
				if a.Kind() == constant.Bool {
					if x.Op == token.EQL {
						return constant.MakeBool(constant.BoolVal(a) == constant.BoolVal(b))
					}
					if x.Op == token.NEQ {
						return constant.MakeBool(constant.BoolVal(a) != constant.BoolVal(b))
					}
					return nil
				}
				return constant.MakeBool(constant.Compare(a, x.Op, b))
			}
		}
	}
	return nil
}

// ---- ownership of sites (census rules) ----------------------------------------------

// h2aReviewed is the snapshot of the functions of bfe_http2 that existed when
// the census tables were reviewed (closures belong to their function). A census
// rule attributes a site in one of these functions to that function, as before.
// A function that is not in the snapshot is new code; when it is an unexported
// helper with static call sites only, its statements are statements of its
// callers, and the site is attributed to the reviewed function(s) at the top of
// the call chain. So moving a reviewed statement into a helper that only the
// reviewed function calls (or inlining it back) does not change who owns it,
// while a new site in any pre-existing function is still reported under its name.
const h2aReviewed = "CloseConn ConfigureServer ConnectionError.Error ContinuationFrame.HeaderBlockFragment ContinuationFrame.HeadersEnded DataFrame.Data " +
	"DataFrame.StreamEnded DisableConnHeaderCheck EnableLargeConnRecvWindow ErrCode.String Flags.Has FrameHeader.Header FrameHeader.String " +
	"FrameHeader.checkValid FrameHeader.invalidate FrameHeader.writeDebug FrameType.String Framer.ErrorDetail Framer.ReadFrame Framer.SetMaxReadFrameSize " +
	"Framer.WriteContinuation Framer.WriteData Framer.WriteDataPadded Framer.WriteGoAway Framer.WriteHeaders Framer.WritePing Framer.WritePriority " +
	"Framer.WritePushPromise Framer.WriteRSTStream Framer.WriteRawFrame Framer.WriteSettings Framer.WriteSettingsAck Framer.WriteWindowUpdate " +
	"Framer.checkFrameOrder Framer.checkHeaderFieldLimit Framer.connError Framer.endWrite Framer.logWrite Framer.maxHeaderListSize " +
	"Framer.maxHeaderStringLen Framer.maxHeaderUriSize Framer.readMetaFrame Framer.startWrite Framer.writeByte Framer.writeBytes Framer.writeUint16 " +
	"Framer.writeUint32 GetHttp2State GoAwayFrame.DebugData HeadersFrame.HasPriority HeadersFrame.HeaderBlockFragment HeadersFrame.HeadersEnded " +
	"HeadersFrame.StreamEnded MetaHeadersFrame.PseudoFields MetaHeadersFrame.PseudoValue MetaHeadersFrame.RegularFields MetaHeadersFrame.RegularValue " +
	"MetaHeadersFrame.checkPseudos NewFramer NewProtoHandler PingFrame.IsAck PriorityParam.IsZero PushPromiseFrame.HeaderBlockFragment " +
	"PushPromiseFrame.HeadersEnded ReadFrameHeader RequestBody.Close RequestBody.Read ServeConnOpts.baseConfig ServeConnOpts.handler Server.ServeConn " +
	"Server.initialStreamRecvWindowSize Server.maxConcurrentStreams Server.maxQueuedControlFrames Server.maxReadFrameSize SetConnTimeout SetFlowLimiter " +
	"SetReadStreamTimeout SetServerRule SetWriteStreamTimeout Setting.String Setting.Valid SettingID.String SettingsFrame.ForeachSetting " +
	"SettingsFrame.IsAck SettingsFrame.Value StreamError.Error StreamError.writeFrame Transport.RoundTrip UnknownFrame.Payload acceptConn acceptRequest " +
	"adjustStreamPriority bodyAllowedForStatus bufferedWriter.Flush bufferedWriter.Write checkValidHTTP2Request chunkWriter.Write cloneHeader " +
	"closeFrameWriter.writeFrame closeWaiter.Close closeWaiter.Init closeWaiter.Wait connError.Error duplicatePseudoHeaderError.Error encKV encodeHeaders " +
	"endsStream errno flow.add flow.available flow.setConnFlow flow.take flushFrameWriter.writeFrame foreachHeaderElement frameWriteMsg.String " +
	"frameWriteMsg.isControl gate.Done goAwayFlowError.Error handlerPanicRST.writeFrame headerFieldNameError.Error headerFieldValueError.Error " +
	"httpCodeString httpError.Error httpError.Temporary httpError.Timeout init#1 init#2 init#3 isBadCipher isClosedConnError lowerHeader " +
	"maxHeaderListSizeError.Error maxHeaderUriSizeError.Error maxStreamsError.Error mustUint31 new400Handler newBufferedWriter parseContinuationFrame " +
	"parseDataFrame parseGoAwayFrame parseHeadersFrame parsePingFrame parsePriorityFrame parsePushPromise parseRSTStreamFrame parseSettingsFrame " +
	"parseUnknownFrame parseWindowUpdateFrame pseudoHeaderError.Error readByte readFrameHeader readUint32 responseWriter.CloseNotify responseWriter.Flush " +
	"responseWriter.Header responseWriter.Write responseWriter.WriteHeader responseWriter.WriteString responseWriter.handlerDone responseWriter.write " +
	"responseWriterState.Reset responseWriterState.declareTrailer responseWriterState.hasTrailers responseWriterState.promoteUndeclaredTrailers " +
	"responseWriterState.writeChunk responseWriterState.writeHeader serverConn.Close serverConn.CloseConn serverConn.Flush serverConn.Framer " +
	"serverConn.HeaderEncoder serverConn.canonicalHeader serverConn.closeAllStreamsOnConnClose serverConn.closeStream serverConn.getRequestBodyBuf " +
	"serverConn.goAway serverConn.handleTimeout serverConn.maxHeaderListSize serverConn.maxHeaderSize serverConn.maxHeaderUriSize " +
	"serverConn.newWriterAndRequest serverConn.noteBodyRead serverConn.noteBodyReadFromHandler serverConn.notePanic serverConn.processData " +
	"serverConn.processFrame serverConn.processFrameFromReader serverConn.processHeaders serverConn.processPing serverConn.processPriority " +
	"serverConn.processResetStream serverConn.processSetting serverConn.processSettingInitialWindowSize serverConn.processSettings " +
	"serverConn.processWindowUpdate serverConn.readFrames serverConn.readPreface serverConn.rejectConn serverConn.resetStream serverConn.runHandler " +
	"serverConn.scheduleFrameWrite serverConn.sendWindowUpdate serverConn.sendWindowUpdate32 serverConn.serve serverConn.setConnState " +
	"serverConn.setReadClientAgainTimeout serverConn.setTimeout serverConn.shutDownIn serverConn.startFrameWrite serverConn.state " +
	"serverConn.stopShutdownTimer serverConn.write100ContinueHeaders serverConn.writeDataFromHandler serverConn.writeFrame serverConn.writeFrameFromHandler " +
	"serverConn.writeFrames serverConn.writeHeaders serverConn.wroteFrame setStreamTimeout sorter.Keys sorter.Len sorter.Less sorter.SortStrings " +
	"sorter.Swap strSliceContains stream.copyTrailersToHandlerRequest stream.defaultStreamWindow stream.endStream stream.processTrailerHeaders " +
	"stream.stopTimeoutTimer streamState.String summarizeFrame terminalReadFrameError timeoutTag.String typeFrameParser validHeaderFieldName " +
	"validHeaderFieldValue validStreamID write100ContinueHeadersFrame.writeFrame writeData.String writeData.writeFrame writeGoAway.writeFrame " +
	"writePingAck.writeFrame writeQueue.empty writeQueue.firstIsNoCost writeQueue.head writeQueue.push writeQueue.shift writeQueue.streamID " +
	"writeResHeaders.writeFrame writeScheduler.add writeScheduler.empty writeScheduler.forgetStream writeScheduler.getEmptyQueue " +
	"writeScheduler.putEmptyQueue writeScheduler.streamQueue writeScheduler.streamWritableBytes writeScheduler.take writeScheduler.takeFrom " +
	"writeScheduler.zeroCanSend writeSettings.writeFrame writeSettingsAck.writeFrame writeWindowUpdate.String writeWindowUpdate.writeFrame"

var (
	h2aReviewedOnce sync.Once
	h2aReviewedSet  map[string]bool
)

func h2aIsReviewed(name string) bool {
	h2aReviewedOnce.Do(func() {
		h2aReviewedSet = map[string]bool{}
		for _, n := range strings.Fields(h2aReviewed) {
			h2aReviewedSet[n] = true
		}
	})
	return h2aReviewedSet[name]
}

// h2aGoStarted: the anonymous function fn is the target of a go statement.
func h2aGoStarted(fn *ssa.Function) bool {
	par := fn.Parent()
	if par == nil {
		return false
	}
	found := false
	core.Instrs(par, func(in ssa.Instruction) {
		g, ok := in.(*ssa.Go)
		if !ok {
			return
		}
		v := g.Call.Value
		if mc, isMC := v.(*ssa.MakeClosure); isMC {
			v = mc.Fn
		}
		if v == ssa.Value(fn) {
			found = true
		}
	})
	return found
}

// h2aOwners returns the reviewed functions a site in fn belongs to (short
// names). ok is false when fn is new code that cannot be attributed: exported,
// used as a value, started as a goroutine, never called, or too deep.
func h2aOwners(c *core.Ctx, fn *ssa.Function) (owners []string, ok bool) {
	seen := map[*ssa.Function]bool{}
	set := map[string]bool{}
	var climb func(g *ssa.Function, d int) bool
	climb = func(g *ssa.Function, d int) bool {
		for g.Parent() != nil {
			if h2aGoStarted(g) {
				return false
			}
			g = g.Parent()
		}
		name := h2aShort(g)
		if h2aIsReviewed(name) || core.FuncPkgRel(g) != h2aPkg {
			set[name] = true
			return true
		}
		if d >= 4 || seen[g] {
			return false
		}
		seen[g] = true
		if g.Object() == nil || g.Object().Exported() {
			return false
		}
		sites := c.P.CallSites(g)
		if len(sites) == 0 {
			return false
		}
		if !h2aValueFree(c, g) {
			return false
		}
		for _, s := range sites {
			if _, isGo := s.(*ssa.Go); isGo {
				return false
			}
			if !climb(s.Parent(), d+1) {
				return false
			}
		}
		return true
	}
	if !climb(fn, 0) {
		return nil, false
	}
	for n := range set {
		owners = append(owners, n)
	}
	sort.Strings(owners)
	return owners, true
}

// h2aValueFree: g is never used as a value (method value, function value) in its
// package, so its static call sites are all of its uses.
func h2aValueFree(c *core.Ctx, g *ssa.Function) bool {
	k := h2aCacheOf(c)
	k.mu.Lock()
	if v, ok := k.valueFree[g]; ok {
		k.mu.Unlock()
		return v
	}
	k.mu.Unlock()
	free := true
	for _, fn := range c.P.SrcFuncs(core.FuncPkgRel(g)) {
		core.Instrs(fn, func(in ssa.Instruction) {
			for _, op := range in.Operands(nil) {
				if op == nil || *op == nil {
					continue
				}
				if f, ok := (*op).(*ssa.Function); ok && f == g {
					if ci, isCall := in.(ssa.CallInstruction); isCall && ci.Common().Value == ssa.Value(g) {
						continue
					}
					free = false
				}
			}
		})
	}
	k.mu.Lock()
	k.valueFree[g] = free
	k.mu.Unlock()
	return free
}

// h2aOwnedBy: every reviewed function a site in fn belongs to is one of names;
// owner is the name the site is reported under (the reviewed owner when there
// is exactly one, else fn's own name).
func h2aOwnedBy(c *core.Ctx, fn *ssa.Function, names ...string) (owner string, ok bool) {
	owner = h2aShort(fn)
	for fn.Parent() != nil && !h2aGoStarted(fn) {
		fn = fn.Parent()
		owner = h2aShort(fn)
	}
	owners, attributed := h2aOwners(c, fn)
	if !attributed || len(owners) == 0 {
		return owner, false
	}
	if len(owners) == 1 {
		owner = owners[0]
	}
	for _, o := range owners {
		found := false
		for _, n := range names {
			if n == o {
				found = true
			}
		}
		if !found {
			return owner, false
		}
	}
	return owner, true
}
