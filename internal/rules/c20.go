package rules

import (
	"fmt"
	"go/constant"
	"go/token"
	"go/types"
	"sort"
	"strings"

	"golang.org/x/tools/go/ssa"

	"verif/internal/core"
)

// C20 — the hash set behaves as a bounded set.
func init() {
	Register(&Rule{
		ID: "C20", Section: "5 C20",
		Technique: "guard (control-dependence) rules on HashSet.Add/Remove/Exist, error discipline on IBytePool.Set, sibling-predicate agreement between nodePool.validateKey and the Set method of each byte pool newNodePool can install, normaliser agreement of the bucket function, path rules on the node free list (MustPass / ReachAvoiding), dominance of unlink-before-recycle",
		Meta: core.Meta{
			Level:       "other",
			Explanation: "Decides: (a) HashSet.Add reaches nodePool.add and the bucket store only when Full() is false, validateKey(key) returned nil and exist(bucket, key) is false; the bucket head is overwritten only with the node returned by a nodePool.add whose error is nil (a failed add leaves existing chains untouched); (b) the error of IBytePool.Set is not dropped by nodePool.add, and for every pool type newNodePool can install, the key-length relation accepted by validateKey implies the one enforced by that pool's Set (or Set's verdict is honoured); the size validateKey compares with is the pool's MaxElemSize, which reads the same field Set checks; (c) Add, Remove, Exist compute the bucket as hashFunc(key) % uint64(haSize), index ha only with it, and ha is allocated with haSize entries; (d) Remove/Exist validate the key first, Remove calls del only on a non-empty chain and stores del's result; (e) nodePool.add uses the free node only when getFreeNode succeeded, links it in front of head, increments length exactly on the success paths and returns that node, and puts the node back on the free list when it fails after taking it; getFreeNode tests freeNode == -1 before indexing; recyleNode saves the old free head before overwriting it, links the node in front and decrements length; in del every key match unlinks (reads the successor) before recycling the same node and recycles before returning; full() is length >= capacity; nodePool.exist walks from head along array[index].next, reports membership only under compare(key, index) == 0 and absence only at index == -1, and compare reads pool.Get of that node; (f) both pools' Set copy only after the index and length checks; BytePool.Set records the length; NewHashSet rejects elemNum/elemSize <= 0 before allocating. Refactoring-robust reading: nodePool.add and nodePool.del are read together with their private helpers (unexported, every call site inside them): the node taken from the free list is followed through helper parameters, guards at the single call site of a helper hold inside it, a call that always increments length / always stores the node it is given into freeNode counts as that step, and a failing add must not change length on any path (also not through a callee); the key-match branch of del is recognised in either polarity; nodePool.exist is decided per path with flag variables followed through the phis of the path (for-clause, while-loop with a found flag, single return): true only after a branch that established compare(key, index) == 0 on the walk variable, false only when the last test of the walk variable was index == -1 and it was not advanced since; named booleans and evaluated `a && b` conditions are read through their phi. Not covered: free-list and chain manipulation over histories (no aliasing/acyclicity proof), the hash function, equality of stored bytes (bytes.Compare on pool slices).",
			RuleText:    "obligations = each guarded call/store of Add/Remove/Exist, each IBytePool.Set call in hash_set, each installable pool type, each bucket computation, each free-list operation, each key match in del, each pool Set copy",
			Assumptions: []string{"nodes handed out by getFreeNode are not in any chain (free list and chains are disjoint: not decided)"},
		},
		Run: runC20,
		Mutants: []Mutant{
			{Name: "add-full-check-dropped", File: "bfe_util/hash_set/hash_set.go", Old: "	if set.Full() {\n		return fmt.Errorf(\"hashSet: Set is full\")\n	}\n", New: "", Expect: "add-guard|HashSet.Add:not-full"},
			{Name: "add-validate-dropped", File: "bfe_util/hash_set/hash_set.go", Old: "	// validate hashKey\n	err := set.np.validateKey(key)\n	if err != nil {\n		return err\n	}\n\n	// 1. calculate the hash num", New: "	var err error\n\n	// 1. calculate the hash num", Expect: "add-guard|HashSet.Add:key-validated"},
			{Name: "add-duplicate-check-dropped", File: "bfe_util/hash_set/hash_set.go", Old: "	if set.exist(hashNum, key) {\n		return nil\n	}\n", New: "", Expect: "add-guard|HashSet.Add:not-present"},
			{Name: "add-error-ignored-before-store", File: "bfe_util/hash_set/hash_set.go", Old: "	newHead, err := set.np.add(head, key)\n	if err != nil {\n		return err\n	}\n", New: "	newHead, err := set.np.add(head, key)\n", Expect: "add-store"},
			{Name: "remove-empty-chain-check-dropped", File: "bfe_util/hash_set/hash_set.go", Old: "	if head == -1 {\n		return nil\n	}\n", New: "", Expect: "remove-guard"},
			{Name: "exist-other-bucket", File: "bfe_util/hash_set/hash_set.go", Old: "	hashNum := set.hashFunc(key) % uint64(set.haSize)\n	return set.exist(hashNum, key)", New: "	hashNum := set.hashFunc(key) % uint64(len(set.ha)-1)\n	return set.exist(hashNum, key)", Expect: "bucket|HashSet.Exist"},
			{Name: "length-not-incremented", File: "bfe_util/hash_set/node_pool.go", Old: "	np.length += 1\n	return node, nil", New: "	return node, nil", Expect: "length|nodePool.add"},
			{Name: "recycle-overwrites-free-head-first", File: "bfe_util/hash_set/node_pool.go", Old: "	index := np.freeNode\n	np.freeNode = node\n	np.array[node].next = index", New: "	np.freeNode = node\n	index := np.freeNode\n	np.array[node].next = index", Expect: "free-list|nodePool.recyleNode"},
			{Name: "del-recycle-dropped-in-chain", File: "bfe_util/hash_set/node_pool.go", Old: "			np.array[pindex].next = np.array[index].next\n			np.recyleNode(index) //recyle the node\n", New: "			np.array[pindex].next = np.array[index].next\n", Expect: "del-match"},
			{Name: "del-recycle-before-unlink", File: "bfe_util/hash_set/node_pool.go", Old: "		newHead = np.array[head].next\n		np.recyleNode(head) //recyle the node\n", New: "		np.recyleNode(head) //recyle the node\n		newHead = np.array[head].next\n", Expect: "del-match"},
			{Name: "free-list-empty-check-weakened", File: "bfe_util/hash_set/node_pool.go", Old: "	if np.freeNode == -1 {\n		return -1, fmt.Errorf(\"NodePool: no more node to use\")", New: "	if np.freeNode < -1 {\n		return -1, fmt.Errorf(\"NodePool: no more node to use\")", Expect: "free-list|nodePool.getFreeNode"},
			{Name: "full-off-by-one", File: "bfe_util/hash_set/node_pool.go", Old: "	return np.length >= np.capacity", New: "	return np.length > np.capacity", Expect: "full-pred"},
			{Name: "fixed-pool-length-check-dropped", File: "bfe_util/byte_pool/fixed_byte_pool.go", Old: "	if len(key) != pool.elemSize {\n		return fmt.Errorf(\"length must be %d while %d\", pool.elemSize, len(key))\n	}\n", New: "", Expect: "pool-set-guard|FixedBytePool"},
			{Name: "exist-skips-head", File: "bfe_util/hash_set/node_pool.go", Old: "	for index := head; index != -1; index = np.array[index].next {\n		if np.compare(key, index) == 0 {\n			return true", New: "	for index := np.array[head].next; index != -1; index = np.array[index].next {\n		if np.compare(key, index) == 0 {\n			return true", Expect: "chain-walk|nodePool.exist:walk"},
			{Name: "silent-bucket-helper", File: "bfe_util/hash_set/hash_set.go", Old: "	hashNum := set.hashFunc(key) % uint64(set.haSize)\n	return set.exist(hashNum, key)\n}", New: "	hashNum := set.bucketOf(key)\n	return set.exist(hashNum, key)\n}\n\nfunc (set *HashSet) bucketOf(k []byte) uint64 {\n	return set.hashFunc(k) % uint64(set.haSize)\n}", Silent: true},
			{Name: "silent-add-giveback-helper", File: "bfe_util/hash_set/node_pool.go", Old: "		np.array[node].next = np.freeNode\n		np.freeNode = node\n		return -1, err\n	}\n	np.array[node].next = head\n\n	np.length += 1\n	return node, nil\n}\n", New: "		np.putBack(node)\n		return -1, err\n	}\n	np.length++\n	np.array[node].next = head\n\n	return node, nil\n}\n\nfunc (np *nodePool) putBack(unused int32) {\n	np.array[unused].next = np.freeNode\n	np.freeNode = unused\n}\n", Silent: true},
			{Name: "silent-del-walk-helper-inverted-match", File: "bfe_util/hash_set/node_pool.go", Old: "	// check at the list\n	pindex := head\n	for {\n		index := np.array[pindex].next\n		if index == -1 {\n			break\n		}\n		if np.compare(key, index) == 0 {\n			np.array[pindex].next = np.array[index].next\n			np.recyleNode(index) //recyle the node\n			return head\n		}\n		pindex = index\n	}\n	return head\n}\n", New: "	np.dropAfter(head, key)\n	return head\n}\n\nfunc (np *nodePool) dropAfter(first int32, k []byte) {\n	prev := first\n	cur := np.array[prev].next\n	for cur != -1 {\n		if np.compare(k, cur) != 0 {\n			prev = cur\n			cur = np.array[prev].next\n			continue\n		}\n		np.array[prev].next = np.array[cur].next\n		np.recyleNode(cur)\n		break\n	}\n}\n", Silent: true},
			{Name: "silent-exist-found-flag", File: "bfe_util/hash_set/node_pool.go", Old: "	for index := head; index != -1; index = np.array[index].next {\n		if np.compare(key, index) == 0 {\n			return true\n		}\n	}\n	return false\n", New: "	hit := false\n	cur := head\n	for cur != -1 && !hit {\n		if np.compare(key, cur) == 0 {\n			hit = true\n		} else {\n			cur = np.array[cur].next\n		}\n	}\n	return hit\n", Silent: true},
			{Name: "exist-flag-loop-stops-after-first-node", File: "bfe_util/hash_set/node_pool.go", Old: "	for index := head; index != -1; index = np.array[index].next {\n		if np.compare(key, index) == 0 {\n			return true\n		}\n	}\n	return false\n", New: "	hit := false\n	cur := head\n	for cur != -1 && !hit {\n		if np.compare(key, cur) == 0 {\n			hit = true\n		} else {\n			break\n		}\n	}\n	return hit\n", Expect: "chain-walk|nodePool.exist"},
			{Name: "set-error-dropped-again", File: "bfe_util/hash_set/node_pool.go", Old: "	if err := np.pool.Set(node, key); err != nil {\n		// the pool refused the key: give the node back, nothing was added\n		np.array[node].next = np.freeNode\n		np.freeNode = node\n		return -1, err\n	}\n	np.array[node].next = head\n", New: "	np.array[node].next = head\n	np.pool.Set(node, key)\n", Expect: "set-error|nodePool.add"},
			{Name: "failed-set-leaks-node", File: "bfe_util/hash_set/node_pool.go", Old: "		np.array[node].next = np.freeNode\n		np.freeNode = node\n		return -1, err\n", New: "		np.length += 1\n		return -1, err\n", Expect: "length|nodePool.add:failure"},
			{Name: "failed-set-keeps-node", File: "bfe_util/hash_set/node_pool.go", Old: "		np.array[node].next = np.freeNode\n		np.freeNode = node\n		return -1, err\n", New: "		return -1, err\n", Expect: "free-list|nodePool.add:failure"},
		},
	})
}

const c20pkg = "bfe_util/hash_set"
const c20pool = "bfe_util/byte_pool"

// c20LenOf: v is len(<param key of fn>).
func c20LenOf(v ssa.Value, key *ssa.Parameter) bool {
	call, ok := uuResolve(v).(*ssa.Call)
	if !ok {
		return false
	}
	b, ok := call.Call.Value.(*ssa.Builtin)
	return ok && b.Name() == "len" && len(call.Call.Args) == 1 && uuResolve(call.Call.Args[0]) == ssa.Value(key)
}

// c20LenRels: for a block, the relations `len(key) op other` established there.
func c20LenRels(b *ssa.BasicBlock, key *ssa.Parameter) []uuRel {
	var out []uuRel
	for _, r := range uuGuardRels(b) {
		switch {
		case c20LenOf(r.X, key):
			out = append(out, r)
		case c20LenOf(r.Y, key):
			out = append(out, uuRel{uuFlip(r.Op), r.Y, r.X})
		}
	}
	return out
}

// c20Implies: a length accepted under `len v size` is accepted under `len p size`.
func c20Implies(v, p token.Token) bool {
	if v == p {
		return true
	}
	switch v {
	case token.EQL:
		return p == token.LEQ || p == token.GEQ
	case token.LSS:
		return p == token.LEQ || p == token.NEQ
	case token.GTR:
		return p == token.GEQ || p == token.NEQ
	}
	return false
}

func runC20(c *core.Ctx) {
	defer uuShapeGuard(c)
	p := c.P
	if p.Pkg(c20pkg) == nil || p.Pkg(c20pool) == nil {
		c.Missing(c20pkg + " / " + c20pool)
		return
	}
	get := func(pkg, name string) *ssa.Function {
		fn := p.Func(pkg, name)
		if fn == nil {
			c.Missing(pkg + "." + name)
		} else {
			c.Analysed(core.FuncKey(fn))
		}
		return fn
	}
	fld := func(pkg, name string) *types.Var {
		v, _ := p.Obj(pkg, name).(*types.Var)
		if v == nil {
			c.Missing(pkg + "." + name)
		}
		return v
	}
	addFn, remFn, existFn, existLow := get(c20pkg, "HashSet.Add"), get(c20pkg, "HashSet.Remove"), get(c20pkg, "HashSet.Exist"), get(c20pkg, "HashSet.exist")
	newSet := get(c20pkg, "NewHashSet")
	npAdd, npDel, npRecycle, npGetFree := get(c20pkg, "nodePool.add"), get(c20pkg, "nodePool.del"), get(c20pkg, "nodePool.recyleNode"), get(c20pkg, "nodePool.getFreeNode")
	npFull, npValidate, npElemSize, newPool := get(c20pkg, "nodePool.full"), get(c20pkg, "nodePool.validateKey"), get(c20pkg, "nodePool.elemSize"), get(c20pkg, "newNodePool")
	haFld, haSizeFld, hashFld := fld(c20pkg, "HashSet.ha"), fld(c20pkg, "HashSet.haSize"), fld(c20pkg, "HashSet.hashFunc")
	arrFld, freeFld, lenFld, capFld, poolFld, nextFld := fld(c20pkg, "nodePool.array"), fld(c20pkg, "nodePool.freeNode"), fld(c20pkg, "nodePool.length"), fld(c20pkg, "nodePool.capacity"), fld(c20pkg, "nodePool.pool"), fld(c20pkg, "hashNode.next")
	for _, f := range []*ssa.Function{addFn, remFn, existFn, existLow, newSet, npAdd, npDel, npRecycle, npGetFree, npFull, npValidate, npElemSize, newPool} {
		if f == nil {
			return
		}
	}
	for _, f := range []*types.Var{haFld, haSizeFld, hashFld, arrFld, freeFld, lenFld, capFld, poolFld, nextFld} {
		if f == nil {
			return
		}
	}
	const (
		kFull     = c20pkg + ".HashSet.Full"
		kNpFull   = c20pkg + ".nodePool.full"
		kValidate = c20pkg + ".nodePool.validateKey"
		kExist    = c20pkg + ".HashSet.exist"
		kNpAdd    = c20pkg + ".nodePool.add"
		kNpDel    = c20pkg + ".nodePool.del"
		kRecycle  = c20pkg + ".nodePool.recyleNode"
		kGetFree  = c20pkg + ".nodePool.getFreeNode"
		kCompare  = c20pkg + ".nodePool.compare"
		kSet      = "invoke:" + c20pool + ".IBytePool.Set"
	)
	isField := func(v ssa.Value, f *types.Var) bool { g, _ := uuFieldLoad(v); return g == f }
	// element address of a slice held in field f: &(<load f>)[idx] ; returns idx
	elemOf := func(addr ssa.Value, f *types.Var) (ssa.Value, bool) {
		ia, ok := addr.(*ssa.IndexAddr)
		if !ok || !isField(ia.X, f) {
			return nil, false
		}
		return ia.Index, true
	}
	// &array[idx].next
	nextOf := func(addr ssa.Value) (ssa.Value, bool) {
		fa, ok := addr.(*ssa.FieldAddr)
		if !ok || core.FieldObj(fa.X, fa.Field) != nextFld {
			return nil, false
		}
		return elemOf(fa.X, arrFld)
	}

	// ---------------------------------------------------------------- (c) bucket
	// bucket value of fn: hashFunc(key) % uint64(haSize)
	// directBucket: the value hashFunc(<key>) % uint64(haSize) computed in fn, key being parameter #ki
	directBucket := func(fn *ssa.Function, ki int) ssa.Value {
		var out ssa.Value
		if ki >= len(fn.Params) {
			return nil
		}
		for _, in := range uuInstrs(fn) {
			b, ok := in.(*ssa.BinOp)
			if !ok || b.Op != token.REM {
				continue
			}
			call, ok := uuResolve(b.X).(*ssa.Call)
			if !ok || call.Call.IsInvoke() || !isField(call.Call.Value, hashFld) || len(call.Call.Args) != 1 || uuResolve(call.Call.Args[0]) != ssa.Value(fn.Params[ki]) {
				continue
			}
			if !isField(b.Y, haSizeFld) {
				continue
			}
			out = b
		}
		return out
	}
	// bucketOf also accepts a helper method of the package that returns that value for the key it is given
	bucketOf := func(fn *ssa.Function) ssa.Value {
		if v := directBucket(fn, 1); v != nil {
			return v
		}
		for _, call := range core.AllCalls(fn) {
			sc := call.Common().StaticCallee()
			v, isVal := call.(*ssa.Call)
			if sc == nil || !isVal || core.FuncPkgRel(sc) != c20pkg || sc.Blocks == nil {
				continue
			}
			for i, a := range call.Common().Args {
				if uuResolve(a) != ssa.Value(fn.Params[1]) {
					continue
				}
				if hb := directBucket(sc, i); hb != nil {
					rets := core.Returns(sc)
					if len(rets) == 1 && len(rets[0].Results) == 1 && uuResolve(rets[0].Results[0]) == hb {
						return v
					}
				}
			}
		}
		return nil
	}
	checkBucket := func(fn *ssa.Function) ssa.Value {
		short := strings.TrimPrefix(uuShort(fn), "hash_set.")
		bk := bucketOf(fn)
		if bk == nil {
			c.Check("bucket", short, fn.Pos(), false, short+" does not compute its bucket as hashFunc(key) % uint64(haSize): Add, Remove and Exist must agree on the bucket of a key, and the index must stay below len(ha) == haSize")
			return nil
		}
		ok, detail := true, ""
		for _, in := range uuInstrs(fn) {
			switch v := in.(type) {
			case *ssa.IndexAddr:
				if isField(v.X, haFld) && uuResolve(v.Index) != bk {
					ok, detail = false, "indexes ha with "+core.Render(v.Index)
				}
			case *ssa.Call:
				if core.CallIs(&v.Call, kExist) && uuResolve(v.Call.Args[1]) != bk {
					ok, detail = false, "calls exist with bucket "+core.Render(v.Call.Args[1])
				}
			}
		}
		c.Check("bucket", short, bk.Pos(), ok, short+" "+detail+" instead of hashFunc(key) % uint64(haSize)")
		return bk
	}
	addBk := checkBucket(addFn)
	remBk := checkBucket(remFn)
	checkBucket(existFn)
	{ // exist(hashNum, key): indexes ha with its parameter
		ok := false
		for _, in := range uuInstrs(existLow) {
			if ia, isIA := in.(*ssa.IndexAddr); isIA && isField(ia.X, haFld) {
				ok = uuResolve(ia.Index) == ssa.Value(existLow.Params[1])
			}
		}
		c.Check("bucket", "HashSet.exist", existLow.Pos(), ok, "HashSet.exist does not read ha[hashNum] of the bucket it was given")
	}
	{ // NewHashSet: ha has haSize entries
		ok := false
		for _, call := range uuCallsIn(newSet, c20pkg+".newHashArray") {
			a := uuResolve(call.Common().Args[0])
			if isField(a, haSizeFld) {
				ok = true
			}
			for _, in := range uuInstrs(newSet) {
				if st, isSt := in.(*ssa.Store); isSt {
					if f, _ := uuFieldAddr(st.Addr); f == haSizeFld && uuResolve(st.Val) == a {
						ok = true
					}
				}
			}
		}
		c.Check("bucket", "NewHashSet:ha-size", newSet.Pos(), ok, "NewHashSet does not allocate ha with haSize entries: hashFunc(key) % haSize could index past the table")
	}
	c.Min("bucket", 5)

	// ---------------------------------------------------------------- (a) Add
	notFull := func(b *ssa.BasicBlock) bool {
		return uuBoolGuard(b, false, func(v ssa.Value) bool { return uuStaticCall(v, kFull, kNpFull) != nil })
	}
	validated := func(fn *ssa.Function) func(b *ssa.BasicBlock) bool {
		return func(b *ssa.BasicBlock) bool {
			return uuHasRel(b, func(r uuRel) bool {
				return uuNilTest(r, true, func(v ssa.Value) bool {
					call := uuStaticCall(v, kValidate)
					return call != nil && uuResolve(call.Call.Args[1]) == ssa.Value(fn.Params[1])
				})
			})
		}
	}
	notPresent := func(b *ssa.BasicBlock) bool {
		return uuBoolGuard(b, false, func(v ssa.Value) bool {
			call := uuStaticCall(v, kExist)
			return call != nil && uuResolve(call.Call.Args[2]) == ssa.Value(addFn.Params[1]) && (addBk == nil || uuResolve(call.Call.Args[1]) == addBk)
		})
	}
	var addCall *ssa.Call
	for _, ci := range uuCallsIn(addFn, kNpAdd) {
		if v, ok := ci.(*ssa.Call); ok {
			addCall = v
		}
	}
	var sinks []ssa.Instruction
	if addCall != nil {
		sinks = append(sinks, addCall)
	}
	var haStores []*ssa.Store
	for _, in := range uuInstrs(addFn) {
		if st, ok := in.(*ssa.Store); ok {
			if _, isHa := elemOf(st.Addr, haFld); isHa {
				haStores = append(haStores, st)
				sinks = append(sinks, st)
			}
		}
	}
	if addCall == nil || len(haStores) == 0 {
		c.Check("add-guard", "HashSet.Add:shape", addFn.Pos(), false, "HashSet.Add has no nodePool.add call or never stores the new chain head into ha")
	} else {
		okF, okV, okP := true, true, true
		for _, s := range sinks {
			okF = okF && notFull(s.Block())
			okV = okV && validated(addFn)(s.Block())
			okP = okP && notPresent(s.Block())
		}
		c.Check("add-guard", "HashSet.Add:not-full", addCall.Pos(), okF, "HashSet.Add inserts although Full() was not tested to be false first: adding beyond capacity must fail before anything is touched")
		c.Check("add-guard", "HashSet.Add:key-validated", addCall.Pos(), okV, "HashSet.Add inserts although validateKey(key) was not tested to be nil first: keys of invalid length must be rejected")
		c.Check("add-guard", "HashSet.Add:not-present", addCall.Pos(), okP, "HashSet.Add inserts although exist(bucket, key) was not tested to be false: a duplicate node makes Len() differ from the set's size and survives one Remove")
		for i, st := range haStores {
			okErr := uuHasRel(st.Block(), func(r uuRel) bool {
				return uuNilTest(r, true, func(v ssa.Value) bool { return uuExtractOf(v, addCall, 1) })
			})
			okVal := uuExtractOf(st.Val, addCall, 0)
			idx, _ := elemOf(st.Addr, haFld)
			okHead := false
			if u, ok := uuResolve(addCall.Call.Args[1]).(*ssa.UnOp); ok && u.Op == token.MUL {
				if hidx, isHa := elemOf(u.X, haFld); isHa && uuResolve(hidx) == uuResolve(idx) {
					okHead = true
				}
			}
			var why []string
			if !okErr {
				why = append(why, "the store is not guarded by the error of nodePool.add being nil (a failed add returns -1, which would cut off the whole chain)")
			}
			if !okVal {
				why = append(why, "the stored head "+core.Render(st.Val)+" is not the node returned by nodePool.add")
			}
			if !okHead {
				why = append(why, "the old head passed to nodePool.add was not read from the same bucket")
			}
			c.Check("add-store", fmt.Sprintf("HashSet.Add:store#%d", i+1), st.Pos(), okErr && okVal && okHead, strings.Join(why, "; "))
		}
	}
	c.Min("add-guard", 3)
	c.Min("add-store", 1)

	// ---------------------------------------------------------------- (d) Remove / Exist
	{
		dels := uuCallsIn(remFn, kNpDel)
		if len(dels) != 1 {
			c.Check("remove-guard", "HashSet.Remove:del-call", remFn.Pos(), false, fmt.Sprintf("expected one nodePool.del call in Remove, found %d", len(dels)))
		} else {
			del := dels[0].(*ssa.Call)
			c.Check("remove-guard", "HashSet.Remove:key-validated", del.Pos(), validated(remFn)(del.Block()), "Remove walks the chain although validateKey(key) was not tested to be nil")
			head := uuResolve(del.Call.Args[1])
			okHeadSrc := false
			if u, ok := head.(*ssa.UnOp); ok && u.Op == token.MUL {
				if idx, isHa := elemOf(u.X, haFld); isHa && (remBk == nil || uuResolve(idx) == remBk) {
					okHeadSrc = true
				}
			}
			nonEmpty := uuHasRel(del.Block(), func(r uuRel) bool {
				if r.Op != token.NEQ {
					return false
				}
				k, isK := uuConstInt(r.Y)
				return isK && k == -1 && uuResolve(r.X) == head
			})
			c.Check("remove-guard", "HashSet.Remove:non-empty-chain", del.Pos(), nonEmpty && okHeadSrc, "nodePool.del is called although head != -1 was not established for the head read from ha[bucket]: del indexes array[head] unconditionally")
			stored := false
			for _, in := range uuInstrs(remFn) {
				if st, ok := in.(*ssa.Store); ok {
					if idx, isHa := elemOf(st.Addr, haFld); isHa {
						stored = uuResolve(st.Val) == ssa.Value(del) && (remBk == nil || uuResolve(idx) == remBk)
					}
				}
			}
			c.Check("remove-guard", "HashSet.Remove:store", del.Pos(), stored, "Remove does not store the head returned by nodePool.del back into ha[bucket]: removing the first node of a chain would leave the bucket pointing at a recycled node")
		}
		for _, call := range uuCallsIn(existFn, kExist) {
			c.Check("remove-guard", "HashSet.Exist:key-validated", call.Pos(), validated(existFn)(call.(ssa.Instruction).Block()), "Exist walks the chain although validateKey(key) was not tested to be nil")
		}
		c.Min("remove-guard", 4)
	}

	// ---------------------------------------------------------------- (b) Set error, validator/pool agreement
	setChecked := true
	nSet := 0
	for _, fn := range p.SrcFuncs(c20pkg) {
		ord := uuOrd{}
		for _, call := range uuCallsIn(fn, kSet) {
			nSet++
			v, isVal := call.(ssa.Value)
			used := isVal && uuErrUsed(v)
			if !used {
				setChecked = false
			}
			short := strings.TrimPrefix(uuShort(fn), "hash_set.")
			c.Check("set-error", ord.key(short, "Set"), call.Pos(), used, "the error returned by IBytePool.Set is dropped in "+short+": when the pool refuses the key (FixedBytePool: len(key) != elemSize) the node is linked and counted anyway and keeps the bytes of its previous occupant, so Add(short key) reports success, Exist(short key) is false and a removed key can become a member again")
		}
	}
	c.Min("set-error", 1)
	// validator relation
	var vRels []uuRel
	nNil := 0
	for _, r := range core.Returns(npValidate) {
		if len(r.Results) == 1 && uuIsNil(r.Results[0]) {
			nNil++
			vRels = append(vRels, c20LenRels(r.Block(), npValidate.Params[1])...)
		}
	}
	sizeFromPool := false
	if len(vRels) == 1 {
		if call := uuStaticCall(vRels[0].Y, c20pkg+".nodePool.elemSize"); call != nil {
			for _, r := range core.Returns(npElemSize) {
				if rc, ok := uuResolve(r.Results[0]).(*ssa.Call); ok && rc.Call.IsInvoke() && rc.Call.Method.Name() == "MaxElemSize" && isField(rc.Call.Value, poolFld) {
					sizeFromPool = true
				}
			}
		}
	}
	c.Check("validate-agrees", "validateKey:size-source", npValidate.Pos(), nNil == 1 && len(vRels) == 1 && sizeFromPool, "validateKey must accept a key under exactly one relation between len(key) and the pool's MaxElemSize() (via nodePool.elemSize); found "+fmt.Sprint(len(vRels))+" length relation(s) over "+fmt.Sprint(nNil)+" accepting return(s)")
	// installable pools
	nPools := 0
	for _, call := range core.AllCalls(newPool) {
		sc := call.Common().StaticCallee()
		if sc == nil || core.FuncPkgRel(sc) != c20pool || sc.Signature.Results().Len() != 1 {
			continue
		}
		pt := sc.Signature.Results().At(0).Type()
		name := c20TypeName(pt)
		setM := p.Func(c20pool, name+".Set")
		maxM := p.Func(c20pool, name+".MaxElemSize")
		if setM == nil || maxM == nil {
			c.Missing(c20pool + "." + name + ".Set/MaxElemSize")
			continue
		}
		nPools++
		c.Analysed(core.FuncKey(setM), core.FuncKey(maxM))
		// relation enforced by Set on its accepting return
		var pRels []uuRel
		for _, r := range core.Returns(setM) {
			if len(r.Results) == 1 && uuIsNil(r.Results[0]) {
				pRels = append(pRels, c20LenRels(r.Block(), setM.Params[2])...)
			}
		}
		var sizeFld *types.Var
		if len(pRels) == 1 {
			sizeFld, _ = uuFieldLoad(pRels[0].Y)
		}
		maxSame := false
		for _, r := range core.Returns(maxM) {
			if f, _ := uuFieldLoad(r.Results[0]); f != nil && f == sizeFld {
				maxSame = true
			}
		}
		c.Check("validate-agrees", name+":size-field", setM.Pos(), len(pRels) == 1 && maxSame, name+".Set must accept under one relation between len(key) and a size field, and MaxElemSize must return that same field (so that validateKey and the pool talk about the same size)")
		implied := len(pRels) == 1 && len(vRels) == 1 && nNil == 1 && c20Implies(vRels[0].Op, pRels[0].Op)
		vs, ps := "?", "?"
		if len(vRels) == 1 {
			vs = vRels[0].Op.String()
		}
		if len(pRels) == 1 {
			ps = pRels[0].Op.String()
		}
		c.Check("validate-agrees", name, setM.Pos(), implied || setChecked, fmt.Sprintf("validateKey accepts len(key) %s size but %s.Set only stores keys with len(key) %s size, and Set's refusal is not honoured by its caller: keys of a length the pool rejects are reported as added", vs, name, ps))

		// (f) copy only after the checks
		for _, in := range uuInstrs(setM) {
			call, ok := in.(*ssa.Call)
			if !ok {
				continue
			}
			if b, isB := call.Call.Value.(*ssa.Builtin); !isB || b.Name() != "copy" {
				continue
			}
			okLen := len(c20LenRels(call.Block(), setM.Params[2])) > 0
			okIdx := uuHasRel(call.Block(), func(r uuRel) bool {
				lt := r
				if lt.Op == token.GTR || lt.Op == token.GEQ {
					lt = uuRel{uuFlip(r.Op), r.Y, r.X}
				}
				return lt.Op == token.LSS && uuResolve(lt.X) == ssa.Value(setM.Params[1])
			})
			c.Check("pool-set-guard", name+":length-checked", call.Pos(), okLen, name+".Set copies the key without a dominating check of len(key) against the element size: a longer key overwrites the next element, a shorter one leaves stale bytes")
			c.Check("pool-set-guard", name+":index-checked", call.Pos(), okIdx, name+".Set copies without a dominating index < maxElemNum check")
		}
		if lf, ok := p.Obj(c20pool, name+".length").(*types.Var); ok {
			// variable-length pool: every accepting return records len(key)
			for i, r := range core.Returns(setM) {
				if len(r.Results) != 1 || !uuIsNil(r.Results[0]) {
					continue
				}
				isLenStore := func(in ssa.Instruction) bool {
					st, ok := in.(*ssa.Store)
					if !ok {
						return false
					}
					idx, isL := elemOf(st.Addr, lf)
					return isL && uuResolve(idx) == ssa.Value(setM.Params[1]) && c20LenOf(st.Val, setM.Params[2])
				}
				bad := core.ReachAvoiding(setM, nil, isLenStore, func(in ssa.Instruction) bool { return in == ssa.Instruction(r) })
				c.Check("pool-set-guard", fmt.Sprintf("%s:length-recorded#%d", name, i+1), r.Pos(), bad == nil, name+".Set can succeed without recording len(key) in length[index]: Get would return the previous occupant's length")
			}
		}
	}
	if nPools < 2 {
		c.Check("validate-agrees", "newNodePool:pools", newPool.Pos(), false, fmt.Sprintf("newNodePool installs %d byte pool constructor(s) of %s the rule can resolve; 2 were reviewed (NewFixedBytePool, NewBytePool)", nPools, c20pool))
	}
	c.Min("validate-agrees", 4)
	c.Min("pool-set-guard", 4)

	// ---------------------------------------------------------------- (e) node pool
	{ // add (with its private helpers: the region of nodePool.add)
		reg := uuRegionOf(p, npAdd)
		var gf *ssa.Call
		for _, ci := range uuCallsIn(npAdd, kGetFree) {
			if v, ok := ci.(*ssa.Call); ok {
				gf = v
			}
		}
		if gf == nil {
			c.Missing("nodePool.add: call of getFreeNode")
		} else {
			isNodeVal := func(v ssa.Value) bool { return uuExtractOf(v, gf, 0) }
			// the node taken from the free list, also when it reaches a private helper through a parameter
			isNode := func(v ssa.Value) bool { return reg.all(v, isNodeVal) }
			errNil := func(b *ssa.BasicBlock) bool {
				return uuHasRelCtx(p, b, func(r uuRel) bool {
					return uuNilTest(r, true, func(v ssa.Value) bool { return uuExtractOf(v, gf, 1) })
				})
			}
			okUse, linked := true, false
			for _, in := range reg.instrs() {
				switch v := in.(type) {
				case *ssa.IndexAddr:
					if isNode(v.Index) && !errNil(v.Block()) {
						okUse = false
					}
				case *ssa.Store:
					if idx, isNext := nextOf(v.Addr); isNext && isNode(idx) && reg.all(v.Val, func(o ssa.Value) bool { return o == ssa.Value(npAdd.Params[1]) }) {
						linked = true
					}
				case ssa.CallInstruction:
					if core.CallIs(v.Common(), kSet) {
						a := v.Common().Args
						if !errNil(in.Block()) {
							okUse = false
						}
						c.Check("node-link", "nodePool.add:set-args", in.Pos(), len(a) == 2 && isNode(a[0]) && reg.all(a[1], func(o ssa.Value) bool { return o == ssa.Value(npAdd.Params[2]) }), "nodePool.add must store the key being added into the slot of the node taken from the free list; it calls Set("+core.Render(a[0])+", "+core.Render(a[len(a)-1])+")")
					}
				}
			}
			c.Check("node-link", "nodePool.add:free-node-error", gf.Pos(), okUse, "nodePool.add uses the node returned by getFreeNode although its error was not tested to be nil (the node is -1 then)")
			c.Check("node-link", "nodePool.add:linked-before-head", gf.Pos(), linked, "nodePool.add does not link the new node in front of the old head (array[node].next = head): the rest of the chain would be lost")
			isLenStore := func(in ssa.Instruction) bool {
				st, ok := in.(*ssa.Store)
				if !ok {
					return false
				}
				f, _ := uuFieldAddr(st.Addr)
				return f == lenFld
			}
			isInc := func(in ssa.Instruction) bool {
				st, ok := in.(*ssa.Store)
				if !ok || !isLenStore(in) {
					return false
				}
				b, ok := st.Val.(*ssa.BinOp)
				if !ok || b.Op != token.ADD {
					return false
				}
				if isField(b.X, lenFld) {
					k, isK := uuConstInt(b.Y)
					return isK && k == 1
				}
				k, isK := uuConstInt(b.X)
				return isK && k == 1 && isField(b.Y, lenFld)
			}
			// an increment / a write of length may sit in a helper: a call that
			// always increments counts as the increment, a call that may write
			// length counts as a write
			incMust, incMay := core.LiftMust(isInc, 2), core.LiftMay(isInc, 2)
			lenMay := core.LiftMay(isLenStore, 2)
			// giving the node back: freeNode = node, here or in a callee that
			// always stores the parameter it receives the node in
			storesFree := func(in ssa.Instruction, isN func(ssa.Value) bool) bool {
				st, ok := in.(*ssa.Store)
				if !ok {
					return false
				}
				f, _ := uuFieldAddr(st.Addr)
				return f == freeFld && isN(st.Val)
			}
			giveBack := func(in ssa.Instruction) bool {
				if storesFree(in, isNode) {
					return true
				}
				ci, ok := in.(*ssa.Call)
				if !ok {
					return false
				}
				sc := ci.Call.StaticCallee()
				if sc == nil || sc.Blocks == nil || core.FuncPkgRel(sc) != c20pkg {
					return false
				}
				for i, a := range ci.Call.Args {
					if i >= len(sc.Params) || !isNode(a) {
						continue
					}
					prm := ssa.Value(sc.Params[i])
					if core.AlwaysPasses(sc, func(x ssa.Instruction) bool {
						return storesFree(x, func(v ssa.Value) bool { return uuResolve(v) == prm })
					}, 1) {
						return true
					}
				}
				return false
			}
			nOK := 0
			for i, r := range core.Returns(npAdd) {
				rv := core.RetVals(r)
				if len(rv) != 2 {
					continue
				}
				isR := func(x ssa.Instruction) bool { return x == ssa.Instruction(r) }
				if uuIsNil(rv[1]) {
					nOK++
					missing := core.ReachAvoiding(npAdd, nil, incMust, isR)
					twice := false
					for _, in := range uuInstrs(npAdd) {
						if incMay(in) && core.ReachAvoiding(npAdd, in, nil, incMay) != nil {
							twice = true
						}
					}
					c.Check("length", fmt.Sprintf("nodePool.add:success#%d", nOK), r.Pos(), missing == nil && !twice && isNode(rv[0]), "a successful nodePool.add must increment length exactly once and return the node it linked; otherwise Len()/Full() disagree with the number of members")
				} else {
					after := false
					for _, in := range uuInstrs(npAdd) {
						if lenMay(in) && core.ReachAvoiding(npAdd, in, nil, isR) != nil {
							after = true
						}
					}
					c.Check("length", fmt.Sprintf("nodePool.add:failure#%d", i+1), r.Pos(), !after, "nodePool.add returns an error on a path that changes length (nothing was added: Len() must stay what it was)")
					if errNil(r.Block()) {
						// the node was already taken from the free list: it must go back
						leak := core.ReachAvoiding(npAdd, gf, giveBack, isR)
						c.Check("free-list", fmt.Sprintf("nodePool.add:failure#%d:node-returned", i+1), r.Pos(), leak == nil, "nodePool.add fails after it took a node from the free list and does not put it back (freeNode = node): every failed Add would shrink the usable capacity")
					}
				}
			}
		}
	}
	{ // getFreeNode
		okGuard, n := true, 0
		popped := false
		for _, in := range uuInstrs(npGetFree) {
			switch v := in.(type) {
			case *ssa.IndexAddr:
				if isField(v.X, arrFld) {
					n++
					if !uuHasRel(v.Block(), func(r uuRel) bool {
						k, isK := uuConstInt(r.Y)
						return r.Op == token.NEQ && isK && k == -1 && isField(r.X, freeFld)
					}) {
						okGuard = false
					}
				}
			case *ssa.Store:
				if f, _ := uuFieldAddr(v.Addr); f == freeFld {
					if u, ok := uuResolve(v.Val).(*ssa.UnOp); ok && u.Op == token.MUL {
						if idx, isNext := nextOf(u.X); isNext && isField(idx, freeFld) {
							popped = true
						}
					}
				}
			}
		}
		c.Check("free-list", "nodePool.getFreeNode:empty-check", npGetFree.Pos(), okGuard && n > 0, "getFreeNode indexes array[freeNode] although freeNode != -1 was not established (an exhausted pool must return an error, not index -1)")
		c.Check("free-list", "nodePool.getFreeNode:pop", npGetFree.Pos(), popped, "getFreeNode does not advance freeNode to array[freeNode].next: the same node would be handed out twice")
	}
	{ // recyleNode
		var saved ssa.Instruction // load of freeNode whose value goes into array[node].next
		var freeStore, lenStore *ssa.Store
		linkOK := false
		for _, in := range uuInstrs(npRecycle) {
			st, ok := in.(*ssa.Store)
			if !ok {
				continue
			}
			if f, _ := uuFieldAddr(st.Addr); f == freeFld {
				if uuResolve(st.Val) == ssa.Value(npRecycle.Params[1]) {
					freeStore = st
				}
			} else if f == lenFld {
				if b, isB := st.Val.(*ssa.BinOp); isB && b.Op == token.SUB && isField(b.X, lenFld) {
					if k, isK := uuConstInt(b.Y); isK && k == 1 {
						lenStore = st
					}
				}
			}
			if idx, isNext := nextOf(st.Addr); isNext && uuResolve(idx) == ssa.Value(npRecycle.Params[1]) {
				if u, isU := uuResolve(st.Val).(*ssa.UnOp); isU && isField(u, freeFld) {
					saved = u
					linkOK = true
				}
			}
		}
		order := linkOK && freeStore != nil && core.Dominates(saved, freeStore)
		c.Check("free-list", "nodePool.recyleNode:push", npRecycle.Pos(), order, "recyleNode must read the old free head before overwriting freeNode with the recycled node and store that old head into array[node].next; otherwise the node points at itself and the rest of the free list is lost")
		c.Check("length", "nodePool.recyleNode:decrement", npRecycle.Pos(), lenStore != nil, "recyleNode does not decrement length by one: Len()/Full() drift from the number of members")
	}
	{ // del (and its private helpers): every key match unlinks, then recycles that node, then returns
		n := 0
		for _, g := range p.Region(npDel) {
			for _, ci := range uuCallsIn(g, kCompare) {
				cmp, ok := ci.(*ssa.Call)
				if !ok {
					continue
				}
				node := uuResolve(cmp.Call.Args[2])
				// the branch edges on which compare(...) == 0 holds
				var matches []*ssa.BasicBlock
				for _, blk := range g.Blocks {
					ifi, isIf := blk.Instrs[len(blk.Instrs)-1].(*ssa.If)
					if !isIf || len(blk.Succs) != 2 || blk.Succs[0] == blk.Succs[1] {
						continue
					}
					for i, pol := range []bool{true, false} {
						rel, isRel := uuRelOf(ifi.Cond, pol)
						if !isRel || rel.Op != token.EQL {
							continue
						}
						x, y := rel.X, rel.Y
						if uuConstIs(x, 0) {
							x, y = y, x
						}
						if uuConstIs(y, 0) && uuResolve(x) == ssa.Value(cmp) {
							matches = append(matches, blk.Succs[i])
						}
					}
				}
				n++
				key := fmt.Sprintf("nodePool.del:match#%d", n)
				if len(matches) == 0 {
					c.Check("del-match", key, cmp.Pos(), false, "the result of compare(key, node) in del is not branched on with == 0 / != 0")
					continue
				}
				isRecycle := func(in ssa.Instruction) bool {
					ci, ok := in.(ssa.CallInstruction)
					return ok && core.CallIs(ci.Common(), kRecycle) && uuResolve(ci.Common().Args[1]) == node
				}
				var why []string
				for _, match := range matches {
					first := match.Instrs[0]
					var bad ssa.Instruction
					if isRecycle(first) {
						bad = nil
					} else if core.IsReturn(first) {
						bad = first
					} else {
						bad = core.MustPass(g, first, isRecycle)
					}
					// unlink first: a read of array[node].next happens in the match region before the recycle
					unlinked := false
					for _, in := range uuInstrs(g) {
						u, isU := in.(*ssa.UnOp)
						if !isU || u.Op != token.MUL {
							continue
						}
						idx, isNext := nextOf(u.X)
						if !isNext || uuResolve(idx) != node || !(u.Block() == match || match.Dominates(u.Block())) {
							continue
						}
						for _, rc := range uuInstrs(g) {
							if isRecycle(rc) && core.Dominates(u, rc) {
								unlinked = true
							}
						}
					}
					if bad != nil {
						why = append(why, "a path from the match to a return does not recycle the matched node (the node leaks: length and the free list no longer add up to capacity)")
					}
					if !unlinked {
						why = append(why, "array[node].next is not read before recyleNode(node) overwrites it (the chain would continue into the free list)")
					}
				}
				c.Check("del-match", key, cmp.Pos(), len(why) == 0, strings.Join(why, "; "))
			}
		}
		c.Min("del-match", 2)
	}
	if npExist := get(c20pkg, "nodePool.exist"); npExist != nil { // membership walk
		// the walk variable: the phi web compare's node argument belongs to. It
		// is entered only with head and with array[<web>].next (for-clause,
		// while-style loop with a found flag, continue/else forms alike).
		var web map[ssa.Value]bool
		cmps := uuCallsIn(npExist, kCompare)
		okWalk, detail := false, "nodePool.exist does not compare the key with a loop variable that starts at head and follows array[index].next"
		isCmpOfWeb := func(v ssa.Value) bool {
			call := uuStaticCall(v, kCompare)
			return call != nil && web[call.Call.Args[2]] && uuResolve(call.Call.Args[1]) == ssa.Value(npExist.Params[2])
		}
		if len(cmps) == 1 {
			cmp := cmps[0].(*ssa.Call)
			if _, isPhi := cmp.Call.Args[2].(*ssa.Phi); isPhi && uuResolve(cmp.Call.Args[1]) == ssa.Value(npExist.Params[2]) {
				var leaves []ssa.Value
				web, leaves = uuPhiWeb(cmp.Call.Args[2])
				fromHead, follows, other := false, false, false
				for _, e := range leaves {
					switch {
					case uuResolve(e) == ssa.Value(npExist.Params[1]):
						fromHead = true
					default:
						if u, isU := uuResolve(e).(*ssa.UnOp); isU && u.Op == token.MUL {
							if i, isNext := nextOf(u.X); isNext && web[i] {
								follows = true
								continue
							}
						}
						other = true
					}
				}
				okWalk = fromHead && follows && !other
			}
		}
		c.Check("chain-walk", "nodePool.exist:walk", npExist.Pos(), okWalk, detail+": members of the bucket's chain would be skipped")
		// what is returned, per path (a result carried in a flag variable is
		// followed through the phis of the path): true only after a branch that
		// established compare(key, index) == 0, false only when the last test of
		// the walk variable was index == -1 and the variable was not advanced since
		retIdx := uuRetIndex(npExist)
		type existVerdict struct {
			found, absent, computed bool
			foundBad, absentBad     string
		}
		verdicts := map[*ssa.Return]*existVerdict{}
		complete := core.EnumPaths(npExist, 2, 4000, func(pt *core.Path) {
			r, isRet := pt.Last().(*ssa.Return)
			if !isRet || len(r.Results) != 1 {
				return
			}
			v := verdicts[r]
			if v == nil {
				v = &existVerdict{}
				verdicts[r] = v
			}
			val := uuEvalConst(r.Results[0], uuPathConsts(pt))
			rels := uuPathRels(pt)
			switch {
			case val == nil:
				// a comparison returned directly (`return compare(...) == 0`) holds where true is returned
				if rel, isRel := uuRelOf(r.Results[0], true); isRel && web != nil && rel.Op == token.EQL && uuConstIs(rel.Y, 0) && isCmpOfWeb(rel.X) {
					v.found = true
				} else {
					v.computed = true
				}
			case val.Kind() == constant.Bool && constant.BoolVal(val):
				v.found = true
				ok := false
				for _, pr := range rels {
					rel := pr.rel
					if uuConstIs(rel.X, 0) {
						rel = uuRel{uuFlip(rel.Op), rel.Y, rel.X}
					}
					if web != nil && rel.Op == token.EQL && uuConstIs(rel.Y, 0) && isCmpOfWeb(rel.X) {
						ok = true
					}
				}
				if !ok && v.foundBad == "" {
					v.foundBad = "[" + c22pathSig(pt) + "]"
				}
			default:
				v.absent = true
				// the last test of the walk variable against -1 on the path
				last, lastAt := token.ILLEGAL, -1
				for _, pr := range rels {
					rel := pr.rel
					if uuConstIs(rel.X, -1) {
						rel = uuRel{uuFlip(rel.Op), rel.Y, rel.X}
					}
					if web != nil && uuConstIs(rel.Y, -1) && web[rel.X] {
						last, lastAt = rel.Op, pr.at
					}
				}
				ok := last == token.EQL
				for i := lastAt + 1; ok && i < len(pt.Blocks); i++ {
					for _, in := range pt.Blocks[i].Instrs {
						if phi, isPhi := in.(*ssa.Phi); isPhi && web[phi] {
							ok = false // the variable was advanced after the test
						}
					}
				}
				if !ok && v.absentBad == "" {
					v.absentBad = "[" + c22pathSig(pt) + "]"
				}
			}
		})
		c.Check("chain-walk", "nodePool.exist:paths", npExist.Pos(), complete, "path enumeration of nodePool.exist is incomplete: undecided")
		var rets []*ssa.Return
		for r := range verdicts {
			rets = append(rets, r)
		}
		sort.Slice(rets, func(i, j int) bool { return retIdx[rets[i]] < retIdx[rets[j]] })
		for _, r := range rets {
			v, n := verdicts[r], retIdx[r]
			if v.computed {
				c.Check("chain-walk", fmt.Sprintf("nodePool.exist:return#%d", n), r.Pos(), false, "nodePool.exist returns a computed boolean the rule cannot classify")
			}
			if v.found {
				c.Check("chain-walk", fmt.Sprintf("nodePool.exist:found#%d", n), r.Pos(), v.foundBad == "", "nodePool.exist reports membership although compare(key, index) == 0 is not established on the path "+v.foundBad)
			}
			if v.absent {
				c.Check("chain-walk", fmt.Sprintf("nodePool.exist:absent#%d", n), r.Pos(), v.absentBad == "", "nodePool.exist reports absence although the end of the chain (index == -1) was not reached on the path "+v.absentBad)
			}
		}
		// HashSet.exist walks the chain of the bucket it was given, with the key it was given
		okArgs := false
		for _, call := range uuCallsIn(existLow, c20pkg+".nodePool.exist") {
			a := call.Common().Args
			if u, isU := uuResolve(a[1]).(*ssa.UnOp); isU && u.Op == token.MUL {
				if i, isHa := elemOf(u.X, haFld); isHa && uuResolve(i) == ssa.Value(existLow.Params[1]) && uuResolve(a[2]) == ssa.Value(existLow.Params[2]) {
					okArgs = true
				}
			}
		}
		c.Check("chain-walk", "HashSet.exist:args", existLow.Pos(), okArgs, "HashSet.exist must call nodePool.exist(ha[hashNum], key)")
		// compare / element read the slot of the node they are asked about
		if cf, ef := get(c20pkg, "nodePool.compare"), get(c20pkg, "nodePool.element"); cf != nil && ef != nil {
			okC := false
			for _, call := range uuCallsIn(cf, "bytes.Compare") {
				a := call.Common().Args
				el := uuStaticCall(a[1], c20pkg+".nodePool.element")
				key := a[0]
				if el == nil {
					el = uuStaticCall(a[0], c20pkg+".nodePool.element")
					key = a[1]
				}
				okC = el != nil && uuResolve(el.Call.Args[1]) == ssa.Value(cf.Params[2]) && uuResolve(key) == ssa.Value(cf.Params[1])
			}
			okE := false
			for _, r := range core.Returns(ef) {
				if call, isCall := uuResolve(r.Results[0]).(*ssa.Call); isCall && call.Call.IsInvoke() && call.Call.Method.Name() == "Get" && isField(call.Call.Value, poolFld) && uuResolve(call.Call.Args[0]) == ssa.Value(ef.Params[1]) {
					okE = true
				}
			}
			c.Check("chain-walk", "nodePool.compare:slot", cf.Pos(), okC && okE, "nodePool.compare(key, i) must compare key with pool.Get(i), the bytes stored for node i")
		}
		c.Min("chain-walk", 5)
	}
	{ // full
		ok := false
		for _, r := range core.Returns(npFull) {
			if rel, isRel := uuRelOf(r.Results[0], true); isRel {
				if rel.Op == token.LEQ || rel.Op == token.LSS {
					rel = uuRel{uuFlip(rel.Op), rel.Y, rel.X}
				}
				ok = (rel.Op == token.GEQ || rel.Op == token.EQL) && isField(rel.X, lenFld) && isField(rel.Y, capFld)
			}
		}
		c.Check("full-pred", "nodePool.full", npFull.Pos(), ok, "nodePool.full must be length >= capacity; with a weaker test Add proceeds on a full pool")
	}
	{ // constructor guard
		ok := false
		for _, call := range uuCallsIn(newSet, c20pkg+".newNodePool") {
			b := call.(ssa.Instruction).Block()
			pos := func(prm *ssa.Parameter) bool {
				return uuAllEdgesRel(b, func(r uuRel) bool {
					k, isK := uuConstInt(r.Y)
					return isK && ((r.Op == token.GTR && k == 0) || (r.Op == token.GEQ && k == 1)) && uuResolve(r.X) == ssa.Value(prm)
				})
			}
			ok = pos(newSet.Params[0]) && pos(newSet.Params[1])
		}
		c.Check("ctor-guard", "NewHashSet", newSet.Pos(), ok, "NewHashSet allocates the node pool although elemNum > 0 && elemSize > 0 was not established (newNodePool indexes array[elemNum-1])")
	}
	c.Min("node-link", 3)
	c.Min("length", 3)
	c.Min("free-list", 3)
	_ = nSet
}

// c20TypeName: "*pkg.T" -> "T".
func c20TypeName(t types.Type) string {
	if p, ok := t.(*types.Pointer); ok {
		t = p.Elem()
	}
	if n, ok := t.(*types.Named); ok {
		return n.Obj().Name()
	}
	return t.String()
}
