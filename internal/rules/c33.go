package rules

import (
	"fmt"
	"go/token"
	"sort"
	"strings"

	"golang.org/x/tools/go/ssa"

	"verif/internal/core"
)

// C33 — HTTP/2 inbound flow control is enforced and replenished.
func init() {
	Register(&Rule{
		ID: "C33", Section: "5 C33",
		Technique: "control-dependence and dominance of window tests before flow.take, feasible-path enumeration of processData/sendWindowUpdate32 for refund pairing, value-flow (announced increment = credited increment), who-may-touch census of the receive windows",
		Meta: core.Meta{
			Level:       "other",
			Explanation: "Decides, on every path of the inspected bfe_http2 functions: (a) every flow.take on a receive window (serverConn.inflow, stream.inflow) takes the frame's FrameHeader.Length (padding included), is control-dependent on `Length <= available()` of the same window (non-strict, tested immediately before, nothing mutating the window in between), the excess branch only returns an error whose Code is ErrCodeFlowControl for the frame's stream id and touches no window, and the body pipe is written only after the take; (b) refund pairing in processData by path enumeration: a connection-level take is refunded by the same amount before every return; after a stream-level take an accepted frame refunds Length-len(data) on both levels whenever that is positive and skips the body write only for empty data; a frame rejected after the take refunds the connection level; (c) noteBodyRead refunds the connection level unconditionally and the stream level with the same n unless the stream state is HalfClosedRemote/Closed; RequestBody.Read reports exactly the n > 0 returned by the pipe, through bodyReadCh, to noteBodyRead; (d) sendWindowUpdate passes the stream through, splits into increments <= 2^31-1 and loses nothing; sendWindowUpdate32 announces in the WINDOW_UPDATE frame the same n it credits with flow.add, on the matching level (st == nil <=> serverConn.inflow), on every path except n == 0; every stream-level refund is dominated by a connection-level refund of the same amount; (e) who may take/credit/alias the receive windows and who may call the refund functions (census); (f) advertised = accounted: the SETTINGS_INITIAL_WINDOW_SIZE value sent, stream.isw, the initial credit of stream.inflow and the body buffer size come from the same source, stream.inflow is linked to serverConn.inflow, the connection window starts at the RFC default; (g) the arithmetic shape of flow.available/take/add; (h) closing a stream refunds at connection level the octets still buffered in its body pipe; (i) refunded once: any refund (connection or stream level, any function of the package) whose amount is what a body pipe reports about itself (its buffered length; results of Pipe methods that move no data) is followed on every path, or preceded, by Pipe.Release or Pipe.BreakWithError of the same pipe, so that the octets refunded in advance can no longer be read and refunded again by noteBodyRead (CloseWithError alone keeps them readable); this rests on Pipe.Release dropping the buffer on every path, Pipe.BreakWithError recording breakErr, and Pipe.Read taking bytes from the buffer only under breakErr == nil && b != nil, which are checked in bfe_util/pipe. Not covered: a handler read that races with closeStream between the length query and the release of the pipe; sums over long histories (the rules are per-path necessary conditions); that the handler eventually reads; the 2^31-1 ceiling of window sizes configured by the operator; DATA discarded after GOAWAY or refused for exceeding Content-Length is not debited at all (no window change, so no stall).",
			RuleText:    "obligations = each receive-window take (amount, guard, freshness, excess branch), each (take kind, exit) class of processData paths, each refund call of noteBodyRead, each sendWindowUpdate32 call of sendWindowUpdate, each path class of sendWindowUpdate32, each stream-level refund in the package, each site touching a receive window, each caller of the refund functions, each initial-window source, the flow methods, closeStream, each refund computed from a body pipe's state, the disabling methods of pipe.Pipe",
			Assumptions: []string{"flow values are reached only through the four fields serverConn.inflow/flow and stream.inflow/flow (any other access path is itself reported)", "pipe.Pipe.Write either stores all of data or returns an error (checked at run time by processData's `wrote != len(data)` panic)"},
		},
		Run: runC33,
		Mutants: []Mutant{
			{Name: "stream-guard-strict", File: "bfe_http2/server.go", Old: "		if st.inflow.available() < int32(f.Length) {\n			errMsg := fmt.Sprintf(", New: "		if st.inflow.available() <= int32(f.Length) {\n			errMsg := fmt.Sprintf(", Expect: "take-guard|processData:stream-in"},
			{Name: "conn-guard-dropped", File: "bfe_http2/server.go", Old: "		if sc.inflow.available() < int32(f.Length) {\n			errMsg := \"connection-level flow control window error\"\n			return StreamError{id, ErrCodeFlowControl, errMsg}\n		}\n", New: "", Expect: "take-guard|processData:conn-in"},
			{Name: "excess-wrong-code", File: "bfe_http2/server.go", Old: "			errMsg := fmt.Sprintf(\"sender tried to send more than stream available window size %d\", st.inflow.available())\n			return StreamError{id, ErrCodeFlowControl, errMsg}", New: "			errMsg := fmt.Sprintf(\"sender tried to send more than stream available window size %d\", st.inflow.available())\n			return StreamError{id, ErrCodeProtocol, errMsg}", Expect: "excess-error|processData:stream-in"},
			{Name: "take-payload-only", File: "bfe_http2/server.go", Old: "		st.inflow.take(int32(f.Length))\n", New: "		st.inflow.take(int32(len(data)))\n", Expect: "take-amount|processData:stream-in"},
			{Name: "pad-conn-refund-dropped", File: "bfe_http2/server.go", Old: "			sc.sendWindowUpdate(nil, pad) // conn-level\n			sc.sendWindowUpdate(st, pad)  // stream-level", New: "			sc.sendWindowUpdate(st, pad)  // stream-level", Expect: "refund-path|processData:stream-in-take->return-nil"},
			{Name: "pad-threshold", File: "bfe_http2/server.go", Old: "pad := int(f.Length) - int(len(data)); pad > 0 {", New: "pad := int(f.Length) - int(len(data)); pad > 1 {", Expect: "refund-path|processData:stream-in-take->return-nil"},
			{Name: "closed-stream-refund-dropped", File: "bfe_http2/server.go", Old: "		sc.inflow.take(int32(f.Length))\n		sc.sendWindowUpdate(nil, int(f.Length))\n", New: "		sc.inflow.take(int32(f.Length))\n", Expect: "refund-path|processData:conn-in-take"},
			{Name: "write-before-take", File: "bfe_http2/server.go", Old: "		st.inflow.take(int32(f.Length))\n\n		if len(data) > 0 {\n			wrote, err := st.body.Write(data)\n			if err != nil {\n", New: "		if len(data) > 0 {\n			wrote, err := st.body.Write(data)\n			st.inflow.take(int32(f.Length))\n			if err != nil {\n", Expect: "accept-after-take"},
			{Name: "bodyread-conn-conditional", File: "bfe_http2/server.go", Old: "	sc.sendWindowUpdate(nil, n) // conn-level\n	if st.state != stateHalfClosedRemote && st.state != stateClosed {", New: "	if st.state != stateHalfClosedRemote && st.state != stateClosed {\n		sc.sendWindowUpdate(nil, n) // conn-level", Expect: "body-read-refund|noteBodyRead:conn-level"},
			{Name: "bodyread-stream-skipped-when-open", File: "bfe_http2/server.go", Old: "	if st.state != stateHalfClosedRemote && st.state != stateClosed {\n		// Don't send this WINDOW_UPDATE", New: "	if st.state != stateHalfClosedRemote && st.state != stateOpen {\n		// Don't send this WINDOW_UPDATE", Expect: "body-read-refund|noteBodyRead:stream-level"},
			{Name: "announce-differs-from-credit", File: "bfe_http2/server.go", Old: "		ok = st.inflow.add(n)\n	}", New: "		ok = st.inflow.add(n - 1)\n	}", Expect: "announce-account|sendWindowUpdate32:credit"},
			{Name: "credit-wrong-level", File: "bfe_http2/server.go", Old: "	if st == nil {\n		ok = sc.inflow.add(n)\n	} else {\n		ok = st.inflow.add(n)\n	}", New: "	if st != nil {\n		ok = sc.inflow.add(n)\n	} else {\n		ok = st.inflow.add(n)\n	}", Expect: "announce-account|sendWindowUpdate32:credit"},
			{Name: "split-remainder-lost", File: "bfe_http2/server.go", Old: "		sc.sendWindowUpdate32(st, maxUint31)\n		n -= maxUint31\n	}", New: "		sc.sendWindowUpdate32(st, maxUint31)\n		n -= maxUint31 + 1\n	}", Expect: "update-split|sendWindowUpdate"},
			{Name: "read-notify-off-by-one", File: "bfe_http2/server.go", Old: "	if n > 0 {\n		b.conn.noteBodyReadFromHandler(b.stream, n)", New: "	if n > 1 {\n		b.conn.noteBodyReadFromHandler(b.stream, n)", Expect: "read-notify|RequestBody.Read"},
			{Name: "advertised-window-differs", File: "bfe_http2/server.go", Old: "	st.inflow.add(int32(st.isw))\n", New: "	st.inflow.add(sc.initialWindowSize)\n", Expect: "window-init|processHeaders:stream-credit"},
			{Name: "inflow-unlinked", File: "bfe_http2/server.go", Old: "	st.inflow.conn = &sc.inflow // link to conn-level counter\n", New: "", Expect: "window-init|processHeaders:stream-linked"},
			{Name: "foreign-credit", File: "bfe_http2/server.go", Old: "	sc.curOpenStreams--\n	if sc.curOpenStreams == 0 {", New: "	st.inflow.add(1)\n	sc.curOpenStreams--\n	if sc.curOpenStreams == 0 {", Expect: "inflow-census|serverConn.closeStream:add:stream-in"},
			{Name: "take-no-conn-debit", File: "bfe_http2/flow.go", Old: "	if f.conn != nil {\n		f.conn.n -= n\n	}", New: "	if f.conn != nil && n > 1 {\n		f.conn.n -= n\n	}", Expect: "flow-arith|take:conn-window-guard"},
			{Name: "one-byte-frames-unaccounted", File: "bfe_http2/server.go", Old: "	if f.Length > 0 {\n		// Check whether the client has flow control quota.", New: "	if f.Length > 1 {\n		// Check whether the client has flow control quota.", Expect: "refund-path|processData:no-take->return-nil"},
			{Name: "pad-conn-refund-twice", File: "bfe_http2/server.go", Old: "			sc.sendWindowUpdate(nil, pad) // conn-level\n", New: "			sc.sendWindowUpdate(nil, pad) // conn-level\n			sc.sendWindowUpdate(nil, pad)\n", Expect: "refund-path|processData:stream-in-take->return-nil"},
			{Name: "close-refund-leaves-pipe-readable", File: "bfe_http2/server.go", Old: "	if p := st.body; p != nil {\n		p.CloseWithError(err)\n", New: "	if p := st.body; p != nil {\n		sc.sendWindowUpdate(nil, len(p.Done()))\n		p.CloseWithError(err)\n", Expect: "refund-once|serverConn.closeStream"},
			{Name: "overflow-refund-leaves-pipe-readable", File: "bfe_http2/server.go", Old: "		st.body.CloseWithError(err)\n		// RFC 7540, sec 8.1.2.6", New: "		sc.sendWindowUpdate(nil, len(st.body.Done()))\n		st.body.CloseWithError(err)\n		// RFC 7540, sec 8.1.2.6", Expect: "refund-once|serverConn.processData"},
			{Name: "release-keeps-buffer", File: "bfe_util/pipe/pipe.go", Old: "	pool.Put(p.b)\n	p.b = nil\n", New: "	pool.Put(p.b)\n", Expect: "pipe-disable|Pipe.Release"},
			{Name: "silent-close-refund-then-break", Silent: true, File: "bfe_http2/server.go", Old: "	if p := st.body; p != nil {\n		p.CloseWithError(err)\n", New: "	if p := st.body; p != nil {\n		sc.sendWindowUpdate(nil, len(p.Done()))\n		p.BreakWithError(err)\n		p.CloseWithError(err)\n"},
			{Name: "silent-rename-and-log", Silent: true, File: "bfe_http2/server.go", Old: "		st.inflow.take(int32(f.Length))\n\n		if len(data) > 0 {", New: "		frameLen := int32(f.Length)\n		st.inflow.take(frameLen)\n		log.Logger.Debug(\"http2: took %d\", frameLen)\n\n		if len(data) > 0 {"},
			{Name: "silent-reorder-zero-and-negative-tests", Silent: true, File: "bfe_http2/server.go", Old: "	if n == 0 {\n		return\n	}\n	if n < 0 {\n		panic(\"negative update\")\n	}", New: "	if n < 0 {\n		panic(\"negative update\")\n	}\n	if n == 0 {\n		return\n	}"},
		},
	})
}

// h2aRoot walks an access path down to its root value.
func h2aRoot(v ssa.Value) ssa.Value {
	for i := 0; i < 20; i++ {
		switch x := v.(type) {
		case *ssa.FieldAddr:
			v = x.X
		case *ssa.Field:
			v = x.X
		case *ssa.IndexAddr:
			v = x.X
		case *ssa.UnOp:
			if x.Op != token.MUL {
				return v
			}
			v = x.X
		case *ssa.Alloc:
			if p := core.SpilledParam(x); p != nil {
				return p
			}
			return v
		case *ssa.ChangeType:
			v = x.X
		case *ssa.Convert:
			v = x.X
		default:
			return v
		}
	}
	return v
}

// h2aPosTest: cond is a test "v > 0" in one of its spellings. sense tells
// whether cond being true means v > 0.
func h2aPosTest(cond ssa.Value) (v ssa.Value, sense bool, ok bool) {
	b, isBin := cond.(*ssa.BinOp)
	if !isBin {
		return nil, false, false
	}
	if ky, isK := h2aInt(b.Y); isK {
		switch {
		case b.Op == token.GTR && ky == 0, b.Op == token.GEQ && ky == 1, b.Op == token.NEQ && ky == 0:
			return b.X, true, true
		case b.Op == token.LEQ && ky == 0, b.Op == token.LSS && ky == 1, b.Op == token.EQL && ky == 0:
			return b.X, false, true
		}
	}
	if kx, isK := h2aInt(b.X); isK {
		switch {
		case b.Op == token.LSS && kx == 0, b.Op == token.LEQ && kx == 1, b.Op == token.NEQ && kx == 0:
			return b.Y, true, true
		case b.Op == token.GEQ && kx == 0, b.Op == token.GTR && kx == 1, b.Op == token.EQL && kx == 0:
			return b.Y, false, true
		}
	}
	return nil, false, false
}

func h2aPathSig(p *core.Path) string {
	var parts []string
	seen := map[string]bool{}
	p.Edges(func(cond ssa.Value, taken bool) {
		s := core.Render(cond)
		if !taken {
			s = "!" + s
		}
		if !seen[s] {
			seen[s] = true
			parts = append(parts, s)
		}
	})
	return strings.Join(parts, " & ")
}

// h2aRefund is a call of serverConn.sendWindowUpdate / sendWindowUpdate32.
type h2aRefund struct {
	call   ssa.CallInstruction
	conn   bool      // st argument is the nil constant
	st     ssa.Value // st argument otherwise
	amount ssa.Value
}

func h2aRefundOf(in ssa.Instruction) (h2aRefund, bool) {
	cc := h2aCallOf(in, "serverConn.sendWindowUpdate", "serverConn.sendWindowUpdate32")
	if cc == nil || len(cc.Args) != 3 {
		return h2aRefund{}, false
	}
	return h2aRefund{in.(ssa.CallInstruction), h2aIsNil(cc.Args[1]), cc.Args[1], cc.Args[2]}, true
}

func runC33(c *core.Ctx) {
	if c.P.Pkg(h2aPkg) == nil {
		c.Missing(h2aPkg)
		return
	}
	fl := h2aLoadFlows(c)
	if fl == nil {
		return
	}
	h2aCheckFlowType(c, "flow-arith", fl)
	c.Min("flow-arith", 12)

	// (e) census of the receive windows
	h2aFlowCensus(c, "inflow-census", fl, map[string]bool{"conn-in": true, "stream-in": true}, map[string][]string{
		"take:conn-in":       {"serverConn.processData"},
		"take:stream-in":     {"serverConn.processData"},
		"add:conn-in":        {"Server.ServeConn", "serverConn.sendWindowUpdate32"},
		"add:stream-in":      {"serverConn.processHeaders", "serverConn.sendWindowUpdate32"},
		"raw-conn:stream-in": {"serverConn.processHeaders"},
	})
	c.Min("inflow-census", 7)
	h2aCallerCensus(c, "refund-callers", "serverConn.sendWindowUpdate", "serverConn.processData", "serverConn.noteBodyRead", "serverConn.serve", "serverConn.closeStream")
	h2aCallerCensus(c, "refund-callers", "serverConn.sendWindowUpdate32", "serverConn.sendWindowUpdate")
	h2aCallerCensus(c, "refund-callers", "serverConn.noteBodyRead", "serverConn.serve")
	h2aCallerCensus(c, "refund-callers", "serverConn.noteBodyReadFromHandler", "RequestBody.Read")
	c.Min("refund-callers", 6)

	c33ProcessData(c, fl)
	c33NoteBodyRead(c, fl)
	c33SendWindowUpdate(c)
	c33SendWindowUpdate32(c, fl)
	c33StreamNeedsConn(c)
	c33ReadNotify(c)
	c33WindowInit(c, fl)
	c33CloseRefund(c)
	c33RefundOnce(c)
}

func c33ProcessData(c *core.Ctx, fl *h2aFlows) {
	pd := h2aFn(c, "serverConn.processData")
	lengthFld := h2aField(c, "FrameHeader.Length")
	sidFld := h2aField(c, "FrameHeader.StreamID")
	flowCode, okCode := h2aConst(c, "ErrCodeFlowControl")
	streamsFld := h2aField(c, "serverConn.streams")
	if pd == nil || lengthFld == nil || sidFld == nil || streamsFld == nil || !okCode || len(pd.Params) != 2 {
		return
	}
	frame := pd.Params[1]
	names := h2aErrCodeNames(c)
	isMutator := h2aIsCall("flow.take", "flow.add", "serverConn.sendWindowUpdate", "serverConn.sendWindowUpdate32")
	isBodyWrite := h2aIsCall("bfe_util/pipe.Pipe.Write")

	type takeSite struct {
		in     ssa.Instruction
		kind   string
		base   ssa.Value
		amount ssa.Value
	}
	var takes []takeSite
	core.Instrs(pd, func(in ssa.Instruction) {
		if cc := h2aCallOf(in, "flow.take"); cc != nil && len(cc.Args) == 2 {
			if k, base := fl.kind(cc.Args[0]); k == "conn-in" || k == "stream-in" {
				takes = append(takes, takeSite{in, k, base, cc.Args[1]})
			}
		}
	})
	ord := h2aOrd{}
	for _, t := range takes {
		key := ord.key("processData:" + t.kind)
		cc := t.in.(ssa.CallInstruction).Common()
		// amount = the frame's Length (payload + padding)
		base, isLen := h2aFieldLoad(t.amount, lengthFld)
		c.Check("take-amount", key, t.in.Pos(), isLen && h2aRoot(base) == ssa.Value(frame),
			"the "+t.kind+" window is debited by "+core.Render(t.amount)+"; flow control counts the whole DATA frame payload, padding included (FrameHeader.Length of the frame)")
		// guard: amount <= available(same window), non-strict
		var guard *core.Guard
		var avail *ssa.Call
		strictOnly := false
		for _, g := range core.GuardsAt(t.in.Block()) {
			g := g
			r, isRel := h2aRelOf(g)
			if !isRel || !h2aSame(r.lo, t.amount) {
				continue
			}
			call, isCall := core.StripConv(r.hi).(*ssa.Call)
			if !isCall || !core.CallIs(&call.Call, h2aPkg+".flow.available") || !h2aSame(call.Call.Args[0], cc.Args[0]) {
				continue
			}
			if r.strict {
				strictOnly = true
				continue
			}
			guard, avail = &g, call
		}
		detail := "flow.take on the " + t.kind + " window is not control-dependent on `" + core.Render(t.amount) + " <= available()` of the same window; guards here: " + strings.Join(core.GuardStrs(t.in.Block()), " && ")
		if guard == nil && strictOnly {
			detail = "the window test before flow.take on the " + t.kind + " window is strict (rejects a frame that exactly fills the advertised window); required: accept when Length <= available()"
		}
		c.Check("take-guard", key, t.in.Pos(), guard != nil, detail)
		if guard == nil {
			continue
		}
		// nothing changes the window between the test and the take
		stale := core.ReachAvoiding(pd, avail, func(x ssa.Instruction) bool { return x == t.in }, func(x ssa.Instruction) bool { return x != t.in && isMutator(x) })
		c.Check("take-guard-fresh", key, t.in.Pos(), stale == nil, "between the available() test and flow.take the window can be changed by another take/add/sendWindowUpdate: the test is stale")
		// excess branch
		var ifb *ssa.BasicBlock
		for _, b := range pd.Blocks {
			if ifi, ok := b.Instrs[len(b.Instrs)-1].(*ssa.If); ok && ifi.Cond == guard.Cond && b.Dominates(t.in.Block()) {
				ifb = b
			}
		}
		if ifb == nil {
			c.Check("excess-error", key, t.in.Pos(), false, "cannot locate the branch of the window test")
			continue
		}
		ex := ifb.Succs[0]
		if guard.Pol {
			ex = ifb.Succs[1]
		}
		region := h2aRegion(ex)
		okEx, why := !region[t.in.Block()], ""
		if !okEx {
			why = "the excess branch falls through to the take"
		}
		exits := 0
		for b := range region {
			for _, in := range b.Instrs {
				if isMutator(in) || isBodyWrite(in) {
					okEx, why = false, "the excess branch changes a window or delivers data ("+core.Render(in.(ssa.Value))+")"
				}
			}
			switch x := b.Instrs[len(b.Instrs)-1].(type) {
			case *ssa.Panic:
				okEx, why = false, "the excess branch panics"
			case *ssa.Return:
				exits++
				rv := core.RetVals(x)
				e, isErr := h2aErrOf(rv[len(rv)-1])
				switch {
				case !isErr || !e.hasCode || e.code != flowCode:
					okEx, why = false, "the excess branch returns "+h2aExitSig(x, names)+", required an error with Code ErrCodeFlowControl"
				case e.streamID != nil:
					if _, isSid := h2aFieldLoad(e.streamID, sidFld); !isSid || !strings.HasPrefix(core.Render(e.streamID), frame.Name()+".") && !strings.Contains(core.Render(e.streamID), "("+frame.Name()+".") {
						okEx, why = false, "the FLOW_CONTROL_ERROR is raised for stream "+core.Render(e.streamID)+", not for the frame's StreamID"
					}
				}
			}
		}
		if exits == 0 && okEx {
			okEx, why = false, "the excess branch never returns"
		}
		c.Check("excess-error", key, ex.Instrs[0].Pos(), okEx, "window exceeded on the "+t.kind+" window: "+why)
	}
	c.Min("take-amount", 2)
	c.Min("take-guard", 2)
	c.Min("excess-error", 2)
	// data is delivered only after it has been debited from the stream window
	ordW := h2aOrd{}
	core.Instrs(pd, func(in ssa.Instruction) {
		if !isBodyWrite(in) {
			return
		}
		ok := false
		for _, t := range takes {
			if t.kind == "stream-in" && core.Dominates(t.in, in) {
				ok = true
			}
		}
		c.Check("accept-after-take", ordW.key("processData:body-write"), in.Pos(), ok, "DATA is written to the request body pipe on a path that has not debited the stream's receive window first (the window test would then come after the data was accepted)")
	})
	c.Min("accept-after-take", 1)

	// (b) refund pairing by path enumeration
	type agg struct {
		ok     bool
		detail string
		pos    token.Pos
		n      int
	}
	res := map[string]*agg{}
	note := func(key string, pos token.Pos, ok bool, detail string) {
		a := res[key]
		if a == nil {
			a = &agg{ok: true, pos: pos}
			res[key] = a
		}
		a.n++
		if !ok && a.ok {
			a.ok, a.detail, a.pos = false, detail, pos
		}
	}
	isPad := func(v ssa.Value, amount ssa.Value) (data ssa.Value, ok bool) {
		b, isBin := core.StripConv(v).(*ssa.BinOp)
		if !isBin || b.Op != token.SUB || !h2aSame(b.X, amount) {
			return nil, false
		}
		return h2aLenOf(b.Y)
	}
	npaths := 0
	complete := core.EnumPaths(pd, 1, 50000, func(p *core.Path) {
		npaths++
		last := p.Last()
		if _, isPanic := last.(*ssa.Panic); isPanic {
			return
		}
		exit := h2aExitSig(last, names)
		// events in order
		var cur *takeSite
		var refunds []h2aRefund
		wrote := false
		var wroteData ssa.Value
		flush := func() {
			if cur == nil {
				return
			}
			key := "processData:" + cur.kind + "-take->" + exit
			sig := h2aPathSig(p)
			nConn := func(match func(ssa.Value) bool) int {
				n := 0
				for _, r := range refunds {
					if r.conn && match(r.amount) {
						n++
					}
				}
				return n
			}
			nStream := func(match func(ssa.Value) bool) int {
				n := 0
				for _, r := range refunds {
					if !r.conn && h2aSame(r.st, cur.base) && match(r.amount) {
						n++
					}
				}
				return n
			}
			full := func(v ssa.Value) bool { return h2aSame(v, cur.amount) }
			switch {
			case cur.kind == "conn-in":
				note(key, cur.in.Pos(), nConn(full) == 1, fmt.Sprintf("after debiting the connection window for a frame that is not delivered to a stream, a path returns with %d calls of sendWindowUpdate(nil, <same amount>) instead of exactly one: the octets are never given back (or given back twice); path: %s", nConn(full), sig))
			case exit == "return-nil":
				// accepted frame: refund of Length - len(data)
				pos, neg := false, false
				var padV ssa.Value
				emptyData := false
				p.Edges(func(cond ssa.Value, taken bool) {
					v, sense, ok := h2aPosTest(cond)
					if !ok {
						return
					}
					if _, isP := isPad(v, cur.amount); isP {
						if taken == sense {
							pos, padV = true, v
						} else {
							neg = true
						}
					}
					if _, isLen := h2aLenOf(v); isLen && taken != sense {
						emptyData = true
					}
				})
				padMatch := func(v ssa.Value) bool {
					if padV != nil {
						return h2aSame(v, padV)
					}
					_, ok := isPad(v, cur.amount)
					return ok
				}
				switch {
				case pos || !neg:
					what := "the path established padding > 0"
					if !pos {
						what = "the path did not test the padding"
					}
					note(key, cur.in.Pos(), nConn(padMatch) == 1, fmt.Sprintf("%s but refunds Length-len(data) %d times on the connection level (exactly once required); path: %s", what, nConn(padMatch), sig))
					note(key, cur.in.Pos(), nStream(padMatch) == 1, fmt.Sprintf("%s but refunds Length-len(data) %d times on the stream level (exactly once required); path: %s", what, nStream(padMatch), sig))
				default:
					anyPad := func(v ssa.Value) bool { _, ok := isPad(v, cur.amount); return ok }
					note(key, cur.in.Pos(), nConn(anyPad) == 0 && nStream(anyPad) == 0, "the path established padding <= 0 and still refunds Length-len(data); path: "+sig)
				}
				if wrote {
					// the refunded padding is computed against the data actually written
					okD := true
					for _, r := range refunds {
						if d, isP := isPad(r.amount, cur.amount); isP && !h2aSame(d, wroteData) {
							okD = false
						}
					}
					note(key, cur.in.Pos(), okD, "the padding refund is computed from a different byte slice than the one written to the body pipe; path: "+sig)
				} else {
					note(key, cur.in.Pos(), emptyData, "an accepted frame is debited but its data is not written to the body pipe although the path did not establish len(data) == 0: octets that are neither delivered nor refunded; path: "+sig)
				}
			default:
				// frame rejected after the debit: the stream is reset, its connection-level share must come back
				partial := func(v ssa.Value) bool {
					if full(v) {
						return true
					}
					b, isBin := core.StripConv(v).(*ssa.BinOp)
					return isBin && b.Op == token.SUB && h2aSame(b.X, cur.amount)
				}
				note(key, cur.in.Pos(), nConn(partial) == 1, "after debiting stream and connection windows by Length the frame is rejected ("+exit+") without sendWindowUpdate(nil, Length[-wrote]): the connection window shrinks for good although no handler will ever read these octets; path: "+sig)
			}
		}
		anyTake, routed := false, false
		p.Instrs(func(in ssa.Instruction) bool {
			for i := range takes {
				if takes[i].in == in {
					flush()
					cur, refunds, wrote = &takes[i], nil, false
					anyTake = true
				}
			}
			if lk, ok := in.(*ssa.Lookup); ok {
				if _, isStreams := h2aFieldLoad(lk.X, streamsFld); isStreams {
					routed = true
				}
			}
			if r, ok := h2aRefundOf(in); ok {
				refunds = append(refunds, r)
			}
			if cc := h2aCallOf(in, "bfe_util/pipe.Pipe.Write"); cc != nil && len(cc.Args) == 2 {
				wrote, wroteData = true, cc.Args[1]
			}
			return true
		})
		flush()
		if !anyTake && routed && exit == "return-nil" {
			// a frame that was routed to a stream and accepted without any debit must be empty
			empty := false
			p.Edges(func(cond ssa.Value, taken bool) {
				if v, sense, ok := h2aPosTest(cond); ok && taken != sense {
					if b, isLen := h2aFieldLoad(v, lengthFld); isLen && h2aRoot(b) == ssa.Value(frame) {
						empty = true
					}
				}
			})
			note("processData:no-take->return-nil", pd.Pos(), empty, "a DATA frame is accepted for a stream without debiting any window although the path did not establish Length == 0; path: "+h2aPathSig(p))
		}
	})
	c.Check("refund-path", "processData:paths-enumerated", pd.Pos(), complete && npaths > 0, fmt.Sprintf("path enumeration of processData incomplete (%d paths)", npaths))
	c.Note("processData: %d paths enumerated", npaths)
	var keys []string
	for k := range res {
		keys = append(keys, k)
	}
	sort.Strings(keys)
	for _, k := range keys {
		c.Check("refund-path", k, res[k].pos, res[k].ok, res[k].detail)
	}
	c.Min("refund-path", 5)
	// the pad computation uses the frame's own data
	core.Instrs(pd, func(in ssa.Instruction) {
		r, ok := h2aRefundOf(in)
		if !ok {
			return
		}
		for _, t := range takes {
			if d, isP := isPad(r.amount, t.amount); isP {
				call, isCall := core.StripConv(d).(*ssa.Call)
				okD := isCall && core.CallIs(&call.Call, h2aPkg+".DataFrame.Data") && call.Call.Args[0] == ssa.Value(frame)
				c.Check("pad-definition", ord.key("processData:pad"), in.Pos(), okD, "the padding refund subtracts len("+core.Render(d)+"), expected len(f.Data()) of the frame being processed")
				return
			}
		}
	})
	c.Min("pad-definition", 2)
}

func c33NoteBodyRead(c *core.Ctx, fl *h2aFlows) {
	fn := h2aFn(c, "serverConn.noteBodyRead")
	stateFld := h2aField(c, "stream.state")
	hcr, ok1 := h2aConst(c, "stateHalfClosedRemote")
	closed, ok2 := h2aConst(c, "stateClosed")
	if fn == nil || stateFld == nil || !ok1 || !ok2 || len(fn.Params) != 3 {
		return
	}
	st, n := fn.Params[1], fn.Params[2]
	var connCall, stCall ssa.Instruction
	core.Instrs(fn, func(in ssa.Instruction) {
		r, ok := h2aRefundOf(in)
		if !ok {
			return
		}
		switch {
		case r.conn && core.StripConv(r.amount) == ssa.Value(n):
			connCall = in
		case !r.conn && r.st == ssa.Value(st) && core.StripConv(r.amount) == ssa.Value(n):
			stCall = in
		default:
			c.Check("body-read-refund", "noteBodyRead:other", in.Pos(), false, "noteBodyRead refunds "+core.Render(r.amount)+" to "+core.Render(r.st)+"; expected exactly n octets for the stream that was read")
		}
	})
	okConn := connCall != nil && core.MustPass(fn, nil, func(x ssa.Instruction) bool { return x == connCall }) == nil
	c.Check("body-read-refund", "noteBodyRead:conn-level", fn.Pos(), okConn, "noteBodyRead must call sendWindowUpdate(nil, n) on every path: octets read by the handler were debited from the connection window whatever the stream's state is now")
	if stCall == nil {
		c.Check("body-read-refund", "noteBodyRead:stream-level", fn.Pos(), false, "noteBodyRead has no sendWindowUpdate(st, n) with the n that was read")
		return
	}
	bad := ""
	nState := 0
	for _, g := range core.GuardsAt(stCall.Block()) {
		b, isBin := g.Cond.(*ssa.BinOp)
		if !isBin || (b.Op != token.NEQ && b.Op != token.EQL) {
			bad = g.Str
			continue
		}
		excl := (b.Op == token.NEQ) == g.Pol // "x != K" holds
		if h2aIsNil(b.Y) && b.X == ssa.Value(st) && excl {
			continue // st != nil
		}
		base, isState := h2aFieldLoad(b.X, stateFld)
		k, isK := h2aInt(b.Y)
		if isState && base == ssa.Value(st) && isK && excl && (k == hcr || k == closed) {
			nState++
			continue
		}
		bad = g.Str
	}
	c.Check("body-read-refund", "noteBodyRead:stream-level", stCall.Pos(), bad == "",
		"the stream-level refund in noteBodyRead is skipped under a condition other than state == HalfClosedRemote / state == Closed ("+bad+"): an open stream's window would not be re-opened and the client stalls")
}

func c33SendWindowUpdate(c *core.Ctx) {
	fn := h2aFn(c, "serverConn.sendWindowUpdate")
	if fn == nil || len(fn.Params) != 3 {
		return
	}
	st, n := fn.Params[1], fn.Params[2]
	const max31 = 1<<31 - 1
	// derives: v is n or a phi over n and (phi - K)
	var isRest func(v ssa.Value, seen map[ssa.Value]bool) bool
	isRest = func(v ssa.Value, seen map[ssa.Value]bool) bool {
		v = core.StripConv(v)
		if v == ssa.Value(n) {
			return true
		}
		if seen[v] {
			return true
		}
		seen[v] = true
		switch x := v.(type) {
		case *ssa.Phi:
			for _, e := range x.Edges {
				if !isRest(e, seen) {
					return false
				}
			}
			return true
		case *ssa.BinOp:
			if _, isK := h2aInt(x.Y); x.Op == token.SUB && isK {
				return isRest(x.X, seen)
			}
		}
		return false
	}
	ord := h2aOrd{}
	var restCall ssa.Instruction
	nCalls := 0
	core.Instrs(fn, func(in ssa.Instruction) {
		cc := h2aCallOf(in, "serverConn.sendWindowUpdate32")
		if cc == nil || len(cc.Args) != 3 {
			return
		}
		nCalls++
		c.Check("update-split", ord.key("sendWindowUpdate:level"), in.Pos(), cc.Args[1] == ssa.Value(st), "sendWindowUpdate forwards the update to "+core.Render(cc.Args[1])+" instead of the stream it was asked for")
		if k, isK := h2aInt(cc.Args[2]); isK {
			// constant chunk: the running remainder must be reduced by exactly k, under remainder >= k
			okK := k > 0 && k <= max31
			okDec, okGuard := false, false
			core.Instrs(fn, func(x ssa.Instruction) {
				b, isBin := x.(*ssa.BinOp)
				if !isBin || b.Op != token.SUB || x.Block() != in.Block() {
					return
				}
				if ky, ok := h2aInt(b.Y); ok && ky == k && isRest(b.X, map[ssa.Value]bool{}) {
					// the decremented value must flow back into the remainder
					if refs := b.Referrers(); refs != nil {
						for _, r := range *refs {
							if _, isPhi := r.(*ssa.Phi); isPhi {
								okDec = true
							}
						}
					}
					for _, g := range core.GuardsAt(in.Block()) {
						if r, isRel := h2aRelOf(g); isRel && h2aSame(r.hi, b.X) {
							if lo, ok := h2aInt(r.lo); ok && (lo >= k || (r.strict && lo >= k-1)) {
								okGuard = true
							}
						}
					}
				}
			})
			c.Check("update-split", ord.key("sendWindowUpdate:chunk"), in.Pos(), okK && okDec && okGuard,
				fmt.Sprintf("a constant increment of %d is sent; it must be within 1..2^31-1, be sent only while the remainder is >= it, and the remainder must be reduced by exactly it (valid=%v, remainder reduced by the same constant=%v, guarded=%v)", k, okK, okDec, okGuard))
			return
		}
		// remainder: int32(rest) under rest <= 2^31-1
		okRest := isRest(cc.Args[2], map[ssa.Value]bool{})
		okBound := false
		for _, g := range core.GuardsAt(in.Block()) {
			if r, isRel := h2aRelOf(g); isRel && h2aSame(r.lo, cc.Args[2]) {
				if hi, ok := h2aInt(r.hi); ok && (hi <= max31 || (r.strict && hi <= max31+1)) {
					okBound = true
				}
			}
		}
		restCall = in
		c.Check("update-split", ord.key("sendWindowUpdate:remainder"), in.Pos(), okRest && okBound,
			fmt.Sprintf("the final increment %s must be what is left of n and be known to be <= 2^31-1 (derived from n=%v, bounded=%v)", core.Render(cc.Args[2]), okRest, okBound))
	})
	okAll := restCall != nil && core.MustPass(fn, nil, func(x ssa.Instruction) bool { return x == restCall }) == nil
	c.Check("update-split", "sendWindowUpdate:remainder-every-path", fn.Pos(), okAll, "a path through sendWindowUpdate returns without sending what is left of n")
	c.Min("update-split", 5)
}

func c33SendWindowUpdate32(c *core.Ctx, fl *h2aFlows) {
	fn := h2aFn(c, "serverConn.sendWindowUpdate32")
	wuN := h2aField(c, "writeWindowUpdate.n")
	wuID := h2aField(c, "writeWindowUpdate.streamID")
	idFld := h2aField(c, "stream.id")
	fwStream := h2aField(c, "frameWriteMsg.stream")
	if fn == nil || wuN == nil || wuID == nil || idFld == nil || fwStream == nil || len(fn.Params) != 3 {
		return
	}
	st, n := fn.Params[1], fn.Params[2]
	stIsNil := func(gs []core.Guard) (isNil, known bool) {
		for _, g := range gs {
			b, ok := g.Cond.(*ssa.BinOp)
			if !ok || b.X != ssa.Value(st) || !h2aIsNil(b.Y) {
				continue
			}
			switch b.Op {
			case token.EQL:
				return g.Pol, true
			case token.NEQ:
				return !g.Pol, true
			}
		}
		return false, false
	}
	ord := h2aOrd{}
	nAnn, nCred := 0, 0
	core.Instrs(fn, func(in ssa.Instruction) {
		switch x := in.(type) {
		case *ssa.Store:
			if _, ok := h2aFieldAddrOf(x.Addr, wuN); ok {
				nAnn++
				c.Check("announce-account", ord.key("sendWindowUpdate32:announce-amount"), x.Pos(), core.StripConv(x.Val) == ssa.Value(n),
					"the WINDOW_UPDATE frame announces "+core.Render(x.Val)+", not the n that is credited to the local window")
			}
			if _, ok := h2aFieldAddrOf(x.Addr, fwStream); ok {
				c.Check("announce-account", ord.key("sendWindowUpdate32:announce-queue"), x.Pos(), x.Val == ssa.Value(st), "the WINDOW_UPDATE write is queued for "+core.Render(x.Val)+" instead of the stream being updated")
			}
			if _, ok := h2aFieldAddrOf(x.Addr, wuID); ok {
				// streamID: st.id where st != nil, 0 where st == nil
				okID := true
				var visit func(v ssa.Value, gs []core.Guard)
				visit = func(v ssa.Value, gs []core.Guard) {
					if phi, isPhi := v.(*ssa.Phi); isPhi {
						for i, e := range phi.Edges {
							visit(e, core.GuardsOnEdge(phi.Block().Preds[i], phi.Block()))
						}
						return
					}
					isNil, known := stIsNil(gs)
					if k, isK := h2aInt(v); isK {
						if k != 0 || !known || !isNil {
							okID = false
						}
						return
					}
					base, isID := h2aFieldLoad(v, idFld)
					if !isID || base != ssa.Value(st) || !known || isNil {
						okID = false
					}
				}
				visit(x.Val, core.GuardsAt(x.Block()))
				c.Check("announce-account", ord.key("sendWindowUpdate32:announce-stream"), x.Pos(), okID, "the WINDOW_UPDATE frame's stream id is "+core.Render(x.Val)+"; required: 0 exactly when st == nil, st.id otherwise")
			}
		case ssa.CallInstruction:
			cc := h2aCallOf(in, "flow.add")
			if cc == nil || len(cc.Args) != 2 {
				return
			}
			kind, base := fl.kind(cc.Args[0])
			isNil, known := stIsNil(core.GuardsAt(in.Block()))
			okLvl := false
			switch kind {
			case "conn-in":
				okLvl = known && isNil
			case "stream-in":
				okLvl = known && !isNil && base == ssa.Value(st)
			}
			nCred++
			c.Check("announce-account", ord.key("sendWindowUpdate32:credit-"+kind), in.Pos(), okLvl && cc.Args[1] == ssa.Value(n),
				"sendWindowUpdate32 credits "+core.Render(cc.Args[1])+" to the "+kind+" window "+core.Render(cc.Args[0])+"; required: exactly n, to serverConn.inflow when st == nil and to st.inflow otherwise (the level the WINDOW_UPDATE frame names)")
		}
	})
	c.Check("announce-account", "sendWindowUpdate32:sites", fn.Pos(), nAnn >= 1 && nCred >= 2, fmt.Sprintf("expected the increment of the frame to be set and both levels to be credited (found %d and %d sites)", nAnn, nCred))
	// every path: announce <=> credit; neither only for n == 0
	npaths, bad := 0, ""
	isAnnounce := h2aIsCall("serverConn.writeFrame")
	isCredit := h2aIsCall("flow.add")
	complete := core.EnumPaths(fn, 1, 5000, func(p *core.Path) {
		npaths++
		if _, isRet := p.Last().(*ssa.Return); !isRet {
			return
		}
		a, cr := p.Has(isAnnounce), p.Has(isCredit)
		zero := false
		p.Edges(func(cond ssa.Value, taken bool) {
			if v, sense, ok := h2aPosTest(cond); ok && core.StripConv(v) == ssa.Value(n) && taken != sense {
				if b := cond.(*ssa.BinOp); b.Op == token.EQL || b.Op == token.NEQ {
					zero = true
				}
			}
		})
		if a != cr || (!a && !zero) {
			if bad == "" {
				bad = fmt.Sprintf("announce=%v credit=%v n==0 established=%v on path: %s", a, cr, zero, h2aPathSig(p))
			}
		}
	})
	c.Check("announce-account", "sendWindowUpdate32:announce-iff-credit", fn.Pos(), complete && npaths > 0 && bad == "",
		"a returning path of sendWindowUpdate32 announces without crediting, credits without announcing, or does neither although n != 0: "+bad)
	c.Min("announce-account", 7)
}

// every stream-level refund in the package is dominated by a connection-level
// refund of the same amount.
func c33StreamNeedsConn(c *core.Ctx) {
	ord := h2aOrd{}
	for _, fn := range c.P.SrcFuncs(h2aPkg) {
		var all []h2aRefund
		core.Instrs(fn, func(in ssa.Instruction) {
			if r, ok := h2aRefundOf(in); ok {
				all = append(all, r)
			}
		})
		name := h2aShort(fn)
		if name == "serverConn.sendWindowUpdate" {
			continue // forwards one level, judged by update-split
		}
		for _, r := range all {
			if r.conn {
				continue
			}
			ok := false
			for _, q := range all {
				if q.conn && h2aSame(q.amount, r.amount) && core.Dominates(q.call.(ssa.Instruction), r.call.(ssa.Instruction)) {
					ok = true
				}
			}
			c.Check("stream-needs-conn", ord.key(name), r.call.Pos(), ok, "a stream-level window refund of "+core.Render(r.amount)+" in "+name+" is not preceded on every path by a connection-level refund of the same amount: every octet debited from a stream window was also debited from the connection window")
		}
	}
	c.Min("stream-needs-conn", 2)
}

func c33ReadNotify(c *core.Ctx) {
	rd := h2aFn(c, "RequestBody.Read")
	pipeFld := h2aField(c, "RequestBody.pipe")
	strFld := h2aField(c, "RequestBody.stream")
	if rd != nil && pipeFld != nil && strFld != nil && len(rd.Params) >= 1 {
		recv := rd.Params[0]
		isPipeRead := h2aIsCall("bfe_util/pipe.Pipe.Read")
		var reads []*ssa.Call
		core.Instrs(rd, func(in ssa.Instruction) {
			if call, ok := in.(*ssa.Call); ok && isPipeRead(in) {
				reads = append(reads, call)
			}
		})
		c.Check("read-notify", "RequestBody.Read:pipe-reads", rd.Pos(), len(reads) == 1, fmt.Sprintf("expected one pipe.Read in RequestBody.Read, found %d", len(reads)))
		if len(reads) == 1 {
			read := reads[0]
			base, isPipe := h2aFieldLoad(read.Call.Args[0], pipeFld)
			c.Check("read-notify", "RequestBody.Read:reads-own-pipe", read.Pos(), isPipe && base == ssa.Value(recv), "RequestBody.Read reads from "+core.Render(read.Call.Args[0])+", not from its own pipe")
			isN := func(v ssa.Value) bool {
				e, ok := core.StripConv(v).(*ssa.Extract)
				return ok && e.Index == 0 && e.Tuple == ssa.Value(read)
			}
			var notify ssa.Instruction
			core.Instrs(rd, func(in ssa.Instruction) {
				cc := h2aCallOf(in, "serverConn.noteBodyReadFromHandler")
				if cc == nil || len(cc.Args) != 3 {
					return
				}
				sb, isStr := h2aFieldLoad(cc.Args[1], strFld)
				okArgs := isN(cc.Args[2]) && isStr && sb == ssa.Value(recv)
				notify = in
				c.Check("read-notify", "RequestBody.Read:notify-args", in.Pos(), okArgs, "RequestBody.Read reports ("+core.Render(cc.Args[1])+", "+core.Render(cc.Args[2])+"); expected its own stream and the byte count returned by pipe.Read")
			})
			npaths, bad := 0, ""
			complete := core.EnumPaths(rd, 1, 5000, func(p *core.Path) {
				npaths++
				if _, isRet := p.Last().(*ssa.Return); !isRet || !p.Has(func(x ssa.Instruction) bool { return x == ssa.Instruction(read) }) {
					return
				}
				notified := notify != nil && p.Has(func(x ssa.Instruction) bool { return x == notify })
				none := false
				p.Edges(func(cond ssa.Value, taken bool) {
					if v, sense, ok := h2aPosTest(cond); ok && isN(v) && taken != sense {
						none = true
					}
				})
				if !notified && !none && bad == "" {
					bad = h2aPathSig(p)
				}
			})
			c.Check("read-notify", "RequestBody.Read:every-read-reported", read.Pos(), complete && bad == "",
				"a path returns octets from the body pipe to the handler without reporting them through noteBodyReadFromHandler and without having established n <= 0: they are never refunded; path: "+bad)
		}
	}
	// noteBodyReadFromHandler forwards (st, n) unchanged on bodyReadCh
	if fn := h2aFn(c, "serverConn.noteBodyReadFromHandler"); fn != nil && len(fn.Params) == 3 {
		mSt, mN, ch := h2aField(c, "bodyReadMsg.st"), h2aField(c, "bodyReadMsg.n"), h2aField(c, "serverConn.bodyReadCh")
		okSt, okN, okSend := false, false, false
		core.Instrs(fn, func(in ssa.Instruction) {
			switch x := in.(type) {
			case *ssa.Store:
				if _, ok := h2aFieldAddrOf(x.Addr, mSt); ok {
					okSt = x.Val == ssa.Value(fn.Params[1])
				}
				if _, ok := h2aFieldAddrOf(x.Addr, mN); ok {
					okN = x.Val == ssa.Value(fn.Params[2])
				}
			case *ssa.Select:
				for _, s := range x.States {
					if _, isCh := h2aFieldLoad(s.Chan, ch); isCh && s.Send != nil {
						okSend = true
					}
				}
			case *ssa.Send:
				if _, isCh := h2aFieldLoad(x.Chan, ch); isCh {
					okSend = true
				}
			}
		})
		c.Check("read-notify", "noteBodyReadFromHandler:forwards", fn.Pos(), okSt && okN && okSend, fmt.Sprintf("noteBodyReadFromHandler must send bodyReadMsg{st, n} with its own arguments on sc.bodyReadCh (st=%v n=%v sent=%v)", okSt, okN, okSend))
	}
	// serve hands the received message to noteBodyRead unchanged
	if fn := h2aFn(c, "serverConn.serve"); fn != nil {
		mSt, mN := h2aField(c, "bodyReadMsg.st"), h2aField(c, "bodyReadMsg.n")
		n := 0
		for _, f := range core.WithClosures(fn) {
			core.Instrs(f, func(in ssa.Instruction) {
				cc := h2aCallOf(in, "serverConn.noteBodyRead")
				if cc == nil || len(cc.Args) != 3 {
					return
				}
				n++
				b1, ok1 := h2aFieldLoad(cc.Args[1], mSt)
				b2, ok2 := h2aFieldLoad(cc.Args[2], mN)
				c.Check("read-notify", "serve:dispatch", in.Pos(), ok1 && ok2 && h2aSame(b1, b2), "serve calls noteBodyRead("+core.Render(cc.Args[1])+", "+core.Render(cc.Args[2])+"); expected the st and n of one received bodyReadMsg")
			})
		}
		if n == 0 {
			c.Check("read-notify", "serve:dispatch", fn.Pos(), false, "serve never calls noteBodyRead: handler reads are not refunded")
		}
	}
	c.Min("read-notify", 6)
}

func c33WindowInit(c *core.Ctx, fl *h2aFlows) {
	iswFld := h2aField(c, "stream.isw")
	setID, setVal := h2aField(c, "Setting.ID"), h2aField(c, "Setting.Val")
	sIW, ok1 := h2aConst(c, "SettingInitialWindowSize")
	defWin, ok2 := h2aConst(c, "initialWindowSize")
	if iswFld == nil || setID == nil || setVal == nil || !ok1 || !ok2 {
		return
	}
	isSrc := func(v ssa.Value) bool {
		call, ok := core.StripConv(v).(*ssa.Call)
		return ok && core.CallIs(&call.Call, h2aPkg+".Server.initialStreamRecvWindowSize")
	}
	// advertised value in serve
	var adv ssa.Value
	if fn := h2aFn(c, "serverConn.serve"); fn != nil {
		core.Instrs(fn, func(in ssa.Instruction) {
			st, ok := in.(*ssa.Store)
			if !ok {
				return
			}
			base, ok := h2aFieldAddrOf(st.Addr, setID)
			if k, isK := h2aInt(st.Val); !ok || !isK || k != sIW {
				return
			}
			// the Val store on the same element
			core.Instrs(fn, func(in2 ssa.Instruction) {
				st2, ok := in2.(*ssa.Store)
				if !ok {
					return
				}
				if b2, ok := h2aFieldAddrOf(st2.Addr, setVal); ok && b2 == base {
					adv = st2.Val
				}
			})
		})
		c.Check("window-init", "serve:advertised-stream-window", fn.Pos(), adv != nil && isSrc(adv), "the initial SETTINGS frame must advertise SETTINGS_INITIAL_WINDOW_SIZE = Server.initialStreamRecvWindowSize(rule); advertises "+core.Render(adv))
	}
	if fn := h2aFn(c, "serverConn.processHeaders"); fn != nil {
		var isw ssa.Value
		var owner ssa.Value
		linked, credited := false, false
		core.Instrs(fn, func(in ssa.Instruction) {
			switch x := in.(type) {
			case *ssa.Store:
				if b, ok := h2aFieldAddrOf(x.Addr, iswFld); ok {
					isw, owner = x.Val, b
				}
				if fb, ok := h2aFieldAddrOf(x.Addr, fl.flowConn); ok {
					if k, _ := fl.kind(fb); k == "stream-in" {
						vk, _ := fl.kind(x.Val)
						linked = vk == "conn-in"
						c.Check("window-init", "processHeaders:stream-linked", x.Pos(), linked, "stream.inflow.conn is set to "+core.Render(x.Val)+", not to the connection's receive window: stream-level takes would not debit the connection window")
					}
				}
			case ssa.CallInstruction:
				cc := h2aCallOf(in, "flow.add")
				if cc == nil || len(cc.Args) != 2 {
					return
				}
				if k, base := fl.kind(cc.Args[0]); k == "stream-in" {
					b, isIsw := h2aFieldLoad(cc.Args[1], iswFld)
					credited = true
					c.Check("window-init", "processHeaders:stream-credit", in.Pos(), isIsw && h2aSame(b, base), "a new stream's receive window starts at "+core.Render(cc.Args[1])+"; it must start at the advertised per-stream window (stream.isw of the same stream)")
				}
			}
		})
		if !linked {
			c.Check("window-init", "processHeaders:stream-linked", fn.Pos(), false, "processHeaders does not link the new stream's inflow to serverConn.inflow")
		}
		if !credited {
			c.Check("window-init", "processHeaders:stream-credit", fn.Pos(), false, "processHeaders does not credit the new stream's receive window")
		}
		_ = owner
		okSame := isw != nil && adv != nil && isSrc(isw) && core.Render(isw) == core.Render(adv)
		c.Check("window-init", "processHeaders:isw-source", fn.Pos(), okSame, "stream.isw is "+core.Render(isw)+" while SETTINGS advertised "+core.Render(adv)+": the accounted window differs from the advertised one")
	}
	if fn := h2aFn(c, "Server.ServeConn"); fn != nil {
		found := false
		for _, f := range core.WithClosures(fn) {
			core.Instrs(f, func(in ssa.Instruction) {
				cc := h2aCallOf(in, "flow.add")
				if cc == nil || len(cc.Args) != 2 {
					return
				}
				if k, _ := fl.kind(cc.Args[0]); k == "conn-in" {
					found = true
					v, isK := h2aInt(cc.Args[1])
					c.Check("window-init", "ServeConn:conn-credit", in.Pos(), isK && v == defWin && defWin == 65535, "the connection receive window starts at "+core.Render(cc.Args[1])+"; RFC 7540 6.9.2 fixes the initial connection window at 65535 (larger windows must be announced by WINDOW_UPDATE)")
				}
			})
		}
		if !found {
			c.Check("window-init", "ServeConn:conn-credit", fn.Pos(), false, "ServeConn does not initialise serverConn.inflow")
		}
	}
	// body buffer capacity = advertised stream window
	if fn := h2aFn(c, "serverConn.newWriterAndRequest"); fn != nil {
		pipeFld := h2aField(c, "RequestBody.pipe")
		ord := h2aOrd{}
		core.Instrs(fn, func(in ssa.Instruction) {
			st, ok := in.(*ssa.Store)
			if !ok || pipeFld == nil {
				return
			}
			if _, ok := h2aFieldAddrOf(st.Addr, pipeFld); !ok {
				return
			}
			call, isCall := st.Val.(*ssa.Call)
			okP := false
			switch {
			case isCall && core.CallIs(&call.Call, "bfe_util/pipe.NewPipeWithSize"):
				_, okP = h2aFieldLoad(call.Call.Args[0], iswFld)
			case isCall && core.CallIs(&call.Call, "bfe_util/pipe.NewPipeFromBufferPool"):
				okP = core.HasGuard(st.Block(), func(g core.Guard) bool {
					gc, ok := g.Cond.(*ssa.Call)
					return ok && g.Pol && core.CallIs(&gc.Call, h2aPkg+".stream.defaultStreamWindow")
				})
			}
			c.Check("window-init", ord.key("newWriterAndRequest:body-buffer"), st.Pos(), okP, "the request body pipe is created by "+core.Render(st.Val)+"; its capacity must be the advertised stream window (NewPipeWithSize(st.isw), or the fixed initialWindowSize pool only under defaultStreamWindow())")
		})
	}
	if fn := h2aFn(c, "stream.defaultStreamWindow"); fn != nil && len(fn.Params) == 1 {
		for i, r := range core.Returns(fn) {
			if len(r.Results) != 1 || core.Render(r.Results[0]) != "true" {
				continue
			}
			ok := core.AllEdgesGuarded(r.Block(), func(g core.Guard) bool {
				b, isBin := g.Cond.(*ssa.BinOp)
				if !isBin || b.Op != token.EQL || !g.Pol {
					return false
				}
				base, isIsw := h2aFieldLoad(b.X, iswFld)
				k, isK := h2aInt(b.Y)
				return isIsw && base == ssa.Value(fn.Params[0]) && isK && (k == 0 || k == defWin)
			})
			c.Check("window-init", fmt.Sprintf("defaultStreamWindow:true#%d", i), r.Pos(), ok, "defaultStreamWindow() reports the default although isw is not known to be 0 or initialWindowSize: a 65535-byte pooled buffer would back a larger advertised window")
		}
	}
	c.Min("window-init", 8)
}

// (h) closing a stream gives back, at connection level, what is still buffered.
func c33CloseRefund(c *core.Ctx) {
	fn := h2aFn(c, "serverConn.closeStream")
	bodyFld := h2aField(c, "stream.body")
	if fn == nil || bodyFld == nil || len(fn.Params) < 2 {
		return
	}
	st := fn.Params[1]
	var closers []ssa.Instruction
	core.Instrs(fn, func(in ssa.Instruction) {
		if cc := h2aCallOf(in, "bfe_util/pipe.Pipe.CloseWithError", "bfe_util/pipe.Pipe.BreakWithError", "bfe_util/pipe.Pipe.CloseWithErrorAndCode"); cc != nil {
			if b, ok := h2aFieldLoad(cc.Args[0], bodyFld); ok && b == ssa.Value(st) {
				closers = append(closers, in)
			}
		}
	})
	if len(closers) == 0 {
		c.Check("close-refund", "closeStream:unread-body", fn.Pos(), false, "closeStream no longer closes the stream's body pipe; the rule cannot locate where unread octets are discarded")
		return
	}
	// a connection-level refund whose amount is computed from st.body, before the pipe is closed
	fromBody := func(v ssa.Value) bool {
		seen := map[ssa.Value]bool{}
		var walk func(v ssa.Value, d int) bool
		walk = func(v ssa.Value, d int) bool {
			if v == nil || d > 6 || seen[v] {
				return false
			}
			seen[v] = true
			if b, ok := h2aFieldLoad(v, bodyFld); ok && b == ssa.Value(st) {
				return true
			}
			if in, ok := v.(ssa.Instruction); ok {
				for _, op := range in.Operands(nil) {
					if *op != nil && walk(*op, d+1) {
						return true
					}
				}
			}
			return false
		}
		return walk(v, 0)
	}
	for i, cl := range closers {
		ok := false
		core.Instrs(fn, func(in ssa.Instruction) {
			r, isR := h2aRefundOf(in)
			if !isR || !r.conn || !fromBody(r.amount) {
				return
			}
			if core.Dominates(in, cl) {
				ok = true
				return
			}
			// `if n := <unread>; n > 0 { refund(n) }`: skipped only when there is nothing to give back
			own := 0
			for _, g := range core.GuardsAt(in.Block()) {
				if g.If == nil || g.If.Block() == cl.Block() || !core.Dominates(g.If, cl) {
					continue
				}
				shared := false
				for _, h := range core.GuardsAt(cl.Block()) {
					if h.If == g.If {
						shared = true
					}
				}
				if shared {
					continue
				}
				v, sense, isPos := h2aPosTest(g.Cond)
				if !isPos || sense != g.Pol || !h2aSame(v, r.amount) {
					return
				}
				own++
			}
			if own > 0 {
				ok = true
			}
		})
		key := "closeStream:unread-body"
		if i > 0 {
			key = fmt.Sprintf("%s#%d", key, i+1)
		}
		c.Check("close-refund", key, cl.Pos(), ok, "closeStream discards the stream's body pipe without first giving back, at connection level, the octets still buffered in it (no sendWindowUpdate(nil, <unread length of st.body>) before the pipe is closed): DATA that was debited from serverConn.inflow but is never read by the handler is never refunded, so the connection window shrinks with every request whose body is not fully read")
	}
	c.Min("close-refund", 1)
}
