package rules

import (
	"fmt"
	"go/token"
	"sort"
	"strings"

	"golang.org/x/tools/go/ssa"

	"verif/internal/core"
)

// C33 — HTTP/2 inbound flow control is enforced and replenished.
func init() {
	Register(&Rule{
		ID: "C33", Section: "5 C33",
		Technique: "feasible-path enumeration with private helpers spliced in and values resolved along each path (window test before flow.take, refund pairing in processData, noteBodyRead, sendWindowUpdate32, RequestBody.Read), value-flow (announced increment = credited increment), who-may-touch census of the receive windows",
		Meta: core.Meta{
			Level:       "other",
			Explanation: "Decides, on every path of the inspected bfe_http2 functions: (a) every flow.take on a receive window (serverConn.inflow, stream.inflow) takes the frame's FrameHeader.Length (padding included), is control-dependent on `Length <= available()` of the same window (non-strict, tested immediately before, nothing mutating the window in between), the excess branch only returns an error whose Code is ErrCodeFlowControl for the frame's stream id and touches no window, and the body pipe is written only after the take; (b) refund pairing in processData by path enumeration: a connection-level take is refunded by the same amount before every return; after a stream-level take an accepted frame refunds Length-len(data) on both levels whenever that is positive and skips the body write only for empty data; a frame rejected after the take refunds the connection level; (c) noteBodyRead refunds the connection level unconditionally and the stream level with the same n unless the stream state is HalfClosedRemote/Closed; RequestBody.Read reports exactly the n > 0 returned by the pipe, through bodyReadCh, to noteBodyRead; (d) sendWindowUpdate passes the stream through, splits into increments <= 2^31-1 and loses nothing; sendWindowUpdate32 announces in the WINDOW_UPDATE frame the same n it credits with flow.add, on the matching level (st == nil <=> serverConn.inflow), on every path except n == 0; every stream-level refund is dominated by a connection-level refund of the same amount; (e) who may take/credit/alias the receive windows and who may call the refund functions (census); (f) advertised = accounted: the SETTINGS_INITIAL_WINDOW_SIZE value sent, stream.isw, the initial credit of stream.inflow and the body buffer size come from the same source, stream.inflow is linked to serverConn.inflow, the connection window starts at the RFC default; (g) the arithmetic shape of flow.available/take/add; (h) closing a stream refunds at connection level the octets still buffered in its body pipe; (i) refunded once: any refund (connection or stream level, any function of the package) whose amount is what a body pipe reports about itself (its buffered length; results of Pipe methods that move no data) is followed on every path, or preceded, by Pipe.Release or Pipe.BreakWithError of the same pipe, so that the octets refunded in advance can no longer be read and refunded again by noteBodyRead (CloseWithError alone keeps them readable); this rests on Pipe.Release dropping the buffer on every path, Pipe.BreakWithError recording breakErr, and Pipe.Read taking bytes from the buffer only under breakErr == nil && b != nil, which are checked in bfe_util/pipe. How: processData, noteBodyRead, sendWindowUpdate32, RequestBody.Read and defaultStreamWindow are judged over their feasible paths with their private helpers (unexported, only called from inside the function's region) spliced in at the call sites, values resolved along each path (parameter -> argument, phi -> edge taken, result -> value returned) and compared by structure, branch conditions unfolded through negations and named booleans; so extracting or inlining a helper, early returns, if-chains vs switch, De Morgan spellings, renamed locals, added logging or defensive panics do not change the verdict. Census rules attribute a site in a function that is not in the reviewed snapshot of bfe_http2 (a new unexported helper with static calls only, not started as a goroutine) to the reviewed functions that call it. Not covered by this technique: statements inside loops or anonymous functions of these functions (a window operation there lies on no enumerated path and is reported, not passed); helpers shared by several reviewed functions are not spliced; more than 4 levels of helpers. Not covered: a handler read that races with closeStream between the length query and the release of the pipe; sums over long histories (the rules are per-path necessary conditions); that the handler eventually reads; the 2^31-1 ceiling of window sizes configured by the operator; DATA discarded after GOAWAY or refused for exceeding Content-Length is not debited at all (no window change, so no stall).",
			RuleText:    "obligations = each receive-window take (amount, guard, freshness, excess branch), each (take kind, exit) class of processData paths, each refund call of noteBodyRead, each sendWindowUpdate32 call of sendWindowUpdate, each path class of sendWindowUpdate32, each stream-level refund in the package, each site touching a receive window, each caller of the refund functions, each initial-window source, the flow methods, closeStream, each refund computed from a body pipe's state, the disabling methods of pipe.Pipe",
			Assumptions: []string{"flow values are reached only through the four fields serverConn.inflow/flow and stream.inflow/flow (any other access path is itself reported)", "pipe.Pipe.Write either stores all of data or returns an error (checked at run time by processData's `wrote != len(data)` panic)"},
		},
		Run: runC33,
		Mutants: []Mutant{
			{Name: "stream-guard-strict", File: "bfe_http2/server.go", Old: "		if st.inflow.available() < int32(f.Length) {\n			errMsg := fmt.Sprintf(", New: "		if st.inflow.available() <= int32(f.Length) {\n			errMsg := fmt.Sprintf(", Expect: "take-guard|processData:stream-in"},
			{Name: "conn-guard-dropped", File: "bfe_http2/server.go", Old: "		if sc.inflow.available() < int32(f.Length) {\n			errMsg := \"connection-level flow control window error\"\n			return StreamError{id, ErrCodeFlowControl, errMsg}\n		}\n", New: "", Expect: "take-guard|processData:conn-in"},
			{Name: "excess-wrong-code", File: "bfe_http2/server.go", Old: "			errMsg := fmt.Sprintf(\"sender tried to send more than stream available window size %d\", st.inflow.available())\n			return StreamError{id, ErrCodeFlowControl, errMsg}", New: "			errMsg := fmt.Sprintf(\"sender tried to send more than stream available window size %d\", st.inflow.available())\n			return StreamError{id, ErrCodeProtocol, errMsg}", Expect: "excess-error|processData:stream-in"},
			{Name: "take-payload-only", File: "bfe_http2/server.go", Old: "		st.inflow.take(int32(f.Length))\n", New: "		st.inflow.take(int32(len(data)))\n", Expect: "take-amount|processData:stream-in"},
			{Name: "pad-conn-refund-dropped", File: "bfe_http2/server.go", Old: "			sc.sendWindowUpdate(nil, pad) // conn-level\n			sc.sendWindowUpdate(st, pad)  // stream-level", New: "			sc.sendWindowUpdate(st, pad)  // stream-level", Expect: "refund-path|processData:stream-in-take->return-nil"},
			{Name: "pad-threshold", File: "bfe_http2/server.go", Old: "pad := int(f.Length) - int(len(data)); pad > 0 {", New: "pad := int(f.Length) - int(len(data)); pad > 1 {", Expect: "refund-path|processData:stream-in-take->return-nil"},
			{Name: "closed-stream-refund-dropped", File: "bfe_http2/server.go", Old: "		sc.inflow.take(int32(f.Length))\n		sc.sendWindowUpdate(nil, int(f.Length))\n", New: "		sc.inflow.take(int32(f.Length))\n", Expect: "refund-path|processData:conn-in-take"},
			{Name: "write-before-take", File: "bfe_http2/server.go", Old: "		st.inflow.take(int32(f.Length))\n\n		if len(data) > 0 {\n			wrote, err := st.body.Write(data)\n			if err != nil {\n", New: "		if len(data) > 0 {\n			wrote, err := st.body.Write(data)\n			st.inflow.take(int32(f.Length))\n			if err != nil {\n", Expect: "accept-after-take"},
			{Name: "bodyread-conn-conditional", File: "bfe_http2/server.go", Old: "	sc.sendWindowUpdate(nil, n) // conn-level\n	if st.state != stateHalfClosedRemote && st.state != stateClosed {", New: "	if st.state != stateHalfClosedRemote && st.state != stateClosed {\n		sc.sendWindowUpdate(nil, n) // conn-level", Expect: "body-read-refund|noteBodyRead:conn-level"},
			{Name: "bodyread-stream-skipped-when-open", File: "bfe_http2/server.go", Old: "	if st.state != stateHalfClosedRemote && st.state != stateClosed {\n		// Don't send this WINDOW_UPDATE", New: "	if st.state != stateHalfClosedRemote && st.state != stateOpen {\n		// Don't send this WINDOW_UPDATE", Expect: "body-read-refund|noteBodyRead:stream-level"},
			{Name: "announce-differs-from-credit", File: "bfe_http2/server.go", Old: "		ok = st.inflow.add(n)\n	}", New: "		ok = st.inflow.add(n - 1)\n	}", Expect: "announce-account|sendWindowUpdate32:credit"},
			{Name: "credit-wrong-level", File: "bfe_http2/server.go", Old: "	if st == nil {\n		ok = sc.inflow.add(n)\n	} else {\n		ok = st.inflow.add(n)\n	}", New: "	if st != nil {\n		ok = sc.inflow.add(n)\n	} else {\n		ok = st.inflow.add(n)\n	}", Expect: "announce-account|sendWindowUpdate32:credit"},
			{Name: "split-remainder-lost", File: "bfe_http2/server.go", Old: "		sc.sendWindowUpdate32(st, maxUint31)\n		n -= maxUint31\n	}", New: "		sc.sendWindowUpdate32(st, maxUint31)\n		n -= maxUint31 + 1\n	}", Expect: "update-split|sendWindowUpdate"},
			{Name: "read-notify-off-by-one", File: "bfe_http2/server.go", Old: "	if n > 0 {\n		b.conn.noteBodyReadFromHandler(b.stream, n)", New: "	if n > 1 {\n		b.conn.noteBodyReadFromHandler(b.stream, n)", Expect: "read-notify|RequestBody.Read"},
			{Name: "advertised-window-differs", File: "bfe_http2/server.go", Old: "	st.inflow.add(int32(st.isw))\n", New: "	st.inflow.add(sc.initialWindowSize)\n", Expect: "window-init|processHeaders:stream-credit"},
			{Name: "inflow-unlinked", File: "bfe_http2/server.go", Old: "	st.inflow.conn = &sc.inflow // link to conn-level counter\n", New: "", Expect: "window-init|processHeaders:stream-linked"},
			{Name: "foreign-credit", File: "bfe_http2/server.go", Old: "	sc.curOpenStreams--\n	if sc.curOpenStreams == 0 {", New: "	st.inflow.add(1)\n	sc.curOpenStreams--\n	if sc.curOpenStreams == 0 {", Expect: "inflow-census|serverConn.closeStream:add:stream-in"},
			{Name: "take-no-conn-debit", File: "bfe_http2/flow.go", Old: "	if f.conn != nil {\n		f.conn.n -= n\n	}", New: "	if f.conn != nil && n > 1 {\n		f.conn.n -= n\n	}", Expect: "flow-arith|take:conn-window-guard"},
			{Name: "one-byte-frames-unaccounted", File: "bfe_http2/server.go", Old: "	if f.Length > 0 {\n		// Check whether the client has flow control quota.", New: "	if f.Length > 1 {\n		// Check whether the client has flow control quota.", Expect: "refund-path|processData:no-take->return-nil"},
			{Name: "pad-conn-refund-twice", File: "bfe_http2/server.go", Old: "			sc.sendWindowUpdate(nil, pad) // conn-level\n", New: "			sc.sendWindowUpdate(nil, pad) // conn-level\n			sc.sendWindowUpdate(nil, pad)\n", Expect: "refund-path|processData:stream-in-take->return-nil"},
			{Name: "close-refund-leaves-pipe-readable", File: "bfe_http2/server.go", Old: "	if p := st.body; p != nil {\n		p.CloseWithError(err)\n", New: "	if p := st.body; p != nil {\n		sc.sendWindowUpdate(nil, len(p.Done()))\n		p.CloseWithError(err)\n", Expect: "refund-once|serverConn.closeStream"},
			{Name: "overflow-refund-leaves-pipe-readable", File: "bfe_http2/server.go", Old: "		st.body.CloseWithError(err)\n		// RFC 7540, sec 8.1.2.6", New: "		sc.sendWindowUpdate(nil, len(st.body.Done()))\n		st.body.CloseWithError(err)\n		// RFC 7540, sec 8.1.2.6", Expect: "refund-once|serverConn.processData"},
			{Name: "release-keeps-buffer", File: "bfe_util/pipe/pipe.go", Old: "	pool.Put(p.b)\n	p.b = nil\n", New: "	pool.Put(p.b)\n", Expect: "pipe-disable|Pipe.Release"},
			{Name: "silent-close-refund-then-break", Silent: true, File: "bfe_http2/server.go", Old: "	if p := st.body; p != nil {\n		p.CloseWithError(err)\n", New: "	if p := st.body; p != nil {\n		sc.sendWindowUpdate(nil, len(p.Done()))\n		p.BreakWithError(err)\n		p.CloseWithError(err)\n"},
			{Name: "silent-rename-and-log", Silent: true, File: "bfe_http2/server.go", Old: "		st.inflow.take(int32(f.Length))\n\n		if len(data) > 0 {", New: "		frameLen := int32(f.Length)\n		st.inflow.take(frameLen)\n		log.Logger.Debug(\"http2: took %d\", frameLen)\n\n		if len(data) > 0 {"},
			{Name: "silent-reorder-zero-and-negative-tests", Silent: true, File: "bfe_http2/server.go", Old: "	if n == 0 {\n		return\n	}\n	if n < 0 {\n		panic(\"negative update\")\n	}", New: "	if n < 0 {\n		panic(\"negative update\")\n	}\n	if n == 0 {\n		return\n	}"},
			// helper extraction (modelled on C33-N1, other site): the padding refund pair moves into a new private method
			{Name: "silent-extract-padding-refund", Silent: true, File: "bfe_http2/server.go", Old: "			sc.sendWindowUpdate(nil, pad) // conn-level\n			sc.sendWindowUpdate(st, pad)  // stream-level\n		}\n	}\n	if f.StreamEnded() {\n		st.endStream()\n	}\n	return nil\n}\n", New: "			sc.refundPadding(st, pad)\n		}\n	}\n	if f.StreamEnded() {\n		st.endStream()\n	}\n	return nil\n}\n\nfunc (sc *serverConn) refundPadding(strm *stream, octets int) {\n	sc.sendWindowUpdate(nil, octets) // conn-level\n	sc.sendWindowUpdate(strm, octets) // stream-level\n}\n"},
			// helper extraction of a guarded take: window test, debit and FLOW_CONTROL_ERROR of the stream level move into a helper that returns the error
			{Name: "silent-extract-stream-debit", Silent: true, File: "bfe_http2/server.go", Old: "\t\tif st.inflow.available() < int32(f.Length) {\n\t\t\terrMsg := fmt.Sprintf(\"sender tried to send more than stream available window size %d\", st.inflow.available())\n\t\t\treturn StreamError{id, ErrCodeFlowControl, errMsg}\n\t\t}\n\t\tst.inflow.take(int32(f.Length))\n\n\t\tif len(data) > 0 {\n\t\t\twrote, err := st.body.Write(data)\n\t\t\tif err != nil {\n\t\t\t\t// The handler has closed the request body: return the conn-level\n\t\t\t\t// flow control of the discarded frame (the stream is reset below).\n\t\t\t\tsc.sendWindowUpdate(nil, int(f.Length)-wrote)\n\t\t\t\terrMsg := fmt.Sprintf(\"stream body write error: %s\", err)\n\t\t\t\treturn StreamError{id, ErrCodeStreamClosed, errMsg}\n\t\t\t}\n\t\t\tif wrote != len(data) {\n\t\t\t\tpanic(\"internal error: bad Writer\")\n\t\t\t}\n\t\t\tst.bodyBytes += int64(len(data))\n\t\t}\n\n\t\t// Return any padded flow control now, since we won't\n\t\t// refund it later on body reads.\n\t\tif pad := int(f.Length) - int(len(data)); pad > 0 {\n\t\t\tsc.sendWindowUpdate(nil, pad) // conn-level\n\t\t\tsc.sendWindowUpdate(st, pad)  // stream-level\n\t\t}\n\t}\n\tif f.StreamEnded() {\n\t\tst.endStream()\n\t}\n\treturn nil\n}\n\n", New: "\t\tif err := debitStreamWindow(st, f); err != nil {\n\t\t\treturn err\n\t\t}\n\n\t\tif len(data) > 0 {\n\t\t\twrote, err := st.body.Write(data)\n\t\t\tif err != nil {\n\t\t\t\t// The handler has closed the request body: return the conn-level\n\t\t\t\t// flow control of the discarded frame (the stream is reset below).\n\t\t\t\tsc.sendWindowUpdate(nil, int(f.Length)-wrote)\n\t\t\t\terrMsg := fmt.Sprintf(\"stream body write error: %s\", err)\n\t\t\t\treturn StreamError{id, ErrCodeStreamClosed, errMsg}\n\t\t\t}\n\t\t\tif wrote != len(data) {\n\t\t\t\tpanic(\"internal error: bad Writer\")\n\t\t\t}\n\t\t\tst.bodyBytes += int64(len(data))\n\t\t}\n\n\t\t// Return any padded flow control now, since we won't\n\t\t// refund it later on body reads.\n\t\tif pad := int(f.Length) - int(len(data)); pad > 0 {\n\t\t\tsc.sendWindowUpdate(nil, pad) // conn-level\n\t\t\tsc.sendWindowUpdate(st, pad)  // stream-level\n\t\t}\n\t}\n\tif f.StreamEnded() {\n\t\tst.endStream()\n\t}\n\treturn nil\n}\n\n// debitStreamWindow charges a DATA frame to its stream's receive window.\nfunc debitStreamWindow(strm *stream, frame *DataFrame) error {\n\tif strm.inflow.available() < int32(frame.Length) {\n\t\terrMsg := fmt.Sprintf(\"sender tried to send more than stream available window size %d\", strm.inflow.available())\n\t\treturn StreamError{frame.Header().StreamID, ErrCodeFlowControl, errMsg}\n\t}\n\tstrm.inflow.take(int32(frame.Length))\n\treturn nil\n}\n\n"},
			// named boolean + De Morgan (modelled on C33-N4, other sites)
			{Name: "silent-demorgan-default-window", Silent: true, File: "bfe_http2/server.go", Old: "	if st.isw == 0 || st.isw == initialWindowSize {\n		return true\n	}\n	return false\n", New: "	custom := st.isw != 0 && st.isw != initialWindowSize\n	return !custom\n"},
			{Name: "silent-named-level-test", Silent: true, File: "bfe_http2/server.go", Old: "	if st == nil {\n		ok = sc.inflow.add(n)\n	} else {\n		ok = st.inflow.add(n)\n	}", New: "	streamLevel := !(st == nil)\n	if streamLevel {\n		ok = st.inflow.add(n)\n	} else {\n		ok = sc.inflow.add(n)\n	}"},
			// early return instead of nesting (modelled on C33-N2, other site)
			{Name: "silent-bodyread-early-return", Silent: true, File: "bfe_http2/server.go", Old: "	if st.state != stateHalfClosedRemote && st.state != stateClosed {\n		// Don't send this WINDOW_UPDATE", New: "	switch st.state {\n	case stateHalfClosedRemote, stateClosed:\n		return\n	}\n	{\n		// Don't send this WINDOW_UPDATE"},
		},
	})
}

// h2aRoot walks an access path down to its root value.
func h2aRoot(v ssa.Value) ssa.Value {
	for i := 0; i < 20; i++ {
		switch x := v.(type) {
		case *ssa.FieldAddr:
			v = x.X
		case *ssa.Field:
			v = x.X
		case *ssa.IndexAddr:
			v = x.X
		case *ssa.UnOp:
			if x.Op != token.MUL {
				return v
			}
			v = x.X
		case *ssa.Alloc:
			if p := core.SpilledParam(x); p != nil {
				return p
			}
			return v
		case *ssa.ChangeType:
			v = x.X
		case *ssa.Convert:
			v = x.X
		default:
			return v
		}
	}
	return v
}

// h2aPosTest: cond is a test "v > 0" in one of its spellings. sense tells
// whether cond being true means v > 0.
func h2aPosTest(cond ssa.Value) (v ssa.Value, sense bool, ok bool) {
	b, isBin := cond.(*ssa.BinOp)
	if !isBin {
		return nil, false, false
	}
	if ky, isK := h2aInt(b.Y); isK {
		switch {
		case b.Op == token.GTR && ky == 0, b.Op == token.GEQ && ky == 1, b.Op == token.NEQ && ky == 0:
			return b.X, true, true
		case b.Op == token.LEQ && ky == 0, b.Op == token.LSS && ky == 1, b.Op == token.EQL && ky == 0:
			return b.X, false, true
		}
	}
	if kx, isK := h2aInt(b.X); isK {
		switch {
		case b.Op == token.LSS && kx == 0, b.Op == token.LEQ && kx == 1, b.Op == token.NEQ && kx == 0:
			return b.Y, true, true
		case b.Op == token.GEQ && kx == 0, b.Op == token.GTR && kx == 1, b.Op == token.EQL && kx == 0:
			return b.Y, false, true
		}
	}
	return nil, false, false
}

// h2aRefund is a call of serverConn.sendWindowUpdate / sendWindowUpdate32.
type h2aRefund struct {
	call   ssa.CallInstruction
	conn   bool      // st argument is the nil constant
	st     ssa.Value // st argument otherwise
	amount ssa.Value
}

func h2aRefundOf(in ssa.Instruction) (h2aRefund, bool) {
	cc := h2aCallOf(in, "serverConn.sendWindowUpdate", "serverConn.sendWindowUpdate32")
	if cc == nil || len(cc.Args) != 3 {
		return h2aRefund{}, false
	}
	return h2aRefund{in.(ssa.CallInstruction), h2aIsNil(cc.Args[1]), cc.Args[1], cc.Args[2]}, true
}

func runC33(c *core.Ctx) {
	if c.P.Pkg(h2aPkg) == nil {
		c.Missing(h2aPkg)
		return
	}
	fl := h2aLoadFlows(c)
	if fl == nil {
		return
	}
	h2aCheckFlowType(c, "flow-arith", fl)
	c.Min("flow-arith", 12)

	// (e) census of the receive windows
	h2aFlowCensus(c, "inflow-census", fl, map[string]bool{"conn-in": true, "stream-in": true}, map[string][]string{
		"take:conn-in":       {"serverConn.processData"},
		"take:stream-in":     {"serverConn.processData"},
		"add:conn-in":        {"Server.ServeConn", "serverConn.sendWindowUpdate32"},
		"add:stream-in":      {"serverConn.processHeaders", "serverConn.sendWindowUpdate32"},
		"raw-conn:stream-in": {"serverConn.processHeaders"},
	})
	c.Min("inflow-census", 7)
	h2aCallerCensus(c, "refund-callers", "serverConn.sendWindowUpdate", "serverConn.processData", "serverConn.noteBodyRead", "serverConn.serve", "serverConn.closeStream")
	h2aCallerCensus(c, "refund-callers", "serverConn.sendWindowUpdate32", "serverConn.sendWindowUpdate")
	h2aCallerCensus(c, "refund-callers", "serverConn.noteBodyRead", "serverConn.serve")
	h2aCallerCensus(c, "refund-callers", "serverConn.noteBodyReadFromHandler", "RequestBody.Read")
	c.Min("refund-callers", 6)

	c33ProcessData(c, fl)
	c33NoteBodyRead(c, fl)
	c33SendWindowUpdate(c)
	c33SendWindowUpdate32(c, fl)
	c33StreamNeedsConn(c)
	c33ReadNotify(c)
	c33WindowInit(c, fl)
	c33CloseRefund(c)
	c33RefundOnce(c)
	h2aDropCache(c)
}

// c33ProcessData judges processData together with its private helpers: the
// rules are stated over the feasible paths of the function with the helpers
// spliced in (h2aPathsOf) and over values resolved along each path, so that
// neither the block structure (nested if / early return / switch / named
// booleans) nor the place of a statement (inline / extracted) matters.
func c33ProcessData(c *core.Ctx, fl *h2aFlows) {
	pd := h2aFn(c, "serverConn.processData")
	lengthFld := h2aField(c, "FrameHeader.Length")
	sidFld := h2aField(c, "FrameHeader.StreamID")
	flowCode, okCode := h2aConst(c, "ErrCodeFlowControl")
	streamsFld := h2aField(c, "serverConn.streams")
	if pd == nil || lengthFld == nil || sidFld == nil || streamsFld == nil || !okCode || len(pd.Params) != 2 {
		return
	}
	const frameIdx = 1 // the *DataFrame parameter
	names := h2aErrCodeNames(c)
	changesWindow := core.LiftMay(h2aIsCall("flow.take", "flow.add", "serverConn.sendWindowUpdate", "serverConn.sendWindowUpdate32"), 2)
	isMutator := func(e h2aEv) bool { return !e.spliced && changesWindow(e.in) }
	isBodyWriteIn := h2aIsCall("bfe_util/pipe.Pipe.Write")
	isBodyWrite := func(e h2aEv) bool { return isBodyWriteIn(e.in) }
	thruHeader := func(cc *ssa.CallCommon) bool { return core.CallIs(cc, h2aPkg+".FrameHeader.Header") }

	// static sites of the region
	type takeSite struct {
		in   ssa.Instruction
		kind string
		key  string
		// aggregated over the paths through the site
		reached                    bool
		amountOK, guardOK, freshOK bool
		strictOnly                 bool
		amountS, guardS            string
		goodOp                     map[ssa.Value]token.Token // window test -> comparison established on the way to the take
		exits                      int
		excessOK                   bool
		excessWhy                  string
		excessPos                  token.Pos
	}
	var takes []*takeSite
	siteOf := map[ssa.Instruction]*takeSite{}
	type writeSite struct {
		in      ssa.Instruction
		key     string
		reached bool
		ok      bool
	}
	var writes []*writeSite
	writeOf := map[ssa.Instruction]*writeSite{}
	var refundSites []ssa.Instruction
	ord, ordW := h2aOrd{}, h2aOrd{}
	h2aRegionInstrs(c, pd, func(g *ssa.Function, in ssa.Instruction) {
		if cc := h2aCallOf(in, "flow.take"); cc != nil && len(cc.Args) == 2 {
			if k, _ := fl.kind(cc.Args[0]); k == "conn-in" || k == "stream-in" {
				t := &takeSite{in: in, kind: k, key: ord.key("processData:" + k), amountOK: true, guardOK: true, freshOK: true, excessOK: true, goodOp: map[ssa.Value]token.Token{}}
				takes = append(takes, t)
				siteOf[in] = t
			}
		}
		if isBodyWriteIn(in) {
			w := &writeSite{in: in, key: ordW.key("processData:body-write"), ok: true}
			writes = append(writes, w)
			writeOf[in] = w
		}
		if _, ok := h2aRefundOf(in); ok {
			refundSites = append(refundSites, in)
		}
	})

	paths, complete := h2aPathsOf(c, pd, 50000)
	isFrameLength := func(p *h2aIPath, v h2aCV) bool {
		base, isLen := p.fieldLoad(v, lengthFld)
		return isLen && p.isRootParam(p.rootOf(base, nil), frameIdx)
	}
	isPad := func(p *h2aIPath, v, amount h2aCV) (h2aCV, bool) {
		v = p.strip(v)
		b, isBin := v.v.(*ssa.BinOp)
		if !isBin || b.Op != token.SUB || !p.same(h2aCV{b.X, v.fr}, amount) {
			return h2aCV{}, false
		}
		return p.lenOf(h2aCV{b.Y, v.fr})
	}

	// (a) every take: amount, window test, freshness
	for _, p := range paths {
		for i, e := range p.evs {
			t := siteOf[e.in]
			if t == nil {
				continue
			}
			t.reached = true
			cc := e.in.(ssa.CallInstruction).Common()
			recv, amount := h2aCV{cc.Args[0], e.fr}, h2aCV{cc.Args[1], e.fr}
			if !isFrameLength(p, amount) && t.amountOK {
				t.amountOK, t.amountS = false, core.Render(p.strip(amount).v)
			}
			var guard *h2aOrder
			availAt := -1
			strict := false
			for _, o := range p.orders(i) {
				o := o
				if !p.same(o.lo, amount) {
					continue
				}
				call, cfr := p.callOf(o.hi, "flow.available")
				if call == nil || !p.same(h2aCV{call.Call.Args[0], cfr}, recv) {
					continue
				}
				if o.strict {
					strict = true
					continue
				}
				guard, availAt = &o, p.evIndex(call, cfr)
			}
			if guard == nil {
				if t.guardOK {
					t.guardOK, t.strictOnly = false, strict
					var gs []string
					for _, cm := range p.cmps(i) {
						gs = append(gs, "("+core.Render(cm.x.v)+" "+cm.op.String()+" "+core.Render(cm.y.v)+")")
					}
					t.guardS = strings.Join(gs, " && ")
				}
				continue
			}
			// the comparison instruction and the outcome that leads to the take
			for _, cm := range p.cmps(i) {
				if cm.cond == guard.cond && cm.at == guard.at {
					t.goodOp[cm.cond] = cm.op
				}
			}
			// nothing changes the window between the test and the take
			if availAt < 0 {
				t.freshOK = false
			}
			for j := availAt + 1; j >= 1 && j < i; j++ {
				if isMutator(p.evs[j]) {
					t.freshOK = false
				}
			}
		}
	}
	// the excess outcome of each window test
	for _, p := range paths {
		for _, cm := range p.cmps(-1) {
			for _, t := range takes {
				good, isTest := t.goodOp[cm.cond]
				if !isTest || cm.op != h2aNeg[good] {
					continue
				}
				fail := func(why string) {
					if t.excessOK {
						t.excessOK, t.excessWhy, t.excessPos = false, why, p.evs[cm.at].in.Pos()
					}
				}
				if t.excessPos == token.NoPos && cm.at+1 < len(p.evs) {
					t.excessPos = p.evs[cm.at+1].in.Pos()
				}
				for j := cm.at + 1; j < len(p.evs); j++ {
					if isMutator(p.evs[j]) || isBodyWrite(p.evs[j]) {
						what := "?"
						if v, isV := p.evs[j].in.(ssa.Value); isV {
							what = core.Render(v)
						}
						fail("the excess branch changes a window or delivers data (" + what + ")")
					}
				}
				if !p.Returned() {
					fail("the excess branch panics")
					continue
				}
				t.exits++
				rv := p.RootResults()
				if len(rv) == 0 {
					fail("the excess branch returns no error")
					continue
				}
				e, sid, isErr := p.errOf(rv[len(rv)-1])
				switch {
				case !isErr || !e.hasCode || e.code != flowCode:
					fail("the excess branch returns " + p.exitSig(names) + ", required an error with Code ErrCodeFlowControl")
				case e.streamID != nil:
					base, isSid := p.fieldLoad(sid, sidFld)
					if !isSid || !p.isRootParam(p.rootOf(base, thruHeader), frameIdx) {
						fail("the FLOW_CONTROL_ERROR is raised for stream " + core.Render(sid.v) + ", not for the frame's StreamID")
					}
				}
			}
		}
	}
	for _, t := range takes {
		if !t.reached {
			c.Check("take-guard", t.key, t.in.Pos(), false, "flow.take on the "+t.kind+" window lies on no enumerated path of processData (inside a loop or an anonymous function): the rule cannot relate it to a window test")
			continue
		}
		c.Check("take-amount", t.key, t.in.Pos(), t.amountOK,
			"the "+t.kind+" window is debited by "+t.amountS+"; flow control counts the whole DATA frame payload, padding included (FrameHeader.Length of the frame)")
		detail := "flow.take on the " + t.kind + " window is not preceded on every path by the test `amount <= available()` of the same window; comparisons established on the offending path: " + t.guardS
		if !t.guardOK && t.strictOnly {
			detail = "the window test before flow.take on the " + t.kind + " window is strict (rejects a frame that exactly fills the advertised window); required: accept when Length <= available()"
		}
		c.Check("take-guard", t.key, t.in.Pos(), t.guardOK, detail)
		if !t.guardOK {
			continue
		}
		c.Check("take-guard-fresh", t.key, t.in.Pos(), t.freshOK, "between the available() test and flow.take the window can be changed by another take/add/sendWindowUpdate: the test is stale")
		if t.exits == 0 && t.excessOK {
			t.excessOK, t.excessWhy = false, "the excess branch never returns"
		}
		pos := t.excessPos
		if pos == token.NoPos {
			pos = t.in.Pos()
		}
		c.Check("excess-error", t.key, pos, t.excessOK, "window exceeded on the "+t.kind+" window: "+t.excessWhy)
	}
	c.Min("take-amount", 2)
	c.Min("take-guard", 2)
	c.Min("excess-error", 2)
	// data is delivered only after it has been debited from the stream window
	for _, p := range paths {
		took := false
		for _, e := range p.evs {
			if t := siteOf[e.in]; t != nil && t.kind == "stream-in" {
				took = true
			}
			if w := writeOf[e.in]; w != nil {
				w.reached = true
				if !took {
					w.ok = false
				}
			}
		}
	}
	for _, w := range writes {
		c.Check("accept-after-take", w.key, w.in.Pos(), w.reached && w.ok, "DATA is written to the request body pipe on a path that has not debited the stream's receive window first (the window test would then come after the data was accepted)")
	}
	c.Min("accept-after-take", 1)

	// (b) refund pairing by path enumeration
	type agg struct {
		ok     bool
		detail string
		pos    token.Pos
		n      int
	}
	res := map[string]*agg{}
	note := func(key string, pos token.Pos, ok bool, detail string) {
		a := res[key]
		if a == nil {
			a = &agg{ok: true, pos: pos}
			res[key] = a
		}
		a.n++
		if !ok && a.ok {
			a.ok, a.detail, a.pos = false, detail, pos
		}
	}
	type refundEv struct {
		in       ssa.Instruction
		conn     bool
		st, amnt h2aCV
	}
	padOK := map[ssa.Instruction]bool{} // refund site computing Length-len(x): x is the frame's Data()
	padWhat := map[ssa.Instruction]string{}
	for _, p := range paths {
		p := p
		if !p.Returned() {
			continue
		}
		exit := p.exitSig(names)
		sig := h2aFactSig(p)
		var cur *takeSite
		var curAmount, curBase h2aCV
		var refunds []refundEv
		wrote := false
		var wroteData h2aCV
		flush := func() {
			if cur == nil {
				return
			}
			key := "processData:" + cur.kind + "-take->" + exit
			nConn := func(match func(h2aCV) bool) int {
				n := 0
				for _, r := range refunds {
					if r.conn && match(r.amnt) {
						n++
					}
				}
				return n
			}
			nStream := func(match func(h2aCV) bool) int {
				n := 0
				for _, r := range refunds {
					if !r.conn && p.same(r.st, curBase) && match(r.amnt) {
						n++
					}
				}
				return n
			}
			full := func(v h2aCV) bool { return p.same(v, curAmount) }
			switch {
			case cur.kind == "conn-in":
				note(key, cur.in.Pos(), nConn(full) == 1, fmt.Sprintf("after debiting the connection window for a frame that is not delivered to a stream, a path returns with %d calls of sendWindowUpdate(nil, <same amount>) instead of exactly one: the octets are never given back (or given back twice); path: %s", nConn(full), sig))
			case exit == "return-nil":
				// accepted frame: refund of Length - len(data)
				pos, neg := false, false
				var padV h2aCV
				emptyData := false
				for _, cm := range p.cmps(-1) {
					v, sense, ok := p.posTest(cm)
					if !ok {
						continue
					}
					if _, isP := isPad(p, v, curAmount); isP {
						if sense {
							pos, padV = true, v
						} else {
							neg = true
						}
					}
					if _, isLen := p.lenOf(v); isLen && !sense {
						emptyData = true
					}
				}
				padMatch := func(v h2aCV) bool {
					if padV.v != nil {
						return p.same(v, padV)
					}
					_, ok := isPad(p, v, curAmount)
					return ok
				}
				switch {
				case pos || !neg:
					what := "the path established padding > 0"
					if !pos {
						what = "the path did not test the padding"
					}
					note(key, cur.in.Pos(), nConn(padMatch) == 1, fmt.Sprintf("%s but refunds Length-len(data) %d times on the connection level (exactly once required); path: %s", what, nConn(padMatch), sig))
					note(key, cur.in.Pos(), nStream(padMatch) == 1, fmt.Sprintf("%s but refunds Length-len(data) %d times on the stream level (exactly once required); path: %s", what, nStream(padMatch), sig))
				default:
					anyPad := func(v h2aCV) bool { _, ok := isPad(p, v, curAmount); return ok }
					note(key, cur.in.Pos(), nConn(anyPad) == 0 && nStream(anyPad) == 0, "the path established padding <= 0 and still refunds Length-len(data); path: "+sig)
				}
				if wrote {
					// the refunded padding is computed against the data actually written
					okD := true
					for _, r := range refunds {
						if d, isP := isPad(p, r.amnt, curAmount); isP && !p.same(d, wroteData) {
							okD = false
						}
					}
					note(key, cur.in.Pos(), okD, "the padding refund is computed from a different byte slice than the one written to the body pipe; path: "+sig)
				} else {
					note(key, cur.in.Pos(), emptyData, "an accepted frame is debited but its data is not written to the body pipe although the path did not establish len(data) == 0: octets that are neither delivered nor refunded; path: "+sig)
				}
			default:
				// frame rejected after the debit: the stream is reset, its connection-level share must come back
				partial := func(v h2aCV) bool {
					if full(v) {
						return true
					}
					v = p.strip(v)
					b, isBin := v.v.(*ssa.BinOp)
					return isBin && b.Op == token.SUB && p.same(h2aCV{b.X, v.fr}, curAmount)
				}
				note(key, cur.in.Pos(), nConn(partial) == 1, "after debiting stream and connection windows by Length the frame is rejected ("+exit+") without sendWindowUpdate(nil, Length[-wrote]): the connection window shrinks for good although no handler will ever read these octets; path: "+sig)
			}
			// the pad computation uses the frame's own data
			for _, r := range refunds {
				if d, isP := isPad(p, r.amnt, curAmount); isP {
					call, cfr := p.callOf(d, "DataFrame.Data")
					okD := call != nil && p.isRootParam(h2aCV{call.Call.Args[0], cfr}, frameIdx)
					if prev, seen := padOK[r.in]; !seen || (prev && !okD) {
						padOK[r.in], padWhat[r.in] = okD, core.Render(d.v)
					}
				}
			}
		}
		anyTake, routed := false, false
		for _, e := range p.evs {
			if t := siteOf[e.in]; t != nil {
				flush()
				cc := e.in.(ssa.CallInstruction).Common()
				cur, refunds, wrote = t, nil, false
				curAmount = p.strip(h2aCV{cc.Args[1], e.fr})
				curBase = h2aCV{}
				rcv := p.strip(h2aCV{cc.Args[0], e.fr})
				if fa, isFA := rcv.v.(*ssa.FieldAddr); isFA {
					curBase = p.strip(h2aCV{fa.X, rcv.fr})
				}
				anyTake = true
			}
			if lk, ok := e.in.(*ssa.Lookup); ok {
				if _, isStreams := p.fieldLoad(h2aCV{lk.X, e.fr}, streamsFld); isStreams {
					routed = true
				}
			}
			if r, ok := h2aRefundOf(e.in); ok {
				refunds = append(refunds, refundEv{e.in, p.isNil(h2aCV{r.st, e.fr}), p.strip(h2aCV{r.st, e.fr}), p.strip(h2aCV{r.amount, e.fr})})
			}
			if cc := h2aCallOf(e.in, "bfe_util/pipe.Pipe.Write"); cc != nil && len(cc.Args) == 2 {
				wrote, wroteData = true, p.strip(h2aCV{cc.Args[1], e.fr})
			}
		}
		flush()
		if !anyTake && routed && exit == "return-nil" {
			// a frame that was routed to a stream and accepted without any debit must be empty
			empty := false
			for _, cm := range p.cmps(-1) {
				if v, sense, ok := p.posTest(cm); ok && !sense && isFrameLength(p, v) {
					empty = true
				}
			}
			note("processData:no-take->return-nil", pd.Pos(), empty, "a DATA frame is accepted for a stream without debiting any window although the path did not establish Length == 0; path: "+sig)
		}
	}
	c.Check("refund-path", "processData:paths-enumerated", pd.Pos(), complete && len(paths) > 0, fmt.Sprintf("path enumeration of processData incomplete (%d paths)", len(paths)))
	c.Note("processData: %d paths enumerated", len(paths))
	var keys []string
	for k := range res {
		keys = append(keys, k)
	}
	sort.Strings(keys)
	for _, k := range keys {
		c.Check("refund-path", k, res[k].pos, res[k].ok, res[k].detail)
	}
	c.Min("refund-path", 5)
	for _, in := range refundSites {
		if okD, seen := padOK[in]; seen {
			c.Check("pad-definition", ord.key("processData:pad"), in.Pos(), okD, "the padding refund subtracts len("+padWhat[in]+"), expected len(f.Data()) of the frame being processed")
		}
	}
	c.Min("pad-definition", 2)
}

// h2aFactSig renders the branches taken on a path (for messages only).
func h2aFactSig(p *h2aIPath) string {
	var parts []string
	seen := map[string]bool{}
	for _, f := range p.facts {
		cv, pol := p.boolFact(f)
		s := core.Render(cv.v)
		if !pol {
			s = "!" + s
		}
		if !seen[s] {
			seen[s] = true
			parts = append(parts, s)
		}
	}
	return strings.Join(parts, " & ")
}

// c33NoteBodyRead: on every returning path of noteBodyRead (private helpers
// spliced in) the connection level is refunded with the n that was read; the
// stream level is refunded with the same n, and a path may skip that refund only
// when it has established st.state == HalfClosedRemote, st.state == Closed or
// st == nil - whatever the spelling of the test (negated, De Morgan, a named
// boolean, an early return).
func c33NoteBodyRead(c *core.Ctx, fl *h2aFlows) {
	fn := h2aFn(c, "serverConn.noteBodyRead")
	stateFld := h2aField(c, "stream.state")
	hcr, ok1 := h2aConst(c, "stateHalfClosedRemote")
	closed, ok2 := h2aConst(c, "stateClosed")
	if fn == nil || stateFld == nil || !ok1 || !ok2 || len(fn.Params) != 3 {
		return
	}
	const stIdx, nIdx = 1, 2
	paths, complete := h2aPathsOf(c, fn, 5000)
	okConn, connWhy := len(paths) > 0 && complete, ""
	var otherPos, skipPos token.Pos
	other, skipBad := "", ""
	nStream, nReturn := 0, 0
	for _, p := range paths {
		if !p.Returned() {
			continue
		}
		nReturn++
		conn, stream := 0, 0
		for _, e := range p.evs {
			r, ok := h2aRefundOf(e.in)
			if !ok {
				continue
			}
			amountIsN := p.isRootParam(h2aCV{r.amount, e.fr}, nIdx)
			switch {
			case p.isNil(h2aCV{r.st, e.fr}) && amountIsN:
				conn++
			case p.isRootParam(h2aCV{r.st, e.fr}, stIdx) && amountIsN:
				stream++
			default:
				if other == "" {
					other, otherPos = "noteBodyRead refunds "+core.Render(p.strip(h2aCV{r.amount, e.fr}).v)+" to "+core.Render(p.strip(h2aCV{r.st, e.fr}).v)+"; expected exactly n octets for the stream that was read", e.in.Pos()
				}
			}
		}
		if conn != 1 && okConn {
			okConn, connWhy = false, fmt.Sprintf(" (a path refunds the connection level %d times: %s)", conn, h2aFactSig(p))
		}
		if stream > 0 {
			nStream++
			if stream > 1 && skipBad == "" {
				skipBad, skipPos = "a path refunds the stream level more than once: "+h2aFactSig(p), fn.Pos()
			}
			continue
		}
		// the stream-level refund is skipped: why?
		excused := false
		for _, cm := range p.cmps(-1) {
			if cm.op != token.EQL {
				continue
			}
			for _, xy := range [][2]h2aCV{{cm.x, cm.y}, {cm.y, cm.x}} {
				if p.isRootParam(xy[0], stIdx) && p.isNil(xy[1]) {
					excused = true
				}
				if base, isState := p.fieldLoad(xy[0], stateFld); isState && p.isRootParam(base, stIdx) {
					if k, isK := p.intOf(xy[1]); isK && (k == hcr || k == closed) {
						excused = true
					}
				}
			}
		}
		if !excused && skipBad == "" {
			skipBad, skipPos = "the stream-level refund in noteBodyRead is skipped on a path that has not established state == HalfClosedRemote / state == Closed ("+h2aFactSig(p)+"): an open stream's window would not be re-opened and the client stalls", fn.Pos()
		}
	}
	if other != "" {
		c.Check("body-read-refund", "noteBodyRead:other", otherPos, false, other)
	}
	c.Check("body-read-refund", "noteBodyRead:conn-level", fn.Pos(), okConn && nReturn > 0, "noteBodyRead must call sendWindowUpdate(nil, n) exactly once on every path: octets read by the handler were debited from the connection window whatever the stream's state is now"+connWhy)
	if nStream == 0 {
		c.Check("body-read-refund", "noteBodyRead:stream-level", fn.Pos(), false, "noteBodyRead has no sendWindowUpdate(st, n) with the n that was read")
		return
	}
	if skipPos == token.NoPos {
		skipPos = fn.Pos()
	}
	c.Check("body-read-refund", "noteBodyRead:stream-level", skipPos, skipBad == "", skipBad)
}

func c33SendWindowUpdate(c *core.Ctx) {
	fn := h2aFn(c, "serverConn.sendWindowUpdate")
	if fn == nil || len(fn.Params) != 3 {
		return
	}
	st, n := fn.Params[1], fn.Params[2]
	const max31 = 1<<31 - 1
	// derives: v is n or a phi over n and (phi - K)
	var isRest func(v ssa.Value, seen map[ssa.Value]bool) bool
	isRest = func(v ssa.Value, seen map[ssa.Value]bool) bool {
		v = core.StripConv(v)
		if v == ssa.Value(n) {
			return true
		}
		if seen[v] {
			return true
		}
		seen[v] = true
		switch x := v.(type) {
		case *ssa.Phi:
			for _, e := range x.Edges {
				if !isRest(e, seen) {
					return false
				}
			}
			return true
		case *ssa.BinOp:
			if _, isK := h2aInt(x.Y); x.Op == token.SUB && isK {
				return isRest(x.X, seen)
			}
		}
		return false
	}
	ord := h2aOrd{}
	var restCall ssa.Instruction
	nCalls := 0
	core.Instrs(fn, func(in ssa.Instruction) {
		cc := h2aCallOf(in, "serverConn.sendWindowUpdate32")
		if cc == nil || len(cc.Args) != 3 {
			return
		}
		nCalls++
		c.Check("update-split", ord.key("sendWindowUpdate:level"), in.Pos(), cc.Args[1] == ssa.Value(st), "sendWindowUpdate forwards the update to "+core.Render(cc.Args[1])+" instead of the stream it was asked for")
		if k, isK := h2aInt(cc.Args[2]); isK {
			// constant chunk: the running remainder must be reduced by exactly k, under remainder >= k
			okK := k > 0 && k <= max31
			okDec, okGuard := false, false
			core.Instrs(fn, func(x ssa.Instruction) {
				b, isBin := x.(*ssa.BinOp)
				if !isBin || b.Op != token.SUB || x.Block() != in.Block() {
					return
				}
				if ky, ok := h2aInt(b.Y); ok && ky == k && isRest(b.X, map[ssa.Value]bool{}) {
					// the decremented value must flow back into the remainder
					if refs := b.Referrers(); refs != nil {
						for _, r := range *refs {
							if _, isPhi := r.(*ssa.Phi); isPhi {
								okDec = true
							}
						}
					}
					for _, g := range core.GuardsAt(in.Block()) {
						if r, isRel := h2aRelOf(g); isRel && h2aSame(r.hi, b.X) {
							if lo, ok := h2aInt(r.lo); ok && (lo >= k || (r.strict && lo >= k-1)) {
								okGuard = true
							}
						}
					}
				}
			})
			c.Check("update-split", ord.key("sendWindowUpdate:chunk"), in.Pos(), okK && okDec && okGuard,
				fmt.Sprintf("a constant increment of %d is sent; it must be within 1..2^31-1, be sent only while the remainder is >= it, and the remainder must be reduced by exactly it (valid=%v, remainder reduced by the same constant=%v, guarded=%v)", k, okK, okDec, okGuard))
			return
		}
		// remainder: int32(rest) under rest <= 2^31-1
		okRest := isRest(cc.Args[2], map[ssa.Value]bool{})
		okBound := false
		for _, g := range core.GuardsAt(in.Block()) {
			if r, isRel := h2aRelOf(g); isRel && h2aSame(r.lo, cc.Args[2]) {
				if hi, ok := h2aInt(r.hi); ok && (hi <= max31 || (r.strict && hi <= max31+1)) {
					okBound = true
				}
			}
		}
		restCall = in
		c.Check("update-split", ord.key("sendWindowUpdate:remainder"), in.Pos(), okRest && okBound,
			fmt.Sprintf("the final increment %s must be what is left of n and be known to be <= 2^31-1 (derived from n=%v, bounded=%v)", core.Render(cc.Args[2]), okRest, okBound))
	})
	okAll := restCall != nil && core.MustPass(fn, nil, func(x ssa.Instruction) bool { return x == restCall }) == nil
	c.Check("update-split", "sendWindowUpdate:remainder-every-path", fn.Pos(), okAll, "a path through sendWindowUpdate returns without sending what is left of n")
	c.Min("update-split", 5)
}

// c33SendWindowUpdate32, over the returning paths of the function with its
// private helpers spliced in: what is announced in the WINDOW_UPDATE frame and
// what is credited to the local window agree in amount and level.
func c33SendWindowUpdate32(c *core.Ctx, fl *h2aFlows) {
	fn := h2aFn(c, "serverConn.sendWindowUpdate32")
	wuN := h2aField(c, "writeWindowUpdate.n")
	wuID := h2aField(c, "writeWindowUpdate.streamID")
	idFld := h2aField(c, "stream.id")
	fwStream := h2aField(c, "frameWriteMsg.stream")
	if fn == nil || wuN == nil || wuID == nil || idFld == nil || fwStream == nil || len(fn.Params) != 3 {
		return
	}
	const stIdx, nIdx = 1, 2
	type agg struct {
		ok     bool
		n      int
		detail string
		pos    token.Pos
	}
	res := map[string]*agg{}
	note := func(key string, pos token.Pos, ok bool, detail string) {
		a := res[key]
		if a == nil {
			a = &agg{ok: true, pos: pos}
			res[key] = a
		}
		a.n++
		if !ok && a.ok {
			a.ok, a.detail, a.pos = false, detail, pos
		}
	}
	isAnnounce := h2aIsCall("serverConn.writeFrame")
	paths, complete := h2aPathsOf(c, fn, 5000)
	bad := ""
	nAnn, nCred := 0, 0
	for _, p := range paths {
		// st == nil established before event i?
		stIsNil := func(i int) (isNil, known bool) {
			for _, cm := range p.cmps(i) {
				if cm.op != token.EQL && cm.op != token.NEQ {
					continue
				}
				if (p.isRootParam(cm.x, stIdx) && p.isNil(cm.y)) || (p.isRootParam(cm.y, stIdx) && p.isNil(cm.x)) {
					return cm.op == token.EQL, true
				}
			}
			return false, false
		}
		a, cr := false, false
		for i, e := range p.evs {
			switch x := e.in.(type) {
			case *ssa.Store:
				addr, val := h2aCV{x.Addr, e.fr}, h2aCV{x.Val, e.fr}
				if _, ok := p.fieldAddr(addr, wuN); ok {
					nAnn++
					note("sendWindowUpdate32:announce-amount", x.Pos(), p.isRootParam(val, nIdx), "the WINDOW_UPDATE frame announces "+core.Render(p.strip(val).v)+", not the n that is credited to the local window")
				}
				if _, ok := p.fieldAddr(addr, fwStream); ok {
					note("sendWindowUpdate32:announce-queue", x.Pos(), p.isRootParam(val, stIdx), "the WINDOW_UPDATE write is queued for "+core.Render(p.strip(val).v)+" instead of the stream being updated")
				}
				if _, ok := p.fieldAddr(addr, wuID); ok {
					// streamID: st.id where st != nil, 0 where st == nil; the value is the one
					// selected on this path, the nil test any branch taken before the frame is built
					isNil, known := stIsNil(i)
					okID := false
					if k, isK := p.intOf(val); isK {
						okID = k == 0 && known && isNil
					} else if base, isID := p.fieldLoad(val, idFld); isID {
						okID = p.isRootParam(base, stIdx) && known && !isNil
					}
					note("sendWindowUpdate32:announce-stream", x.Pos(), okID, "the WINDOW_UPDATE frame's stream id is "+core.Render(p.strip(val).v)+"; required: 0 exactly when st == nil, st.id otherwise")
				}
			case ssa.CallInstruction:
				if isAnnounce(e.in) {
					a = true
				}
				cc := h2aCallOf(e.in, "flow.add")
				if cc == nil || len(cc.Args) != 2 {
					continue
				}
				cr = true
				recv := p.strip(h2aCV{cc.Args[0], e.fr})
				kind, base := fl.kind(recv.v)
				isNil, known := stIsNil(i)
				okLvl := false
				switch kind {
				case "conn-in":
					okLvl = known && isNil
				case "stream-in":
					okLvl = known && !isNil && p.isRootParam(h2aCV{base, recv.fr}, stIdx)
				}
				nCred++
				note("sendWindowUpdate32:credit-"+kind, e.in.Pos(), okLvl && p.isRootParam(h2aCV{cc.Args[1], e.fr}, nIdx),
					"sendWindowUpdate32 credits "+core.Render(p.strip(h2aCV{cc.Args[1], e.fr}).v)+" to the "+kind+" window "+core.Render(recv.v)+"; required: exactly n, to serverConn.inflow when st == nil and to st.inflow otherwise (the level the WINDOW_UPDATE frame names)")
			}
		}
		if !p.Returned() {
			continue
		}
		// every returning path: announce <=> credit; neither only for n == 0
		zero := false
		for _, cm := range p.cmps(-1) {
			if cm.op == token.EQL {
				if kx, okx := p.intOf(cm.y); okx && kx == 0 && p.isRootParam(cm.x, nIdx) {
					zero = true
				}
				if ky, oky := p.intOf(cm.x); oky && ky == 0 && p.isRootParam(cm.y, nIdx) {
					zero = true
				}
			}
		}
		if a != cr || (!a && !zero) {
			if bad == "" {
				bad = fmt.Sprintf("announce=%v credit=%v n==0 established=%v on path: %s", a, cr, zero, h2aFactSig(p))
			}
		}
	}
	var keys []string
	for k := range res {
		keys = append(keys, k)
	}
	sort.Strings(keys)
	for _, k := range keys {
		c.Check("announce-account", k, res[k].pos, res[k].ok, res[k].detail)
	}
	okSites := res["sendWindowUpdate32:announce-amount"] != nil && res["sendWindowUpdate32:credit-conn-in"] != nil && res["sendWindowUpdate32:credit-stream-in"] != nil
	c.Check("announce-account", "sendWindowUpdate32:sites", fn.Pos(), okSites, fmt.Sprintf("expected the increment of the frame to be set and both levels to be credited (found %d and %d sites on the enumerated paths)", nAnn, nCred))
	c.Check("announce-account", "sendWindowUpdate32:announce-iff-credit", fn.Pos(), complete && len(paths) > 0 && bad == "",
		"a returning path of sendWindowUpdate32 announces without crediting, credits without announcing, or does neither although n != 0: "+bad)
	c.Min("announce-account", 7)
}

// every stream-level refund in the package is preceded, on every path of the
// reviewed function it belongs to, by a connection-level refund of the same amount.
func c33StreamNeedsConn(c *core.Ctx) {
	// reviewed functions (with their private helpers) that refund at stream level
	roots := map[*ssa.Function]bool{}
	var order []*ssa.Function
	for _, fn := range c.P.SrcFuncs(h2aPkg) {
		has := false
		core.Instrs(fn, func(in ssa.Instruction) {
			if r, ok := h2aRefundOf(in); ok && !h2aIsNil(r.st) {
				has = true
			}
		})
		if !has || h2aShort(fn) == "serverConn.sendWindowUpdate" {
			continue // sendWindowUpdate forwards one level, judged by update-split
		}
		tops := []*ssa.Function{fn}
		if owners, ok := h2aOwners(c, fn); ok {
			tops = nil
			for _, o := range owners {
				if f := c.P.Func(h2aPkg, o); f != nil && f.Blocks != nil {
					tops = append(tops, f)
				}
			}
		}
		for _, t := range tops {
			if h2aShort(t) != "serverConn.sendWindowUpdate" && !roots[t] {
				roots[t] = true
				order = append(order, t)
			}
		}
	}
	ord := h2aOrd{}
	for _, root := range order {
		name := h2aShort(root)
		paths, complete := h2aPathsOf(c, root, 50000)
		type site struct {
			in      ssa.Instruction
			ok      bool
			amount  string
			reached bool
			asConn  bool // the site passed a nil stream on some path (a helper that serves both levels)
		}
		sites := map[ssa.Instruction]*site{}
		var sitesInOrder []*site
		h2aRegionInstrs(c, root, func(g *ssa.Function, in ssa.Instruction) {
			if r, ok := h2aRefundOf(in); ok && !h2aIsNil(r.st) {
				s := &site{in: in, ok: true, amount: core.Render(r.amount)}
				sites[in] = s
				sitesInOrder = append(sitesInOrder, s)
			}
		})
		for _, p := range paths {
			var conn []h2aCV
			for _, e := range p.evs {
				r, ok := h2aRefundOf(e.in)
				if !ok {
					continue
				}
				amount := p.strip(h2aCV{r.amount, e.fr})
				if p.isNil(h2aCV{r.st, e.fr}) {
					conn = append(conn, amount)
					if s := sites[e.in]; s != nil {
						s.asConn = true
					}
					continue
				}
				s := sites[e.in]
				if s == nil {
					continue
				}
				s.reached = true
				found := false
				for _, a := range conn {
					if p.same(a, amount) {
						found = true
					}
				}
				if !found {
					s.ok = false
				}
			}
		}
		for _, s := range sitesInOrder {
			if !s.reached && s.asConn {
				continue
			}
			c.Check("stream-needs-conn", ord.key(name), s.in.Pos(), complete && s.reached && s.ok, "a stream-level window refund of "+s.amount+" in "+name+" is not preceded on every path by a connection-level refund of the same amount: every octet debited from a stream window was also debited from the connection window")
		}
	}
	c.Min("stream-needs-conn", 2)
}

func c33ReadNotify(c *core.Ctx) {
	rd := h2aFn(c, "RequestBody.Read")
	pipeFld := h2aField(c, "RequestBody.pipe")
	strFld := h2aField(c, "RequestBody.stream")
	if rd != nil && pipeFld != nil && strFld != nil && len(rd.Params) >= 1 {
		// over the paths of Read with its private helpers spliced in: every octet
		// count obtained from the body pipe is reported, unless known to be <= 0
		isPipeRead := h2aIsCall("bfe_util/pipe.Pipe.Read")
		nReads := 0
		var readPos token.Pos
		h2aRegionInstrs(c, rd, func(g *ssa.Function, in ssa.Instruction) {
			if _, isCall := in.(*ssa.Call); isCall && isPipeRead(in) {
				nReads++
				readPos = in.Pos()
			}
		})
		c.Check("read-notify", "RequestBody.Read:pipe-reads", rd.Pos(), nReads >= 1, fmt.Sprintf("expected a pipe.Read in RequestBody.Read, found %d", nReads))
		if nReads >= 1 {
			paths, complete := h2aPathsOf(c, rd, 5000)
			okOwn, okArgs, nNotify, bad := true, true, 0, ""
			ownS, argsS := "", ""
			var notifyPos token.Pos
			for _, p := range paths {
				// the reads of this path, each with what follows it up to the next read
				var readAt []int
				for i, e := range p.evs {
					if _, isCall := e.in.(*ssa.Call); isCall && isPipeRead(e.in) {
						readAt = append(readAt, i)
					}
				}
				for k, i := range readAt {
					e := p.evs[i]
					call := e.in.(*ssa.Call)
					base, isPipe := p.fieldLoad(h2aCV{call.Call.Args[0], e.fr}, pipeFld)
					if !isPipe || !p.isRootParam(base, 0) {
						okOwn, ownS = false, core.Render(p.strip(h2aCV{call.Call.Args[0], e.fr}).v)
					}
					isN := func(v h2aCV) bool {
						v = p.strip(v)
						x, ok := v.v.(*ssa.Extract)
						return ok && x.Index == 0 && x.Tuple == ssa.Value(call) && v.fr == e.fr
					}
					end := len(p.evs)
					if k+1 < len(readAt) {
						end = readAt[k+1]
					}
					notified := false
					for j := i + 1; j < end; j++ {
						cc := h2aCallOf(p.evs[j].in, "serverConn.noteBodyReadFromHandler")
						if cc == nil || len(cc.Args) != 3 {
							continue
						}
						nNotify++
						notifyPos = p.evs[j].in.Pos()
						sb, isStr := p.fieldLoad(h2aCV{cc.Args[1], p.evs[j].fr}, strFld)
						if isN(h2aCV{cc.Args[2], p.evs[j].fr}) && isStr && p.isRootParam(sb, 0) {
							notified = true
						} else {
							okArgs, argsS = false, "("+core.Render(p.strip(h2aCV{cc.Args[1], p.evs[j].fr}).v)+", "+core.Render(p.strip(h2aCV{cc.Args[2], p.evs[j].fr}).v)+")"
						}
					}
					if !p.Returned() || notified {
						continue
					}
					none := false
					for _, cm := range p.cmps(-1) {
						if v, sense, ok := p.posTest(cm); ok && !sense && isN(v) && cm.at > i {
							none = true
						}
					}
					if !none && bad == "" {
						bad = h2aFactSig(p)
					}
				}
			}
			c.Check("read-notify", "RequestBody.Read:reads-own-pipe", readPos, okOwn, "RequestBody.Read reads from "+ownS+", not from its own pipe")
			if nNotify > 0 {
				c.Check("read-notify", "RequestBody.Read:notify-args", notifyPos, okArgs, "RequestBody.Read reports "+argsS+"; expected its own stream and the byte count returned by pipe.Read")
			}
			c.Check("read-notify", "RequestBody.Read:every-read-reported", readPos, complete && bad == "",
				"a path returns octets from the body pipe to the handler without reporting them through noteBodyReadFromHandler and without having established n <= 0: they are never refunded; path: "+bad)
		}
	}
	// noteBodyReadFromHandler forwards (st, n) unchanged on bodyReadCh (also when
	// the message is built or sent in a private helper that receives st and n)
	if fn := h2aFn(c, "serverConn.noteBodyReadFromHandler"); fn != nil && len(fn.Params) == 3 {
		mSt, mN, ch := h2aField(c, "bodyReadMsg.st"), h2aField(c, "bodyReadMsg.n"), h2aField(c, "serverConn.bodyReadCh")
		okSt, okN, okSend := false, false, false
		isParam := func(v ssa.Value, i int) bool {
			return h2aEvery(c, v, func(x ssa.Value) bool { return core.StripConv(x) == ssa.Value(fn.Params[i]) }, 3)
		}
		h2aRegionInstrs(c, fn, func(g *ssa.Function, in ssa.Instruction) {
			switch x := in.(type) {
			case *ssa.Store:
				if _, ok := h2aFieldAddrOf(x.Addr, mSt); ok {
					okSt = isParam(x.Val, 1)
				}
				if _, ok := h2aFieldAddrOf(x.Addr, mN); ok {
					okN = isParam(x.Val, 2)
				}
			case *ssa.Select:
				for _, s := range x.States {
					if _, isCh := h2aFieldLoad(s.Chan, ch); isCh && s.Send != nil {
						okSend = true
					}
				}
			case *ssa.Send:
				if _, isCh := h2aFieldLoad(x.Chan, ch); isCh {
					okSend = true
				}
			}
		})
		c.Check("read-notify", "noteBodyReadFromHandler:forwards", fn.Pos(), okSt && okN && okSend, fmt.Sprintf("noteBodyReadFromHandler must send bodyReadMsg{st, n} with its own arguments on sc.bodyReadCh (st=%v n=%v sent=%v)", okSt, okN, okSend))
	}
	// serve hands the received message to noteBodyRead unchanged: every call of
	// noteBodyRead (reviewed callers: serve and its new private helpers, see
	// refund-callers) passes the st and n of one bodyReadMsg
	if fn := h2aFn(c, "serverConn.serve"); fn != nil {
		mSt, mN := h2aField(c, "bodyReadMsg.st"), h2aField(c, "bodyReadMsg.n")
		n := 0
		for _, f := range c.P.SrcFuncs(h2aPkg) {
			core.Instrs(f, func(in ssa.Instruction) {
				cc := h2aCallOf(in, "serverConn.noteBodyRead")
				if cc == nil || len(cc.Args) != 3 {
					return
				}
				n++
				b1, ok1 := h2aFieldLoad(cc.Args[1], mSt)
				b2, ok2 := h2aFieldLoad(cc.Args[2], mN)
				c.Check("read-notify", "serve:dispatch", in.Pos(), ok1 && ok2 && h2aSame(b1, b2), "serve calls noteBodyRead("+core.Render(cc.Args[1])+", "+core.Render(cc.Args[2])+"); expected the st and n of one received bodyReadMsg")
			})
		}
		if n == 0 {
			c.Check("read-notify", "serve:dispatch", fn.Pos(), false, "serve never calls noteBodyRead: handler reads are not refunded")
		}
	}
	c.Min("read-notify", 6)
}

func c33WindowInit(c *core.Ctx, fl *h2aFlows) {
	iswFld := h2aField(c, "stream.isw")
	setID, setVal := h2aField(c, "Setting.ID"), h2aField(c, "Setting.Val")
	sIW, ok1 := h2aConst(c, "SettingInitialWindowSize")
	defWin, ok2 := h2aConst(c, "initialWindowSize")
	if iswFld == nil || setID == nil || setVal == nil || !ok1 || !ok2 {
		return
	}
	isSrc := func(v ssa.Value) bool {
		call, ok := core.StripConv(v).(*ssa.Call)
		return ok && core.CallIs(&call.Call, h2aPkg+".Server.initialStreamRecvWindowSize")
	}
	// advertised value in serve (or a private helper of it that builds the SETTINGS)
	var adv ssa.Value
	if fn := h2aFn(c, "serverConn.serve"); fn != nil {
		for _, g := range h2aRegionOf(c, fn) {
			g := g
			core.Instrs(g, func(in ssa.Instruction) {
				st, ok := in.(*ssa.Store)
				if !ok {
					return
				}
				base, ok := h2aFieldAddrOf(st.Addr, setID)
				if k, isK := h2aInt(st.Val); !ok || !isK || k != sIW {
					return
				}
				// the Val store on the same element
				core.Instrs(g, func(in2 ssa.Instruction) {
					st2, ok := in2.(*ssa.Store)
					if !ok {
						return
					}
					if b2, ok := h2aFieldAddrOf(st2.Addr, setVal); ok && b2 == base {
						adv = st2.Val
					}
				})
			})
		}
		c.Check("window-init", "serve:advertised-stream-window", fn.Pos(), adv != nil && isSrc(adv), "the initial SETTINGS frame must advertise SETTINGS_INITIAL_WINDOW_SIZE = Server.initialStreamRecvWindowSize(rule); advertises "+core.Render(adv))
	}
	if fn := h2aFn(c, "serverConn.processHeaders"); fn != nil {
		var isw ssa.Value
		linked, credited := false, false
		h2aRegionInstrs(c, fn, func(g *ssa.Function, in ssa.Instruction) {
			switch x := in.(type) {
			case *ssa.Store:
				if _, ok := h2aFieldAddrOf(x.Addr, iswFld); ok {
					isw = x.Val
				}
				if fb, ok := h2aFieldAddrOf(x.Addr, fl.flowConn); ok {
					if k, _ := fl.kind(fb); k == "stream-in" {
						vk, _ := fl.kind(x.Val)
						linked = vk == "conn-in"
						c.Check("window-init", "processHeaders:stream-linked", x.Pos(), linked, "stream.inflow.conn is set to "+core.Render(x.Val)+", not to the connection's receive window: stream-level takes would not debit the connection window")
					}
				}
			case ssa.CallInstruction:
				cc := h2aCallOf(in, "flow.add")
				if cc == nil || len(cc.Args) != 2 {
					return
				}
				if k, base := fl.kind(cc.Args[0]); k == "stream-in" {
					b, isIsw := h2aFieldLoad(cc.Args[1], iswFld)
					credited = true
					c.Check("window-init", "processHeaders:stream-credit", in.Pos(), isIsw && h2aSame(b, base), "a new stream's receive window starts at "+core.Render(cc.Args[1])+"; it must start at the advertised per-stream window (stream.isw of the same stream)")
				}
			}
		})
		if !linked {
			c.Check("window-init", "processHeaders:stream-linked", fn.Pos(), false, "processHeaders does not link the new stream's inflow to serverConn.inflow")
		}
		if !credited {
			c.Check("window-init", "processHeaders:stream-credit", fn.Pos(), false, "processHeaders does not credit the new stream's receive window")
		}
		// the same expression over the same receiver in both functions (compared by
		// structure: field objects, callee, parameter position - not by local names)
		okSame := isw != nil && adv != nil && isSrc(isw) && h2aSameShape(isw, adv, 0)
		c.Check("window-init", "processHeaders:isw-source", fn.Pos(), okSame, "stream.isw is "+core.Render(isw)+" while SETTINGS advertised "+core.Render(adv)+": the accounted window differs from the advertised one")
	}
	if fn := h2aFn(c, "Server.ServeConn"); fn != nil {
		found := false
		h2aRegionInstrs(c, fn, func(g *ssa.Function, in ssa.Instruction) {
			cc := h2aCallOf(in, "flow.add")
			if cc == nil || len(cc.Args) != 2 {
				return
			}
			if k, _ := fl.kind(cc.Args[0]); k == "conn-in" {
				found = true
				v, isK := h2aInt(cc.Args[1])
				c.Check("window-init", "ServeConn:conn-credit", in.Pos(), isK && v == defWin && defWin == 65535, "the connection receive window starts at "+core.Render(cc.Args[1])+"; RFC 7540 6.9.2 fixes the initial connection window at 65535 (larger windows must be announced by WINDOW_UPDATE)")
			}
		})
		if !found {
			c.Check("window-init", "ServeConn:conn-credit", fn.Pos(), false, "ServeConn does not initialise serverConn.inflow")
		}
	}
	// body buffer capacity = advertised stream window
	if fn := h2aFn(c, "serverConn.newWriterAndRequest"); fn != nil {
		pipeFld := h2aField(c, "RequestBody.pipe")
		ord := h2aOrd{}
		h2aRegionInstrs(c, fn, func(g *ssa.Function, in ssa.Instruction) {
			st, ok := in.(*ssa.Store)
			if !ok || pipeFld == nil {
				return
			}
			if _, ok := h2aFieldAddrOf(st.Addr, pipeFld); !ok {
				return
			}
			// the pipe stored: a constructor call, or the constructor selected by the
			// branches that merge here (`p := A; if !default { p = B }; body.pipe = p`)
			type cand struct {
				v  ssa.Value
				gs []core.Guard
			}
			cands := []cand{{st.Val, c.P.GuardsAtCtx(st.Block())}}
			if phi, isPhi := st.Val.(*ssa.Phi); isPhi {
				cands = nil
				for i, e := range phi.Edges {
					cands = append(cands, cand{e, core.GuardsOnEdge(phi.Block().Preds[i], phi.Block())})
				}
			}
			okP := len(cands) > 0
			for _, cd := range cands {
				call, isCall := cd.v.(*ssa.Call)
				okC := false
				switch {
				case isCall && core.CallIs(&call.Call, "bfe_util/pipe.NewPipeWithSize"):
					_, okC = h2aFieldLoad(call.Call.Args[0], iswFld)
				case isCall && core.CallIs(&call.Call, "bfe_util/pipe.NewPipeFromBufferPool"):
					gs := append(append([]core.Guard(nil), cd.gs...), c.P.GuardsAtCtx(call.Block())...)
					for _, g := range gs {
						gc, ok := g.Cond.(*ssa.Call)
						if ok && g.Pol && core.CallIs(&gc.Call, h2aPkg+".stream.defaultStreamWindow") {
							okC = true
						}
					}
				}
				if !okC {
					okP = false
				}
			}
			c.Check("window-init", ord.key("newWriterAndRequest:body-buffer"), st.Pos(), okP, "the request body pipe is created by "+core.Render(st.Val)+"; its capacity must be the advertised stream window (NewPipeWithSize(st.isw), or the fixed initialWindowSize pool only under defaultStreamWindow())")
		})
	}
	// defaultStreamWindow reports true only for isw == 0 or isw == initialWindowSize:
	// on every returning path the result is false, or true after one of the two
	// equalities was established, or is itself one of the two equalities
	if fn := h2aFn(c, "stream.defaultStreamWindow"); fn != nil && len(fn.Params) == 1 {
		paths, complete := h2aPathsOf(c, fn, 2000)
		ok, seenTrue := complete && len(paths) > 0, false
		for _, p := range paths {
			rv := p.RootResults()
			if !p.Returned() || len(rv) != 1 {
				continue
			}
			isEq := func(cm h2aCmp) bool {
				if cm.op != token.EQL {
					return false
				}
				for _, xy := range [][2]h2aCV{{cm.x, cm.y}, {cm.y, cm.x}} {
					base, isIsw := p.fieldLoad(xy[0], iswFld)
					k, isK := p.intOf(xy[1])
					if isIsw && p.isRootParam(base, 0) && isK && (k == 0 || k == defWin) {
						return true
					}
				}
				return false
			}
			// the result on this path with negations folded: a constant, or a condition
			res, pol := p.boolFact(h2aFact{cond: rv[0], taken: true})
			if k, isK := res.v.(*ssa.Const); isK {
				if (core.Render(k) == "true") != pol {
					continue
				}
				seenTrue = true
				est := false
				for _, cm := range p.cmps(-1) {
					if isEq(cm) {
						est = true
					}
				}
				if !est {
					ok = false
				}
				continue
			}
			seenTrue = true
			if cm, isCmp := p.cmpOf(rv[0], true, 0); !isCmp || !isEq(cm) {
				ok = false
			}
		}
		if seenTrue {
			c.Check("window-init", "defaultStreamWindow:true#0", fn.Pos(), ok, "defaultStreamWindow() reports the default although isw is not known to be 0 or initialWindowSize: a 65535-byte pooled buffer would back a larger advertised window")
		}
	}
	c.Min("window-init", 8)
}

// (h) closing a stream gives back, at connection level, what is still buffered.
func c33CloseRefund(c *core.Ctx) {
	fn := h2aFn(c, "serverConn.closeStream")
	bodyFld := h2aField(c, "stream.body")
	if fn == nil || bodyFld == nil || len(fn.Params) < 2 {
		return
	}
	st := fn.Params[1]
	var closers []ssa.Instruction
	core.Instrs(fn, func(in ssa.Instruction) {
		if cc := h2aCallOf(in, "bfe_util/pipe.Pipe.CloseWithError", "bfe_util/pipe.Pipe.BreakWithError", "bfe_util/pipe.Pipe.CloseWithErrorAndCode"); cc != nil {
			if b, ok := h2aFieldLoad(cc.Args[0], bodyFld); ok && b == ssa.Value(st) {
				closers = append(closers, in)
			}
		}
	})
	if len(closers) == 0 {
		c.Check("close-refund", "closeStream:unread-body", fn.Pos(), false, "closeStream no longer closes the stream's body pipe; the rule cannot locate where unread octets are discarded")
		return
	}
	// a connection-level refund whose amount is computed from st.body, before the pipe is closed
	fromBody := func(v ssa.Value) bool {
		seen := map[ssa.Value]bool{}
		var walk func(v ssa.Value, d int) bool
		walk = func(v ssa.Value, d int) bool {
			if v == nil || d > 6 || seen[v] {
				return false
			}
			seen[v] = true
			if b, ok := h2aFieldLoad(v, bodyFld); ok && b == ssa.Value(st) {
				return true
			}
			if in, ok := v.(ssa.Instruction); ok {
				for _, op := range in.Operands(nil) {
					if *op != nil && walk(*op, d+1) {
						return true
					}
				}
			}
			return false
		}
		return walk(v, 0)
	}
	for i, cl := range closers {
		ok := false
		core.Instrs(fn, func(in ssa.Instruction) {
			r, isR := h2aRefundOf(in)
			if !isR || !r.conn || !fromBody(r.amount) {
				return
			}
			if core.Dominates(in, cl) {
				ok = true
				return
			}
			// `if n := <unread>; n > 0 { refund(n) }`: skipped only when there is nothing to give back
			own := 0
			for _, g := range core.GuardsAt(in.Block()) {
				if g.If == nil || g.If.Block() == cl.Block() || !core.Dominates(g.If, cl) {
					continue
				}
				shared := false
				for _, h := range core.GuardsAt(cl.Block()) {
					if h.If == g.If {
						shared = true
					}
				}
				if shared {
					continue
				}
				v, sense, isPos := h2aPosTest(g.Cond)
				if !isPos || sense != g.Pol || !h2aSame(v, r.amount) {
					return
				}
				own++
			}
			if own > 0 {
				ok = true
			}
		})
		key := "closeStream:unread-body"
		if i > 0 {
			key = fmt.Sprintf("%s#%d", key, i+1)
		}
		c.Check("close-refund", key, cl.Pos(), ok, "closeStream discards the stream's body pipe without first giving back, at connection level, the octets still buffered in it (no sendWindowUpdate(nil, <unread length of st.body>) before the pipe is closed): DATA that was debited from serverConn.inflow but is never read by the handler is never refunded, so the connection window shrinks with every request whose body is not fully read")
	}
	c.Min("close-refund", 1)
}
