package rules

import (
	"fmt"
	"go/token"
	"go/types"
	"sort"
	"strings"

	"golang.org/x/tools/go/ssa"

	"verif/internal/core"
)

// Third-round rules of C19 and C22: exhaustiveness of the pair scan of the
// merge step of the IP dictionary, and "the pending read error is delivered
// after the buffered data" in the buffered reader.

// ---------------------------------------------------------------- shared

// uuConstIs: v is the integer constant k.
func uuConstIs(v ssa.Value, k int64) bool {
	n, ok := uuConstInt(v)
	return ok && n == k
}

// uuPlusOne: v is X + 1 (either operand order); returns X.
func uuPlusOne(v ssa.Value) (ssa.Value, bool) {
	b, ok := v.(*ssa.BinOp)
	if !ok || b.Op != token.ADD {
		return nil, false
	}
	if uuConstIs(b.Y, 1) {
		return b.X, true
	}
	if uuConstIs(b.X, 1) {
		return b.Y, true
	}
	return nil, false
}

// uuScanLoop describes a loop as an index scan `for iv := init; iv < bound; iv++`.
type uuScanLoop struct {
	l        *core.Loop
	fn       *ssa.Function
	ord      int
	pos      token.Pos
	iv       ssa.Value // the value that denotes the current index inside the body
	fromZero bool      // the scan starts at index 0
	after    ssa.Value // the scan starts at after+1
	bound    ssa.Value // the scan runs while iv < bound
	shapeErr string    // why the loop is not a scan the rule can follow
	early    []string  // exits that do not come from the loop condition
	earlyPos token.Pos
}

// uuScanLoops analyses every natural loop of fn.
func uuScanLoops(fn *ssa.Function) []*uuScanLoop {
	var out []*uuScanLoop
	loops := core.Loops(fn)
	sort.Slice(loops, func(i, j int) bool { return loops[i].Header.Index < loops[j].Header.Index })
	for i, l := range loops {
		s := &uuScanLoop{l: l, fn: fn, ord: i + 1, pos: fn.Pos()}
		out = append(out, s)
		// exits that are not the loop condition
		var blocks []*ssa.BasicBlock
		for b := range l.Body {
			blocks = append(blocks, b)
		}
		sort.Slice(blocks, func(i, j int) bool { return blocks[i].Index < blocks[j].Index })
		for _, b := range blocks {
			if b == l.Header || len(b.Instrs) == 0 {
				continue
			}
			last := b.Instrs[len(b.Instrs)-1]
			leaves := len(b.Succs) == 0
			for _, sc := range b.Succs {
				if !l.Body[sc] {
					leaves = true
				}
			}
			if !leaves {
				continue
			}
			what := "a jump out of the loop"
			switch x := last.(type) {
			case *ssa.If:
				what = "a branch on " + core.Render(x.Cond)
				if p := x.Cond.Pos(); p != token.NoPos {
					s.earlyPos = p
				}
			case *ssa.Return:
				what = "a return"
				s.earlyPos = x.Pos()
			case *ssa.Panic:
				what = "a panic"
				s.earlyPos = x.Pos()
			}
			s.early = append(s.early, what)
		}
		// the loop condition
		h := l.Header
		iff, ok := h.Instrs[len(h.Instrs)-1].(*ssa.If)
		if !ok || len(h.Succs) != 2 {
			s.shapeErr = "the loop has no condition in its header (its termination depends on data inside the body)"
			continue
		}
		if p := iff.Cond.Pos(); p != token.NoPos {
			s.pos = p
		}
		in0, in1 := l.Body[h.Succs[0]], l.Body[h.Succs[1]]
		if in0 == in1 {
			s.shapeErr = "the branch in the loop header does not decide between another iteration and leaving the loop"
			continue
		}
		rel, isRel := uuRelOf(iff.Cond, in0)
		if !isRel {
			s.shapeErr = "the loop condition " + core.Render(iff.Cond) + " is not a comparison of an index with a bound"
			continue
		}
		if rel.Op == token.GTR {
			rel = uuRel{token.LSS, rel.Y, rel.X}
		}
		if rel.Op != token.LSS {
			s.shapeErr = "the loop runs while " + core.Render(rel.X) + " " + rel.Op.String() + " " + core.Render(rel.Y) + ", not while index < bound"
			continue
		}
		s.bound = rel.Y
		phi, isPhi := rel.X.(*ssa.Phi)
		rangeForm := false
		if !isPhi {
			if x, ok := uuPlusOne(rel.X); ok {
				if p2, ok := x.(*ssa.Phi); ok && p2.Comment == "rangeindex" {
					phi, isPhi, rangeForm = p2, true, true
				}
			}
		}
		if !isPhi || phi.Block() != h {
			s.shapeErr = "the value compared with the bound (" + core.Render(rel.X) + ") is not the loop's index variable"
			continue
		}
		s.iv = rel.X
		var inits []ssa.Value
		for i, e := range phi.Edges {
			if l.Body[h.Preds[i]] {
				if x, ok := uuPlusOne(e); !ok || x != ssa.Value(phi) {
					s.shapeErr = "the index is not advanced by exactly one element per iteration (" + core.Render(e) + ")"
				}
				continue
			}
			inits = append(inits, e)
		}
		if s.shapeErr != "" {
			continue
		}
		if len(inits) != 1 {
			s.shapeErr = "the index has no single start value"
			continue
		}
		init := inits[0]
		switch {
		case rangeForm && uuConstIs(init, -1), !rangeForm && uuConstIs(init, 0):
			s.fromZero = true
		case rangeForm:
			s.shapeErr = "range loop with an unexpected start"
		default:
			if x, ok := uuPlusOne(init); ok {
				s.after = x
			} else {
				s.shapeErr = "the scan starts at " + core.Render(init) + ", which is neither 0 nor <index>+1"
			}
		}
	}
	return out
}

// encloses: a properly contains b.
func (a *uuScanLoop) encloses(b *uuScanLoop) bool {
	return a != b && a.fn == b.fn && a.l.Body[b.l.Header]
}

// ---------------------------------------------------------------- C19: the pair scan of the merge step

// c19elemIndex returns the index value of the slice element a bound is read
// from / written to (through a local copy `lower := items[j]` as well).
func c19elemIndex(elem ssa.Value) ssa.Value {
	switch e := elem.(type) {
	case *ssa.IndexAddr:
		return e.Index
	case *ssa.Alloc:
		if s := uuSingleStore(e); s != nil {
			if u, ok := s.(*ssa.UnOp); ok && u.Op == token.MUL {
				if ia, ok := u.X.(*ssa.IndexAddr); ok {
					return ia.Index
				}
			}
		}
	case *ssa.UnOp:
		if e.Op == token.MUL {
			if ia, ok := e.X.(*ssa.IndexAddr); ok {
				return ia.Index
			}
		}
	}
	return nil
}

// mergeScanRules: the merge step offers every pair (i, j), i < j, of live
// entries to the merge test. Every loop of the merge step is an index scan
// with a single exit (its own condition), a step of one and reviewed bounds;
// the merge helper is called with (absorbing index, absorbed index) = (outer
// index, index of a scan that starts right after it); a pair is skipped only
// because one of the two entries is already merged (or provably disjoint).
func (x *c19ctx) mergeScanRules(itemsFld, startFld, endFld *types.Var) {
	c := x.c
	var scope []*ssa.Function
	inScope := map[*ssa.Function]bool{}
	for _, f := range core.TransitiveCallees(x.sortFn, 5) {
		if core.FuncPkgRel(f) == c19pkg && !inScope[f] {
			inScope[f] = true
			scope = append(scope, f)
		}
	}
	short := func(fn *ssa.Function) string { return strings.TrimPrefix(uuShort(fn), "ipdict.") }
	isLenItems := func(v ssa.Value) bool {
		call, ok := uuResolve(v).(*ssa.Call)
		if !ok {
			return false
		}
		b, isB := call.Call.Value.(*ssa.Builtin)
		if !isB || b.Name() != "len" || len(call.Call.Args) != 1 {
			return false
		}
		f, _ := uuFieldLoad(call.Call.Args[0])
		return f == itemsFld
	}
	isLenItemsMinus1 := func(v ssa.Value) bool {
		b, ok := uuResolve(v).(*ssa.BinOp)
		return ok && b.Op == token.SUB && isLenItems(b.X) && uuConstIs(b.Y, 1)
	}
	isParam := func(v ssa.Value) bool { _, ok := v.(*ssa.Parameter); return ok }

	loopsOf := map[*ssa.Function][]*uuScanLoop{}
	for _, fn := range scope {
		loopsOf[fn] = uuScanLoops(fn)
	}

	// ---- (1) every loop is a complete index scan ----
	for _, fn := range scope {
		loops := loopsOf[fn]
		for _, s := range loops {
			key := fmt.Sprintf("%s:loop#%d", short(fn), s.ord)
			pos := s.pos
			if s.earlyPos != token.NoPos {
				pos = s.earlyPos
			}
			c.Check("merge-scan", key+":single-exit", pos, len(s.early) == 0,
				"a loop of the merge step of IPItems.Sort is left early by "+strings.Join(s.early, " and ")+": the start-sorted list is not sorted by range end, so a wider range can follow any number of disjoint ones; entries that are not offered to the merge test stay in the table as overlapping/nested ranges, and IPTable.Search, which looks only at the first range whose start is <= the address, misses addresses of the wider range")
			why := s.shapeErr
			if why == "" {
				var outer *uuScanLoop // the loop whose index the start refers to
				if s.after != nil {
					for _, o := range loops {
						if o.encloses(s) && o.iv == s.after {
							outer = o
						}
					}
				}
				switch {
				case s.fromZero && isLenItems(s.bound):
				case s.fromZero && isLenItemsMinus1(s.bound):
					// the last index may be left out only because it has no partner
					nested := false
					for _, n := range loops {
						if s.encloses(n) && n.shapeErr == "" && n.after == s.iv && isLenItems(n.bound) {
							nested = true
						}
					}
					if !nested {
						why = "the scan stops one element before the end of items although no nested scan over the following elements covers the last one"
					}
				case s.after != nil && (outer != nil || isParam(s.after)) && isLenItems(s.bound):
				case s.after != nil && isParam(s.after) && isParam(s.bound) && s.after != s.bound:
					// all elements strictly between two given indices
				case s.fromZero || s.after != nil:
					start := "0"
					if s.after != nil {
						start = core.Render(s.after) + "+1"
					}
					why = "the scan covers [" + start + ", " + core.Render(s.bound) + "), which is not one of the reviewed complete ranges: [0,len(items)), [0,len(items)-1) with a nested scan of the rest, [<outer index>+1,len(items)), (<index parameter>,<index parameter>)"
				}
			}
			c.Check("merge-scan", key+":range", s.pos, why == "",
				"a loop of the merge step of IPItems.Sort does not visit every candidate: "+why+"; a pair of overlapping ranges that is never compared stays unmerged and the narrower one hides the wider one from IPTable.Search")
		}
	}

	// ---- (2) calls that receive a pair of indices ----
	// roles of the index parameters of a merge helper: the element whose
	// startIP is overwritten absorbs, the element it is copied from is absorbed
	// (the store may sit in a private helper of fn: its index parameters are
	// followed back to the arguments fn passes)
	isAbsorb := func(in ssa.Instruction) (tbase, sbase ssa.Value, ok bool) {
		st, isSt := in.(*ssa.Store)
		if !isSt {
			return nil, nil, false
		}
		tf, tb := uuFieldAddr(st.Addr)
		if tf != startFld {
			return nil, nil, false
		}
		sf, sb, isBound := c19bound(st.Val, startFld, endFld)
		if !isBound || sf != startFld {
			return nil, nil, false
		}
		return tb, sb, true
	}
	roles := func(fn *ssa.Function) (tgt, src int, ok bool) {
		tgt, src = -1, -1
		reg := uuRegionOf(c.P, fn)
		for _, in := range reg.instrs() {
			tbase, sbase, isA := isAbsorb(in)
			if !isA {
				continue
			}
			ti, si := c19elemIndex(tbase), c19elemIndex(sbase)
			if ti == nil || si == nil {
				continue
			}
			for i, p := range fn.Params {
				prm := ssa.Value(p)
				if reg.all(ti, func(o ssa.Value) bool { return o == prm }) {
					tgt = i
				}
				if reg.all(si, func(o ssa.Value) bool { return o == prm }) {
					src = i
				}
			}
		}
		return tgt, src, tgt >= 0 && src >= 0 && tgt != src
	}
	// mayAbsorb: fn, or a function of the package it calls, joins two ranges
	mayAbsorb := func(fn *ssa.Function) bool {
		return core.MayPass(fn, func(in ssa.Instruction) bool { _, _, ok := isAbsorb(in); return ok }, 2)
	}
	// a condition that means "this entry is already merged"
	var isMergedTest func(cond ssa.Value, depth int) bool
	isMergedTest = func(cond ssa.Value, depth int) bool {
		call, ok := cond.(*ssa.Call)
		if !ok {
			return false
		}
		if core.CallIs(&call.Call, "bytes.Equal", "net.IP.Equal") && len(call.Call.Args) == 2 {
			for i, a := range call.Call.Args {
				if uuNetGlobal(a) == "" {
					continue
				}
				if _, _, isBound := c19bound(call.Call.Args[1-i], startFld, endFld); isBound {
					return true
				}
			}
			return false
		}
		// a helper of the package that only performs such tests
		callee := call.Call.StaticCallee()
		if callee == nil || depth > 0 || core.FuncPkgRel(callee) != c19pkg || callee.Blocks == nil {
			return false
		}
		n := 0
		for _, in := range uuInstrs(callee) {
			switch v := in.(type) {
			case *ssa.Store, *ssa.MapUpdate:
				return false
			case *ssa.Call:
				if _, isB := v.Call.Value.(*ssa.Builtin); isB {
					continue
				}
				if !isMergedTest(v, depth+1) {
					return false
				}
				n++
			}
		}
		return n > 0
	}
	nCalls := 0
	for _, fn := range scope {
		ord := uuOrd{}
		loops := loopsOf[fn]
		for _, ci := range core.AllCalls(fn) {
			callee := ci.Common().StaticCallee()
			if callee == nil || !inScope[callee] || callee == fn {
				continue
			}
			nInt := 0
			for _, p := range callee.Params {
				if c22isInt(p.Type()) {
					nInt++
				}
			}
			if nInt < 2 || !mayAbsorb(callee) {
				// not a call that offers a pair to the merge test (e.g. a helper
				// that only marks the entries between two indices as merged)
				continue
			}
			nCalls++
			key := ord.key(short(fn), "pair-call")
			args := ci.Common().Args
			blk := ci.(ssa.Instruction).Block()
			ti, si, okRoles := roles(callee)
			var aT, aS ssa.Value
			why := ""
			switch {
			case !okRoles || ti >= len(args) || si >= len(args):
				why = "the rule cannot tell which index parameter of " + short(callee) + " absorbs the other (no `items[a].startIP = items[b].startIP` over two parameters)"
			default:
				aT, aS = args[ti], args[si]
				var ls *uuScanLoop
				for _, l := range loops {
					if l.l.Body[blk] && l.shapeErr == "" && l.iv == aS {
						ls = l
					}
				}
				switch {
				case ls == nil:
					why = "the absorbed index " + core.Render(aS) + " is not the index of a scan that encloses the call"
				case ls.after == nil || ls.after != aT:
					why = "the scan over the absorbed index " + core.Render(aS) + " does not start right after the absorbing index " + core.Render(aT) + " (on the list sorted by descending start the absorbed range must come later: only then is its start the lower one)"
				}
			}
			c.Check("merge-scan", key+":order", ci.Pos(), why == "",
				short(fn)+" calls "+short(callee)+" with a pair of indices for which absorbing index < absorbed index is not established: "+why)

			// skipped pairs
			var bad []string
			for _, l := range loops {
				if !l.l.Body[blk] {
					continue
				}
				// A = blocks of the loop from which the call is reachable without passing the header again
				reach := map[*ssa.BasicBlock]bool{blk: true}
				for changed := true; changed; {
					changed = false
					for b := range l.l.Body {
						if reach[b] {
							continue
						}
						for _, s := range b.Succs {
							if reach[s] && s != l.l.Header && l.l.Body[s] {
								reach[b], changed = true, true
							}
						}
					}
				}
				var blocks []*ssa.BasicBlock
				for b := range reach {
					blocks = append(blocks, b)
				}
				sort.Slice(blocks, func(i, j int) bool { return blocks[i].Index < blocks[j].Index })
				for _, b := range blocks {
					if b == blk && len(b.Succs) == 2 {
						// the call's own block: what follows the call is not a filter of it
						continue
					}
					isHeader := false
					for _, l2 := range loops {
						if l2.l.Header == b {
							isHeader = true
						}
					}
					iff, isIf := b.Instrs[len(b.Instrs)-1].(*ssa.If)
					if isHeader || !isIf || len(b.Succs) != 2 {
						continue
					}
					for i, s := range b.Succs {
						if reach[s] || !l.l.Body[s] {
							continue // exits are the subject of single-exit
						}
						cond, pol := uuStripNot(iff.Cond, i == 0)
						// the skip edge is taken only for entries that are already
						// merged or for provably disjoint ranges (absorbed.end <
						// absorbing.start); a condition evaluated into a named
						// boolean (`merged := a || b; if merged`) is followed
						// through its phi: the fact must hold on every live edge
						okSkip := func(g core.Guard) bool {
							gc, gp := uuStripNot(g.Cond, g.Pol)
							if gp && isMergedTest(gc, 0) {
								return true
							}
							cmp, set, ok := uuCmpSet(g.Cond, g.Pol)
							if !ok || aT == nil {
								return false
							}
							fa, ea, okA := c19bound(cmp.Call.Args[0], startFld, endFld)
							fb, eb, okB := c19bound(cmp.Call.Args[1], startFld, endFld)
							if !okA || !okB {
								return false
							}
							ia, ib := c19elemIndex(ea), c19elemIndex(eb)
							if fa == startFld && fb == endFld {
								fa, fb, ia, ib = fb, fa, ib, ia
								set[0], set[2] = set[2], set[0]
							}
							return fa == endFld && fb == startFld && ia == aS && ib == aT && set == [3]bool{true, false, false}
						}
						if uuSat(uuMkGuard(iff.Cond, i == 0, iff), okSkip, 0) {
							continue
						}
						pfx := ""
						if !pol {
							pfx = "!"
						}
						bad = append(bad, pfx+core.Render(cond))
					}
				}
			}
			c.Check("merge-scan", key+":filters", ci.Pos(), len(bad) == 0,
				short(fn)+" skips the merge test of a pair when "+strings.Join(bad, " / ")+": only entries that are already merged (end == ::) or ranges that end below the other's start may be skipped; any other skipped pair can be an overlapping or nested one that then stays in the table")
		}
	}
	if nCalls == 0 {
		c.Check("merge-scan", "pair-call", x.sortFn.Pos(), false, "the merge step of IPItems.Sort contains no call that receives a pair of indices: the rule cannot find where pairs of ranges are compared")
	}
	c.Min("merge-scan", 8)
}

// ---------------------------------------------------------------- C22: pending error after buffered data

type c22pendFields struct {
	r, w, err *types.Var
}

// c22PendingError: b.err holds the error of the underlying reader that
// belongs *behind* the bytes still buffered. It may be consumed (readErr, or
// cleared) only where the buffer is known to be drained: b.r == b.w (or
// !(b.r < b.w)) established by a dominating branch or by `b.r = b.w`, with no
// change of the cursors in between.
func c22PendingError(c *core.Ctx, readers []*ssa.Function, F c22pendFields) {
	exceptions := map[string]string{
		"Reader.Peek": "a short Peek returns the error that explains it while the bytes stay buffered (nothing is consumed); contract of bufio.Reader.Peek",
	}
	isFld := func(v ssa.Value, f *types.Var, recv ssa.Value) (*ssa.UnOp, bool) {
		u, ok := uuResolve(v).(*ssa.UnOp)
		if !ok {
			return nil, false
		}
		g, base := uuFieldLoadRaw(u)
		return u, g == f && g != nil && (recv == nil || base == recv)
	}
	// consumer primitives: clear b.err and return what it held
	prims := map[*ssa.Function]bool{}
	for _, fn := range readers {
		if len(fn.Params) == 0 {
			continue
		}
		recv := ssa.Value(fn.Params[0])
		clears, returnsErr := false, true
		rets := core.Returns(fn)
		for _, in := range uuInstrs(fn) {
			if st, ok := in.(*ssa.Store); ok {
				if f, base := uuFieldAddr(st.Addr); f == F.err && base == recv && uuIsNil(st.Val) {
					clears = true
				}
			}
		}
		for _, r := range rets {
			if len(r.Results) != 1 {
				returnsErr = false
				continue
			}
			if _, ok := isFld(r.Results[0], F.err, recv); !ok {
				returnsErr = false
			}
		}
		if clears && returnsErr && len(rets) > 0 {
			prims[fn] = true
		}
	}
	// functions that move the cursors
	movers := map[*ssa.Function]bool{}
	direct := func(in ssa.Instruction, fn *ssa.Function) bool {
		st, ok := in.(*ssa.Store)
		if !ok {
			return false
		}
		if f, _ := uuFieldAddr(st.Addr); f != nil && (f == F.r || f == F.w) {
			return true
		}
		return len(fn.Params) > 0 && st.Addr == ssa.Value(fn.Params[0])
	}
	for changed := true; changed; {
		changed = false
		for _, fn := range readers {
			if movers[fn] {
				continue
			}
			for _, in := range uuInstrs(fn) {
				if direct(in, fn) {
					movers[fn], changed = true, true
					break
				}
				if ci, ok := in.(ssa.CallInstruction); ok {
					if sc := ci.Common().StaticCallee(); sc != nil && movers[sc] {
						movers[fn], changed = true, true
						break
					}
				}
			}
		}
	}
	availFn := func(callee *ssa.Function) bool { // returns b.w - b.r
		if callee == nil || len(callee.Params) != 1 {
			return false
		}
		rets := core.Returns(callee)
		if len(rets) != 1 || len(rets[0].Results) != 1 {
			return false
		}
		sub, ok := rets[0].Results[0].(*ssa.BinOp)
		if !ok || sub.Op != token.SUB {
			return false
		}
		_, okW := isFld(sub.X, F.w, callee.Params[0])
		_, okR := isFld(sub.Y, F.r, callee.Params[0])
		return okW && okR
	}

	// analyse builds the per-function deciders: drainedAt(in) — the buffer is
	// known to be drained where in executes; entryClean(in) — the cursors are
	// not changed between the function's entry and in.
	type pendFn struct {
		drainedAt  func(in ssa.Instruction) bool
		entryClean func(in ssa.Instruction) bool
	}
	memo := map[*ssa.Function]*pendFn{}
	var analyse func(fn *ssa.Function) *pendFn
	analyse = func(fn *ssa.Function) *pendFn {
		if a, ok := memo[fn]; ok {
			return a
		}
		recv := ssa.Value(fn.Params[0])
		isMover := func(in ssa.Instruction) bool {
			if direct(in, fn) {
				return true
			}
			if ci, ok := in.(ssa.CallInstruction); ok {
				if sc := ci.Common().StaticCallee(); sc != nil && movers[sc] {
					return true
				}
			}
			return false
		}
		// the instructions a "drained" test is computed from must be evaluated
		// right at the test: same block, no cursor change in between
		freshAt := func(at ssa.Instruction, parts ...ssa.Instruction) bool {
			for _, p := range parts {
				if p.Block() != at.Block() {
					return false
				}
				seen := false
				for _, in := range at.Block().Instrs {
					if in == p {
						seen = true
						continue
					}
					if in == at {
						break
					}
					if seen && isMover(in) {
						return false
					}
				}
				if !seen {
					return false
				}
			}
			return true
		}
		// avail: v is b.w - b.r or b.Buffered()
		avail := func(v ssa.Value) ([]ssa.Instruction, bool) {
			switch x := uuResolve(v).(type) {
			case *ssa.BinOp:
				if x.Op == token.SUB {
					lw, okW := isFld(x.X, F.w, recv)
					lr, okR := isFld(x.Y, F.r, recv)
					if okW && okR {
						return []ssa.Instruction{lw, lr}, true
					}
				}
			case *ssa.Call:
				if sc := x.Call.StaticCallee(); sc != nil && len(x.Call.Args) == 1 && x.Call.Args[0] == recv && availFn(sc) {
					return []ssa.Instruction{x}, true
				}
			}
			return nil, false
		}
		// drained: the relation r (which holds) means "nothing is buffered"
		drained := func(r uuRel) ([]ssa.Instruction, bool) {
			lrX, xIsR := isFld(r.X, F.r, recv)
			lwX, xIsW := isFld(r.X, F.w, recv)
			lrY, yIsR := isFld(r.Y, F.r, recv)
			lwY, yIsW := isFld(r.Y, F.w, recv)
			switch {
			case xIsR && yIsW && (r.Op == token.EQL || r.Op == token.GEQ):
				return []ssa.Instruction{lrX, lwY}, true
			case xIsW && yIsR && (r.Op == token.EQL || r.Op == token.LEQ):
				return []ssa.Instruction{lwX, lrY}, true
			}
			if parts, ok := avail(r.X); ok && uuConstIs(r.Y, 0) && (r.Op == token.EQL || r.Op == token.LEQ) {
				return parts, true
			}
			if parts, ok := avail(r.Y); ok && uuConstIs(r.X, 0) && (r.Op == token.EQL || r.Op == token.GEQ) {
				return parts, true
			}
			return nil, false
		}
		// unchanged: no cursor change on a path from (b, i) to site that does not
		// pass the witness again
		unchanged := func(b *ssa.BasicBlock, i int, site, witness ssa.Instruction) bool {
			seen := map[*ssa.BasicBlock]bool{}
			var found []ssa.Instruction
			var scan func(b *ssa.BasicBlock, i int)
			scan = func(b *ssa.BasicBlock, i int) {
				for ; i < len(b.Instrs); i++ {
					in := b.Instrs[i]
					if in == site || in == witness {
						return
					}
					if isMover(in) {
						found = append(found, in)
					}
				}
				for _, s := range b.Succs {
					if !seen[s] {
						seen[s] = true
						scan(s, 0)
					}
				}
			}
			scan(b, i)
			for _, m := range found {
				hit := core.ReachAvoiding(fn, m, func(in ssa.Instruction) bool { return in == witness }, func(in ssa.Instruction) bool { return in == site })
				if hit != nil {
					return false
				}
			}
			return true
		}
		a := &pendFn{}
		a.entryClean = func(in ssa.Instruction) bool { return unchanged(fn.Blocks[0], 0, in, nil) }
		a.drainedAt = func(in ssa.Instruction) bool {
			ok := false
			for _, g := range core.GuardsAt(in.Block()) {
				r, isRel := uuRelOf(g.Cond, g.Pol)
				if !isRel || g.If == nil {
					continue
				}
				// nothing was asked for: len(p) == 0
				if r.Op == token.EQL {
					for _, pair := range [][2]ssa.Value{{r.X, r.Y}, {r.Y, r.X}} {
						if call, isCall := uuResolve(pair[0]).(*ssa.Call); isCall && uuConstIs(pair[1], 0) {
							if bi, isB := call.Call.Value.(*ssa.Builtin); isB && bi.Name() == "len" {
								if _, isP := uuResolve(call.Call.Args[0]).(*ssa.Parameter); isP {
									ok = true
								}
							}
						}
					}
				}
				parts, isDrained := drained(r)
				if !isDrained || !freshAt(g.If, parts...) {
					continue
				}
				succ := g.If.Block().Succs[1]
				if g.Pol {
					succ = g.If.Block().Succs[0]
				}
				if unchanged(succ, 0, in, g.If) {
					ok = true
				}
			}
			if ok {
				return true
			}
			// b.r = b.w (or b.w = b.r) executed before
			for _, in2 := range uuInstrs(fn) {
				st, isSt := in2.(*ssa.Store)
				if !isSt || !core.Dominates(st, in) {
					continue
				}
				f, base := uuFieldAddr(st.Addr)
				if base != recv || (f != F.r && f != F.w) {
					continue
				}
				other := F.w
				if f == F.w {
					other = F.r
				}
				ld, isOther := isFld(st.Val, other, recv)
				if !isOther || !freshAt(st, ld) {
					continue
				}
				i := 0
				for k, y := range st.Block().Instrs {
					if y == ssa.Instruction(st) {
						i = k + 1
					}
				}
				if unchanged(st.Block(), i, in, st) {
					return true
				}
			}
			return false
		}
		memo[fn] = a
		return a
	}

	nSites := 0
	for _, fn := range readers {
		if prims[fn] || len(fn.Params) == 0 || len(fn.Blocks) == 0 {
			continue
		}
		name := "Reader." + fn.Name()
		ord := uuOrd{}
		for _, in := range uuInstrs(fn) {
			what := ""
			switch v := in.(type) {
			case ssa.CallInstruction:
				if sc := v.Common().StaticCallee(); sc != nil && prims[sc] {
					what = "consumes the pending error (" + sc.Name() + ")"
				}
			case *ssa.Store:
				if f, _ := uuFieldAddr(v.Addr); f == F.err && f != nil && uuIsNil(v.Val) {
					what = "clears the pending error (b.err = nil)"
				}
			}
			if what == "" {
				continue
			}
			nSites++
			key := ord.key(name, "consume")
			if reason, ok := exceptions[name]; ok {
				c.Note("err-after-data: %s is a reviewed exception: %s", key, reason)
				c.Check("err-after-data", key, in.Pos(), true, "")
				continue
			}
			ok := analyse(fn).drainedAt(in)
			if !ok && !token.IsExported(fn.Name()) && analyse(fn).entryClean(in) {
				// an unexported helper: the obligation moves to its call sites
				n, all := 0, true
				for _, g := range readers {
					if len(g.Params) == 0 || len(g.Blocks) == 0 {
						continue
					}
					for _, ci := range core.AllCalls(g) {
						if ci.Common().StaticCallee() != fn {
							continue
						}
						n++
						if len(ci.Common().Args) == 0 || ci.Common().Args[0] != ssa.Value(g.Params[0]) || !analyse(g).drainedAt(ci) {
							all = false
						}
					}
				}
				ok = n > 0 && all
			}
			c.Check("err-after-data", key, in.Pos(), ok,
				name+" "+what+" at a point where the buffer is not known to be drained (no dominating b.r == b.w / !(b.r < b.w) / b.r = b.w that still holds there): the error of the underlying reader belongs behind the bytes that were read together with it or before it (io.Reader may return the last chunk and io.EOF in one call); consuming it first makes the caller see the error — or, when io.EOF is swallowed, a clean end of stream — while bytes are still buffered, so the tail of the stream is lost and TotalRead stops short")
		}
	}
	if len(prims) == 0 {
		c.Check("err-after-data", "Reader:consume-primitive", token.NoPos, false, "no method of Reader clears b.err and returns what it held (readErr): the rule cannot find where the pending error is consumed")
	}
	c.Min("err-after-data", 8)
	_ = nSites
}
