package rules

import (
	"fmt"
	"go/ast"
	"go/constant"
	"go/token"
	"go/types"
	"net/textproto"
	"sort"
	"strings"

	"golang.org/x/tools/go/ssa"

	"verif/internal/core"
)

// C38 — HTTP/2 responses carry exactly the handler's response.
func init() {
	Register(&Rule{
		ID: "C38", Section: "5 C38",
		Technique: "table agreement (HopHeaders literal vs RFC 7540 8.1.2.2), value-flow of the response header map and status, guard analysis on go/ssa of writeChunk / encodeHeaders / responseWriter.write, feasible-path enumeration of writeResHeaders.writeFrame",
		Meta: core.Meta{
			Level:       "other",
			Explanation: "Decides structural clauses of the HTTP/2 response writer (bfe_http2): (1) the HopHeaders table contains, in canonical spelling and with value true, every connection-specific field of RFC 7540 8.1.2.2 and is never mutated after package initialisation; (2) cloneHeader copies a key only when HopHeaders[key] is false; (3) responseWriterState.snapHeader is assigned only cloneHeader(rws.handlerHeader) and status only the WriteHeader argument under !wroteHeader; (4) in writeChunk the response HEADERS request carries h = rws.snapHeader, httpResCode = rws.status, the stream's id, is sent only under !sentHeader after sentHeader was set, ends the stream whenever the request method is HEAD and otherwise only under handlerDone && !hasTrailers && len(p)==0; (5) every DATA write (writeDataFromHandler, called only from writeChunk) is excluded for HEAD, carries exactly the chunk p, is preceded by the response HEADERS, and may carry END_STREAM only under handlerDone && !hasTrailers; responseWriter.write hands bytes to the buffer only when bodyAllowedForStatus(status), which is false for 1xx, 204 and 304; (6) the trailers HEADERS request is the only one with trailers set, has no status, always has endStream true, is issued only under handlerDone && hasTrailers and no DATA can follow it; (7) encodeHeaders emits a field only with the name returned by lowerHeader (a table hit or strings.ToLower), after validHeaderFieldName(name) and validHeaderFieldValue(value), and transfer-encoding only with value trailers; writeResHeaders.writeFrame emits :status (from httpResCode) before any regular field and its fixed names are lower-case; (8) on every feasible successful path writeResHeaders.writeFrame either emits a HEADERS frame or was not asked to end the stream (a request that silently produces no frame loses END_STREAM); (9) inside writeChunk no call that may add to rws.trailers (the Trailer declarations of the header snapshot via declareTrailer, promoteUndeclaredTrailers; found through static callees and function-value arguments) is reachable from an evaluation of rws.hasTrailers(): the trailer set is complete before END_STREAM is first decided (known finding: promoteUndeclaredTrailers runs after the response HEADERS decision, so \"Trailer:\"-prefixed trailers of a handler that writes no body and never flushes are dropped); (10) pooled objects of bfe_http2 (sorterPool, writeDataPool, responseWriterStatePool, bufWriterPool, fhBytes): after a plain sync.Pool.Put neither the object nor a value sharing its storage (results of calls that received it, e.g. the key slice of sorter.Keys; addresses and loads inside it) is used again, and with a deferred Put no such value is returned, stored into outliving memory or sent, so the key order of a header block cannot be rewritten by another goroutine while it is encoded; (11) the declared-trailer set: every insertion into rws.trailers appends the result of CanonicalHeaderKey and is controlled by a negative strSliceContains test of that very value on rws.trailers of the same response (a test on another spelling of the name does not count), strSliceContains reports membership by element equality: a trailer announced twice, in any spelling, is stored and sent once; (12) write order: every call of writeChunk other than the buffer's sink (chunkWriter.Write, which must forward exactly its argument to its own responseWriterState) is made only where rws.bw is known empty (controlled by Buffered() == 0 of the same rws, or dominated by rws.bw.Flush() with no buffered write in between), so nothing overtakes bytes still held in the response buffer. Robustness: every anchor function is analysed together with its private helpers (unexported functions of bfe_http2 that are never used as values and whose every call site lies in the anchor or another such helper, depth <= 4): stores, calls and loops found there count as the anchor's; values are followed across the call boundary (a helper's parameter is the argument at its single call site, the result of a helper call is the one value the helper returns); guards hold inside a single-call-site helper when they hold at its call site; branch facts are read through negations, mirrored comparisons, named booleans, short-circuit phis (the fact must follow on every edge that can yield the value, edges contradicting other known guards excluded) and boolean helper functions (the fact must follow at every return that can yield the value); dominance, must-pass and reachability are decided on the call-stack-sensitive supergraph of the region (calls of helpers entered, constant boolean results matched with the branch on them in the caller). Not followed: helpers that are used as function values or invoked through an interface, helpers called through defer or go, values passed through struct fields or closures' free variables into a helper, helpers with more than one call site for parameter identity (their code is still attributed to the anchor when all call sites lie in the region). Not covered: byte equality of body and trailers with what the handler wrote; END_STREAM exactly once over a whole response (a history of writeChunk calls); header keys the handler stored in non-canonical spelling; HPACK encoding itself (C30/C31); trailer declarations that are skipped on some path without any hasTrailers() evaluation preceding them; pooled objects that escape before the Put through struct fields of other objects or channels (writeDataFromHandler hands its writeData to the serve loop and relies on the done channel).",
			RuleText:    "obligations = required keys of HopHeaders, mutators of HopHeaders, each map store of cloneHeader, each writer of snapHeader/status, the fields and guards of each writeHeaders request in writeChunk, each writeDataFromHandler call, each buffered write of responseWriter.write, the false-returns of bodyAllowedForStatus, each encKV call of encodeHeaders and writeResHeaders.writeFrame, each return of lowerHeader, each frame-less successful path of writeResHeaders.writeFrame, each call of writeChunk that may write rws.trailers, each sync.Pool.Put of the package, each insertion into rws.trailers, each call of writeChunk",
			Assumptions: []string{"handlers fill the header map through bfe_http.Header.Set/Add (canonical keys)"},
		},
		Run: runC38,
		Mutants: []Mutant{
			{Name: "hop-table-loses-upgrade", File: "bfe_http2/http2.go", Old: "	\"Transfer-Encoding\":   true,\n	\"Upgrade\":             true,\n}", New: "	\"Transfer-Encoding\":   true,\n}", Expect: "hop-set"},
			{Name: "hop-table-entry-disabled", File: "bfe_http2/http2.go", Old: "	\"Connection\":          true,\n	\"Keep-Alive\":          true,\n	\"Proxy-Authenticate\"", New: "	\"Connection\":          true,\n	\"Keep-Alive\":          false,\n	\"Proxy-Authenticate\"", Expect: "hop-set"},
			{Name: "clone-keeps-hop-headers", File: "bfe_http2/server.go", Old: "		if HopHeaders[k] {\n			continue\n		}\n", New: "		if HopHeaders[k] && len(vv) == 0 {\n			continue\n		}\n", Expect: "clone-filter"},
			{Name: "snapshot-unfiltered", File: "bfe_http2/server.go", Old: "			rws.snapHeader = cloneHeader(rws.handlerHeader)\n", New: "			rws.snapHeader = rws.handlerHeader\n", Expect: "snap-source"},
			{Name: "headers-from-live-map", File: "bfe_http2/server.go", Old: "			h:             rws.snapHeader,\n", New: "			h:             rws.handlerHeader,\n", Expect: "headers-frame"},
			{Name: "head-response-left-open", File: "bfe_http2/server.go", Old: "		endStream := (rws.handlerDone && !rws.hasTrailers() && len(p) == 0) || isHeadResp\n", New: "		endStream := rws.handlerDone && !rws.hasTrailers() && len(p) == 0\n", Expect: "headers-frame|writeChunk:response:head-ends-stream"},
			{Name: "head-gets-body", File: "bfe_http2/server.go", Old: "	if isHeadResp {\n		return len(p), nil\n	}\n", New: "", Expect: "data-frame"},
			{Name: "end-stream-despite-trailers", File: "bfe_http2/server.go", Old: "	endStream := rws.handlerDone && !rws.hasTrailers()\n	if len(p) > 0 || endStream {", New: "	endStream := rws.handlerDone\n	if len(p) > 0 || endStream {", Expect: "data-frame"},
			{Name: "trailers-do-not-end-stream", File: "bfe_http2/server.go", Old: "			trailers:  rws.trailers,\n			endStream: true,\n", New: "			trailers:  rws.trailers,\n			endStream: len(p) == 0,\n", Expect: "trailers-frame"},
			{Name: "body-for-204", File: "bfe_http2/http2.go", Old: "	case status == 204:\n		return false\n", New: "", Expect: "no-body-status"},
			{Name: "body-check-dropped", File: "bfe_http2/server.go", Old: "	if !bodyAllowedForStatus(rws.status) {\n		return 0, http.ErrBodyNotAllowed\n	}\n", New: "", Expect: "no-body-status"},
			{Name: "names-not-lowercased", File: "bfe_http2/write.go", Old: "		k = lowerHeader(k)\n		if !validHeaderFieldName(k) {", New: "		if !validHeaderFieldName(lowerHeader(k)) {", Expect: "encode"},
			{Name: "value-validation-dropped", File: "bfe_http2/write.go", Old: "			if !validHeaderFieldValue(v) {\n				// TODO: return an error? golang.org/issue/14048\n				// For now just omit it.\n				continue\n			}\n", New: "", Expect: "encode"},
			{Name: "status-overwritten", File: "bfe_http2/server.go", Old: "	if !rws.wroteHeader {\n		rws.wroteHeader = true\n		rws.status = code\n", New: "	rws.status = code\n	if !rws.wroteHeader {\n		rws.wroteHeader = true\n", Expect: "status-writers"},
			{Name: "trailers-decision-hoisted-before-declaration", File: "bfe_http2/server.go", Old: "		for _, v := range rws.snapHeader[\"Trailer\"] {\n			foreachHeaderElement(v, rws.declareTrailer)\n		}\n\n		endStream := (rws.handlerDone && !rws.hasTrailers() && len(p) == 0) || isHeadResp\n", New: "		noTrailers := !rws.hasTrailers()\n		for _, v := range rws.snapHeader[\"Trailer\"] {\n			foreachHeaderElement(v, rws.declareTrailer)\n		}\n\n		endStream := (rws.handlerDone && noTrailers && len(p) == 0) || isHeadResp\n", Expect: "trailers-complete|writeChunk:foreachHeaderElement"},
			{Name: "trailers-declared-only-if-stream-stays-open", File: "bfe_http2/server.go", Old: "		for _, v := range rws.snapHeader[\"Trailer\"] {\n			foreachHeaderElement(v, rws.declareTrailer)\n		}\n\n		endStream := (rws.handlerDone && !rws.hasTrailers() && len(p) == 0) || isHeadResp\n", New: "		endStream := (rws.handlerDone && !rws.hasTrailers() && len(p) == 0) || isHeadResp\n		if !endStream {\n			for _, v := range rws.snapHeader[\"Trailer\"] {\n				foreachHeaderElement(v, rws.declareTrailer)\n			}\n		}\n", Expect: "trailers-complete|writeChunk:foreachHeaderElement"},
			{Name: "sorter-returned-before-sorting", File: "bfe_http2/server.go", Old: "		sorter.SortStrings(rws.trailers)\n		sorterPool.Put(sorter)\n", New: "		sorterPool.Put(sorter)\n		sorter.SortStrings(rws.trailers)\n", Expect: "pool-lifetime|responseWriterState.promoteUndeclaredTrailers"},
			{Name: "sorter-returned-before-keys-are-encoded", File: "bfe_http2/write.go", Old: "		defer sorterPool.Put(sorter)\n		keys = sorter.Keys(h)\n", New: "		keys = sorter.Keys(h)\n		sorterPool.Put(sorter)\n", Expect: "pool-lifetime|encodeHeaders"},
			{Name: "frame-header-buffer-escapes", File: "bfe_http2/frame.go", Old: "	defer fhBytes.Put(bufp)\n	return readFrameHeader(*bufp, r)\n", New: "	defer fhBytes.Put(bufp)\n	lastFrameHeaderBytes = *bufp\n	return readFrameHeader(*bufp, r)\n}\n\nvar lastFrameHeaderBytes []byte\n\nfunc init() {\n	_ = lastFrameHeaderBytes\n", Expect: "pool-lifetime|ReadFrameHeader"},
			{Name: "trailer-dedup-on-raw-key", File: "bfe_http2/server.go", Old: "	k = http.CanonicalHeaderKey(k)\n	switch k {\n	case \"Transfer-Encoding\", \"Content-Length\", \"Trailer\":\n		// Forbidden by RFC 2616 14.40.\n		return\n	}\n	if !strSliceContains(rws.trailers, k) {\n		rws.trailers = append(rws.trailers, k)\n	}", New: "	ck := http.CanonicalHeaderKey(k)\n	switch ck {\n	case \"Transfer-Encoding\", \"Content-Length\", \"Trailer\":\n		return\n	}\n	if !strSliceContains(rws.trailers, k) {\n		rws.trailers = append(rws.trailers, ck)\n	}", Expect: "trailer-set|responseWriterState.declareTrailer:insert:once"},
			{Name: "trailer-stored-uncanonical", File: "bfe_http2/server.go", Old: "	k = http.CanonicalHeaderKey(k)\n	switch k {\n	case \"Transfer-Encoding\"", New: "	switch http.CanonicalHeaderKey(k) {\n	case \"Transfer-Encoding\"", Expect: "trailer-set|responseWriterState.declareTrailer:insert:canonical"},
			{Name: "large-byte-write-bypasses-buffer", File: "bfe_http2/server.go", Old: "	if dataB != nil {\n		return rws.bw.Write(dataB)\n	}", New: "	if dataB != nil {\n		if len(dataB) > rws.bw.Available() {\n			return rws.writeChunk(dataB)\n		}\n		return rws.bw.Write(dataB)\n	}", Expect: "chunk-order|responseWriter.write:writeChunk"},
			{Name: "flush-sends-headers-past-buffered-bytes", File: "bfe_http2/server.go", Old: "	if rws.bw.Buffered() > 0 {\n		if err := rws.bw.Flush(); err != nil {", New: "	if rws.bw.Buffered() > 0 && rws.sentHeader {\n		if err := rws.bw.Flush(); err != nil {", Expect: "chunk-order|responseWriter.Flush:writeChunk"},
			{Name: "silent-large-write-bypasses-empty-buffer", File: "bfe_http2/server.go", Old: "	if dataB != nil {\n		return rws.bw.Write(dataB)\n	}", New: "	if dataB != nil {\n		if rws.bw.Buffered() == 0 && len(dataB) > handlerChunkWriteSize {\n			return rws.writeChunk(dataB)\n		}\n		return rws.bw.Write(dataB)\n	}", Silent: true},
			{Name: "silent-flush-branches-swapped", File: "bfe_http2/server.go", Old: "	if rws.bw.Buffered() > 0 {\n		if err := rws.bw.Flush(); err != nil {\n			// Ignore the error. The frame writer already knows.\n			return nil\n		}\n	} else {\n		// The bufio.Writer won't call chunkWriter.Write\n		// (writeChunk with zero bytes, so we have to do it\n		// ourselves to force the HTTP response header and/or\n		// final DATA frame (with END_STREAM) to be sent.\n		rws.writeChunk(nil)\n	}\n	return nil\n", New: "	if rws.bw.Buffered() == 0 {\n		rws.writeChunk(nil)\n		return nil\n	}\n	if err := rws.bw.Flush(); err != nil {\n		return nil\n	}\n	return nil\n", Silent: true},
			{Name: "silent-sorted-keys-helper-copies", File: "bfe_http2/write.go", Old: "func encodeHeaders(enc *hpack.Encoder, h http.Header, keys []string) int {\n	headerSize := 0 // orignal header size\n	if keys == nil {\n		sorter := sorterPool.Get().(*sorter)\n		// Using defer here, since the returned keys from the\n		// sorter.Keys method is only valid until the sorter\n		// is returned:\n		defer sorterPool.Put(sorter)\n		keys = sorter.Keys(h)\n	}\n", New: "func sortedHeaderKeys(h http.Header) []string {\n	sorter := sorterPool.Get().(*sorter)\n	defer sorterPool.Put(sorter)\n	return append([]string(nil), sorter.Keys(h)...)\n}\n\nfunc encodeHeaders(enc *hpack.Encoder, h http.Header, keys []string) int {\n	headerSize := 0 // orignal header size\n	if keys == nil {\n		keys = sortedHeaderKeys(h)\n	}\n", Silent: true},
			{Name: "silent-declare-before-date", File: "bfe_http2/server.go", Old: "		var date string\n		if _, ok := rws.snapHeader[\"Date\"]; !ok {\n			// TODO(bradfitz): be faster here, like net/http? measure.\n			date = time.Now().UTC().Format(http.TimeFormat)\n		}\n\n		for _, v := range rws.snapHeader[\"Trailer\"] {\n			foreachHeaderElement(v, rws.declareTrailer)\n		}\n", New: "		for _, v := range rws.snapHeader[\"Trailer\"] {\n			foreachHeaderElement(v, rws.declareTrailer)\n		}\n		var date string\n		if _, ok := rws.snapHeader[\"Date\"]; !ok {\n			date = time.Now().UTC().Format(http.TimeFormat)\n		}\n", Silent: true},
			{Name: "silent-rename-chunk", File: "bfe_http2/server.go", Old: "	endStream := rws.handlerDone && !rws.hasTrailers()\n	if len(p) > 0 || endStream {\n		// only send a 0 byte DATA frame if we're ending the stream.\n		if err := rws.conn.writeDataFromHandler(rws.stream, p, endStream); err != nil {", New: "	last := rws.handlerDone && !rws.hasTrailers()\n	if last || len(p) > 0 {\n		if err := rws.conn.writeDataFromHandler(rws.stream, p, last); err != nil {", Silent: true},
			{Name: "silent-trailers-request-in-helper", File: "bfe_http2/server.go", Old: "\tif rws.handlerDone && rws.hasTrailers() {\n\t\terr = rws.conn.writeHeaders(rws.stream, &writeResHeaders{\n\t\t\tstreamID:  rws.stream.id,\n\t\t\th:         rws.handlerHeader,\n\t\t\ttrailers:  rws.trailers,\n\t\t\tendStream: true,\n\t\t})\n\t\treturn len(p), err\n\t}\n\treturn len(p), nil\n}\n", New: "\tif rws.handlerDone && rws.hasTrailers() {\n\t\terr = rws.sendTrailers()\n\t\treturn len(p), err\n\t}\n\treturn len(p), nil\n}\n\nfunc (rws *responseWriterState) sendTrailers() error {\n\treturn rws.conn.writeHeaders(rws.stream, &writeResHeaders{\n\t\tstreamID:  rws.stream.id,\n\t\th:         rws.handlerHeader,\n\t\ttrailers:  rws.trailers,\n\t\tendStream: true,\n\t})\n}\n", Silent: true},
			{Name: "silent-clone-filter-positive-if", File: "bfe_http2/server.go", Old: "\t\tif HopHeaders[k] {\n\t\t\tcontinue\n\t\t}\n\n\t\tvv2 := make([]string, len(vv))\n\t\tcopy(vv2, vv)\n\t\th2[k] = vv2\n", New: "\t\tif !HopHeaders[k] {\n\t\t\tvv2 := make([]string, len(vv))\n\t\t\tcopy(vv2, vv)\n\t\t\th2[k] = vv2\n\t\t}\n", Silent: true},
			{Name: "silent-status-early-return", File: "bfe_http2/server.go", Old: "\tif !rws.wroteHeader {\n\t\trws.wroteHeader = true\n\t\trws.status = code\n\t\tif len(rws.handlerHeader) > 0 {\n\t\t\trws.snapHeader = cloneHeader(rws.handlerHeader)\n\t\t}\n\t}\n", New: "\tif rws.wroteHeader {\n\t\treturn\n\t}\n\trws.wroteHeader = true\n\trws.status = code\n\tif len(rws.handlerHeader) > 0 {\n\t\trws.snapHeader = cloneHeader(rws.handlerHeader)\n\t}\n", Silent: true},
			// (a "silent" overlay that skips a header field under `enc == nil` was dropped: the rule cannot prove that
			// guard dead, and skipping a field in encodeHeaders under an unproven guard is exactly what it reports)
			{Name: "silent-status-text-local", File: "bfe_http2/write.go", Old: "\t\tencKV(enc, \":status\", httpCodeString(w.httpResCode))\n", New: "\t\tstatusText := httpCodeString(w.httpResCode)\n\t\tencKV(enc, \":status\", statusText)\n", Silent: true},
		},
	})
}

// h2bRFC7540ConnSpecific is the set of RFC 7540 section 8.1.2.2.
var h2bRFC7540ConnSpecific = []string{"Connection", "Keep-Alive", "Proxy-Connection", "Transfer-Encoding", "Upgrade"}

func runC38(c *core.Ctx) {
	e := h2bNew(c)
	if e == nil {
		return
	}
	e.declare("bodyAllowedForStatus", "cloneHeader", "encodeHeaders", "lowerHeader", "responseWriter.write", "responseWriterState.writeChunk",
		"responseWriterState.writeHeader", "writeResHeaders.writeFrame", "strSliceContains", "responseWriterState.declareTrailer", "responseWriterState.promoteUndeclaredTrailers", "responseWriterState.hasTrailers")
	rwsField := func(n string) *types.Var { return e.field("responseWriterState." + n) }
	snapF, statusF, hhF, sentF, doneF, trailersF, streamF, wroteHdrF := rwsField("snapHeader"), rwsField("status"), rwsField("handlerHeader"), rwsField("sentHeader"), rwsField("handlerDone"), rwsField("trailers"), rwsField("stream"), rwsField("wroteHeader")
	idF := e.field("stream.id")
	if snapF == nil || statusF == nil || hhF == nil || sentF == nil || doneF == nil || trailersF == nil || streamF == nil || wroteHdrF == nil || idF == nil {
		return
	}
	isLoadOf := func(f *types.Var) func(ssa.Value) bool {
		return func(v ssa.Value) bool { _, ok := h2bFieldLoad(v, f); return ok }
	}

	// ---- (1) HopHeaders table ------------------------------------------------
	hopObj, _ := c.P.Obj(h2bPkg, "HopHeaders").(*types.Var)
	if hopObj == nil {
		c.Missing(h2bPkg + ".HopHeaders")
	} else {
		table := map[string]bool{}
		var pos token.Pos
		pk := c.P.Pkg(h2bPkg)
		for _, f := range pk.Syntax {
			ast.Inspect(f, func(n ast.Node) bool {
				vs, ok := n.(*ast.ValueSpec)
				if !ok {
					return true
				}
				for i, name := range vs.Names {
					if pk.TypesInfo.Defs[name] != hopObj || i >= len(vs.Values) {
						continue
					}
					cl, ok := vs.Values[i].(*ast.CompositeLit)
					if !ok {
						continue
					}
					pos = cl.Pos()
					for _, el := range cl.Elts {
						kv, ok := el.(*ast.KeyValueExpr)
						if !ok {
							continue
						}
						kt, vt := pk.TypesInfo.Types[kv.Key], pk.TypesInfo.Types[kv.Value]
						if kt.Value != nil && kt.Value.Kind() == constant.String && vt.Value != nil && vt.Value.Kind() == constant.Bool {
							table[constant.StringVal(kt.Value)] = constant.BoolVal(vt.Value)
						}
					}
				}
				return true
			})
		}
		for _, k := range h2bRFC7540ConnSpecific {
			v, present := table[k]
			c.Check("hop-set", "HopHeaders:"+k, pos, present && v,
				"HopHeaders has no true entry for "+k+" (RFC 7540 8.1.2.2): the field would be forwarded in HTTP/2 responses")
		}
		var ks []string
		for k := range table {
			ks = append(ks, k)
		}
		sort.Strings(ks)
		for _, k := range ks {
			if textproto.CanonicalMIMEHeaderKey(k) != k {
				c.Check("hop-set", "HopHeaders:spelling:"+k, pos, false, "HopHeaders key "+k+" is not in canonical form; cloneHeader looks keys up as stored by Header.Set (canonical), the entry never matches")
			}
		}
		// no mutation after init
		for _, fn := range c.P.SrcFuncs("") {
			core.Instrs(fn, func(in ssa.Instruction) {
				var m ssa.Value
				switch x := in.(type) {
				case *ssa.MapUpdate:
					m = x.Map
				case *ssa.Call:
					if b, ok := x.Call.Value.(*ssa.Builtin); ok && b.Name() == "delete" && len(x.Call.Args) > 0 {
						m = x.Call.Args[0]
					}
				case *ssa.Store:
					if g, ok := x.Addr.(*ssa.Global); ok && g.Object() == hopObj && fn.Name() != "init" {
						c.Check("hop-set", "HopHeaders:reassigned:"+core.FuncKey(fn), in.Pos(), false, "HopHeaders is reassigned in "+core.FuncKey(fn))
					}
				}
				if m == nil {
					return
				}
				u, ok := m.(*ssa.UnOp)
				if !ok {
					return
				}
				g, ok := u.X.(*ssa.Global)
				if !ok || g.Object() != hopObj {
					return
				}
				if fn.Name() == "init" && core.FuncPkgRel(fn) == h2bPkg {
					return
				}
				c.Check("hop-set", "HopHeaders:mutated:"+core.FuncKey(fn), in.Pos(), false, "HopHeaders is modified at run time in "+core.FuncKey(fn))
			})
		}
		c.Min("hop-set", len(h2bRFC7540ConnSpecific))
	}

	// ---- (2) cloneHeader -----------------------------------------------------
	if fn := e.fn("cloneHeader"); fn != nil && hopObj != nil {
		n := 0
		for _, in := range h2bAll(fn) {
			mu, ok := in.(*ssa.MapUpdate)
			if !ok {
				continue
			}
			n++
			okG := e.guarded(mu.Block(), func(r h2bRel) bool {
				return r.Flag(false, func(v ssa.Value) bool {
					lk, ok := v.(*ssa.Lookup)
					if !ok || !e.eq(lk.Index, mu.Key) {
						return false
					}
					u, ok := lk.X.(*ssa.UnOp)
					if !ok {
						return false
					}
					g, ok := u.X.(*ssa.Global)
					return ok && g.Object() == hopObj
				})
			})
			c.Check("clone-filter", fmt.Sprintf("cloneHeader:copy#%d", n), mu.Pos(), okG && h2bIsRangeElem(mu.Key),
				"cloneHeader copies a header key without HopHeaders[key] having been found false; guards: "+e.guardList(mu.Block()))
			retOK := false
			for _, r := range core.Returns(fn) {
				if len(r.Results) == 1 && r.Results[0] == mu.Map {
					retOK = true
				}
			}
			c.Check("clone-filter", fmt.Sprintf("cloneHeader:copy#%d:result", n), mu.Pos(), retOK, "the filtered copy is not the map returned by cloneHeader")
		}
		c.Min("clone-filter", 2)
	}

	// ---- (3) writers of snapHeader and status ---------------------------------
	for _, s := range core.FieldStores(e.fns, snapF) {
		base, _ := h2bStoreField(s.Store, snapF)
		call, ok := h2bIsCall(e.rep(s.Store.Val), "cloneHeader")
		okV := false
		if ok && len(call.Call.Args) == 1 {
			b, isHH := h2bFieldLoad(e.rep(call.Call.Args[0]), hhF)
			okV = isHH && e.eq(b, base)
		}
		c.Check("snap-source", h2bShort(e.home(s.Fn, c.P.Func(h2bPkg, "responseWriterState.writeHeader"))), s.Store.Pos(), okV,
			"responseWriterState.snapHeader is assigned "+core.Render(s.Store.Val)+" in "+h2bShort(s.Fn)+"; the header snapshot must be cloneHeader(rws.handlerHeader) so that connection-specific fields are removed")
	}
	c.Min("snap-source", 1)
	writeHeaderFn := e.fn("responseWriterState.writeHeader")
	for _, s := range core.FieldStores(e.fns, statusF) {
		ok := writeHeaderFn != nil && e.within(s.Fn, writeHeaderFn) && len(writeHeaderFn.Params) == 2 && e.rep(s.Store.Val) == e.rep(writeHeaderFn.Params[1]) &&
			e.guarded(s.Store.Block(), func(r h2bRel) bool { return r.Flag(false, isLoadOf(wroteHdrF)) })
		c.Check("status-writers", h2bShort(e.home(s.Fn, writeHeaderFn)), s.Store.Pos(), ok,
			"responseWriterState.status is written with "+core.Render(s.Store.Val)+" in "+h2bShort(s.Fn)+"; it must be the first WriteHeader code only (under !wroteHeader); guards: "+e.guardList(s.Store.Block()))
	}
	c.Min("status-writers", 1)

	// ---- (4)-(6) writeChunk -----------------------------------------------------
	wc := e.fn("responseWriterState.writeChunk")
	if wc != nil {
		const k = "writeChunk:"
		wcReg := e.region(wc) // writeChunk with its private helpers
		rws := ssa.Value(wc.Params[0])
		p := ssa.Value(wc.Params[1])
		isHeadXY := func(x, y ssa.Value) bool {
			for i, o := range []ssa.Value{x, y} {
				if s, ok := core.ConstString(o); ok && s == "HEAD" {
					f, _ := h2bAnyFieldLoad([]ssa.Value{y, x}[i])
					return f != nil && f.Name() == "Method"
				}
			}
			return false
		}
		isHead := func(v ssa.Value) bool {
			b, ok := v.(*ssa.BinOp)
			return ok && b.Op == token.EQL && isHeadXY(b.X, b.Y)
		}
		relNotHead := func(r h2bRel) bool { return r.Op == token.NEQ && isHeadXY(r.X, r.Y) }
		notHead := func(b *ssa.BasicBlock) bool { return e.guarded(b, relNotHead) }
		isHasTrailers := func(v ssa.Value) bool {
			call, ok := h2bIsCall(v, "responseWriterState.hasTrailers")
			return ok && len(call.Call.Args) == 1 && e.eq(call.Call.Args[0], rws)
		}
		lenPZero := func(r h2bRel) bool {
			return r.Cmp(token.EQL, func(v ssa.Value) bool {
				call, ok := v.(*ssa.Call)
				if !ok {
					return false
				}
				b, ok := call.Call.Value.(*ssa.Builtin)
				return ok && b.Name() == "len" && e.eq(call.Call.Args[0], p)
			}, h2bIsInt(0))
		}
		// edgeFacts: the facts established on the edge pred->b
		edgeHas := func(pred, b *ssa.BasicBlock, m func(h2bRel) bool) bool {
			for _, g := range core.GuardsOnEdge(pred, b) {
				if m(h2bRelOf(g)) {
					return true
				}
			}
			return false
		}
		var dataCalls, hdrCalls []ssa.CallInstruction
		dataCalls = wcReg.calls("serverConn.writeDataFromHandler")
		hdrCalls = wcReg.calls("serverConn.writeHeaders")
		isData := func(in ssa.Instruction) bool {
			for _, d := range dataCalls {
				if in == d.(ssa.Instruction) {
					return true
				}
			}
			return false
		}
		var respHdr ssa.Instruction
		nTrailers := 0
		for _, hc := range hdrCalls {
			in := hc.(ssa.Instruction)
			args := hc.Common().Args
			if len(args) != 3 {
				continue
			}
			lit := h2bLitOf(args[2])
			fl := h2bLitFields(lit)
			_, isTrailers := fl["trailers"]
			if !isTrailers {
				kk := k + "response:"
				respHdr = in
				c.Check("headers-frame", kk+"header-map", in.Pos(), fl["h"] != nil && isLoadOf(snapF)(fl["h"]),
					"the response HEADERS request takes its fields from "+core.Render(fl["h"])+", expected the filtered snapshot rws.snapHeader")
				c.Check("headers-frame", kk+"status", in.Pos(), fl["httpResCode"] != nil && isLoadOf(statusF)(fl["httpResCode"]),
					"the response HEADERS request carries status "+core.Render(fl["httpResCode"])+", expected rws.status")
				okID := false
				if b, ok := h2bFieldLoad(fl["streamID"], idF); ok {
					okID = isLoadOf(streamF)(b)
				}
				c.Check("headers-frame", kk+"stream-id", in.Pos(), okID, "the response HEADERS request is addressed to "+core.Render(fl["streamID"])+", expected rws.stream.id")
				c.Check("headers-frame", kk+"once", in.Pos(), e.guarded(in.Block(), func(r h2bRel) bool { return r.Flag(false, isLoadOf(sentF)) }),
					"the response HEADERS request is not guarded by !rws.sentHeader: the header block can be sent twice")
				var setSent ssa.Instruction
				for _, s := range core.FieldStores(wcReg.fns, sentF) {
					if v, ok := h2bBool(s.Store.Val); ok && v {
						setSent = s.Store
					}
				}
				c.Check("headers-frame", kk+"marks-sent", in.Pos(), setSent != nil && wcReg.dominates(setSent, in), "rws.sentHeader is not set before the response HEADERS request is issued")
				// endStream: HEAD => true; true (otherwise) => handlerDone && !hasTrailers && len(p)==0
				es := fl["endStream"]
				if es != nil {
					es = e.rep(es) // the request may be built in a helper that receives the decision
				}
				headOK, otherOK := es != nil, es != nil
				type edge struct {
					v    ssa.Value
					pred *ssa.BasicBlock
					blk  *ssa.BasicBlock
				}
				var edges []edge
				if phi, ok := es.(*ssa.Phi); ok {
					for i, ed := range phi.Edges {
						edges = append(edges, edge{ed, phi.Block().Preds[i], phi.Block()})
					}
				} else if es != nil {
					edges = append(edges, edge{es, nil, in.Block()})
				}
				has := func(ed edge, m func(h2bRel) bool) bool {
					if ed.pred == nil {
						return e.guarded(ed.blk, m)
					}
					return edgeHas(ed.pred, ed.blk, m)
				}
				for _, ed := range edges {
					if isHead(ed.v) {
						continue
					}
					if v, ok := h2bBool(ed.v); ok {
						if v {
							otherOK = otherOK && has(ed, func(r h2bRel) bool { return r.Flag(true, isLoadOf(doneF)) }) &&
								has(ed, func(r h2bRel) bool { return r.Flag(false, isHasTrailers) }) && has(ed, lenPZero)
						} else {
							headOK = headOK && has(ed, relNotHead)
						}
						continue
					}
					headOK, otherOK = false, false
				}
				c.Check("headers-frame", kk+"head-ends-stream", in.Pos(), headOK,
					"the response HEADERS request does not end the stream for every HEAD request (endStream = "+core.Render(es)+"): END_STREAM would never be sent, since DATA is suppressed for HEAD")
				c.Check("headers-frame", kk+"end-stream-condition", in.Pos(), otherOK,
					"the response HEADERS request can end the stream although the handler is not done, trailers are pending or the chunk is not empty (endStream = "+core.Render(es)+")")
			} else {
				nTrailers++
				kk := fmt.Sprintf("%strailers#%d:", k, nTrailers)
				v, isConst := h2bBool(fl["endStream"])
				c.Check("trailers-frame", kk+"ends-stream", in.Pos(), fl["endStream"] != nil && isConst && v,
					"the trailers HEADERS request has endStream = "+core.Render(fl["endStream"])+"; trailers are the last frame of a response and must always carry END_STREAM")
				c.Check("trailers-frame", kk+"declared-keys", in.Pos(), isLoadOf(trailersF)(fl["trailers"]),
					"the trailers HEADERS request selects keys "+core.Render(fl["trailers"])+", expected the declared trailers rws.trailers")
				_, hasStatus := fl["httpResCode"]
				c.Check("trailers-frame", kk+"no-status", in.Pos(), !hasStatus, "the trailers HEADERS request carries a :status")
				okG := e.guarded(in.Block(), func(r h2bRel) bool { return r.Flag(true, isLoadOf(doneF)) }) &&
					e.guarded(in.Block(), func(r h2bRel) bool { return r.Flag(true, isHasTrailers) })
				c.Check("trailers-frame", kk+"when", in.Pos(), okG, "trailers are sent although the handler is not done or no trailers are declared; guards: "+e.guardList(in.Block()))
				c.Check("trailers-frame", kk+"after-body", in.Pos(), wcReg.reachAfter(in, nil, isData) == nil, "a DATA write is reachable after the trailers were sent")
				c.Check("trailers-frame", kk+"not-for-head", in.Pos(), notHead(in.Block()), "trailers can be sent in response to HEAD after the stream was already ended by the HEADERS frame")
			}
		}
		c.Check("headers-frame", k+"response:present", wc.Pos(), respHdr != nil, "writeChunk issues no response HEADERS request (writeHeaders without trailers)")
		c.Min("headers-frame", 8)
		c.Min("trailers-frame", 6)

		// DATA
		for _, s := range e.callSites("serverConn.writeDataFromHandler") {
			if !wcReg.in[s.Fn] {
				c.Check("data-frame", h2bShort(s.Fn)+":caller", s.Call.Pos(), false, "writeDataFromHandler is called from "+h2bShort(s.Fn)+": response DATA bypasses writeChunk's HEAD / END_STREAM rules")
			}
		}
		for i, dc := range dataCalls {
			in := dc.(ssa.Instruction)
			kk := fmt.Sprintf("%sdata#%d:", k, i+1)
			args := dc.Common().Args
			if len(args) != 4 {
				continue
			}
			c.Check("data-frame", kk+"not-for-head", in.Pos(), notHead(in.Block()), "a DATA frame can be written in response to a HEAD request; guards: "+e.guardList(in.Block()))
			c.Check("data-frame", kk+"bytes", in.Pos(), e.eq(args[2], p), "the DATA write carries "+core.Render(args[2])+", expected the chunk handed to writeChunk")
			c.Check("data-frame", kk+"stream", in.Pos(), isLoadOf(streamF)(args[1]), "the DATA write goes to "+core.Render(args[1])+", expected rws.stream")
			// END_STREAM only if handlerDone && !hasTrailers
			okES := true
			switch x := e.rep(args[3]).(type) {
			case *ssa.Phi:
				for j, ed := range x.Edges {
					pred := x.Block().Preds[j]
					if v, ok := h2bBool(ed); ok && !v {
						continue
					}
					u, ok := ed.(*ssa.UnOp)
					if !(ok && u.Op == token.NOT && isHasTrailers(u.X) && edgeHas(pred, x.Block(), func(r h2bRel) bool { return r.Flag(true, isLoadOf(doneF)) })) {
						// also accept an edge on which both facts were established by branches
						if !(edgeHas(pred, x.Block(), func(r h2bRel) bool { return r.Flag(true, isLoadOf(doneF)) }) && edgeHas(pred, x.Block(), func(r h2bRel) bool { return r.Flag(false, isHasTrailers) })) {
							okES = false
						}
					}
				}
			case *ssa.Const:
				v, _ := h2bBool(x)
				okES = !v
			default:
				okES = false
			}
			c.Check("data-frame", kk+"end-stream-condition", in.Pos(), okES,
				"DATA can carry END_STREAM (endStream = "+core.Render(args[3])+") although the handler is not done or trailers are still to be sent")
			// HEADERS first
			var sentTest *ssa.If
			var unsent *ssa.BasicBlock
			for _, ifi := range wcReg.ifs() {
				for j, pol := range []bool{true, false} {
					if h2bRelOfCond(ifi.Cond, pol).Flag(false, isLoadOf(sentF)) {
						sentTest, unsent = ifi, ifi.Block().Succs[j]
					}
				}
			}
			okH := sentTest != nil && respHdr != nil && wcReg.dominates(sentTest, in)
			if okH {
				okH = wcReg.reachFromBlock(unsent, h2bInstrIs(respHdr), h2bInstrIs(in)) == nil
			}
			c.Check("data-frame", kk+"after-headers", in.Pos(), okH, "a DATA frame can be written before the response HEADERS request (sentHeader false and no writeHeaders on the path)")
		}
		c.Min("data-frame", 5)
	}

	// ---- (5b) body-less statuses --------------------------------------------------
	if fn := e.fn("responseWriter.write"); fn != nil {
		n := 0
		for _, x := range e.region(fn).all() {
			call, isCall := x.(ssa.CallInstruction)
			if !isCall {
				continue
			}
			sc := call.Common().StaticCallee()
			if sc == nil || sc.Pkg == nil || sc.Pkg.Pkg.Path() != "bufio" || !strings.HasPrefix(sc.Name(), "Write") {
				continue
			}
			n++
			in := call.(ssa.Instruction)
			ok := e.guarded(in.Block(), func(r h2bRel) bool {
				return r.Flag(true, func(v ssa.Value) bool {
					cl, ok := h2bIsCall(v, "bodyAllowedForStatus")
					return ok && len(cl.Call.Args) == 1 && isLoadOf(statusF)(cl.Call.Args[0])
				})
			})
			c.Check("no-body-status", fmt.Sprintf("responseWriter.write:buffer#%d", n), in.Pos(), ok,
				"body bytes are buffered without bodyAllowedForStatus(rws.status) having been found true; guards: "+e.guardList(in.Block()))
		}
	}
	if fn := e.fn("bodyAllowedForStatus"); fn != nil && len(fn.Params) == 1 {
		st := ssa.Value(fn.Params[0])
		type need struct {
			name string
			m    func(b *ssa.BasicBlock) bool
		}
		has := func(b *ssa.BasicBlock, op token.Token, n int64) bool {
			return h2bGuarded(b, func(r h2bRel) bool { return r.Cmp(op, h2bIs(st), h2bIsInt(n)) })
		}
		needs := []need{
			{"1xx", func(b *ssa.BasicBlock) bool {
				return (has(b, token.GEQ, 100) || has(b, token.GTR, 99)) && (has(b, token.LEQ, 199) || has(b, token.LSS, 200))
			}},
			{"204", func(b *ssa.BasicBlock) bool { return has(b, token.EQL, 204) }},
			{"304", func(b *ssa.BasicBlock) bool { return has(b, token.EQL, 304) }},
		}
		for _, nd := range needs {
			found := false
			for _, r := range core.Returns(fn) {
				if v, ok := h2bBool(r.Results[0]); ok && !v && nd.m(r.Block()) {
					found = true
				}
			}
			c.Check("no-body-status", "bodyAllowedForStatus:"+nd.name, fn.Pos(), found, "bodyAllowedForStatus has no `return false` for status "+nd.name+": a body would be accepted for a body-less response")
		}
	}
	c.Min("no-body-status", 5)

	// ---- (7) encoding ------------------------------------------------------------
	if fn := e.fn("encodeHeaders"); fn != nil {
		for i, call := range e.region(fn).calls("encKV") {
			in := call.(ssa.Instruction)
			kk := fmt.Sprintf("encodeHeaders:field#%d:", i+1)
			args := call.Common().Args
			if len(args) != 3 {
				continue
			}
			name, val := args[1], args[2]
			_, isLower := h2bIsCall(e.rep(name), "lowerHeader")
			c.Check("encode", kk+"lower-cased", in.Pos(), isLower, "the field name written is "+core.Render(name)+", not the result of lowerHeader")
			okN := e.guarded(in.Block(), func(r h2bRel) bool {
				return r.Flag(true, func(v ssa.Value) bool {
					cl, ok := h2bIsCall(v, "validHeaderFieldName")
					return ok && e.rep(cl.Call.Args[0]) == e.rep(name)
				})
			})
			c.Check("encode", kk+"name-validated", in.Pos(), okN, "the field is written without validHeaderFieldName having accepted the very name that is written; guards: "+e.guardList(in.Block()))
			okV := e.guarded(in.Block(), func(r h2bRel) bool {
				return r.Flag(true, func(v ssa.Value) bool {
					cl, ok := h2bIsCall(v, "validHeaderFieldValue")
					return ok && e.rep(cl.Call.Args[0]) == e.rep(val)
				})
			})
			c.Check("encode", kk+"value-validated", in.Pos(), okV, "the field is written without validHeaderFieldValue having accepted the very value that is written; guards: "+e.guardList(in.Block()))
			isStr := func(s string) func(ssa.Value) bool {
				return func(v ssa.Value) bool { k, ok := core.ConstString(v); return ok && k == s }
			}
			okTE := e.guarded(in.Block(), func(r h2bRel) bool {
				if r.Cmp(token.NEQ, e.is(name), isStr("transfer-encoding")) || r.Cmp(token.EQL, e.is(val), isStr("trailers")) {
					return true
				}
				// `isTE := k == "transfer-encoding"` tested as a flag
				return r.Flag(false, func(v ssa.Value) bool {
					return h2bRelOfCond(e.rep(v), true).Cmp(token.EQL, e.is(name), isStr("transfer-encoding"))
				})
			})
			c.Check("encode", kk+"te-trailers-only", in.Pos(), okTE, "a transfer-encoding field other than `trailers` can be written (RFC 7540 8.1.2.2)")
		}
	}
	if fn := e.fn("lowerHeader"); fn != nil && len(fn.Params) == 1 {
		for i, r := range core.Returns(fn) {
			v := r.Results[0]
			ok := false
			if call, isCall := v.(*ssa.Call); isCall {
				sc := call.Call.StaticCallee()
				ok = sc != nil && sc.Pkg != nil && sc.Pkg.Pkg.Path() == "strings" && sc.Name() == "ToLower" && h2bEq(call.Call.Args[0], fn.Params[0])
			} else if ex, isEx := v.(*ssa.Extract); isEx && ex.Index == 0 {
				if lk, isLk := ex.Tuple.(*ssa.Lookup); isLk && lk.CommaOk && h2bEq(lk.Index, fn.Params[0]) {
					if u, isU := lk.X.(*ssa.UnOp); isU {
						if g, isG := u.X.(*ssa.Global); isG && g.Name() == "commonLowerHeader" {
							ok = h2bGuarded(r.Block(), func(rel h2bRel) bool {
								return rel.Flag(true, func(x ssa.Value) bool { e2, k := x.(*ssa.Extract); return k && e2.Index == 1 && e2.Tuple == ex.Tuple })
							})
						}
					}
				}
			}
			c.Check("encode", fmt.Sprintf("lowerHeader:return#%d", i+1), r.Pos(), ok, "lowerHeader returns "+core.Render(v)+", which is neither a commonLowerHeader hit nor strings.ToLower of the argument")
		}
	}
	wf := e.fn("writeResHeaders.writeFrame")
	if wf != nil {
		var statusKV, encCall ssa.Instruction
		wfReg := e.region(wf)
		for _, call := range wfReg.calls("encodeHeaders") {
			encCall = call.(ssa.Instruction)
		}
		for i, call := range wfReg.calls("encKV") {
			in := call.(ssa.Instruction)
			args := call.Common().Args
			name, isConst := core.ConstString(args[1])
			kk := fmt.Sprintf("writeResHeaders.writeFrame:field#%d", i+1)
			if !isConst {
				c.Check("encode", kk, in.Pos(), false, "writeResHeaders.writeFrame writes a field with the non-constant name "+core.Render(args[1])+" outside encodeHeaders (no lower-casing / validation)")
				continue
			}
			okName := name == strings.ToLower(name)
			if name == ":status" {
				statusKV = in
				cl, isCall := h2bIsCall(e.rep(args[2]), "httpCodeString")
				f, _ := h2bAnyFieldLoad(func() ssa.Value {
					if isCall && len(cl.Call.Args) == 1 {
						return cl.Call.Args[0]
					}
					return nil
				}())
				okName = okName && f != nil && f.Name() == "httpResCode"
			}
			c.Check("encode", kk+":"+name, in.Pos(), okName, "fixed response field "+name+" is not lower-case or :status is not derived from httpResCode")
		}
		if statusKV != nil && encCall != nil {
			c.Check("encode", "writeResHeaders.writeFrame:status-first", statusKV.Pos(), e.region(wf).reachAfter(encCall, nil, h2bInstrIs(statusKV)) == nil && e.region(wf).reachAfter(nil, nil, h2bInstrIs(statusKV)) != nil,
				":status can be written after regular header fields")
		} else {
			c.Check("encode", "writeResHeaders.writeFrame:status-first", wf.Pos(), false, "writeResHeaders.writeFrame no longer writes :status and then calls encodeHeaders")
		}
	}
	c.Min("encode", 11)

	// ---- (8) a HEADERS request never silently produces no frame -------------------
	if wf != nil {
		h2bC38FramePaths(c, e, wf)
	}

	// ---- (9) the trailer set is complete before END_STREAM is decided --------------
	if wc != nil {
		c38TrailersComplete(c, e, wc, trailersF)
	}

	// ---- (11) the declared-trailer set holds each canonical name once ---------------
	c38TrailerSet(c, e, trailersF)

	// ---- (12) nothing overtakes the response buffer ---------------------------------
	c38ChunkOrder(c, e)

	// ---- (10) pooled objects are not used after they were returned -----------------
	c38PoolLifetime(c, e)
}

// c38TrailersComplete: whether the response HEADERS (or the last DATA) frame
// carries END_STREAM is decided by rws.hasTrailers(), i.e. by the trailer set
// recorded so far. A frame that ended the stream cannot be followed by
// trailers, so everything that can add to the set during writeChunk (parsing
// the Trailer declarations of the header snapshot, promoting "Trailer:" keys)
// has to run before the first such decision: no call that may write
// rws.trailers may be reachable from an evaluation of hasTrailers(). One
// obligation per writing call site of writeChunk.
func c38TrailersComplete(c *core.Ctx, e *h2bEnv, wc *ssa.Function, trailersF *types.Var) {
	// functions of the package that (transitively, through static calls) store to rws.trailers
	writes := map[*ssa.Function]bool{}
	for _, s := range core.FieldStores(e.fns, trailersF) {
		writes[s.Fn] = true
	}
	for changed, round := true, 0; changed && round < 4; round++ {
		changed = false
		for _, fn := range e.fns {
			if writes[fn] {
				continue
			}
			for _, call := range core.AllCalls(fn) {
				if _, isGo := call.(*ssa.Go); isGo {
					continue
				}
				if t := e.real(call.Common().StaticCallee()); t != nil && writes[t] {
					writes[fn] = true
					changed = true
					break
				}
			}
		}
	}
	fnOf := func(v ssa.Value) *ssa.Function {
		switch x := v.(type) {
		case *ssa.Function:
			return e.real(x)
		case *ssa.MakeClosure:
			f, _ := x.Fn.(*ssa.Function)
			return e.real(f)
		}
		return nil
	}
	wcReg := e.region(wc)
	var readers []ssa.Instruction
	for _, call := range wcReg.calls("responseWriterState.hasTrailers") {
		readers = append(readers, call.(ssa.Instruction))
	}
	c.Check("trailers-complete", "writeChunk:decision-reads", wc.Pos(), len(readers) > 0, "writeChunk no longer consults rws.hasTrailers(): the rule that ties END_STREAM to the trailer set has lost its anchor")
	seen := map[string]int{}
	for _, x := range wcReg.all() {
		call, isCall := x.(ssa.CallInstruction)
		if !isCall {
			continue
		}
		cc := call.Common()
		via := ""
		if t := e.real(cc.StaticCallee()); t != nil && writes[t] && !(wcReg.in[t] && t != wc) {
			via = h2bShort(t) // (a private helper of writeChunk is looked into instead)
		}
		for _, a := range cc.Args {
			if f := fnOf(a); f != nil && writes[f] {
				name := "call"
				if sc := cc.StaticCallee(); sc != nil {
					name = sc.Name()
				}
				via = name + "(" + h2bShort(f) + ")"
			}
		}
		if via == "" {
			continue
		}
		in := call.(ssa.Instruction)
		k := "writeChunk:" + via
		seen[k]++
		if seen[k] > 1 {
			k += fmt.Sprintf("#%d", seen[k])
		}
		var stale ssa.Instruction
		for _, r := range readers {
			if r == in {
				continue
			}
			if wcReg.reachAfter(r, nil, h2bInstrIs(in)) != nil {
				stale = r
				break
			}
		}
		where := ""
		if stale != nil {
			where = " (hasTrailers() at " + c.P.Pos(stale.Pos()) + " runs first)"
		}
		c.Check("trailers-complete", k, in.Pos(), stale == nil,
			"writeChunk can add to rws.trailers through "+via+" after rws.hasTrailers() was already consulted for an END_STREAM decision"+where+": when the handler finished without body bytes the response HEADERS frame is sent with END_STREAM on the strength of the incomplete set and these trailers are never sent")
	}
	c.Min("trailers-complete", 3)
}

// c38AliasCapable: a value of type t can share storage with another object.
func c38AliasCapable(t types.Type, depth int) bool {
	if t == nil || depth > 6 {
		return false
	}
	if types.Identical(t, types.Universe.Lookup("error").Type()) {
		return false // errors do not alias buffers
	}
	switch u := t.Underlying().(type) {
	case *types.Pointer, *types.Slice, *types.Map, *types.Chan, *types.Signature, *types.Interface:
		return true
	case *types.Struct:
		for i := 0; i < u.NumFields(); i++ {
			if c38AliasCapable(u.Field(i).Type(), depth+1) {
				return true
			}
		}
	case *types.Array:
		return c38AliasCapable(u.Elem(), depth+1)
	case *types.Tuple:
		for i := 0; i < u.Len(); i++ {
			if c38AliasCapable(u.At(i).Type(), depth+1) {
				return true
			}
		}
	}
	return false
}

func c38IsPoolCall(cc *ssa.CallCommon, method string) bool {
	sc := cc.StaticCallee()
	if sc == nil || sc.Name() != method || sc.Signature.Recv() == nil {
		return false
	}
	return core.TypeStr(sc.Signature.Recv().Type()) == "*sync.Pool"
}

// c38Aliases: x (the object handed to Pool.Put) and every value of its function
// that may share storage with it: the same object under another static type,
// addresses and loads inside it, results of calls that received it (slices
// such as sorter.Keys(h) live in the pooled object), locals it was stored in.
func c38Aliases(x ssa.Value) map[ssa.Value]bool {
	// back to the origin through type changes
	for i := 0; i < 8; i++ {
		switch y := x.(type) {
		case *ssa.MakeInterface:
			x = y.X
			continue
		case *ssa.ChangeType:
			x = y.X
			continue
		case *ssa.ChangeInterface:
			x = y.X
			continue
		case *ssa.TypeAssert:
			x = y.X
			continue
		}
		break
	}
	set := map[ssa.Value]bool{x: true}
	work := []ssa.Value{x}
	add := func(v ssa.Value) {
		if v != nil && !set[v] {
			set[v] = true
			work = append(work, v)
		}
	}
	for len(work) > 0 {
		v := work[len(work)-1]
		work = work[:len(work)-1]
		refs := v.Referrers()
		if refs == nil {
			continue
		}
		for _, r := range *refs {
			switch y := r.(type) {
			case *ssa.MakeInterface, *ssa.ChangeType, *ssa.ChangeInterface, *ssa.TypeAssert, *ssa.Slice, *ssa.FieldAddr, *ssa.IndexAddr, *ssa.Phi, *ssa.SliceToArrayPointer:
				add(r.(ssa.Value))
			case *ssa.Extract:
				if c38AliasCapable(y.Type(), 0) {
					add(y)
				}
			case *ssa.UnOp:
				if y.Op == token.MUL && c38AliasCapable(y.Type(), 0) {
					add(y)
				}
			case *ssa.Field:
				if c38AliasCapable(y.Type(), 0) {
					add(y)
				}
			case *ssa.Index:
				if c38AliasCapable(y.Type(), 0) {
					add(y)
				}
			case *ssa.Lookup:
				if y.X == v && c38AliasCapable(y.Type(), 0) {
					add(y)
				}
			case *ssa.Call:
				if c38IsPoolCall(&y.Call, "Put") || c38IsPoolCall(&y.Call, "Get") {
					continue
				}
				if b, ok := y.Call.Value.(*ssa.Builtin); ok {
					// append shares storage with its first argument only
					if b.Name() == "append" && len(y.Call.Args) > 0 && y.Call.Args[0] == v {
						add(y)
					}
					continue
				}
				if c38AliasCapable(y.Type(), 0) {
					add(y)
				}
			case *ssa.Store:
				if y.Val != v {
					continue
				}
				base := y.Addr
				for {
					switch b := base.(type) {
					case *ssa.FieldAddr:
						base = b.X
						continue
					case *ssa.IndexAddr:
						base = b.X
						continue
					}
					break
				}
				if a, ok := base.(*ssa.Alloc); ok {
					add(a)
				}
			}
		}
	}
	return set
}

// c38PoolLifetime: an object given back with sync.Pool.Put belongs to the next
// goroutine that Gets it. For every Put in bfe_http2: (a) after a plain Put no
// instruction of the function may still use the object or a value sharing its
// storage (until the variable is re-defined); (b) with a deferred Put no such
// value may leave the function: not as a result, not stored into memory that
// outlives the call, not sent on a channel. The key slice returned by
// sorter.Keys is the motivating case: it lives in the pooled sorter, and the
// header block is encoded from it.
func c38PoolLifetime(c *core.Ctx, e *h2bEnv) {
	usesAlias := func(in ssa.Instruction, set map[ssa.Value]bool) bool {
		if _, ok := in.(*ssa.DebugRef); ok {
			return false
		}
		for _, op := range in.Operands(nil) {
			if *op != nil && set[*op] {
				return true
			}
		}
		return false
	}
	poolName := func(cc *ssa.CallCommon) string {
		if len(cc.Args) > 0 {
			return core.Render(cc.Args[0])
		}
		return "pool"
	}
	for _, fn := range e.fns {
		n := 0
		for _, call := range core.AllCalls(fn) {
			cc := call.Common()
			if !c38IsPoolCall(cc, "Put") || len(cc.Args) != 2 {
				continue
			}
			n++
			in := call.(ssa.Instruction)
			key := fmt.Sprintf("%s:put#%d(%s)", h2bShort(fn), n, poolName(cc))
			set := c38Aliases(cc.Args[1])
			switch call.(type) {
			case *ssa.Defer:
				var bad ssa.Instruction
				what := ""
				for _, x := range h2bAll(fn) {
					switch y := x.(type) {
					case *ssa.Return:
						for _, rv := range core.RetVals(y) {
							if set[rv] && c38AliasCapable(rv.Type(), 0) {
								bad, what = x, "is returned to the caller"
							}
						}
						for _, rv := range y.Results {
							if set[rv] && c38AliasCapable(rv.Type(), 0) {
								bad, what = x, "is returned to the caller"
							}
						}
					case *ssa.Store:
						if !set[y.Val] || !c38AliasCapable(y.Val.Type(), 0) {
							continue
						}
						base := y.Addr
						for {
							switch b := base.(type) {
							case *ssa.FieldAddr:
								base = b.X
								continue
							case *ssa.IndexAddr:
								base = b.X
								continue
							}
							break
						}
						if _, local := base.(*ssa.Alloc); !local && !set[base] {
							bad, what = x, "is stored into "+core.Render(y.Addr)
						}
					case *ssa.Send:
						if set[y.X] {
							bad, what = x, "is sent on a channel"
						}
					case *ssa.MapUpdate:
						if (set[y.Value] || set[y.Key]) && !set[y.Map] {
							bad, what = x, "is stored into a map"
						}
					}
				}
				if bad != nil && h2bPos(bad).IsValid() {
					what += " at " + c.P.Pos(h2bPos(bad))
				}
				c.Check("pool-lifetime", key, in.Pos(), bad == nil,
					"the object is returned to "+poolName(cc)+" by a deferred Put when "+h2bShort(fn)+" exits, but a value that shares its storage "+what+": another goroutine that Gets the object rewrites it while it is still being read here (a header block is then encoded from another response's keys)")
			case *ssa.Call:
				root := cc.Args[1]
				var def ssa.Instruction
				for v := root; ; {
					switch y := v.(type) {
					case *ssa.MakeInterface:
						v = y.X
						continue
					case *ssa.ChangeType:
						v = y.X
						continue
					case *ssa.TypeAssert:
						v = y.X
						continue
					}
					def, _ = v.(ssa.Instruction)
					break
				}
				bad := core.ReachAvoiding(fn, in, func(x ssa.Instruction) bool { return def != nil && x == def },
					func(x ssa.Instruction) bool { return usesAlias(x, set) })
				at := ""
				if bad != nil {
					at = " at " + c.P.Pos(h2bPos(bad))
				}
				c.Check("pool-lifetime", key, in.Pos(), bad == nil,
					"after "+poolName(cc)+".Put the object (or a value sharing its storage) is still used"+at+": the pool may already have handed it to another goroutine")
			default:
				c.Check("pool-lifetime", key, in.Pos(), false, "sync.Pool.Put is started with `go`: the lifetime of the pooled object cannot be followed")
			}
		}
	}
	c.Min("pool-lifetime", 5)
}

// h2bC38FramePaths enumerates the feasible paths of writeResHeaders.writeFrame
// that return a nil error without calling Framer.WriteHeaders (or WriteData):
// no frame reaches the peer, so an END_STREAM requested with it is lost. Such a
// path is accepted only if it established !w.endStream. Feasibility: the
// emptiness of a slice value is tracked along the path (len(x) == 0 / > 0
// tests, through phis), which removes the "block not empty but loop not
// entered" combinations.
func h2bC38FramePaths(c *core.Ctx, e *h2bEnv, fn *ssa.Function) {
	endF := e.field("writeResHeaders.endStream")
	if endF == nil {
		return
	}
	emits := func(in ssa.Instruction) bool {
		ci, ok := in.(ssa.CallInstruction)
		return ok && core.CallIs(ci.Common(), h2bName("Framer.WriteHeaders"), h2bName("Framer.WriteContinuation"), h2bName("Framer.WriteData"), h2bName("Framer.WriteDataPadded"))
	}
	// lenOf: v is len(x) -> x
	lenOf := func(v ssa.Value) ssa.Value {
		call, ok := v.(*ssa.Call)
		if !ok {
			return nil
		}
		if b, ok := call.Call.Value.(*ssa.Builtin); ok && b.Name() == "len" && len(call.Call.Args) == 1 {
			return call.Call.Args[0]
		}
		return nil
	}
	type state struct {
		empty map[ssa.Value]bool // known emptiness of slice values
		alias map[ssa.Value]ssa.Value
	}
	resolve := func(s *state, v ssa.Value) ssa.Value {
		for i := 0; i < 10; i++ {
			if a, ok := s.alias[v]; ok {
				v = a
				continue
			}
			break
		}
		return v
	}
	bad, total, silent := "", 0, 0
	visits := map[*ssa.BasicBlock]int{}
	var walk func(b, pred *ssa.BasicBlock, s state, emitted, notEnd bool, trail []string)
	walk = func(b, pred *ssa.BasicBlock, s state, emitted, notEnd bool, trail []string) {
		if visits[b] >= 2 || total > 20000 {
			return
		}
		visits[b]++
		defer func() { visits[b]-- }()
		// copy state
		ns := state{empty: map[ssa.Value]bool{}, alias: map[ssa.Value]ssa.Value{}}
		for k, v := range s.empty {
			ns.empty[k] = v
		}
		for k, v := range s.alias {
			ns.alias[k] = v
		}
		if pred != nil {
			pi := -1
			for i, p := range b.Preds {
				if p == pred {
					pi = i
				}
			}
			for _, in := range b.Instrs {
				phi, ok := in.(*ssa.Phi)
				if !ok {
					break
				}
				delete(ns.alias, phi)
				delete(ns.empty, phi)
				if pi >= 0 {
					ns.alias[phi] = resolve(&s, phi.Edges[pi])
				}
			}
		}
		for _, in := range b.Instrs {
			if emits(in) {
				emitted = true
			}
		}
		switch last := b.Instrs[len(b.Instrs)-1].(type) {
		case *ssa.Return:
			total++
			if len(last.Results) == 1 && h2bIsNil(last.Results[0]) && !emitted {
				silent++
				if !notEnd {
					// report the path with the most negated conditions (the plainest one)
					cand := strings.Join(trail, " & ")
					if bad == "" || strings.Count(cand, "!") > strings.Count(bad, "!") {
						bad = cand
					}
				}
			}
		case *ssa.If:
			for i, succ := range b.Succs {
				pol := i == 0
				r := h2bRelOfCond(last.Cond, pol)
				st := state{empty: map[ssa.Value]bool{}, alias: ns.alias}
				for k2, v2 := range ns.empty {
					st.empty[k2] = v2
				}
				feasible, ne := true, notEnd
				if r.Op != token.ILLEGAL {
					x, op := lenOf(r.X), r.Op
					other := r.Y
					if x == nil {
						x, op, other = lenOf(r.Y), h2bFlipOp(r.Op), r.X
					}
					if k, isK := h2bInt(other); x != nil && isK && k == 0 {
						x = resolve(&st, x)
						fact, known := false, false
						switch op {
						case token.EQL, token.LEQ:
							fact, known = true, true
						case token.NEQ, token.GTR:
							fact, known = false, true
						}
						if known {
							if old, ok := st.empty[x]; ok && old != fact {
								feasible = false
							}
							st.empty[x] = fact
						}
					}
				} else if r.Bool != nil {
					// flag variables carried through phis (`first`)
					if k, isK := h2bBool(resolve(&st, r.Bool)); isK && k != r.Pol {
						feasible = false
					}
					if _, ok := h2bFieldLoad(r.Bool, endF); ok && !r.Pol {
						ne = true
					}
				}
				if feasible {
					walk(succ, b, st, emitted, ne, append(append([]string(nil), trail...), h2bCondStr(last.Cond, pol)))
				}
			}
		default:
			for _, succ := range b.Succs {
				walk(succ, b, ns, emitted, notEnd, trail)
			}
		}
	}
	if len(fn.Blocks) > 0 {
		walk(fn.Blocks[0], nil, state{empty: map[ssa.Value]bool{}, alias: map[ssa.Value]ssa.Value{}}, false, false, nil)
	}
	c.Note("writeResHeaders.writeFrame: %d feasible exits enumerated, %d return nil without emitting a frame", total, silent)
	c.Check("frame-emitted", "writeResHeaders.writeFrame", fn.Pos(), bad == "" && total > 0 && total <= 20000,
		"a successful path of writeResHeaders.writeFrame writes no frame although the request may carry endStream (declared trailers that were never set encode to an empty block): END_STREAM is never sent and the peer waits forever; branches taken: "+bad)
	c.Min("frame-emitted", 1)
}

func h2bCondStr(cond ssa.Value, pol bool) string {
	s := core.Render(cond)
	if !pol {
		return "!" + s
	}
	return s
}
