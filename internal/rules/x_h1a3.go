package rules

// Helpers added for the third round of the HTTP/1 properties (C24, C25):
//   - error-latch discipline: a struct field of type error that a reader uses
//     as a sticky verdict ("once set, every later Read fails") must never be
//     overwritten with a value that may be nil while a verdict recorded since
//     the last nil test can still be in it. Decided by a two-context forward
//     dataflow (entered with / without a pending verdict) over the Read method
//     and the methods it calls on the same receiver;
//   - carve discipline: a slice cut out of a shared backing block and retained
//     (stored into a header map) while the block keeps being cut must have its
//     capacity capped at the point where the rest of the block starts;
//   - delivered-error discipline: the error result of a call is either known
//     to be nil or is (part of) the error the function returns, on every path
//     from the call to a return (path walk with phi resolution and nil-test
//     bookkeeping).

import (
	"fmt"
	"go/token"
	"go/types"
	"sort"
	"strings"

	"golang.org/x/tools/go/ssa"

	"verif/internal/core"
)

var h1cErrorType = types.Universe.Lookup("error").Type()

func h1cIsErrorType(t types.Type) bool { return types.Identical(t, h1cErrorType) }

// h1cIsRecv: v denotes the receiver (first parameter) of fn, also when the
// parameter was spilled to an Alloc because a closure / defer captures it.
func h1cIsRecv(v ssa.Value, fn *ssa.Function) bool {
	if len(fn.Params) == 0 {
		return false
	}
	recv := fn.Params[0]
	v = core.StripConv(v)
	if v == ssa.Value(recv) {
		return true
	}
	if u, ok := v.(*ssa.UnOp); ok && u.Op == token.MUL {
		if al, ok := u.X.(*ssa.Alloc); ok && core.SpilledParam(al) == recv {
			return true
		}
	}
	return false
}

// ---------------------------------------------------------------- error latch

type h1cLatchState struct {
	reached bool
	dirty   bool
	src     ssa.Instruction // the store / call that left the pending verdict
}

func (s h1cLatchState) join(o h1cLatchState) h1cLatchState {
	if !o.reached {
		return s
	}
	if !s.reached {
		return o
	}
	if o.dirty && !s.dirty {
		return o
	}
	return s
}

type h1cLatchViolation struct {
	store ssa.Instruction
	src   ssa.Instruction
	chain string
}

type h1cLatch struct {
	c     *core.Ctx
	fx    *h1aFacts
	named *types.Named
	fld   *types.Var
	memo  map[*ssa.Function][2]*h1cLatchState
	busy  map[*ssa.Function]bool
	// per store: analysed at least once / violations
	seen map[ssa.Instruction]bool
	bad  map[ssa.Instruction]h1cLatchViolation
	fns  map[*ssa.Function]bool
	why  []string // constructs the analysis could not follow
}

func (l *h1cLatch) isMethod(fn *ssa.Function) bool {
	if fn == nil || fn.Blocks == nil || fn.Signature.Recv() == nil {
		return false
	}
	t := fn.Signature.Recv().Type()
	if p, ok := t.(*types.Pointer); ok {
		t = p.Elem()
	}
	return types.Identical(t, l.named)
}

// fieldAddr: addr is &recv.fld inside fn.
func (l *h1cLatch) fieldAddr(addr ssa.Value, fn *ssa.Function) bool {
	fa, ok := addr.(*ssa.FieldAddr)
	return ok && core.FieldObj(fa.X, fa.Field) == l.fld && h1cIsRecv(fa.X, fn)
}

func (l *h1cLatch) isLoad(v ssa.Value, fn *ssa.Function) *ssa.UnOp {
	u, ok := v.(*ssa.UnOp)
	if ok && u.Op == token.MUL && l.fieldAddr(u.X, fn) {
		return u
	}
	return nil
}

// effect classifies an instruction: "" none, "store", "method" (analysed
// callee on the same receiver), "unknown" (the object is handed to code that
// is not followed).
func (l *h1cLatch) effect(in ssa.Instruction, fn *ssa.Function) (string, *ssa.Function) {
	switch x := in.(type) {
	case *ssa.Store:
		if l.fieldAddr(x.Addr, fn) {
			return "store", nil
		}
	case ssa.CallInstruction:
		cc := x.Common()
		passes := false
		vals := append([]ssa.Value{}, cc.Args...)
		if cc.IsInvoke() {
			vals = append(vals, cc.Value)
		}
		for _, a := range vals {
			if h1cIsRecv(a, fn) {
				passes = true
			}
		}
		if !passes {
			return "", nil
		}
		sc := cc.StaticCallee()
		if _, isCall := in.(*ssa.Call); isCall && sc != nil && l.isMethod(sc) && len(cc.Args) > 0 && h1cIsRecv(cc.Args[0], fn) {
			return "method", sc
		}
		if sc != nil && (sc.Blocks == nil || core.FuncPkgRel(sc) == "") {
			return "", nil // library code cannot reach an unexported field of this package
		}
		return "unknown", sc
	}
	return "", nil
}

// fresh: no write of the field can happen between the load and the branch.
func (l *h1cLatch) fresh(ld *ssa.UnOp, ifi *ssa.If, fn *ssa.Function) bool {
	stale := false
	core.Instrs(fn, func(w ssa.Instruction) {
		if stale {
			return
		}
		if k, _ := l.effect(w, fn); k == "" {
			return
		}
		isW := func(in ssa.Instruction) bool { return in == w }
		isIf := func(in ssa.Instruction) bool { return in == ssa.Instruction(ifi) }
		if core.ReachAvoiding(fn, ld, isIf, isW) != nil && core.ReachAvoiding(fn, w, nil, isIf) != nil {
			stale = true
		}
	})
	return !stale
}

// nilEdge: the edge b -> succ establishes `recv.fld == nil` for the current content of the field.
func (l *h1cLatch) nilEdge(b, succ *ssa.BasicBlock, fn *ssa.Function) bool {
	ifi, ok := b.Instrs[len(b.Instrs)-1].(*ssa.If)
	if !ok || len(b.Succs) != 2 || b.Succs[0] == b.Succs[1] {
		return false
	}
	for _, f := range l.fx.expand(ifi.Cond, b.Succs[0] == succ, 0) {
		bo, ok := f.Cond.(*ssa.BinOp)
		if !ok || (bo.Op != token.EQL && bo.Op != token.NEQ) {
			continue
		}
		isNilCmp := (bo.Op == token.EQL) == f.Pol
		if !isNilCmp {
			continue
		}
		var ld *ssa.UnOp
		switch {
		case h1aIsNil(bo.Y):
			ld = l.isLoad(bo.X, fn)
		case h1aIsNil(bo.X):
			ld = l.isLoad(bo.Y, fn)
		}
		if ld != nil && l.fresh(ld, ifi, fn) {
			return true
		}
	}
	return false
}

// transformOfPending: the stored value is computed from the field's current
// content (cr.err = wrap(cr.err)): the verdict is transformed, not dropped.
func (l *h1cLatch) transformOfPending(v ssa.Value, fn *ssa.Function) bool {
	call, ok := core.StripConv(v).(*ssa.Call)
	if !ok {
		return false
	}
	for _, a := range call.Call.Args {
		if l.isLoad(core.StripConv(a), fn) != nil {
			return true
		}
	}
	return false
}

func (l *h1cLatch) analyse(fn *ssa.Function, entry h1cLatchState, chain string, depth int) h1cLatchState {
	ctx := 0
	if entry.dirty {
		ctx = 1
	}
	if m := l.memo[fn]; m[ctx] != nil {
		return *m[ctx]
	}
	if l.busy[fn] || depth > 6 {
		return h1cLatchState{reached: true, dirty: true, src: entry.src}
	}
	l.busy[fn] = true
	defer delete(l.busy, fn)
	l.fns[fn] = true
	if len(fn.AnonFuncs) > 0 {
		for _, an := range core.WithClosures(fn)[1:] {
			core.Instrs(an, func(in ssa.Instruction) {
				if fa, ok := in.(*ssa.FieldAddr); ok && core.FieldObj(fa.X, fa.Field) == l.fld {
					l.why = append(l.why, core.FuncKey(an)+" (a closure) touches the field")
				}
			})
		}
	}
	in := map[*ssa.BasicBlock]h1cLatchState{fn.Blocks[0]: entry}
	exit := h1cLatchState{}
	work := []*ssa.BasicBlock{fn.Blocks[0]}
	for steps := 0; len(work) > 0 && steps < 10000; steps++ {
		b := work[0]
		work = work[1:]
		st := in[b]
		for _, ins := range b.Instrs {
			kind, callee := l.effect(ins, fn)
			switch kind {
			case "store":
				s := ins.(*ssa.Store)
				l.seen[ins] = true
				mayNil := !h1aNonNilErr(s.Val, l.fx.At(b), nil)
				if st.dirty && mayNil && !l.transformOfPending(s.Val, fn) {
					if _, dup := l.bad[ins]; !dup {
						l.bad[ins] = h1cLatchViolation{ins, st.src, chain}
					}
				}
				if h1aIsNil(core.StripConv(s.Val)) {
					st = h1cLatchState{reached: true}
				} else {
					st = h1cLatchState{reached: true, dirty: true, src: ins}
				}
			case "method":
				sub := chain
				if sub != "" {
					sub += " -> "
				}
				st = l.analyse(callee, st, sub+uuShort(fn), depth+1)
				if !st.reached { // callee never returns
					st = h1cLatchState{reached: true, dirty: true, src: ins}
				}
			case "unknown":
				l.why = append(l.why, uuShort(fn)+" hands the object to "+core.CalleeKey(ins.(ssa.CallInstruction).Common())+", which is not followed")
				st = h1cLatchState{reached: true, dirty: true, src: ins}
			}
			if _, isRet := ins.(*ssa.Return); isRet {
				exit = exit.join(st)
			}
		}
		for _, s := range b.Succs {
			out := st
			if out.dirty && l.nilEdge(b, s, fn) {
				out = h1cLatchState{reached: true}
			}
			old := in[s]
			nw := old.join(out)
			if nw != old || !old.reached {
				in[s] = nw
				work = append(work, s)
			}
		}
	}
	m := l.memo[fn]
	m[ctx] = &exit
	l.memo[fn] = m
	return exit
}

// h1cErrorLatch instantiates the rule for every struct type of pkg that has a
// pointer-receiver Read method and a field of type error.
func h1cErrorLatch(c *core.Ctx, fx *h1aFacts, rule, pkg string, anchors ...string) {
	pk := c.P.Pkg(pkg)
	if pk == nil {
		c.Missing(pkg)
		return
	}
	found := map[string]bool{}
	names := pk.Types.Scope().Names()
	sort.Strings(names)
	for _, name := range names {
		tn, ok := pk.Types.Scope().Lookup(name).(*types.TypeName)
		if !ok || tn.IsAlias() {
			continue
		}
		named, ok := tn.Type().(*types.Named)
		if !ok {
			continue
		}
		st, ok := named.Underlying().(*types.Struct)
		if !ok {
			continue
		}
		read := c.P.Func(pkg, name+".Read")
		if read == nil || read.Blocks == nil {
			continue
		}
		for i := 0; i < st.NumFields(); i++ {
			f := st.Field(i)
			if !h1cIsErrorType(f.Type()) || f.Embedded() {
				continue
			}
			found[name+"."+f.Name()] = true
			l := &h1cLatch{c: c, fx: fx, named: named, fld: f, memo: map[*ssa.Function][2]*h1cLatchState{}, busy: map[*ssa.Function]bool{},
				seen: map[ssa.Instruction]bool{}, bad: map[ssa.Instruction]h1cLatchViolation{}, fns: map[*ssa.Function]bool{}}
			l.analyse(read, h1cLatchState{reached: true, dirty: true}, "", 0)
			var fns []*ssa.Function
			for fn := range l.fns {
				fns = append(fns, fn)
			}
			sort.Slice(fns, func(i, j int) bool { return fns[i].Pos() < fns[j].Pos() })
			for _, fn := range fns {
				c.Analysed(core.FuncKey(fn))
				n := 0
				core.Instrs(fn, func(in ssa.Instruction) {
					if !l.seen[in] {
						return
					}
					key := fmt.Sprintf("%s.%s:%s-store#%d", name, fn.Name(), f.Name(), n)
					n++
					v, isBad := l.bad[in]
					detail := ""
					if isBad {
						s := in.(*ssa.Store)
						from := "an error recorded earlier"
						if v.src != nil {
							what := strings.TrimSpace(v.src.String())
							if ps, ok := v.src.(*ssa.Store); ok {
								what = "store of " + core.Render(ps.Val)
							} else if pc, ok := v.src.(ssa.CallInstruction); ok {
								what = "call of " + core.CalleeKey(pc.Common())
							}
							from = "the verdict recorded by the " + what + " at " + c.P.Pos(v.src.Pos()) + " (" + uuShort(v.src.Parent()) + ")"
						} else {
							from = "the sticky error left by an earlier call"
						}
						via := ""
						if v.chain != "" {
							via = " (reached through " + v.chain + ")"
						}
						detail = uuShort(fn) + via + " assigns " + core.Render(s.Val) + ", which may be nil, to the sticky error field " + name + "." + f.Name() + " although " + from +
							" has not been tested since: a rejecting verdict (e.g. `malformed chunked encoding`) is overwritten and the malformed message is accepted instead of being refused"
					}
					c.Check(rule, key, in.Pos(), !isBad, detail)
				})
			}
			if len(l.why) > 0 {
				c.Check(rule, name+"."+f.Name()+":followed", read.Pos(), false, "the sticky error field is touched by code the rule does not follow: "+strings.Join(uniqStrings(l.why), "; "))
			}
		}
	}
	for _, a := range anchors {
		if !found[a] {
			c.Missing(pkg + "." + a + " (sticky error of a Read method)")
		}
	}
}

// ---------------------------------------------------------------- carved slices

// h1cIsStringListMap: map[string][]string (Header, MIMEHeader, url.Values ...).
func h1cIsStringListMap(t types.Type) bool {
	m, ok := t.Underlying().(*types.Map)
	if !ok {
		return false
	}
	sl, ok := m.Elem().Underlying().(*types.Slice)
	if !ok {
		return false
	}
	b, ok := sl.Elem().Underlying().(*types.Basic)
	return ok && b.Kind() == types.String
}

// h1cBlockFamily: the SSA values that denote "the shared block" x belongs to:
// closed under phi edges (both directions) and under "slice of a member that
// flows back into a member phi".
func h1cBlockFamily(x ssa.Value) map[ssa.Value]bool {
	fam := map[ssa.Value]bool{}
	var work []ssa.Value
	add := func(v ssa.Value) {
		if v == nil || fam[v] {
			return
		}
		if _, isK := v.(*ssa.Const); isK {
			return
		}
		if _, isSl := v.Type().Underlying().(*types.Slice); !isSl {
			return
		}
		fam[v] = true
		work = append(work, v)
	}
	add(x)
	for len(work) > 0 {
		v := work[len(work)-1]
		work = work[:len(work)-1]
		switch y := v.(type) {
		case *ssa.Phi:
			for _, e := range y.Edges {
				add(e)
			}
		case *ssa.Slice:
			add(y.X)
		}
		if refs := v.Referrers(); refs != nil {
			for _, r := range *refs {
				if phi, ok := r.(*ssa.Phi); ok {
					add(phi)
				}
			}
		}
	}
	return fam
}

// h1cSliceStr renders the bounds of a slice expression ("block[:1:1]").
func h1cSliceStr(s *ssa.Slice) string {
	r := func(v ssa.Value) string {
		if v == nil {
			return ""
		}
		return core.Render(v)
	}
	out := "block[" + r(s.Low) + ":" + r(s.High)
	if s.Max != nil {
		out += ":" + r(s.Max)
	}
	return out + "]"
}

// h1cGE: a >= b is certain (same value, or constants).
func h1cGE(a, b ssa.Value) bool {
	if a == nil || b == nil {
		return false
	}
	ka, okA := h1aConstInt(a)
	kb, okB := h1aConstInt(b)
	if okA && okB {
		return ka >= kb
	}
	return core.StripConv(a) == core.StripConv(b)
}

// h1cCarves checks every insertion of a value list into a map[string][]string
// in the given packages.
func h1cCarves(c *core.Ctx, rule string, pkgs ...string) int {
	nSites := 0
	for _, fn := range c.P.SrcFuncs(pkgs...) {
		ord := map[string]int{}
		core.Instrs(fn, func(in ssa.Instruction) {
			mu, ok := in.(*ssa.MapUpdate)
			if !ok || !h1cIsStringListMap(mu.Map.Type()) {
				return
			}
			nSites++
			c.Analysed(core.FuncKey(fn))
			// leaves of the stored value
			var leaves []*ssa.Slice
			seen := map[ssa.Value]bool{}
			var walk func(v ssa.Value, d int)
			walk = func(v ssa.Value, d int) {
				v = core.StripConv(v)
				if seen[v] || d > 8 {
					return
				}
				seen[v] = true
				switch x := v.(type) {
				case *ssa.Phi:
					for _, e := range x.Edges {
						walk(e, d+1)
					}
				case *ssa.Call:
					if ap, ok := sh1IsAppend(x); ok {
						walk(ap.Call.Args[0], d+1)
					}
				case *ssa.Slice:
					if _, isSlice := x.X.Type().Underlying().(*types.Slice); isSlice {
						leaves = append(leaves, x)
					}
				}
			}
			walk(mu.Value, 0)
			key := h1bOrd(core.FuncKey(fn)+":insert", ord)
			var bad []string
			for _, s := range leaves {
				fam := h1cBlockFamily(s.X)
				// does the block keep being cut? (a member that is itself a re-slice of a member)
				var conts []*ssa.Slice
				for m := range fam {
					if r, ok := m.(*ssa.Slice); ok && r != s && fam[r.X] {
						conts = append(conts, r)
					}
				}
				if len(conts) == 0 {
					continue // a plain re-slice of a list held as a whole, not a carve
				}
				if s.Max == nil {
					bad = append(bad, "the list stored under the key is cut at "+c.P.Pos(s.Pos())+" as a two-index slice "+h1cSliceStr(s)+" of a backing block that keeps being cut up for other keys ("+h1cSliceStr(conts[0])+" at "+c.P.Pos(conts[0].Pos())+"), so its capacity runs on into the slots handed to the following keys and the next append to this list (a repeated field line) overwrites another field's value (e.g. Content-Length)")
					continue
				}
				for _, r := range conts {
					if r.X != s.X {
						continue
					}
					if !h1cGE(r.Low, s.Max) {
						lo := "0"
						if r.Low != nil {
							lo = core.Render(r.Low)
						}
						bad = append(bad, "the list stored under the key has capacity up to "+core.Render(s.Max)+" of the backing block, but the rest of the block ("+h1cSliceStr(r)+" at "+c.P.Pos(r.Pos())+") starts at "+lo+", which is not established to be >= that bound: two keys share a slot and an append to one list overwrites the other field's value")
					}
				}
			}
			c.Check(rule, key, mu.Pos(), len(bad) == 0, strings.Join(bad, "; "))
		})
	}
	return nSites
}

// ---------------------------------------------------------------- delivered errors

// h1cErrResult returns the Extract (or the call itself for single-result
// callees) that denotes the error result of call; nil when the result is
// discarded. ok is false when the callee's last result is not an error.
func h1cErrResult(call *ssa.Call) (ssa.Value, bool) {
	res := call.Call.Signature().Results()
	n := res.Len()
	if n == 0 || !h1cIsErrorType(res.At(n-1).Type()) {
		return nil, false
	}
	if n == 1 {
		if call.Referrers() == nil || len(*call.Referrers()) == 0 {
			return nil, true
		}
		return call, true
	}
	if call.Referrers() != nil {
		for _, r := range *call.Referrers() {
			if ex, ok := r.(*ssa.Extract); ok && ex.Index == n-1 {
				return ex, true
			}
		}
	}
	return nil, true
}

// h1cEscapes: the error value is stored, passed on or wrapped (through phis):
// its fate is outside the function's own control flow.
func h1cEscapes(e ssa.Value) bool {
	seen := map[ssa.Value]bool{}
	var walk func(v ssa.Value) bool
	walk = func(v ssa.Value) bool {
		if seen[v] || v.Referrers() == nil {
			return false
		}
		seen[v] = true
		for _, r := range *v.Referrers() {
			switch x := r.(type) {
			case *ssa.Store:
				if x.Val == v {
					return true
				}
			case ssa.CallInstruction:
				return true
			case *ssa.MakeClosure, *ssa.Send, *ssa.MapUpdate:
				return true
			case *ssa.Phi:
				if walk(x) {
					return true
				}
			case *ssa.MakeInterface:
				if walk(x) {
					return true
				}
			case *ssa.ChangeInterface:
				if walk(x) {
					return true
				}
			case *ssa.TypeAssert:
				if walk(x) {
					return true
				}
			}
		}
		return false
	}
	return walk(e)
}

// h1cErrLost walks every path from just after call to a return of its
// function. Along a path phis are resolved to the incoming value of the edge
// taken and nil tests of the error value e are recorded (a path that tests e
// both ways is infeasible). It returns a return instruction at which e may be
// non-nil while the error returned is neither e nor a certainly non-nil error
// (nil when there is none) and whether the walk was complete.
func h1cErrLost(call *ssa.Call, e ssa.Value, fx *h1aFacts) (*ssa.Return, string, bool) {
	const limit = 200000
	steps := 0
	complete := true
	var lost *ssa.Return
	lostWhy := ""
	visits := map[*ssa.BasicBlock]int{}
	phiVal := map[ssa.Value]ssa.Value{}
	resolve := func(v ssa.Value) ssa.Value {
		for i := 0; i < 32; i++ {
			v = core.StripConv(v)
			if nv, ok := phiVal[v]; ok && nv != v {
				v = nv
				continue
			}
			return v
		}
		return v
	}
	// the value tested by a nil comparison, and the polarity "is nil" of the true edge
	nilTest := func(cond ssa.Value) (ssa.Value, bool, bool) {
		neg := false
		for {
			u, ok := cond.(*ssa.UnOp)
			if !ok || u.Op != token.NOT {
				break
			}
			cond, neg = u.X, !neg
		}
		bo, ok := cond.(*ssa.BinOp)
		if !ok || (bo.Op != token.EQL && bo.Op != token.NEQ) {
			return nil, false, false
		}
		var x ssa.Value
		switch {
		case h1aIsNil(bo.Y):
			x = bo.X
		case h1aIsNil(bo.X):
			x = bo.Y
		default:
			return nil, false, false
		}
		return x, (bo.Op == token.EQL) != neg, true
	}
	var walk func(b *ssa.BasicBlock, from int, known int)
	walk = func(b *ssa.BasicBlock, from int, known int) { // known: 0 unknown, 1 e is non-nil
		if lost != nil || !complete {
			return
		}
		steps++
		if steps > limit {
			complete = false
			return
		}
		last := b.Instrs[len(b.Instrs)-1]
		switch x := last.(type) {
		case *ssa.Return:
			rv := core.RetVals(x)
			if len(rv) == 0 || !h1cIsErrorType(rv[len(rv)-1].Type()) {
				lost, lostWhy = x, "the function returns no error there"
				return
			}
			r := resolve(rv[len(rv)-1])
			if r == e {
				return
			}
			// a result slot (function with defer): look at what the slot last received on this path is not
			// tracked; a load of an Alloc the error was stored into counts as delivered (see h1cEscapes)
			if h1aNonNilErr(r, fx.At(b), nil) {
				return
			}
			lost, lostWhy = x, "it returns "+core.Render(r)
			return
		case *ssa.Panic:
			return
		}
		for si, s := range b.Succs {
			k := known
			if ifi, ok := last.(*ssa.If); ok && len(b.Succs) == 2 && b.Succs[0] != b.Succs[1] {
				if x, trueIsNil, ok := nilTest(ifi.Cond); ok && resolve(x) == e {
					if trueIsNil == (si == 0) {
						// e is nil on this edge: nothing to lose (or, when e was already
						// seen to be non-nil on this path, the edge is infeasible)
						continue
					}
					k = 1
				}
			}
			if visits[s] >= 1 {
				continue
			}
			visits[s]++
			// resolve the phis of s for the edge b -> s
			pi := -1
			for i, p := range s.Preds {
				if p == b {
					pi = i
				}
			}
			var saved []ssa.Value
			var savedOld []ssa.Value
			var newVals []ssa.Value
			for _, in := range s.Instrs {
				phi, ok := in.(*ssa.Phi)
				if !ok {
					break
				}
				saved = append(saved, phi)
				savedOld = append(savedOld, phiVal[phi])
				if pi >= 0 {
					newVals = append(newVals, resolve(phi.Edges[pi]))
				} else {
					newVals = append(newVals, nil)
				}
			}
			for i, phi := range saved {
				if newVals[i] != nil {
					phiVal[phi] = newVals[i]
				} else {
					delete(phiVal, phi)
				}
			}
			walk(s, 0, k)
			for i, phi := range saved {
				if savedOld[i] != nil {
					phiVal[phi] = savedOld[i]
				} else {
					delete(phiVal, phi)
				}
			}
			visits[s]--
		}
	}
	visits[call.Block()] = 1
	walk(call.Block(), h1aIdx(call)+1, 0)
	return lost, lostWhy, complete
}
