package rules

import (
	"fmt"
	"go/token"
	"go/types"
	"strings"

	"golang.org/x/tools/go/ssa"

	"verif/internal/core"
)

// C55 — FastCGI requests and responses are encoded faithfully.
func init() {
	Register(&Rule{
		ID: "C55", Section: "5 C55",
		Technique: "wire-integer hygiene (guarded subtraction / clamp before narrowing) and length-prefix agreement on go/ssa values, who-may-call census of writeRecord/header.init, guard census of the record reader, table agreement with the FastCGI specification constants and record header layout",
		Meta: core.Meta{
			Level: "other",
			Explanation: "Decides in bfe_fcgi: (bounds) every slice bound in writePairs that is computed by a subtraction from parameter lengths is protected by a dominating comparison that keeps it non-negative; (faithful pairs) the name and value handed to the stream are the map's key and value themselves (no slice of them), the two encodeSize prefixes are computed from len() of exactly the SSA values that are written after them, name length first, in the order prefix bytes, name, value, all to the writer created by newWriter for the params stream, and every success return passes w.Close() (stream terminator); (record size) maxWrite <= 65535, streamWriter.Write clamps each chunk to a value <= 65535 before calling writeRecord, every other writeRecord caller passes nil or an 8-byte block, header.init (the uint16 narrowing) is called only by writeRecord with len(content); writeRecord serialises header, the same content, pad[:h.PaddingLength] in this order under the client mutex and writes the buffer once; encodeSize uses the 1-byte form only under size <= 127 and the 4-byte form with bit 31 set otherwise; (reader) record.read stops at FCGI_END_REQUEST with io.EOF, rejects version != 1, sizes rbuf before slicing it, streamReader.Read clamps the copy to the buffered bytes, and the body bytes are selected by record type (FCGI_STDOUT vs FCGI_STDERR compared somewhere on the read path), and the reply ends only where the responder ends it (rule resp-end: every error streamReader.Read returns derives from the error of its record.read call; in record.read an end-of-stream marker such as io.EOF is returned only under rec.h.Type == FCGI_END_REQUEST, every other error is the result of an I/O call or a constructed error — an empty record of any type is not the end of the reply); (sequence) FCGIClient.Do writes BEGIN_REQUEST(role RESPONDER), the params stream (FCGI_PARAMS) and the stdin stream (FCGI_STDIN, copied from the request body and closed) in this order, returning early on the first two errors, and hands out a streamReader of the same client; response bodies are built on the buffered reader the header was parsed from; record type / role / status constants and the 8-byte header layout equal the specification. " +
				"Robustness: the three writes of a pair may sit in a private helper that is handed the writer, the prefix bytes, the name and the value (parameters are followed to the arguments, order is decided at the helper's call site, the write errors must be returned through the helper); the encodeSize calls themselves must stay in writePairs. " +
				"Not covered: that the upper bound of a truncating slice is within the string (relational), numeric correctness of padding and size encoding, bufio's chunking, what the responder sends, the HTTP semantics of the CGI response header.",
			RuleText:    "obligations = per function with computed slice bounds the guard clause; the pair-writing clauses of writePairs; each writeRecord call site; the clamps; each ordering clause of writeRecord/Do; each reader clause; each return of streamReader.Read and record.read (provenance of the error that ends the reply); each specification constant",
			Assumptions: []string{"binary.Write/Read serialise struct fields in declaration order, big endian", "bfe_bufio.Writer delivers bytes in order to the underlying streamWriter"},
		},
		Run: runC55,
		Mutants: []Mutant{
			{Name: "clamp-removed", File: "bfe_fcgi/fcgi_client.go", Old: "		n := len(p)\n		if n > maxWrite {\n			n = maxWrite\n		}\n		if err := w.c.writeRecord(w.recType, p[:n]); err != nil {", New: "		n := len(p)\n		if err := w.c.writeRecord(w.recType, p[:n]); err != nil {", Expect: "record-len|streamWriter.Write"},
			{Name: "max-write-too-large", File: "bfe_fcgi/fcgi_client.go", Old: "	maxWrite = 65500 // 65530 may work, but for compatibility", New: "	maxWrite = 65540 // 65530 may work, but for compatibility", Expect: "record-len"},
			{Name: "prefix-of-other-string", File: "bfe_fcgi/fcgi_client.go", Old: "		n += encodeSize(b[n:], uint32(len(v)))", New: "		n += encodeSize(b[n:], uint32(len(k)))", Expect: "prefix-agree|writePairs:value-length"},
			{Name: "value-before-name", File: "bfe_fcgi/fcgi_client.go", Old: "		if _, err := w.WriteString(k); err != nil {\n			return err\n		}\n		if _, err := w.WriteString(v); err != nil {\n			return err\n		}", New: "		if _, err := w.WriteString(v); err != nil {\n			return err\n		}\n		if _, err := w.WriteString(k); err != nil {\n			return err\n		}", Expect: "prefix-agree|writePairs"},
			{Name: "params-not-terminated", File: "bfe_fcgi/fcgi_client.go", Old: "	w.Close()\n	return nil\n}", New: "	w.Flush()\n	return nil\n}", Expect: "stream-end|writePairs"},
			{Name: "short-form-too-wide", File: "bfe_fcgi/fcgi_client.go", Old: "	if size > 127 {", New: "	if size > 255 {", Expect: "encode-size|encodeSize:short-form"},
			{Name: "end-request-ignored", File: "bfe_fcgi/fcgi_client.go", Old: "	if rec.h.Type == FCGIEndRequest {\n		err = io.EOF\n		return\n	}\n", New: "", Expect: "resp-type|record.read:EndRequest"},
			{Name: "rbuf-not-grown", File: "bfe_fcgi/fcgi_client.go", Old: "	if len(rec.rbuf) < n {\n		rec.rbuf = make([]byte, n)\n	}\n", New: "", Expect: "read-bound|record.read"},
			{Name: "padding-mismatch", File: "bfe_fcgi/fcgi_client.go", Old: "client.buf.Write(pad[:client.h.PaddingLength])", New: "client.buf.Write(pad[:7])", Expect: "record-write|writeRecord:padding"},
			{Name: "stdin-before-params", File: "bfe_fcgi/fcgi_client.go", Old: "	err = client.writePairs(FCGIParams, p)\n	if err != nil {\n		return\n	}\n\n	body := newWriter(client, FCGIStdin)\n	if req != nil {\n		io.Copy(body, req)\n	}\n	body.Close()\n", New: "	body := newWriter(client, FCGIStdin)\n	if req != nil {\n		io.Copy(body, req)\n	}\n	body.Close()\n\n	err = client.writePairs(FCGIParams, p)\n	if err != nil {\n		return\n	}\n", Expect: "do-sequence"},
			{Name: "stdin-not-closed", File: "bfe_fcgi/fcgi_client.go", Old: "		io.Copy(body, req)\n	}\n	body.Close()\n", New: "		io.Copy(body, req)\n		body.Close()\n	}\n", Expect: "do-sequence|Do:stdin"},
			{Name: "body-skips-buffer", File: "bfe_fcgi/transport.go", Old: "		resp.Body = ioutil.NopCloser(rb)\n	}\n	return resp, nil", New: "		resp.Body = ioutil.NopCloser(reader)\n	}\n	return resp, nil", Expect: "resp-body|readResponse"},
			{Name: "record-type-renumbered", File: "bfe_fcgi/fcgi_client.go", Old: "	// FCGIParams is the parameters flag.\n	FCGIParams\n\n	// FCGIStdin is the standard input flag.\n	FCGIStdin\n", New: "	// FCGIStdin is the standard input flag.\n	FCGIStdin\n\n	// FCGIParams is the parameters flag.\n	FCGIParams\n", Expect: "spec-const"},
			{Name: "empty-record-ends-reply", File: "bfe_fcgi/fcgi_client.go", Old: "			w.buf, err = rec.read(w.c.rwc)\n			if err != nil {\n				return\n			}\n", New: "			w.buf, err = rec.read(w.c.rwc)\n			if err != nil {\n				return\n			}\n			if len(w.buf) == 0 {\n				return 0, io.EOF\n			}\n", Expect: "resp-end|streamReader.Read"},
			{Name: "zero-length-record-is-eof", File: "bfe_fcgi/fcgi_client.go", Old: "	n := int(rec.h.ContentLength) + int(rec.h.PaddingLength)\n", New: "	if rec.h.ContentLength == 0 {\n		err = io.EOF\n		return\n	}\n	n := int(rec.h.ContentLength) + int(rec.h.PaddingLength)\n", Expect: "resp-end|record.read"},
			{Name: "stderr-record-ends-reply", File: "bfe_fcgi/fcgi_client.go", Old: "	if rec.h.Type == FCGIEndRequest {\n		err = io.EOF\n		return\n	}\n", New: "	if rec.h.Type == FCGIEndRequest || rec.h.Type == FCGIStderr {\n		err = io.EOF\n		return\n	}\n", Expect: "resp-end|record.read"},
			{Name: "silent-read-error-returned-explicitly", File: "bfe_fcgi/fcgi_client.go", Old: "			w.buf, err = rec.read(w.c.rwc)\n			if err != nil {\n				return\n			}\n", New: "			var rerr error\n			w.buf, rerr = rec.read(w.c.rwc)\n			if rerr != nil {\n				return 0, rerr\n			}\n", Silent: true},
			{Name: "silent-rename-and-reorder", File: "bfe_fcgi/fcgi_client.go", Old: "		n := len(p)\n		if n > maxWrite {\n			n = maxWrite\n		}\n		if err := w.c.writeRecord(w.recType, p[:n]); err != nil {\n			return nn, err\n		}\n		nn += n\n		p = p[n:]", New: "		chunk := len(p)\n		if maxWrite < chunk {\n			chunk = maxWrite\n		}\n		if err := w.c.writeRecord(w.recType, p[:chunk]); err != nil {\n			return nn, err\n		}\n		p = p[chunk:]\n		nn += chunk", Silent: true},
			{Name: "silent-writepairs-helper", File: "bfe_fcgi/fcgi_client.go", Old: "		if _, err := w.Write(b[:n]); err != nil {\n			return err\n		}\n		if _, err := w.WriteString(k); err != nil {\n			return err\n		}\n		if _, err := w.WriteString(v); err != nil {\n			return err\n		}\n	}\n	w.Close()\n	return nil\n}\n", New: "		if err := emitPair(w, b[:n], k, v); err != nil {\n			return err\n		}\n	}\n	w.Close()\n	return nil\n}\n\nfunc emitPair(out *bufWriter, prefix []byte, key, val string) error {\n	if _, err := out.Write(prefix); err != nil {\n		return err\n	}\n	if _, err := out.WriteString(key); err != nil {\n		return err\n	}\n	if _, err := out.WriteString(val); err != nil {\n		return err\n	}\n	return nil\n}\n", Silent: true},
		},
	})
}

const c55pkg = "bfe_fcgi"

func runC55(c *core.Ctx) {
	defer nxEnter(c)()
	if c.P.Pkg(c55pkg) == nil {
		c.Missing(c55pkg)
		return
	}
	c55spec(c)
	c55pairs(c)
	c55records(c)
	c55reader(c)
	c55sequence(c)
}

// ---------------------------------------------------------------- specification tables

func c55spec(c *core.Ctx) {
	rows := []struct {
		name string
		val  int64
	}{
		{"FCGIBeginRequest", 1}, {"FCGIAbortRequest", 2}, {"FCGIEndRequest", 3}, {"FCGIParams", 4}, {"FCGIStdin", 5}, {"FCGIStdout", 6},
		{"FCGIStderr", 7}, {"FCGIData", 8}, {"FCGIGetValues", 9}, {"FCGIGetValuesResult", 10}, {"FCGIUnknownType", 11},
		{"FCGIResponser", 1}, {"FCGIAuthorizer", 2}, {"FCGIFilter", 3},
		{"FCGIRequestComplete", 0}, {"FCGICantMpxConn", 1}, {"FCGIOverLoaded", 2}, {"FCGIUnknownRole", 3},
		{"FCGIHeaderLen", 8}, {"Version1", 1}, {"FCGINullRequestID", 0}, {"FCGIKeepConn", 1},
	}
	for _, r := range rows {
		v, ok := nxConstOf(c, c55pkg, r.name)
		if !ok {
			c.Missing(c55pkg + "." + r.name)
			continue
		}
		c.CheckAt("spec-const", r.name, "bfe_fcgi/fcgi_client.go", v == r.val, fmt.Sprintf("%s = %d, the FastCGI specification defines %d", r.name, v, r.val))
	}
	if tn, ok := c.P.Obj(c55pkg, "header").(*types.TypeName); !ok {
		c.Missing(c55pkg + ".header")
	} else {
		var got []c46flat
		c46flatten(tn.Type(), &got, "")
		want := []c46flat{{"Version", 1}, {"Type", 1}, {"Id", 2}, {"ContentLength", 2}, {"PaddingLength", 1}, {"Reserved", 1}}
		same := len(got) == len(want)
		for i := range got {
			if same && got[i] != want[i] {
				same = false
			}
		}
		c.CheckAt("spec-const", "header-layout", "bfe_fcgi/fcgi_client.go", same, fmt.Sprintf("record header layout is %v; FCGI_Header is version, type, requestId(2), contentLength(2), paddingLength, reserved", got))
	}
}

// ---------------------------------------------------------------- writePairs

// c55subLeaves: if v is computed with a subtraction, return the values subtracted (the subtrahends) and true.
func c55subLeaves(v ssa.Value, d int) (subs []ssa.Value, has bool) {
	if d > 8 {
		return nil, false
	}
	switch x := core.StripConv(v).(type) {
	case *ssa.BinOp:
		switch x.Op {
		case token.SUB:
			subs = append(subs, x.Y)
			s1, _ := c55subLeaves(x.X, d+1)
			return append(subs, s1...), true
		case token.ADD:
			s1, h1 := c55subLeaves(x.X, d+1)
			s2, h2 := c55subLeaves(x.Y, d+1)
			return append(s1, s2...), h1 || h2
		}
	}
	return nil, false
}

// c55minuend: constant c in (c - x) or -1.
func c55minuend(v ssa.Value) int64 {
	if b, ok := core.StripConv(v).(*ssa.BinOp); ok && b.Op == token.SUB {
		if k, ok := nxConstInt(b.X); ok {
			return k
		}
	}
	return -1
}

func c55sliceBounds(c *core.Ctx, fn *ssa.Function) {
	var bad []string
	n := 0
	for _, in := range allInstrs(fn) {
		sl, ok := in.(*ssa.Slice)
		if !ok {
			continue
		}
		for _, bound := range []ssa.Value{sl.Low, sl.High} {
			if bound == nil {
				continue
			}
			subs, has := c55subLeaves(bound, 0)
			if !has {
				continue
			}
			n++
			min := c55minuend(bound)
			ok := nxHolds(sl.Block(), func(g core.Guard) bool {
				if lb, isLb := nxLower(g.Cond, g.Pol, func(x ssa.Value) bool { return nxSameVal(x, bound) }); isLb && lb >= 0 {
					return true
				}
				if min >= 0 && len(subs) == 1 {
					if ub, isUb := nxUpper(g.Cond, g.Pol, func(x ssa.Value) bool { return nxSameVal(x, subs[0]) }); isUb && ub <= min {
						return true
					}
				}
				return false
			})
			if !ok {
				bad = append(bad, core.Render(sl.X)+"["+core.Render(bound)+"] under {"+nxGuardList(sl.Block())+"}")
			}
		}
	}
	c.Check("slice-bound", nxShort(fn), fn.Pos(), len(bad) == 0,
		fmt.Sprintf("%d slice bound(s) computed by subtraction, unguarded: %s — no dominating comparison keeps the bound >= 0, a long enough name makes it negative and the slice expression panics (or silently cuts the value)", n, strings.Join(bad, "; ")))
}

func c55pairs(c *core.Ctx) {
	fn := nxFuncOrMissing(c, c55pkg, "FCGIClient.writePairs")
	if fn == nil {
		return
	}
	c55sliceBounds(c, fn)
	// the writer of the params stream
	var w *ssa.Call
	for _, call := range core.Calls(fn, c55pkg+".newWriter") {
		w, _ = call.(*ssa.Call)
	}
	okW := w != nil && len(w.Call.Args) == 2 && w.Call.Args[0] == fn.Params[0] && w.Call.Args[1] == fn.Params[1]
	c.Check("prefix-agree", "writePairs:writer", fn.Pos(), okW, "writePairs must write through newWriter(client, recType)")
	onW := func(call ssa.CallInstruction) bool {
		return w != nil && nxFlows(call.Common().Args[0], func(v ssa.Value) bool { return v == ssa.Value(w) }, nil)
	}
	var strs, prefixes []*ssa.Call
	// the writes may sit in a private helper that is handed the writer and the pair
	for _, in := range nxRegionInstrs(fn) {
		call, ok := in.(*ssa.Call)
		if !ok {
			continue
		}
		if core.CallIs(&call.Call, "bfe_bufio.Writer.WriteString") && onW(call) {
			strs = append(strs, call)
		}
		if core.CallIs(&call.Call, "bfe_bufio.Writer.Write") && onW(call) {
			prefixes = append(prefixes, call)
		}
	}
	var sizes []*ssa.Call
	for _, call := range core.Calls(fn, c55pkg+".encodeSize") {
		if cc, ok := call.(*ssa.Call); ok {
			sizes = append(sizes, cc)
		}
	}
	if len(strs) != 2 || len(sizes) != 2 || len(prefixes) != 1 {
		c.Check("prefix-agree", "writePairs:shape", fn.Pos(), false,
			fmt.Sprintf("expected one prefix Write, two encodeSize calls and two WriteString calls on the params writer; found %d, %d, %d", len(prefixes), len(sizes), len(strs)))
		return
	}
	// order by dominance (an instruction of a helper stands at the helper's call site)
	dom := func(a, b ssa.Instruction) bool { return nxDominatesIn(fn, a, b) }
	if dom(strs[1], strs[0]) {
		strs[0], strs[1] = strs[1], strs[0]
	}
	if dom(sizes[1], sizes[0]) {
		sizes[0], sizes[1] = sizes[1], sizes[0]
	}
	okOrder := dom(prefixes[0], strs[0]) && dom(strs[0], strs[1]) && dom(sizes[0], sizes[1]) && dom(sizes[1], prefixes[0])
	c.Check("prefix-agree", "writePairs:order", prefixes[0].Pos(), okOrder, "the pair must be emitted as: both length prefixes, then the name, then the value (FastCGI name-value pair format)")
	// what is written: the range key / value themselves
	var next *ssa.Next
	for _, in := range allInstrs(fn) {
		if nx, ok := in.(*ssa.Next); ok {
			if rg, ok := nx.Iter.(*ssa.Range); ok && rg.X == fn.Params[2] {
				next = nx
			}
		}
	}
	for i, part := range []string{"name", "value"} {
		written := nxArgOf(strs[i].Call.Args[1])
		intact := next != nil
		what := ""
		for _, l := range nxPhiLeaves(written) {
			ex, ok := l.V.(*ssa.Extract)
			if !ok || ex.Tuple != ssa.Value(next) || ex.Index != i+1 {
				intact = false
				what = core.Render(l.V)
			}
		}
		c.Check("pairs-intact", "writePairs:"+part, strs[i].Pos(), intact,
			"the "+part+" written to the params stream is not always the map's "+part+" itself: it can be "+what+" — the responder decodes a different parameter than the request had (silent truncation)")
		// the prefix is len() of exactly the written value
		lenOf, isLen := nxIsLen(sizes[i].Call.Args[1])
		c.Check("prefix-agree", "writePairs:"+part+"-length", sizes[i].Pos(), isLen && lenOf == written,
			"the "+part+" length prefix is computed from "+core.Render(sizes[i].Call.Args[1])+" but the bytes written after it are "+core.Render(written))
	}
	// prefix bytes: sizes[0] at b[0:], sizes[1] at b[n0:], Write(b[:n0+n1])
	okBuf := false
	if sl, ok := sizes[1].Call.Args[0].(*ssa.Slice); ok && sl.Low == ssa.Value(sizes[0]) && sl.High == nil {
		if pw, ok := nxArgOf(prefixes[0].Call.Args[1]).(*ssa.Slice); ok && pw.Low == nil {
			if add, ok := pw.High.(*ssa.BinOp); ok && add.Op == token.ADD {
				both := (add.X == ssa.Value(sizes[0]) && add.Y == ssa.Value(sizes[1])) || (add.X == ssa.Value(sizes[1]) && add.Y == ssa.Value(sizes[0]))
				okBuf = both && core.Render(pw.X) == core.Render(sl.X) && core.Render(pw.X) == core.Render(sizes[0].Call.Args[0])
			}
		}
	}
	c.Check("prefix-agree", "writePairs:prefix-bytes", prefixes[0].Pos(), okBuf, "the bytes written before the name must be b[:n1+n2] where encodeSize(b, len(name)) = n1 and encodeSize(b[n1:], len(value)) = n2")
	// error of each write ends the function
	for i, call := range []*ssa.Call{prefixes[0], strs[0], strs[1]} {
		var errv ssa.Value
		for _, ref := range *call.Referrers() {
			if ex, ok := ref.(*ssa.Extract); ok && ex.Index == 1 {
				errv = ex
			}
		}
		ok := false
		if errv != nil {
			ok = nxReturnedBy(fn, call.Parent(), errv, 3)
		}
		c.Check("prefix-agree", fmt.Sprintf("writePairs:write-error#%d", i), call.Pos(), ok, "the error of a params-stream write is not returned")
	}
	// terminator
	for i, r := range nxSuccessReturns(fn, 0) {
		ok := w != nil && nxAllPathsPass(fn, r, func(in ssa.Instruction) bool {
			call, isCall := in.(ssa.CallInstruction)
			return isCall && core.CallIs(call.Common(), c55pkg+".bufWriter.Close") && call.Common().Args[0] == ssa.Value(w)
		})
		c.Check("stream-end", fmt.Sprintf("writePairs:return#%d", i), r.Pos(), ok, "writePairs returns success without w.Close(): the FCGI_PARAMS stream is not flushed and not terminated by an empty record")
	}
	c.Min("stream-end", 1)
	// bufWriter.Close flushes, then closes the stream on every path
	if bc := nxFuncOrMissing(c, c55pkg, "bufWriter.Close"); bc != nil {
		flushes := core.Calls(bc, "bfe_bufio.Writer.Flush")
		okF := len(flushes) == 1
		isCl := func(in ssa.Instruction) bool {
			call, isCall := in.(ssa.CallInstruction)
			return isCall && call.Common().IsInvoke() && call.Common().Method.Name() == "Close" && strings.HasSuffix(nxOrigin(call.Common().Value), ".closer")
		}
		okC := core.MustPass(bc, nil, isCl) == nil
		if okF {
			for _, in := range allInstrs(bc) {
				if isCl(in) && !core.Dominates(flushes[0].(ssa.Instruction), in) {
					okF = false
				}
			}
		}
		c.Check("stream-end", "bufWriter.Close", bc.Pos(), okF && okC, "bufWriter.Close must Flush the buffered bytes first and then Close the record stream on every path")
	}
	if sc := nxFuncOrMissing(c, c55pkg, "streamWriter.Close"); sc != nil {
		ok := false
		for _, call := range core.Calls(sc, c55pkg+".FCGIClient.writeRecord") {
			a := call.Common().Args
			ok = len(a) == 3 && isNilConst(a[2]) && strings.HasSuffix(nxOrigin(a[1]), ".recType")
		}
		c.Check("stream-end", "streamWriter.Close", sc.Pos(), ok, "streamWriter.Close must send an empty record of the stream's type")
	}
	if nw := nxFuncOrMissing(c, c55pkg, "newWriter"); nw != nil {
		ok := false
		for _, call := range core.Calls(nw, "bfe_bufio.NewWriterSize") {
			sw, isSW := core.StripConv(call.Common().Args[0]).(*ssa.Alloc)
			if !isSW || core.TypeStr(sw.Type()) != "*"+c55pkg+".streamWriter" {
				continue
			}
			closerIsSW := false
			for _, in := range allInstrs(nw) {
				if st, isSt := in.(*ssa.Store); isSt && strings.HasSuffix(nxOriginAddr(st.Addr), ".closer") && core.StripConv(st.Val) == ssa.Value(sw) {
					closerIsSW = true
				}
			}
			recOK, cOK := false, false
			for _, in := range allInstrs(nw) {
				if st, isSt := in.(*ssa.Store); isSt {
					if fa, isFa := st.Addr.(*ssa.FieldAddr); isFa && fa.X == ssa.Value(sw) {
						if f := core.FieldObj(fa.X, fa.Field); f != nil {
							recOK = recOK || (f.Name() == "recType" && st.Val == nw.Params[1])
							cOK = cOK || (f.Name() == "c" && st.Val == nw.Params[0])
						}
					}
				}
			}
			ok = closerIsSW && recOK && cOK
		}
		c.Check("stream-end", "newWriter", nw.Pos(), ok, "newWriter must buffer over a streamWriter{c, recType} and close that same streamWriter")
	}
}

// ---------------------------------------------------------------- records

func c55records(c *core.Ctx) {
	const limit = 65535
	mw, ok := nxConstOf(c, c55pkg, "maxWrite")
	if !ok {
		c.Missing(c55pkg + ".maxWrite")
	} else {
		c.CheckAt("record-len", "maxWrite", "bfe_fcgi/fcgi_client.go", mw > 0 && mw <= limit, fmt.Sprintf("maxWrite = %d exceeds the 16-bit contentLength of a record", mw))
	}
	wr := nxFuncOrMissing(c, c55pkg, "FCGIClient.writeRecord")
	hi := nxFuncOrMissing(c, c55pkg, "header.init")
	if wr == nil || hi == nil {
		return
	}
	// callers of writeRecord
	ncall := 0
	for _, fn := range c.P.SrcFuncs(c55pkg) {
		for i, call := range core.Calls(fn, c55pkg+".FCGIClient.writeRecord") {
			ncall++
			content := call.Common().Args[2]
			ok, why := c55contentBounded(content, call.(ssa.Instruction).Block(), limit)
			c.Check("record-len", fmt.Sprintf("%s#%d", nxShort(fn), i), call.Pos(), ok,
				"the content passed to writeRecord is not provably at most 65535 bytes ("+why+"): header.init narrows its length to uint16, the record header would announce fewer bytes than are written")
		}
	}
	c.Min("record-len", 5)
	// callers of header.init
	var initCallers []string
	okInit := true
	for _, fn := range c.P.SrcFuncs(c55pkg) {
		for _, call := range core.Calls(fn, c55pkg+".header.init") {
			initCallers = append(initCallers, nxShort(fn))
			a := call.Common().Args
			lenOf, isLen := nxIsLen(a[3])
			if fn != wr || !isLen || lenOf != ssa.Value(wr.Params[2]) {
				okInit = false
			}
		}
	}
	c.Check("record-len", "header.init:callers", hi.Pos(), okInit && len(initCallers) == 1,
		"header.init (which narrows contentLength to uint16 unchecked) must be called only by writeRecord with len(content); callers: "+strings.Join(initCallers, ", "))
	// header.init field <- parameter
	want := map[string]int{"Type": 1, "Id": 2, "ContentLength": 3}
	got := map[string]bool{}
	for _, in := range allInstrs(hi) {
		st, isSt := in.(*ssa.Store)
		if !isSt {
			continue
		}
		fa, isFa := st.Addr.(*ssa.FieldAddr)
		if !isFa {
			continue
		}
		f := core.FieldObj(fa.X, fa.Field)
		if f == nil {
			continue
		}
		if pi, isWanted := want[f.Name()]; isWanted {
			if core.StripConv(st.Val) == ssa.Value(hi.Params[pi]) {
				got[f.Name()] = true
			}
		}
		if f.Name() == "Version" {
			if k, isK := nxConstInt(st.Val); isK && k == 1 {
				got["Version"] = true
			}
		}
	}
	for _, f := range []string{"Version", "Type", "Id", "ContentLength"} {
		c.Check("record-write", "header.init:"+f, hi.Pos(), got[f], "header.init does not set "+f+" from its corresponding argument (Version must be 1)")
	}
	// writeRecord ordering and agreement
	var initCall, hdrWrite, contentWrite, padWrite, wireWrite, lock ssa.Instruction
	for _, in := range allInstrs(wr) {
		call, isCall := in.(ssa.CallInstruction)
		if !isCall {
			continue
		}
		cc := call.Common()
		switch {
		case core.CallIs(cc, c55pkg+".header.init"):
			initCall = in
		case core.CallIs(cc, "encoding/binary.Write"):
			if strings.HasSuffix(nxOrigin(core.StripConv(cc.Args[2])), "client.h") && nxOriginAddr(core.StripConv(cc.Args[0])) == "client.buf" {
				hdrWrite = in
			}
		case core.CallIs(cc, "bytes.Buffer.Write") && nxOriginAddr(cc.Args[0]) == "client.buf":
			if cc.Args[1] == ssa.Value(wr.Params[2]) {
				contentWrite = in
			} else if sl, isSl := cc.Args[1].(*ssa.Slice); isSl {
				if g, isG := sl.X.(*ssa.Global); isG && g.Name() == "pad" {
					padWrite = in
				}
			}
		case cc.IsInvoke() && cc.Method.Name() == "Write" && nxOrigin(cc.Value) == "client.rwc":
			wireWrite = in
		case core.CallIs(cc, "sync.Mutex.Lock") && nxOriginAddr(cc.Args[0]) == "client.mutex":
			if _, isDefer := in.(*ssa.Defer); !isDefer {
				lock = in
			}
		}
	}
	all := initCall != nil && hdrWrite != nil && contentWrite != nil && padWrite != nil && wireWrite != nil
	c.Check("record-write", "writeRecord:order", wr.Pos(), all && core.Dominates(initCall, hdrWrite) && core.Dominates(hdrWrite, contentWrite) && core.Dominates(contentWrite, padWrite) && core.Dominates(padWrite, wireWrite),
		"writeRecord must fill the header (init), then serialise header, content and padding into client.buf in this order and write the buffer to the connection")
	okPad := false
	if padWrite != nil {
		sl := padWrite.(ssa.CallInstruction).Common().Args[1].(*ssa.Slice)
		okPad = sl.Low == nil && sl.High != nil && strings.HasSuffix(nxOrigin(sl.High), "client.h.PaddingLength")
	}
	c.Check("record-write", "writeRecord:padding", wr.Pos(), okPad, "the padding bytes written must be pad[:client.h.PaddingLength], the count announced in the header")
	okWire := false
	if wireWrite != nil {
		if bc, _ := nxCallResult(wireWrite.(ssa.CallInstruction).Common().Args[0]); bc != nil && core.CallIs(&bc.Call, "bytes.Buffer.Bytes") && nxOriginAddr(bc.Call.Args[0]) == "client.buf" {
			okWire = true
		}
	}
	c.Check("record-write", "writeRecord:wire", wr.Pos(), okWire, "the bytes sent to the responder must be client.buf.Bytes()")
	okLock := lock != nil
	if lock != nil {
		for _, in := range []ssa.Instruction{initCall, hdrWrite, contentWrite, padWrite, wireWrite} {
			if in != nil && !core.Dominates(lock, in) {
				okLock = false
			}
		}
		unl := false
		for _, in := range allInstrs(wr) {
			if d, isD := in.(*ssa.Defer); isD && core.CallIs(&d.Call, "sync.Mutex.Unlock") && core.Dominates(lock, d) {
				unl = true
			}
		}
		okLock = okLock && unl
	}
	c.Check("record-write", "writeRecord:locked", wr.Pos(), okLock, "client.buf and client.h are shared by the params and stdin writers: writeRecord must hold client.mutex from before header.init until return")
	// resets
	okReset := false
	for _, call := range core.Calls(wr, "bytes.Buffer.Reset") {
		if nxOriginAddr(call.Common().Args[0]) == "client.buf" && hdrWrite != nil && core.Dominates(call.(ssa.Instruction), hdrWrite) {
			okReset = true
		}
	}
	c.Check("record-write", "writeRecord:reset", wr.Pos(), okReset, "client.buf must be Reset before a record is serialised into it: the previous record would be sent again")
	// encodeSize
	if es := nxFuncOrMissing(c, c55pkg, "encodeSize"); es != nil {
		n := 0
		for _, in := range allInstrs(es) {
			cv, isCv := in.(*ssa.Convert)
			if !isCv {
				continue
			}
			if b, isB := cv.Type().Underlying().(*types.Basic); !isB || b.Kind() != types.Uint8 {
				continue
			}
			ok := nxHolds(cv.Block(), func(g core.Guard) bool {
				ub, isUb := nxUpper(g.Cond, g.Pol, func(x ssa.Value) bool { return x == cv.X })
				return isUb && ub <= 127
			})
			c.Check("encode-size", fmt.Sprintf("encodeSize:short-form#%d", n), cv.Pos(), ok && cv.X == ssa.Value(es.Params[1]),
				"the 1-byte length form is used without size <= 127 being established: a first byte with bit 7 set announces the 4-byte form")
			n++
			// returns 1 on this path
			for _, r := range core.Returns(es) {
				if r.Block() == cv.Block() || cv.Block().Dominates(r.Block()) {
					k, isK := nxConstInt(r.Results[0])
					c.Check("encode-size", "encodeSize:short-form-count", r.Pos(), isK && k == 1, "the 1-byte form must report 1 byte written")
				}
			}
		}
		okLong := false
		for _, call := range core.Calls(es, "encoding/binary.bigEndian.PutUint32", "encoding/binary.ByteOrder.PutUint32") {
			a := call.Common().Args
			val := a[len(a)-1]
			if or, isOr := val.(*ssa.BinOp); isOr && or.Op == token.OR {
				k1, ok1 := nxConstInt(or.Y)
				k2, ok2 := nxConstInt(or.X)
				flag := (ok1 && k1 == 1<<31 && or.X == ssa.Value(es.Params[1])) || (ok2 && k2 == 1<<31 && or.Y == ssa.Value(es.Params[1]))
				ret4 := false
				for _, r := range core.Returns(es) {
					if call.(ssa.Instruction).Block().Dominates(r.Block()) {
						k, isK := nxConstInt(r.Results[0])
						ret4 = isK && k == 4
					}
				}
				okLong = flag && ret4 && a[len(a)-2] == ssa.Value(es.Params[0])
			}
		}
		c.Check("encode-size", "encodeSize:long-form", es.Pos(), okLong, "the 4-byte form must store size|1<<31 big endian at b and report 4 bytes")
		c.Min("encode-size", 3)
	}
}

// c55contentBounded: the []byte value has at most limit bytes.
func c55contentBounded(v ssa.Value, at *ssa.BasicBlock, limit int64) (bool, string) {
	v = core.StripConv(v)
	if isNilConst(v) {
		return true, "nil"
	}
	switch x := v.(type) {
	case *ssa.MakeSlice:
		if k, ok := nxConstInt(x.Len); ok && k <= limit {
			return true, "make"
		}
		return false, "make([]byte, " + core.Render(x.Len) + ")"
	case *ssa.Slice:
		if x.High == nil {
			if a, ok := x.X.(*ssa.Alloc); ok {
				if arr, ok := a.Type().Underlying().(*types.Pointer).Elem().Underlying().(*types.Array); ok && arr.Len() <= limit {
					return true, "array"
				}
			}
			return false, "slice without upper bound of " + core.Render(x.X)
		}
		if nxClamped(x.High, at, limit) {
			return true, "clamped"
		}
		return false, "upper bound " + core.Render(x.High) + " is not clamped to <= 65535 on every incoming edge"
	}
	return false, "value " + core.Render(v)
}

// ---------------------------------------------------------------- reader

func c55reader(c *core.Ctx) {
	rd := nxFuncOrMissing(c, c55pkg, "record.read")
	sr := nxFuncOrMissing(c, c55pkg, "streamReader.Read")
	fType := nxFieldVar(c, c55pkg, "header.Type")
	fVer := nxFieldVar(c, c55pkg, "header.Version")
	if rd == nil || sr == nil || fType == nil || fVer == nil {
		return
	}
	endReq, _ := nxConstOf(c, c55pkg, "FCGIEndRequest")
	stdout, _ := nxConstOf(c, c55pkg, "FCGIStdout")
	stderr, _ := nxConstOf(c, c55pkg, "FCGIStderr")
	c55respEnd(c, rd, sr, fType, endReq)
	// comparisons of h.Type on the read path
	typeCmp := map[int64][]*ssa.If{}
	scope := core.TransitiveCallees(sr, 2)
	for _, fn := range scope {
		if core.FuncPkgRel(fn) != c55pkg {
			continue
		}
		for _, in := range allInstrs(fn) {
			ifi, ok := in.(*ssa.If)
			if !ok {
				continue
			}
			bo, ok := ifi.Cond.(*ssa.BinOp)
			if !ok || (bo.Op != token.EQL && bo.Op != token.NEQ) {
				continue
			}
			for _, pr := range [][2]ssa.Value{{bo.X, bo.Y}, {bo.Y, bo.X}} {
				if nxLoadsField(pr[0], fType) {
					if k, ok := nxConstInt(pr[1]); ok {
						typeCmp[k] = append(typeCmp[k], ifi)
					}
				}
			}
		}
	}
	// END_REQUEST => io.EOF
	okEnd := false
	for _, ifi := range typeCmp[endReq] {
		bo := ifi.Cond.(*ssa.BinOp)
		arm := ifi.Block().Succs[0]
		if bo.Op == token.NEQ {
			arm = ifi.Block().Succs[1]
		}
		ret := nxBlockReach(arm, nil, core.IsReturn)
		if r, ok := ret.(*ssa.Return); ok && r.Block() == arm {
			rv := core.RetVals(r)
			if u, ok := rv[len(rv)-1].(*ssa.UnOp); ok {
				if g, ok := u.X.(*ssa.Global); ok && g.Name() == "EOF" {
					okEnd = true
				}
			}
		}
	}
	c.Check("resp-type", "record.read:EndRequest", rd.Pos(), okEnd, "the record reader does not end the response stream (io.EOF) at FCGI_END_REQUEST: the end-request body would be appended to the HTTP response and the reader would block for more records")
	// stdout only
	c.Check("resp-type", "streamReader.Read:stdout-only", sr.Pos(), len(typeCmp[stdout]) > 0 || len(typeCmp[stderr]) > 0,
		"nothing on the response read path (streamReader.Read, record.read) compares rec.h.Type with FCGI_STDOUT or FCGI_STDERR: the content of FCGI_STDERR records is appended to the HTTP response (header or body) like standard output")
	// version check
	okVer := false
	for _, in := range allInstrs(rd) {
		ifi, ok := in.(*ssa.If)
		if !ok {
			continue
		}
		x, op, k, isCmp := nxCmp(ifi.Cond, true)
		if !isCmp || k != 1 || !nxLoadsField(x, fVer) {
			continue
		}
		arm := ifi.Block().Succs[0]
		if op == token.EQL {
			arm = ifi.Block().Succs[1]
		}
		if r, ok := nxBlockReach(arm, nil, core.IsReturn).(*ssa.Return); ok && r.Block() == arm && !isNilConst(core.RetVals(r)[1]) {
			okVer = true
		}
	}
	c.Check("resp-type", "record.read:version", rd.Pos(), okVer, "record.read does not reject records whose version is not 1")
	// the header is read first, with its error returned
	okHdr := false
	for _, call := range core.Calls(rd, "encoding/binary.Read") {
		a := call.Common().Args
		if a[0] == ssa.Value(rd.Params[1]) && strings.HasSuffix(nxOriginAddr(core.StripConv(a[2])), "rec.h") {
			okHdr = true
			for _, r := range nxSuccessReturns(rd, 1) {
				_ = r
			}
		}
	}
	c.Check("resp-type", "record.read:header", rd.Pos(), okHdr, "record.read must decode the 8-byte header from its reader into rec.h")
	// rbuf sized before slicing
	var bad []string
	nsl := 0
	for _, in := range allInstrs(rd) {
		sl, ok := in.(*ssa.Slice)
		if !ok || sl.High == nil || !strings.HasSuffix(nxOrigin(sl.X), "rec.rbuf") {
			continue
		}
		if _, isK := nxConstInt(sl.High); isK {
			continue
		}
		nsl++
		if !c55sized(rd, sl) {
			bad = append(bad, "rec.rbuf[:"+core.Render(sl.High)+"]")
		}
	}
	c.Check("read-bound", "record.read:rbuf", rd.Pos(), nsl > 0 && len(bad) == 0,
		fmt.Sprintf("%d slice(s) of rec.rbuf with a length taken from the record header; not preceded on every path by len(rec.rbuf) >= n or rec.rbuf = make([]byte, n): %s (panic on a record larger than the buffer)", nsl, strings.Join(bad, ", ")))
	// the payload read is complete: io.ReadFull of contentLength+paddingLength
	okFull := false
	for _, call := range core.Calls(rd, "io.ReadFull") {
		if sl, ok := call.Common().Args[1].(*ssa.Slice); ok && call.Common().Args[0] == ssa.Value(rd.Params[1]) {
			if add, ok := core.StripConv(sl.High).(*ssa.BinOp); ok && add.Op == token.ADD {
				s := nxOrigin(core.StripConv(add.X)) + "|" + nxOrigin(core.StripConv(add.Y))
				okFull = strings.Contains(s, "ContentLength") && strings.Contains(s, "PaddingLength")
			}
		}
	}
	c.Check("read-bound", "record.read:payload", rd.Pos(), okFull, "record.read must io.ReadFull contentLength+paddingLength bytes: otherwise padding bytes are taken for the next record header")
	// streamReader.Read clamp
	var badN []string
	nn := 0
	for _, in := range allInstrs(sr) {
		sl, ok := in.(*ssa.Slice)
		if !ok || !strings.HasSuffix(nxOrigin(sl.X), "w.buf") {
			continue
		}
		for _, b := range []ssa.Value{sl.Low, sl.High} {
			if b == nil {
				continue
			}
			nn++
			for _, l := range nxPhiLeaves(b) {
				if arg, isLen := nxIsLen(l.V); isLen && strings.HasSuffix(nxOrigin(arg), "w.buf") {
					continue
				}
				ok := false
				if l.From != nil {
					for _, g := range core.GuardsOnEdge(l.From, l.To) {
						bo, isBin := g.Cond.(*ssa.BinOp)
						if !isBin {
							continue
						}
						x, y, op := bo.X, bo.Y, bo.Op
						if !nxSameVal(x, l.V) {
							x, y = y, x
							switch op {
							case token.GTR:
								op = token.LSS
							case token.LSS:
								op = token.GTR
							case token.GEQ:
								op = token.LEQ
							case token.LEQ:
								op = token.GEQ
							}
						}
						if !nxSameVal(x, l.V) {
							continue
						}
						arg, isLen := nxIsLen(y)
						if !isLen || !strings.HasSuffix(nxOrigin(arg), "w.buf") {
							continue
						}
						if (op == token.GTR && !g.Pol) || (op == token.LEQ && g.Pol) || (op == token.LSS && g.Pol) {
							ok = true
						}
					}
				}
				if !ok {
					badN = append(badN, core.Render(l.V))
				}
			}
		}
	}
	c.Check("read-bound", "streamReader.Read:clamp", sr.Pos(), nn > 0 && len(badN) == 0,
		"w.buf is sliced with a count that is not clamped to len(w.buf) on every path: "+strings.Join(badN, ", "))
	// the buffer is refilled from the client's connection when empty
	okFill := false
	for _, call := range core.Calls(sr, c55pkg+".record.read") {
		if strings.HasSuffix(nxOrigin(core.StripConv(call.Common().Args[1])), "w.c.rwc") {
			okFill = true
		}
	}
	c.Check("read-bound", "streamReader.Read:source", sr.Pos(), okFill, "streamReader.Read must refill from w.c.rwc through record.read")
}

// c55sized: on every edge into the block of sl the buffer is known to hold at least sl.High bytes.
func c55sized(fn *ssa.Function, sl *ssa.Slice) bool {
	n := sl.High
	holds := func(gs []core.Guard) bool {
		for _, g := range gs {
			bo, ok := g.Cond.(*ssa.BinOp)
			if !ok {
				continue
			}
			arg, isLen := nxIsLen(bo.X)
			if isLen && strings.HasSuffix(nxOrigin(arg), "rec.rbuf") && bo.Y == n {
				if (bo.Op == token.LSS && !g.Pol) || (bo.Op == token.GEQ && g.Pol) {
					return true
				}
			}
		}
		return false
	}
	grown := func(b *ssa.BasicBlock) bool {
		for _, in := range b.Instrs {
			if st, ok := in.(*ssa.Store); ok && strings.HasSuffix(nxOriginAddr(st.Addr), "rec.rbuf") {
				if ms, ok := st.Val.(*ssa.MakeSlice); ok && ms.Len == n {
					return true
				}
			}
		}
		return false
	}
	b := sl.Block()
	if holds(core.GuardsAt(b)) {
		return true
	}
	// a later slice with a bound that is a summand of an earlier, checked bound
	for _, in := range allInstrs(fn) {
		prev, ok := in.(*ssa.Slice)
		if !ok || prev == sl || prev.High == nil || !core.Dominates(prev, sl) || !strings.HasSuffix(nxOrigin(prev.X), "rec.rbuf") {
			continue
		}
		if add, ok := core.StripConv(prev.High).(*ssa.BinOp); ok && add.Op == token.ADD && c55sized(fn, prev) {
			if core.Render(add.X) == core.Render(n) || core.Render(add.Y) == core.Render(n) {
				// no store to rbuf in between
				return true
			}
		}
	}
	if len(b.Preds) == 0 {
		return false
	}
	for _, p := range b.Preds {
		if !(holds(core.GuardsOnEdge(p, b)) || grown(p)) {
			return false
		}
	}
	return true
}

// ---------------------------------------------------------------- sequence

func c55okReturn(r *ssa.Return, ei int) bool {
	rv := core.RetVals(r)
	if ei >= len(rv) {
		return false
	}
	return isNilConst(rv[ei]) || nxGuardNilErr(r.Block(), rv[ei])
}

func c55sequence(c *core.Ctx) {
	do := nxFuncOrMissing(c, c55pkg, "FCGIClient.Do")
	if do == nil {
		return
	}
	params, _ := nxConstOf(c, c55pkg, "FCGIParams")
	stdin, _ := nxConstOf(c, c55pkg, "FCGIStdin")
	responder, _ := nxConstOf(c, c55pkg, "FCGIResponser")
	begin, _ := nxConstOf(c, c55pkg, "FCGIBeginRequest")
	var cBegin, cPairs, cWriter, cCopy, cClose ssa.CallInstruction
	for _, call := range core.AllCalls(do) {
		cc := call.Common()
		if _, isPlain := call.(*ssa.Call); !isPlain && !core.CallIs(cc, c55pkg+".bufWriter.Close") {
			continue
		}
		switch {
		case core.CallIs(cc, c55pkg+".FCGIClient.writeBeginRequest"):
			cBegin = call
		case core.CallIs(cc, c55pkg+".FCGIClient.writePairs"):
			cPairs = call
		case core.CallIs(cc, c55pkg+".newWriter"):
			cWriter = call
		case core.CallIs(cc, "io.Copy"):
			cCopy = call
		case core.CallIs(cc, c55pkg+".bufWriter.Close"):
			cClose = call
		}
	}
	var okRets []*ssa.Return
	for _, r := range core.Returns(do) {
		if c55okReturn(r, 1) && !isNilConst(core.RetVals(r)[0]) {
			okRets = append(okRets, r)
		}
	}
	errChecked := func(call ssa.CallInstruction) bool {
		v, ok := call.(ssa.Value)
		if !ok || len(okRets) == 0 {
			return false
		}
		for _, r := range okRets {
			if !nxGuardNilErr(r.Block(), v) {
				return false
			}
		}
		return true
	}
	okBegin := false
	if cBegin != nil {
		a := cBegin.Common().Args
		role, isK := nxConstInt(a[1])
		okBegin = isK && role == responder && a[0] == ssa.Value(do.Params[0]) && errChecked(cBegin)
	}
	c.Check("do-sequence", "Do:begin", do.Pos(), okBegin, "Do must first send FCGI_BEGIN_REQUEST with role FCGI_RESPONDER and return its error")
	okPairs := false
	if cPairs != nil && cBegin != nil {
		a := cPairs.Common().Args
		k, isK := nxConstInt(a[1])
		okPairs = isK && k == params && a[2] == ssa.Value(do.Params[1]) && core.Dominates(cBegin.(ssa.Instruction), cPairs.(ssa.Instruction)) && errChecked(cPairs)
	}
	c.Check("do-sequence", "Do:params", do.Pos(), okPairs, "Do must send the parameter map as the FCGI_PARAMS stream after BEGIN_REQUEST and return its error")
	okStdin := false
	why := ""
	if cWriter != nil && cPairs != nil && cClose != nil {
		a := cWriter.Common().Args
		k, isK := nxConstInt(a[1])
		okType := isK && k == stdin && a[0] == ssa.Value(do.Params[0])
		okAfter := core.Dominates(cPairs.(ssa.Instruction), cWriter.(ssa.Instruction))
		okCopy := cCopy != nil && core.StripConv(cCopy.Common().Args[0]) == cWriter.(ssa.Value) && cCopy.Common().Args[1] == ssa.Value(do.Params[2]) && core.Dominates(cWriter.(ssa.Instruction), cCopy.(ssa.Instruction))
		okClosed := cClose.Common().Args[0] == cWriter.(ssa.Value) && len(okRets) > 0
		for _, r := range okRets {
			if !nxAllPathsPass(do, r, func(in ssa.Instruction) bool { return in == cClose.(ssa.Instruction) }) {
				okClosed = false
			}
		}
		// the copy, when executed, precedes the close
		if _, deferred := cClose.(*ssa.Defer); !deferred && cCopy != nil && core.ReachAvoiding(do, cClose.(ssa.Instruction), nil, func(in ssa.Instruction) bool { return in == cCopy.(ssa.Instruction) }) != nil {
			okClosed = false
		}
		okStdin = okType && okAfter && okCopy && okClosed
		why = fmt.Sprintf("type=%v after-params=%v copies-request-body=%v closed-on-every-success-path=%v", okType, okAfter, okCopy, okClosed)
	}
	c.Check("do-sequence", "Do:stdin", do.Pos(), okStdin, "Do must stream the request body as FCGI_STDIN after the params stream and terminate it with Close() on every success path: "+why)
	okReader := len(okRets) > 0
	for _, r := range okRets {
		a, isAlloc := core.StripConv(core.RetVals(r)[0]).(*ssa.Alloc)
		if !isAlloc || core.TypeStr(a.Type()) != "*"+c55pkg+".streamReader" {
			okReader = false
			continue
		}
		bound := false
		for _, in := range allInstrs(do) {
			if st, isSt := in.(*ssa.Store); isSt {
				if fa, isFa := st.Addr.(*ssa.FieldAddr); isFa && fa.X == ssa.Value(a) && st.Val == ssa.Value(do.Params[0]) {
					bound = true
				}
			}
		}
		okReader = okReader && bound
	}
	c.Check("do-sequence", "Do:reader", do.Pos(), okReader, "Do must return a streamReader bound to the same client")
	if wb := nxFuncOrMissing(c, c55pkg, "FCGIClient.writeBeginRequest"); wb != nil {
		ok := false
		for _, call := range core.Calls(wb, c55pkg+".FCGIClient.writeRecord") {
			a := call.Common().Args
			k, isK := nxConstInt(a[1])
			if !isK || k != begin {
				continue
			}
			sl, isSl := a[2].(*ssa.Slice)
			if !isSl {
				continue
			}
			arr, isArr := sl.X.(*ssa.Alloc)
			if !isArr || arr.Referrers() == nil {
				continue
			}
			cells := map[int64]string{}
			for _, ref := range *arr.Referrers() {
				if ia, isIa := ref.(*ssa.IndexAddr); isIa {
					if i, isK := nxConstInt(ia.Index); isK {
						nxStoresInto(ia, func(v ssa.Value) bool { cells[i] = core.Render(v); return false })
					}
				}
			}
			ok = strings.Contains(cells[0], "role >> 8") && cells[1] == "byte(role)" && cells[2] == "flags"
		}
		c.Check("do-sequence", "writeBeginRequest:body", wb.Pos(), ok, "the BEGIN_REQUEST body must be {role>>8, role, flags, 0…} sent as record type FCGI_BEGIN_REQUEST")
	}
	// response bodies are read through the buffered reader the header was parsed from
	for _, name := range []string{"readResponse", "FCGIClient.Request"} {
		fn := nxFuncOrMissing(c, c55pkg, name)
		if fn == nil {
			continue
		}
		var rb *ssa.Call
		for _, call := range core.Calls(fn, "bfe_bufio.NewReader") {
			rb, _ = call.(*ssa.Call)
		}
		okHdr := false
		for _, call := range core.Calls(fn, "bfe_net/textproto.Reader.ReadMIMEHeader") {
			okHdr = rb != nil && nxFlows(call.Common().Args[0], func(v ssa.Value) bool { return v == ssa.Value(rb) }, nil)
		}
		nst, okBody := 0, rb != nil
		for _, in := range allInstrs(fn) {
			st, isSt := in.(*ssa.Store)
			if !isSt {
				continue
			}
			fa, isFa := st.Addr.(*ssa.FieldAddr)
			if !isFa {
				continue
			}
			if f := core.FieldObj(fa.X, fa.Field); f == nil || f.Name() != "Body" || !strings.HasSuffix(core.TypeStr(fa.X.Type()), "bfe_http.Response") {
				continue
			}
			nst++
			if rb == nil || !nxFlows(st.Val, func(v ssa.Value) bool { return v == ssa.Value(rb) }, nil) {
				okBody = false
			}
		}
		short := name[strings.LastIndex(name, ".")+1:]
		c.Check("resp-body", short, fn.Pos(), okHdr && okBody && nst > 0,
			short+" must build the response body on the buffered reader the CGI header was parsed from; a body over the raw record reader loses the bytes already buffered")
	}
	if rt := nxFuncOrMissing(c, c55pkg, "Transport.RoundTrip"); rt != nil {
		ok := false
		for _, call := range core.Calls(rt, c55pkg+".readResponse") {
			if dc, i := nxCallResult(call.Common().Args[0]); dc != nil && i == 0 && core.CallIs(&dc.Call, c55pkg+".FCGIClient.Do") {
				ok = true
			}
		}
		c.Check("resp-body", "RoundTrip:reader", rt.Pos(), ok, "Transport.RoundTrip must parse the response from the reader returned by client.Do")
	}
}
