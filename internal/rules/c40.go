package rules

import (
	"fmt"
	"go/token"
	"go/types"
	"sort"
	"strings"

	"golang.org/x/tools/go/ssa"

	"verif/internal/core"
)

// C40 — the SPDY server enforces stream and flow-control rules.
func init() {
	Register(&Rule{
		ID: "C40", Section: "5 C40",
		Technique: "guard/value-flow analysis of flow.take arguments (min-chains through phis), must-pass path search with pruning of edges that contradict established guards (stream id recorded before any rejection), who-may-write/who-may-call censuses, refund pairing by dominance and path queries, package-local call graph for serve-goroutine affinity, explicit-panic census on the frame path",
		Meta: core.Meta{
			Level: "other",
			Explanation: "Decides structural necessary conditions in bfe_spdy (server_process_frame.go, server_flow_control.go, server_write_sched.go, server_conn.go, flow.go): " +
				"(take-guard) every flow.take(n) is reached only with n <= available() of the same flow established (a dominating comparison, or n built as a min-chain of available() through `if x < n { n = x }` clamps); the inbound violation returns StreamError{FLOW_CONTROL_ERROR}; " +
				"(flow-census, add-checked) flow.n is written only by take/add with their guards, take is called only from processData and takeFrom, every add on a live flow has its overflow result tested and turned into an error or panic; " +
				"(refund, announce-account) noteBodyRead refunds the connection window on every path and the stream window with the same n, sendWindowUpdate splits into increments <= 2^31-1, sendWindowUpdate32 announces exactly the amount it adds to the window of the level it names, bytes taken but not delivered to the body pipe are refunded at connection level; " +
				"(stream-id) a stream is created and maxStreamID raised only under odd id, id > maxStreamID, not in GOAWAY, each violated test returns an error, every return of processSynStream reached with the id tests passed - success, refused request, too many streams - has gone through the store that raises maxStreamID to the id on every feasible path (id-consumed: an id is used up once validated, whatever happens to the request), the handler is started only under curOpenStreams <= advMaxStreams, RST_STREAM on an idle stream is a connection error; " +
				"(data-state, body-invariant) DATA is taken/written only for a stream found in the table in state open, every other case returns a StreamError, and every stream that stays registered in state open has its body pipe stored: processSynStream puts the request's own RequestBody.pipe into st.body on every success path, newWriterAndRequest creates the pipe only under st.state == stateOpen and - the converse - every success return it can reach without contradicting st.state == stateOpen has passed a non-nil store to RequestBody.pipe (so the pipe depends on the stream state alone, not on method or Content-Length), and a stream is put into state open only before the request is built; " +
				"(window-size-range) the 32-bit SETTINGS_INITIAL_WINDOW_SIZE and WINDOW_UPDATE delta are range-limited before conversion to int32; " +
				"(affinity) functions asserting serveG.Check() are unreachable from go statements, timer callbacks and the exported/handler-facing API except through serverConn.serve, functions asserting CheckNotOn() are unreachable from serve; " +
				"(single-writer) frames are written only by writeFrames, fed only by startFrameWrite under the writingFrame flag; (queue-mutators) the per-stream queue is mutated only by push/shift/forgetStream; " +
				"(panic-census) explicit panics and unchecked type assertions reachable from the serve loop are exactly the reviewed ones. " +
				"Spelling independence: branch conditions are read through negation, named booleans, assigned `&&` / `||` and tagless switch cases (a boolean phi implies a fact when every feasible edge does); the DATA path of processData is examined over its region (processData plus private helpers whose every call site lies inside it): take/Write/refund may sit in a helper, the lookup and state tests established at the helper's single call site hold inside it, the helper's panics count towards processData's reviewed number, and the reviewed-caller / reviewed-writer tables (flow.take callers, WriteFrame, writingFrame, queue mutators) accept private helpers of the reviewed functions. " +
				"Not decided, reported as a violation when met: a flow.take whose window test is in a different function than the take itself, the stream table insert or the maxStreamID store of processSynStream moved into a helper (the id is then a parameter of another frame), an overflow test of flow.add whose failure branch does not end in the error return itself, helpers shared by several reviewed functions (they belong to no region). " +
				"Not covered: sums of windows over long histories, refunds for DATA dropped on unknown/closed streams or left unread in a closed pipe, scheduling order, frame-sequence semantics, index arithmetic panics.",
			RuleText:    "obligations = each flow.take call, each writer of flow.n, each flow.add call, each window-update call in the refund chain, each guard of stream creation, each return of processSynStream behind the id tests (id recorded), each DATA acceptance guard, each success return of newWriterAndRequest (open => pipe), each store of stateOpen, each serve-only / not-serve function, each frame-writer site, each function with explicit panics on the serve path",
			Assumptions: []string{"callbacks enter bfe_spdy from other packages only through exported functions, exported methods and interface methods (treated as non-serve roots)", "gotrack.GoroutineLock.Check/CheckNotOn are the affinity assertions"},
		},
		Run: runC40,
		Mutants: []Mutant{
			{Name: "inflow-check-dropped", File: "bfe_spdy/server_process_frame.go", Old: "		if int(st.inflow.available()) < len(data) {\n			state.SpdyErrFlowControl.Inc(1)\n			return StreamError{id, FlowControlError}\n		}\n", New: "", Expect: "take-guard|serverConn.processData"},
			{Name: "inflow-check-other-level", File: "bfe_spdy/server_process_frame.go", Old: "		if int(st.inflow.available()) < len(data) {", New: "		if int(sc.inflow.available()) < len(data) {", Expect: "take-guard|serverConn.processData"},
			{Name: "inflow-wrong-error-code", File: "bfe_spdy/server_process_frame.go", Old: "			return StreamError{id, FlowControlError}\n		}\n		st.inflow.take", New: "			return StreamError{id, Cancel}\n		}\n		st.inflow.take", Expect: "take-guard|serverConn.processData:flow-error"},
			{Name: "sched-takes-whole-frame", File: "bfe_spdy/server_write_sched.go", Old: "			wm.stream.flow.take(allowed)\n", New: "			wm.stream.flow.take(int32(len(wd.Data)))\n", Expect: "take-guard|writeScheduler.takeFrom"},
			{Name: "sched-clamp-inverted", File: "bfe_spdy/server_write_sched.go", Old: "		if int32(ws.maxFrameSize) < allowed {", New: "		if int32(ws.maxFrameSize) > allowed {", Expect: "take-guard|writeScheduler.takeFrom"},
			{Name: "conn-window-overflow-ignored", File: "bfe_spdy/server_process_frame.go", Old: "		if !sc.flow.add(int32(f.DeltaWindowSize)) {\n			state.SpdyErrFlowControl.Inc(1)\n			return goAwayFlowError{}\n		}", New: "		sc.flow.add(int32(f.DeltaWindowSize))", Expect: "add-checked|serverConn.processWindowUpdate"},
			{Name: "conn-refund-dropped", File: "bfe_spdy/server_flow_control.go", Old: "	sc.sendWindowUpdate(nil, n) // conn-level\n", New: "", Expect: "refund|noteBodyRead:conn"},
			{Name: "stream-refund-other-amount", File: "bfe_spdy/server_flow_control.go", Old: "		sc.sendWindowUpdate(st, n)\n", New: "		sc.sendWindowUpdate(st, n-1)\n", Expect: "refund|noteBodyRead:stream"},
			{Name: "announce-more-than-accounted", File: "bfe_spdy/server_flow_control.go", Old: "		ok = sc.inflow.add(n)\n", New: "		ok = sc.inflow.add(n - 1)\n", Expect: "announce-account|sendWindowUpdate32:add"},
			{Name: "account-wrong-level", File: "bfe_spdy/server_flow_control.go", Old: "	if st == nil {\n		ok = sc.inflow.add(n)", New: "	if st != nil {\n		ok = sc.inflow.add(n)", Expect: "announce-account|sendWindowUpdate32:add"},
			{Name: "parity-check-dropped", File: "bfe_spdy/server_process_frame.go", Old: "	if id%2 != 1 || id < sc.maxStreamID {", New: "	if id < sc.maxStreamID {", Expect: "stream-id|processSynStream:parity"},
			{Name: "duplicate-id-accepted", File: "bfe_spdy/server_process_frame.go", Old: "	if id == sc.maxStreamID {\n", New: "	if id == sc.maxStreamID && id == 0 {\n", Expect: "stream-id|processSynStream:monotonic"},
			{Name: "max-streams-check-after-start", File: "bfe_spdy/server_process_frame.go", Old: "	if sc.curOpenStreams > sc.advMaxStreams {", New: "	if sc.curOpenStreams > sc.advMaxStreams && sc.inGoAway {", Expect: "stream-id|processSynStream:max-streams"},
			{Name: "data-on-half-closed-accepted", File: "bfe_spdy/server_process_frame.go", Old: "	if st.state != stateOpen {\n		// This includes", New: "	if st.state == stateClosed {\n		// This includes", Expect: "data-state|processData:open"},
			{Name: "body-not-stored", File: "bfe_spdy/server_process_frame.go", Old: "	st.body = req.Body.(*RequestBody).pipe // may be nil\n", New: "", Expect: "body-invariant|processSynStream"},
			{Name: "pipe-only-for-body-methods", File: "bfe_spdy/server_process_frame.go", Old: "\t\tbody.pipe = pipe.NewPipeFromBufferPool(&fixBufferPool)\n", New: "\t\tif method != \"GET\" {\n\t\t\tbody.pipe = pipe.NewPipeFromBufferPool(&fixBufferPool)\n\t\t}\n", Expect: "body-invariant|newWriterAndRequest:open-has-pipe:return#1"},
			{Name: "pipe-only-for-declared-length", File: "bfe_spdy/server_process_frame.go", Old: "\t\t\treq.ContentLength = len\n\t\t} else {\n\t\t\treq.ContentLength = -1\n\t\t}\n\t\tbody.pipe = pipe.NewPipeFromBufferPool(&fixBufferPool)\n", New: "\t\t\treq.ContentLength = len\n\t\t\tbody.pipe = pipe.NewPipeFromBufferPool(&fixBufferPool)\n\t\t} else {\n\t\t\treq.ContentLength = -1\n\t\t}\n", Expect: "body-invariant|newWriterAndRequest:open-has-pipe:return#1"},
			{Name: "stream-reopened-after-request-built", File: "bfe_spdy/server_process_frame.go", Old: "\tst.declBodyBytes = req.ContentLength\n", New: "\tst.declBodyBytes = req.ContentLength\n\tif req.ContentLength > 0 {\n\t\tst.state = stateOpen\n\t}\n", Expect: "body-invariant|open-writer"},
			{Name: "stream-body-is-not-the-request-pipe", File: "bfe_spdy/server_process_frame.go", Old: "\tst.body = req.Body.(*RequestBody).pipe // may be nil\n", New: "\tst.body = pipe.NewPipeFromBufferPool(&fixBufferPool)\n", Expect: "body-invariant|processSynStream:return#1"},
			{Name: "silent-pipe-created-under-direct-state-test", File: "bfe_spdy/server_process_frame.go", Old: "\t\tbody.pipe = pipe.NewPipeFromBufferPool(&fixBufferPool)\n\t}\n\n\trws := ", New: "\t}\n\tif st.state == stateOpen {\n\t\tbody.pipe = pipe.NewPipeFromBufferPool(&fixBufferPool)\n\t}\n\n\trws := ", Silent: true},
			{Name: "handler-writes-on-serve-path", File: "bfe_spdy/server_conn.go", Old: "	if err := sc.writeFrameFromHandler(frameWriteMsg{\n		frame:  frame,\n		stream: st,\n		done:   errc,\n	}); err != nil {\n		return err\n	}", New: "	sc.writeFrame(frameWriteMsg{\n		frame:  frame,\n		stream: st,\n		done:   errc,\n	})", Expect: "affinity|serve-only:serverConn.writeFrame"},
			{Name: "handler-refunds-directly", File: "bfe_spdy/server_flow_control.go", Old: "	select {\n	case sc.bodyReadCh <- bodyReadMsg{st, n}:\n	case <-sc.doneServing:\n	}", New: "	sc.noteBodyRead(st, n)", Expect: "affinity|serve-only:serverConn.noteBodyRead"},
			{Name: "serve-blocks-on-handler-channel", File: "bfe_spdy/server_conn.go", Old: "	sc.writeFrame(frameWriteMsg{\n		frame: &RstStreamFrame{", New: "	sc.writeFrameFromHandler(frameWriteMsg{\n		frame: &RstStreamFrame{", Expect: "affinity|not-serve:serverConn.writeFrameFromHandler"},
			{Name: "new-panic-on-frame-path", File: "bfe_spdy/server_process_frame.go", Old: "	if f.Id%2 == 0 {\n		return nil\n	}", New: "	if f.Id%2 == 0 {\n		panic(\"even ping\")\n	}", Expect: "panic-census|serverConn.processPing"},
			{Name: "second-frame-writer", File: "bfe_spdy/server_conn.go", Old: "func (sc *serverConn) Flush() error {\n	return sc.bw.Flush()", New: "func (sc *serverConn) Flush() error {\n	sc.framer.WriteFrame(&PingFrame{Id: 2})\n	return sc.bw.Flush()", Expect: "single-writer|WriteFrame@serverConn.Flush"},
			{Name: "writing-flag-check-dropped", File: "bfe_spdy/server_conn.go", Old: "	if sc.writingFrame {\n		panic(\"internal error: can only be writing one frame at a time\")\n	}\n", New: "", Expect: "single-writer|send"},
			{Name: "window-delta-mask-dropped", File: "bfe_spdy/frame_read.go", Old: "	frame.DeltaWindowSize = frame.DeltaWindowSize & 0x7fffffff\n", New: "", Expect: "window-size-range|WindowUpdateFrame.read"},
			{Name: "stream-id-recorded-only-for-open-streams", File: "bfe_spdy/server_process_frame.go", Old: "	if id > sc.maxStreamID {\n		sc.maxStreamID = id\n	}\n", New: "	if id > sc.maxStreamID && !f.StreamEnded() {\n		sc.maxStreamID = id\n	}\n", Expect: "stream-id|processSynStream:id-consumed"},
			{Name: "stream-id-recorded-after-max-streams-check", File: "bfe_spdy/server_process_frame.go", Old: `	if id > sc.maxStreamID {
		sc.maxStreamID = id
	}
	st := &stream{
		id:     id,
		state:  stateOpen,
		weight: f.Priority,
	}
	if f.StreamEnded() {
		st.state = stateHalfClosedRemote
	}
	st.cw.Init()

	st.flow.conn = &sc.flow // link to conn-level counter
	st.flow.add(sc.initialWindowSize)
	st.inflow.conn = &sc.inflow      // link to conn-level counter
	st.inflow.add(initialWindowSize) // TODO: update this when we send a higher initial window size in the initial settings

	sc.streams[id] = st
	sc.curOpenStreams++
	if sc.curOpenStreams > sc.advMaxStreams {
		state.SpdyErrMaxStreamPerConn.Inc(1)
		return fmt.Errorf("user-agent[%s] curOpenStreams[%d] exceeds maxCurStreams[%d]",
			f.Headers.Get("user-agent"), sc.curOpenStreams, sc.advMaxStreams)
	}
`, New: `	st := &stream{
		id:     id,
		state:  stateOpen,
		weight: f.Priority,
	}
	if f.StreamEnded() {
		st.state = stateHalfClosedRemote
	}
	st.cw.Init()

	st.flow.conn = &sc.flow // link to conn-level counter
	st.flow.add(sc.initialWindowSize)
	st.inflow.conn = &sc.inflow      // link to conn-level counter
	st.inflow.add(initialWindowSize) // TODO: update this when we send a higher initial window size in the initial settings

	sc.streams[id] = st
	sc.curOpenStreams++
	if sc.curOpenStreams > sc.advMaxStreams {
		state.SpdyErrMaxStreamPerConn.Inc(1)
		return fmt.Errorf("user-agent[%s] curOpenStreams[%d] exceeds maxCurStreams[%d]",
			f.Headers.Get("user-agent"), sc.curOpenStreams, sc.advMaxStreams)
	}
	if id > sc.maxStreamID {
		sc.maxStreamID = id
	}
`, Expect: "stream-id|processSynStream:id-consumed:return#1"},
			{Name: "silent-stream-id-recorded-unconditionally-after-alloc", File: "bfe_spdy/server_process_frame.go", Old: "	if id > sc.maxStreamID {\n		sc.maxStreamID = id\n	}\n	st := &stream{\n		id:     id,\n		state:  stateOpen,\n		weight: f.Priority,\n	}\n", New: "	st := &stream{\n		id:     id,\n		state:  stateOpen,\n		weight: f.Priority,\n	}\n	sc.maxStreamID = id\n", Silent: true},
			{Name: "silent-receiver-renamed", File: "bfe_spdy/server_flow_control.go", Old: "func (sc *serverConn) noteBodyRead(st *stream, n int) {\n	sc.serveG.Check()\n	sc.sendWindowUpdate(nil, n) // conn-level\n	if st.state != stateHalfClosedRemote && st.state != stateClosed {\n		// Don't send this WINDOW_UPDATE if the stream is closed\n		// remotely.\n		sc.sendWindowUpdate(st, n)\n	}\n}", New: "func (conn *serverConn) noteBodyRead(s *stream, consumed int) {\n	conn.serveG.Check()\n	conn.sendWindowUpdate(nil, consumed)\n	if s.state == stateHalfClosedRemote || s.state == stateClosed {\n		return\n	}\n	conn.sendWindowUpdate(s, consumed)\n}", Silent: true},
			{Name: "silent-inflow-check-operands-swapped", File: "bfe_spdy/server_process_frame.go", Old: "		if int(st.inflow.available()) < len(data) {", New: "		if len(data) > int(st.inflow.available()) {", Silent: true},
			{Name: "silent-refund-with-logging-and-local", File: "bfe_spdy/server_flow_control.go", Old: "	sc.sendWindowUpdate(nil, n) // conn-level\n", New: "	consumed := n\n	println(\"refund\", consumed)\n	sc.sendWindowUpdate(nil, consumed) // conn-level\n", Silent: true},
			{Name: "silent-data-state-tests-as-switch", File: "bfe_spdy/server_process_frame.go", Old: "\tst, ok := sc.streams[id]\n\tif !ok {\n\t\tstate.SpdyErrInvalidDataStream.Inc(1)\n\t\treturn StreamError{id, InvalidStream}\n\t}\n\tif st.state != stateOpen {\n\t\t// This includes sending a RST_STREAM if the stream is\n\t\t// in stateHalfClosedLocal (which currently means that\n\t\t// the http.Handler returned, so it's done reading &\n\t\t// done writing). Try to stop the client from sending\n\t\t// more DATA.\n\t\tstate.SpdyErrStreamAlreadyClosed.Inc(1)\n\t\treturn StreamError{id, StreamAlreadyClosed}\n\t}\n", New: "\tst, ok := sc.streams[id]\n\tswitch {\n\tcase !ok:\n\t\tstate.SpdyErrInvalidDataStream.Inc(1)\n\t\treturn StreamError{id, InvalidStream}\n\tcase st.state != stateOpen:\n\t\t// the stream is half closed (remote), half closed (local) or closed\n\t\tstate.SpdyErrStreamAlreadyClosed.Inc(1)\n\t\treturn StreamError{id, StreamAlreadyClosed}\n\t}\n", Silent: true},
			{Name: "silent-data-payload-step-extracted-into-helper", File: "bfe_spdy/server_process_frame.go", Old: "\tif len(data) > 0 {\n\t\t// Check whether the client has flow control quota.\n\t\tif int(st.inflow.available()) < len(data) {\n\t\t\tstate.SpdyErrFlowControl.Inc(1)\n\t\t\treturn StreamError{id, FlowControlError}\n\t\t}\n\t\tst.inflow.take(int32(len(data)))\n\t\twrote, err := st.body.Write(data)\n\t\tif err != nil {\n\t\t\t// the bytes were taken from both windows but will never be\n\t\t\t// read: give them back to the connection-level window\n\t\t\tsc.sendWindowUpdate(nil, len(data))\n\t\t\tstate.SpdyErrStreamAlreadyClosed.Inc(1)\n\t\t\treturn StreamError{id, StreamAlreadyClosed}\n\t\t}\n\t\tif wrote != len(data) {\n\t\t\tpanic(\"internal error: bad Writer\")\n\t\t}\n\t\tst.bodyBytes += int64(len(data))\n\t}\n\tif f.StreamEnded() {\n\t\tif t := st.timeoutTimer; t != nil {\n\t\t\tt.Stop()\n\t\t}\n\n\t\tif st.declBodyBytes != -1 && st.declBodyBytes != st.bodyBytes {\n\t\t\tstate.SpdyErrBadRequest.Inc(1)\n\t\t\tst.body.CloseWithError(fmt.Errorf(\"request declared a Content-Length of %d but only wrote %d bytes\",\n\t\t\t\tst.declBodyBytes, st.bodyBytes))\n\t\t\treturn StreamError{id, ProtocolError}\n\t\t}\n\t\tst.body.CloseWithError(io.EOF)\n\t\tst.state = stateHalfClosedRemote\n\t}\n\treturn nil\n}\n", New: "\tif err := sc.chargeAndStore(st, data); err != nil {\n\t\treturn err\n\t}\n\tif f.StreamEnded() {\n\t\tif t := st.timeoutTimer; t != nil {\n\t\t\tt.Stop()\n\t\t}\n\n\t\tif st.declBodyBytes != -1 && st.declBodyBytes != st.bodyBytes {\n\t\t\tstate.SpdyErrBadRequest.Inc(1)\n\t\t\tst.body.CloseWithError(fmt.Errorf(\"request declared a Content-Length of %d but only wrote %d bytes\",\n\t\t\t\tst.declBodyBytes, st.bodyBytes))\n\t\t\treturn StreamError{id, ProtocolError}\n\t\t}\n\t\tst.body.CloseWithError(io.EOF)\n\t\tst.state = stateHalfClosedRemote\n\t}\n\treturn nil\n}\n\n// chargeAndStore charges the payload of a DATA frame to the receive windows\n// and appends it to the request body.\nfunc (sc *serverConn) chargeAndStore(st *stream, chunk []byte) error {\n\tif len(chunk) == 0 {\n\t\treturn nil\n\t}\n\tif int(st.inflow.available()) < len(chunk) {\n\t\tstate.SpdyErrFlowControl.Inc(1)\n\t\treturn StreamError{st.id, FlowControlError}\n\t}\n\tst.inflow.take(int32(len(chunk)))\n\tstored, err := st.body.Write(chunk)\n\tif err != nil {\n\t\tsc.sendWindowUpdate(nil, len(chunk))\n\t\tstate.SpdyErrStreamAlreadyClosed.Inc(1)\n\t\treturn StreamError{st.id, StreamAlreadyClosed}\n\t}\n\tif stored != len(chunk) {\n\t\tpanic(\"internal error: bad Writer\")\n\t}\n\tst.bodyBytes += int64(len(chunk))\n\treturn nil\n}\n", Silent: true},
			{Name: "silent-id-tests-as-assigned-conjunction", File: "bfe_spdy/server_process_frame.go", Old: "\tif id%2 != 1 || id < sc.maxStreamID {\n\t\t// \"If the client is initiating the stream, the Stream-ID must\n\t\t// be even. [...] The stream-id MUST increase with each new stream.\n\t\t// If an endpoint receives a SYN_STREAM with a stream id which is\n\t\t// less than any previously recevied SYN_STREAM, it MUST issue a\n\t\t// session error with the status PROTOCOL_ERROR. See Section 2.3.2\"\n\t\tstate.SpdyErrInvalidSynStream.Inc(1)\n\t\treturn ConnectionError(ProtocolError)\n\t}\n\tif id == sc.maxStreamID {", New: "\tidAcceptable := id%2 == 1 && id >= sc.maxStreamID\n\tif !idAcceptable {\n\t\t// \"If the client is initiating the stream, the Stream-ID must\n\t\t// be even. [...] The stream-id MUST increase with each new stream.\n\t\t// If an endpoint receives a SYN_STREAM with a stream id which is\n\t\t// less than any previously recevied SYN_STREAM, it MUST issue a\n\t\t// session error with the status PROTOCOL_ERROR. See Section 2.3.2\"\n\t\tstate.SpdyErrInvalidSynStream.Inc(1)\n\t\treturn ConnectionError(ProtocolError)\n\t}\n\tif id == sc.maxStreamID {", Silent: true},
			{Name: "silent-open-test-spelled-as-negated-inequality", File: "bfe_spdy/server_process_frame.go", Old: "\tbodyOpen := st.state == stateOpen\n", New: "\tbodyClosed := st.state != stateOpen\n\tbodyOpen := !bodyClosed\n", Silent: true},
		},
	})
}

// c40Reviewed: explicit panics / unchecked type assertions reachable from the
// serve loop, with the reason each is not client-triggerable.
var c40Reviewed = map[string]struct {
	panics, asserts int
	why             string
}{
	"flow.take":                          {1, 0, "callers establish n <= available() (take-guard)"},
	"serverConn.processData":             {2, 0, "body != nil in state open (body-invariant); pipe.Write is all-or-nothing for a fixed buffer sized to the window"},
	"serverConn.processSynStream":        {0, 1, "req.Body was built as *RequestBody by newWriterAndRequest"},
	"serverConn.newWriterAndRequest":     {0, 1, "pool only holds *responseWriterState"},
	"serverConn.sendWindowUpdate32":      {2, 0, "n comes from bytes read, refunds never exceed what was taken"},
	"serverConn.startFrameWrite":         {3, 0, "writingFrame discipline (single-writer); stream state set by serve loop only"},
	"serverConn.wroteFrame":              {3, 0, "pairs with startFrameWrite; done channels are made with capacity 1"},
	"endsStream":                         {1, 0, "frame nil-ed only after use"},
	"serverConn.closeStream":             {1, 0, "streams come from the table, which only holds non-closed streams"},
	"serverConn.notePanic":               {1, 0, "re-panic only under the test hook"},
	"serverConn.setTimeout":              {1, 0, "request body belongs to this connection"},
	"writeScheduler.putEmptyQueue":       {1, 0, "queue emptied by caller"},
	"writeScheduler.take":                {2, 0, "maxFrameSize set at construction; canSend zeroed by defer"},
	"writeScheduler.streamWritableBytes": {1, 1, "called only for queues whose head is a DATA frame with bytes"},
	"writeQueue.head":                    {1, 0, "callers hold non-empty queues"},
	"writeQueue.shift":                   {1, 0, "callers hold non-empty queues"},
}

// c40Graph is the package-local call graph used for goroutine affinity.
type c40Graph struct {
	fns   []*ssa.Function
	edges map[*ssa.Function][]*ssa.Function
	// roots spawned on other goroutines: go statements and closures handed to
	// functions outside the package (timer callbacks).
	spawned map[*ssa.Function]string
}

func c40BuildGraph(c *core.Ctx) *c40Graph {
	g := &c40Graph{edges: map[*ssa.Function][]*ssa.Function{}, spawned: map[*ssa.Function]string{}}
	g.fns = c.P.SrcFuncs(spdyPkg)
	inPkg := map[*ssa.Function]bool{}
	for _, fn := range g.fns {
		inPkg[fn] = true
	}
	pk := c.P.Pkg(spdyPkg)
	// implementations of an interface method among the package's named types
	impl := func(iface *types.Interface, name string) []*ssa.Function {
		var out []*ssa.Function
		if pk == nil || iface == nil {
			return nil
		}
		for _, n := range pk.Types.Scope().Names() {
			tn, ok := pk.Types.Scope().Lookup(n).(*types.TypeName)
			if !ok || tn.IsAlias() {
				continue
			}
			if _, isIface := tn.Type().Underlying().(*types.Interface); isIface {
				continue
			}
			for _, t := range []types.Type{tn.Type(), types.NewPointer(tn.Type())} {
				if !types.Implements(t, iface) {
					continue
				}
				if sel := c.P.SSA.MethodSets.MethodSet(t).Lookup(pk.Types, name); sel != nil {
					if f := c.P.SSA.MethodValue(sel); f != nil && inPkg[f] {
						out = append(out, f)
					}
				}
			}
		}
		return out
	}
	closureOf := func(v ssa.Value) *ssa.Function {
		switch x := v.(type) {
		case *ssa.MakeClosure:
			f, _ := x.Fn.(*ssa.Function)
			return f
		case *ssa.Function:
			return x
		}
		return nil
	}
	for _, fn := range g.fns {
		core.Instrs(fn, func(in ssa.Instruction) {
			ci, ok := in.(ssa.CallInstruction)
			if !ok {
				return
			}
			cc := ci.Common()
			var targets []*ssa.Function
			switch {
			case cc.IsInvoke():
				iface, _ := cc.Value.Type().Underlying().(*types.Interface)
				targets = impl(iface, cc.Method.Name())
			case cc.StaticCallee() != nil:
				targets = []*ssa.Function{cc.StaticCallee()}
			default:
				if f := closureOf(cc.Value); f != nil {
					targets = []*ssa.Function{f}
				}
			}
			_, isGo := in.(*ssa.Go)
			external := !cc.IsInvoke() && cc.StaticCallee() != nil && !inPkg[cc.StaticCallee()]
			for _, t := range targets {
				if !inPkg[t] {
					continue
				}
				if isGo {
					g.spawned[t] = "go statement in " + spdyShort(fn)
				} else {
					g.edges[fn] = append(g.edges[fn], t)
				}
			}
			// closures passed as arguments
			for _, a := range cc.Args {
				f := closureOf(a)
				if f == nil || !inPkg[f] {
					continue
				}
				if isGo || external {
					g.spawned[f] = "callback handed to " + core.CalleeKey(cc) + " in " + spdyShort(fn)
				} else {
					g.edges[fn] = append(g.edges[fn], f) // may be invoked by the package-local callee
				}
			}
		})
	}
	return g
}

// reach returns the functions reachable from roots without entering `stop`.
func (g *c40Graph) reach(roots []*ssa.Function, stop *ssa.Function) map[*ssa.Function]*ssa.Function {
	from := map[*ssa.Function]*ssa.Function{}
	var work []*ssa.Function
	for _, r := range roots {
		if r != nil && r != stop {
			if _, ok := from[r]; !ok {
				from[r] = r
				work = append(work, r)
			}
		}
	}
	for len(work) > 0 {
		f := work[len(work)-1]
		work = work[:len(work)-1]
		for _, t := range g.edges[f] {
			if t == stop {
				continue
			}
			if _, ok := from[t]; !ok {
				from[t] = from[f]
				work = append(work, t)
			}
		}
	}
	return from
}

func runC40(c *core.Ctx) {
	if c.P.Pkg(spdyPkg) == nil {
		c.Missing(spdyPkg)
		return
	}
	const (
		flowTake  = spdyPkg + ".flow.take"
		flowAvail = spdyPkg + ".flow.available"
		flowAdd   = spdyPkg + ".flow.add"
	)
	fn := func(name string) *ssa.Function {
		f := c.P.Func(spdyPkg, name)
		if f == nil {
			c.Missing(spdyPkg + "." + name)
		} else {
			c.Analysed(core.FuncKey(f))
		}
		return f
	}
	fieldVar := func(name string) *types.Var {
		v, _ := c.P.Obj(spdyPkg, name).(*types.Var)
		if v == nil {
			c.Missing(spdyPkg + "." + name)
		}
		return v
	}
	constVal := func(name string) (int64, bool) {
		k, ok := c.P.Obj(spdyPkg, name).(*types.Const)
		if !ok {
			c.Missing(spdyPkg + "." + name)
			return 0, false
		}
		v, exact := spdyConstVal(k)
		return v, exact
	}
	fns := c.P.SrcFuncs(spdyPkg)
	strip := core.StripConv
	// fa0: base object of a field address (&st.inflow -> st)
	fa0 := func(v ssa.Value) ssa.Value {
		if fa, ok := v.(*ssa.FieldAddr); ok {
			return fa.X
		}
		return nil
	}
	rs := func(v ssa.Value) string { return core.Render(strip(v)) }
	upper := func(op token.Token) bool { return op == token.LSS || op == token.LEQ || op == token.EQL }
	// block reached when the guard g does NOT hold
	violated := spdyViolated
	// regions: a private helper of an anchor function (all of its call sites
	// inside the anchor's region) is part of the anchor: extracting a block of
	// processData into a helper moves no obligation to another function
	owners := spdyRegionSet(c.P, "serverConn.processData", "writeScheduler.takeFrom", "serverConn.writeFrames", "serverConn.rejectConn",
		"serverConn.serve", "serverConn.startFrameWrite", "serverConn.wroteFrame", "writeQueue.push", "writeQueue.shift", "writeScheduler.forgetStream")
	owner := func(f *ssa.Function) string { return spdyOwner(owners, f) }
	endsInError := func(b *ssa.BasicBlock) bool {
		if b == nil || len(b.Instrs) == 0 {
			return false
		}
		switch x := b.Instrs[len(b.Instrs)-1].(type) {
		case *ssa.Return:
			return spdyErrorReturn(x)
		case *ssa.Panic:
			return true
		}
		return false
	}
	// the StreamError/ConnectionError code stored or boxed in block b
	errCode := func(b *ssa.BasicBlock) (int64, bool) {
		if b == nil {
			return 0, false
		}
		for _, in := range b.Instrs {
			switch x := in.(type) {
			case *ssa.Store:
				if fa, ok := x.Addr.(*ssa.FieldAddr); ok {
					if f := core.FieldObj(fa.X, fa.Field); f != nil && f.Name() == "Code" {
						return spdyConstInt(x.Val)
					}
				}
			case *ssa.MakeInterface:
				if k, ok := spdyConstInt(x.X); ok {
					return k, true
				}
			}
		}
		return 0, false
	}

	// ---- take-guard ----------------------------------------------------------
	for _, f := range fns {
		if strings.HasPrefix(spdyShort(f), "flow.") {
			continue
		}
		n := 0
		for _, call := range core.Calls(f, flowTake) {
			n++
			c.Analysed(core.FuncKey(f))
			args := call.Common().Args
			recv := core.Render(args[0])
			isAvail := func(v ssa.Value) bool {
				cl, ok := strip(v).(*ssa.Call)
				return ok && core.CallIs(&cl.Call, flowAvail) && core.Render(cl.Call.Args[0]) == recv
			}
			var leq func(v ssa.Value, seen map[ssa.Value]bool) bool
			guardedBy := func(gs []core.Guard, v ssa.Value, seen map[ssa.Value]bool) bool {
				want := rs(v)
				for _, g := range gs {
					if spdyImplied(g, func(a core.Guard) bool {
						cmp, ok := spdyNorm(a.Cond, a.Pol, func(x ssa.Value) bool { return core.Render(x) == want })
						return ok && upper(cmp.Op) && leq(cmp.Other, seen)
					}, false) {
						return true
					}
				}
				return false
			}
			leq = func(v ssa.Value, seen map[ssa.Value]bool) bool {
				v = strip(v)
				if isAvail(v) {
					return true
				}
				phi, ok := v.(*ssa.Phi)
				if !ok || seen[v] {
					return false
				}
				seen[v] = true
				defer delete(seen, v)
				for i, e := range phi.Edges {
					if leq(e, seen) {
						continue
					}
					if !guardedBy(core.GuardsOnEdge(phi.Block().Preds[i], phi.Block()), e, seen) {
						return false
					}
				}
				return true
			}
			blk := call.(ssa.Instruction).Block()
			var hit *core.Guard
			ok := leq(args[1], map[ssa.Value]bool{})
			if !ok {
				want := rs(args[1])
				ok = core.AllEdgesGuarded(blk, func(g core.Guard) bool {
					if spdyImplied(g, func(a core.Guard) bool {
						cmp, isCmp := spdyNorm(a.Cond, a.Pol, func(x ssa.Value) bool { return core.Render(x) == want })
						return isCmp && upper(cmp.Op) && leq(cmp.Other, map[ssa.Value]bool{})
					}, false) {
						gg := g // the branch itself (it names the block taken when the test fails)
						hit = &gg
						return true
					}
					return false
				})
			}
			c.Check("take-guard", fmt.Sprintf("%s:take#%d", spdyShort(f), n), call.Pos(), ok,
				"flow.take("+core.Render(args[1])+") on "+recv+" is reachable without "+rs(args[1])+" <= "+recv+".available() having been established (comparison on the same flow, or a min-chain of available() through clamps): more bytes are taken than the window holds — inbound: the peer overruns the advertised window; outbound: more DATA is sent than the peer allows (and flow.take panics)")
			if owner(f) == "serverConn.processData" {
				want, okK := constVal("FlowControlError")
				got, okC := int64(-1), false
				if hit != nil {
					vb := violated(*hit)
					got, okC = errCode(vb)
					okC = okC && endsInError(vb)
				}
				c.Check("take-guard", "serverConn.processData:flow-error", call.Pos(), okK && okC && got == want,
					fmt.Sprintf("a DATA frame exceeding the window must be answered with StreamError{FLOW_CONTROL_ERROR=%d}; the violated branch yields code %d (found=%v)", want, got, okC))
			}
		}
	}
	c.Min("take-guard", 4)

	// ---- flow-census -----------------------------------------------------------
	if nFld := fieldVar("flow.n"); nFld != nil {
		for _, f := range fns {
			for i, call := range core.Calls(f, flowTake) {
				s := spdyShort(f)
				c.Check("flow-census", fmt.Sprintf("take-callers|%s#%d", s, i+1), call.Pos(), owner(f) == "serverConn.processData" || owner(f) == "writeScheduler.takeFrom",
					"flow.take is called from "+s+"; only processData (inbound DATA) and takeFrom (outbound DATA) are reviewed consumers of a window")
			}
		}
		ord := map[string]int{}
		for _, st := range core.FieldStores(fns, nFld) {
			s := spdyShort(st.Fn)
			ord[s]++
			key := fmt.Sprintf("writers|%s#%d", s, ord[s])
			val, _ := strip(st.Store.Val).(*ssa.BinOp)
			param := ssa.Value(nil)
			if len(st.Fn.Params) == 2 {
				param = st.Fn.Params[1]
			}
			ok := false
			switch s {
			case "flow.take":
				ok = val != nil && val.Op == token.SUB && val.Y == param && core.Render(val.X) == core.Render(st.Store.Addr) &&
					spdyHasGuard(st.Store.Block(), func(g core.Guard) bool {
						cmp, isCmp := spdyNorm(g.Cond, g.Pol, func(x ssa.Value) bool { return x == param })
						if !isCmp || !upper(cmp.Op) {
							return false
						}
						cl, isCall := strip(cmp.Other).(*ssa.Call)
						return isCall && core.CallIs(&cl.Call, flowAvail) && cl.Call.Args[0] == ssa.Value(st.Fn.Params[0])
					})
			case "flow.add":
				ok = val != nil && val.Op == token.ADD && val.Y == param && core.Render(val.X) == core.Render(st.Store.Addr) &&
					spdyHasGuard(st.Store.Block(), func(g core.Guard) bool {
						cmp, isCmp := spdyNorm(g.Cond, g.Pol, func(x ssa.Value) bool { return x == param })
						if !isCmp || !upper(cmp.Op) {
							return false
						}
						sub, isSub := strip(cmp.Other).(*ssa.BinOp)
						if !isSub || sub.Op != token.SUB {
							return false
						}
						k, isK := spdyConstInt(sub.X)
						return isK && k == 1<<31-1 && core.Render(sub.Y) == core.Render(st.Store.Addr)
					})
			}
			c.Check("flow-census", key, st.Store.Pos(), ok,
				"flow.n is written in "+s+" with "+core.Render(st.Store.Val)+"; reviewed writers: take (n -= amount under amount <= available(), both levels) and add (n += amount under amount <= 2^31-1 - n)")
		}
		c.Min("flow-census", 5)
	}

	// ---- add-checked ------------------------------------------------------------
	for _, f := range fns {
		n := 0
		for _, call := range core.Calls(f, flowAdd) {
			n++
			c.Analysed(core.FuncKey(f))
			key := fmt.Sprintf("%s:add#%d", spdyShort(f), n)
			// fresh: the flow belongs to an object allocated in this function
			root := call.Common().Args[0]
			for {
				fa, ok := root.(*ssa.FieldAddr)
				if !ok {
					break
				}
				root = fa.X
			}
			if a, ok := root.(*ssa.Alloc); ok && a.Heap && a.Parent() == f {
				c.Check("add-checked", key, call.Pos(), true, "")
				continue
			}
			cv, isVal := call.(*ssa.Call)
			tested := false
			if isVal {
				var follow func(v ssa.Value, okPol bool, seen map[ssa.Value]bool)
				follow = func(v ssa.Value, okPol bool, seen map[ssa.Value]bool) {
					if seen[v] || v.Referrers() == nil {
						return
					}
					seen[v] = true
					for _, r := range *v.Referrers() {
						switch x := r.(type) {
						case *ssa.If:
							fail := x.Block().Succs[1]
							if !okPol {
								fail = x.Block().Succs[0]
							}
							if endsInError(fail) {
								tested = true
							}
						case *ssa.UnOp:
							if x.Op == token.NOT {
								follow(x, !okPol, seen)
							}
						case *ssa.Phi:
							follow(x, okPol, seen)
						}
					}
				}
				follow(cv, true, map[ssa.Value]bool{})
			}
			c.Check("add-checked", key, call.Pos(), tested,
				"the overflow result of flow.add("+core.Render(call.Common().Args[1])+") on "+core.Render(call.Common().Args[0])+" is not turned into an error return or panic: a window pushed beyond 2^31-1 by the peer is silently ignored instead of being a flow-control error")
		}
	}
	c.Min("add-checked", 7)

	// ---- refund / announce-account ------------------------------------------------
	const swu, swu32 = spdyPkg + ".serverConn.sendWindowUpdate", spdyPkg + ".serverConn.sendWindowUpdate32"
	isConnRefund := func(in ssa.Instruction) bool {
		ci, ok := in.(ssa.CallInstruction)
		return ok && core.CallIs(ci.Common(), swu) && len(ci.Common().Args) == 3 && spdyIsNil(ci.Common().Args[1])
	}
	if f := fn("serverConn.noteBodyRead"); f != nil && len(f.Params) == 3 {
		st, n := f.Params[1], f.Params[2]
		var conn, stream []ssa.CallInstruction
		for _, call := range core.Calls(f, swu) {
			if isConnRefund(call.(ssa.Instruction)) {
				conn = append(conn, call)
			} else {
				stream = append(stream, call)
			}
		}
		okConn := len(conn) > 0 && core.MustPass(f, nil, isConnRefund) == nil
		for _, call := range conn {
			if strip(call.Common().Args[2]) != ssa.Value(n) {
				okConn = false
			}
		}
		c.Check("refund", "noteBodyRead:conn", f.Pos(), okConn, "noteBodyRead does not refund the connection-level window with exactly the n bytes the handler consumed on every path: the session window shrinks with every body read until uploads stall")
		okStream := len(stream) > 0
		for _, call := range stream {
			a := call.Common().Args
			dominated := false
			for _, cc := range conn {
				if core.Dominates(cc.(ssa.Instruction), call.(ssa.Instruction)) {
					dominated = true
				}
			}
			if a[1] != ssa.Value(st) || strip(a[2]) != ssa.Value(n) || !dominated {
				okStream = false
			}
		}
		c.Check("refund", "noteBodyRead:stream", f.Pos(), okStream, "the stream-level refund must exist, name the stream whose body was read, carry the same n as the connection-level refund and come after it")
	}
	if f := fn("serverConn.sendWindowUpdate"); f != nil && len(f.Params) == 3 {
		st := f.Params[1]
		i := 0
		for _, call := range core.Calls(f, swu32) {
			i++
			a := call.Common().Args
			ok := a[1] == ssa.Value(st)
			blk := call.(ssa.Instruction).Block()
			if k, isK := spdyConstInt(a[2]); isK {
				ok = ok && k > 0 && k <= 1<<31-1 && spdyHasGuard(blk, func(g core.Guard) bool {
					cmp, isCmp := spdyNorm(g.Cond, g.Pol, func(x ssa.Value) bool { _, p := x.(*ssa.Phi); return p || x == ssa.Value(f.Params[2]) })
					lo, isLo := spdyConstInt(cmp.Other)
					return isCmp && isLo && ((cmp.Op == token.GEQ && lo >= k) || (cmp.Op == token.GTR && lo+1 >= k))
				})
			} else {
				src := strip(a[2])
				ok = ok && spdyHasGuard(blk, func(g core.Guard) bool {
					cmp, isCmp := spdyNorm(g.Cond, g.Pol, func(x ssa.Value) bool { return x == src })
					hi, isHi := spdyConstInt(cmp.Other)
					return isCmp && isHi && ((cmp.Op == token.LSS && hi <= 1<<31-1) || (cmp.Op == token.LEQ && hi <= 1<<31-2))
				})
			}
			c.Check("refund", fmt.Sprintf("sendWindowUpdate:update#%d", i), call.Pos(), ok,
				"sendWindowUpdate must pass its stream on unchanged and emit increments that provably fit 1..2^31-1 (a constant chunk under n >= chunk, or int32(n) under n < 2^31-1); got "+core.Render(a[2]))
		}
	}
	if f := fn("serverConn.sendWindowUpdate32"); f != nil && len(f.Params) == 3 {
		st, n := f.Params[1], f.Params[2]
		delta := fieldVar("WindowUpdateFrame.DeltaWindowSize")
		okDelta := false
		for _, in := range allInstrs(f) {
			if s, ok := spdyFieldStore(in, delta); ok {
				okDelta = strip(s.Val) == ssa.Value(n)
			}
		}
		c.Check("announce-account", "sendWindowUpdate32:delta", f.Pos(), okDelta, "the DeltaWindowSize placed in the WINDOW_UPDATE frame is not the parameter n that is added to the local window")
		var wf ssa.Instruction
		for _, call := range core.Calls(f, spdyPkg+".serverConn.writeFrame") {
			wf = call.(ssa.Instruction)
		}
		i := 0
		for _, call := range core.Calls(f, flowAdd) {
			i++
			a := call.Common().Args
			recv := core.Render(a[0])
			blk := call.(ssa.Instruction).Block()
			level := func(want token.Token) bool {
				return spdyHasGuard(blk, func(g core.Guard) bool {
					cmp, ok := spdyNorm(g.Cond, g.Pol, func(x ssa.Value) bool { return x == ssa.Value(st) })
					return ok && cmp.Op == want && spdyIsNil(cmp.Other)
				})
			}
			ok := a[1] == ssa.Value(n) && wf != nil && core.Dominates(wf, call.(ssa.Instruction))
			owner := ""
			if fa, isFA := a[0].(*ssa.FieldAddr); isFA && strings.HasSuffix(recv, ".inflow") {
				owner = core.TypeStr(fa.X.Type())
			}
			switch owner {
			case "*" + spdyPkg + ".serverConn":
				ok = ok && level(token.EQL)
			case "*" + spdyPkg + ".stream":
				ok = ok && level(token.NEQ) && fa0(a[0]) == ssa.Value(st)
			default:
				ok = false
			}
			c.Check("announce-account", fmt.Sprintf("sendWindowUpdate32:add#%d", i), call.Pos(), ok,
				"the window that grows ("+recv+" by "+core.Render(a[1])+") must be the inbound window of the level the frame names (st == nil <=> sc.inflow), grow by exactly the announced n, and only after the frame was queued")
		}
		c.Check("announce-account", "sendWindowUpdate32:levels", f.Pos(), i == 2, fmt.Sprintf("expected one add per level (connection, stream), found %d", i))
	}
	if f := fn("RequestBody.Read"); f != nil {
		ok := false
		for _, call := range core.Calls(f, spdyPkg+".serverConn.noteBodyReadFromHandler") {
			ex, isEx := strip(call.Common().Args[2]).(*ssa.Extract)
			if isEx && ex.Index == 0 {
				if cl, isCall := ex.Tuple.(*ssa.Call); isCall && core.CallIs(&cl.Call, "bfe_util/pipe.Pipe.Read") {
					ok = true
				}
			}
		}
		c.Check("refund", "RequestBody.Read", f.Pos(), ok, "RequestBody.Read must report exactly the byte count returned by pipe.Read to noteBodyReadFromHandler")
	}
	if f := fn("serverConn.noteBodyReadFromHandler"); f != nil && len(f.Params) == 3 {
		nf := fieldVar("bodyReadMsg.n")
		sf := fieldVar("bodyReadMsg.st")
		okN, okS := false, false
		for _, in := range allInstrs(f) {
			if s, ok := spdyFieldStore(in, nf); ok {
				okN = s.Val == ssa.Value(f.Params[2])
			}
			if s, ok := spdyFieldStore(in, sf); ok {
				okS = s.Val == ssa.Value(f.Params[1])
			}
		}
		c.Check("refund", "noteBodyReadFromHandler", f.Pos(), okN && okS, "the message sent to the serve loop must carry the stream and byte count it was called with")
	}
	if f := fn("serverConn.serve"); f != nil {
		ok := false
		for _, call := range core.Calls(f, spdyPkg+".serverConn.noteBodyRead") {
			a := call.Common().Args
			ok = strings.HasSuffix(core.Render(a[1]), ".st") && strings.HasSuffix(core.Render(a[2]), ".n") &&
				strings.TrimSuffix(core.Render(a[1]), ".st") == strings.TrimSuffix(core.Render(a[2]), ".n")
		}
		c.Check("refund", "serve:dispatch", f.Pos(), ok, "the serve loop must hand the st and n of one received bodyReadMsg to noteBodyRead")
	}
	pd := fn("serverConn.processData")
	if pd != nil {
		// the take, the body write and the refund may sit in a private helper of
		// processData (its region); they are related inside the function that holds them
		takes := c.P.RegionCalls(pd, flowTake)
		writes := c.P.RegionCalls(pd, "bfe_util/pipe.Pipe.Write")
		var write *ssa.Call
		if len(writes) == 1 {
			write, _ = writes[0].(*ssa.Call)
		}
		if len(takes) == 1 && write != nil && takes[0].Parent() == write.Parent() {
			take := takes[0].(ssa.Instruction)
			pd := take.Parent() // processData or the helper that holds the block
			x, isLen := spdyLenArg(takes[0].Common().Args[1])
			c.Check("refund", "processData:take-equals-written", take.Pos(), isLen && core.Render(x) == core.Render(write.Call.Args[1]) && core.Dominates(take, write),
				"the amount taken from the window ("+core.Render(takes[0].Common().Args[1])+") must be the length of the slice handed to the body pipe ("+core.Render(write.Call.Args[1])+")")
			var werr ssa.Value
			for _, r := range *write.Referrers() {
				if ex, ok := r.(*ssa.Extract); ok && ex.Index == 1 {
					werr = ex
				}
			}
			n := 0
			for _, r := range core.Returns(pd) {
				failed := werr != nil && spdyHasGuard(r.Block(), func(g core.Guard) bool {
					cmp, ok := spdyNorm(g.Cond, g.Pol, func(v ssa.Value) bool { return v == werr })
					return ok && cmp.Op == token.NEQ && spdyIsNil(cmp.Other)
				})
				if !failed {
					continue
				}
				n++
				bad := core.ReachAvoiding(pd, take, core.LiftMust(isConnRefund, 2), func(in ssa.Instruction) bool { return in == ssa.Instruction(r) })
				c.Check("refund", fmt.Sprintf("processData:write-error#%d", n), r.Pos(), bad == nil,
					"after st.inflow.take(len(data)) the body pipe rejected the bytes (handler closed the request body) and processData returns without sendWindowUpdate(nil, len(data)): the stream dies but the connection-level window has lost these bytes for good")
			}
			if n == 0 {
				c.Check("refund", "processData:write-error#1", pd.Pos(), false, "no return handling a failed body write was found")
			}
		} else {
			c.Check("refund", "processData:take-equals-written", pd.Pos(), false, fmt.Sprintf("expected one flow.take and one pipe.Write in one function of processData's region (processData and its private helpers), found %d and %d", len(takes), len(writes)))
		}
	}
	c.Min("refund", 9)
	c.Min("announce-account", 4)

	// ---- stream-id ---------------------------------------------------------------
	if f := fn("serverConn.processSynStream"); f != nil {
		var mu *ssa.MapUpdate
		for _, in := range allInstrs(f) {
			if m, ok := in.(*ssa.MapUpdate); ok && strings.HasSuffix(core.Render(m.Map), ".streams") {
				mu = m
			}
		}
		if mu == nil {
			c.Check("stream-id", "processSynStream:create", f.Pos(), false, "no store into sc.streams found")
		} else {
			id := rs(mu.Key)
			type facts struct{ parity, ge, ne, gt, notGoAway bool }
			// atomic facts about the id; a branch condition counts when it implies
			// the fact (spdyImplied: named booleans, `ok := odd && above` ...); the
			// branch itself is remembered: it names the block taken on violation
			notGoAway := func(g core.Guard) bool {
				v, truth := spdyBoolCond(g.Cond, g.Pol)
				return !truth && strings.HasSuffix(core.Render(v), ".inGoAway")
			}
			isParity := func(g core.Guard) bool {
				cmp, ok := spdyNorm(g.Cond, g.Pol, func(x ssa.Value) bool {
					b, ok := x.(*ssa.BinOp)
					if !ok || b.Op != token.REM || rs(b.X) != id {
						return false
					}
					k, isK := spdyConstInt(b.Y)
					return isK && k == 2
				})
				if !ok {
					return false
				}
				k, isK := spdyConstInt(cmp.Other)
				return isK && ((cmp.Op == token.EQL && k == 1) || (cmp.Op == token.NEQ && k == 0))
			}
			cmpMax := func(op token.Token) func(core.Guard) bool {
				return func(g core.Guard) bool {
					cmp, ok := spdyNorm(g.Cond, g.Pol, func(x ssa.Value) bool { return core.Render(x) == id })
					return ok && cmp.Op == op && strings.HasSuffix(rs(cmp.Other), ".maxStreamID")
				}
			}
			gather := func(b *ssa.BasicBlock) (ft facts, gs map[string]core.Guard) {
				gs = map[string]core.Guard{}
				for _, g := range core.GuardsAt(b) {
					if spdyImplied(g, notGoAway, false) {
						ft.notGoAway = true
					}
					if spdyImplied(g, isParity, false) {
						ft.parity = true
						gs["parity"] = g
					}
					if spdyImplied(g, cmpMax(token.GEQ), false) {
						ft.ge = true
						gs["not-lower"] = g
					}
					if spdyImplied(g, cmpMax(token.NEQ), false) {
						ft.ne = true
						gs["not-equal"] = g
					}
					if spdyImplied(g, cmpMax(token.GTR), false) {
						ft.gt = true
					}
				}
				return
			}
			ft, gs := gather(mu.Block())
			c.Check("stream-id", "processSynStream:parity", mu.Pos(), ft.parity, "a stream is registered without id%2 == 1 having been established: client-initiated streams must have odd ids")
			c.Check("stream-id", "processSynStream:monotonic", mu.Pos(), ft.gt || (ft.ge && ft.ne), "a stream is registered without id > sc.maxStreamID having been established (ids must strictly increase; a repeated or lower id must be refused)")
			c.Check("stream-id", "processSynStream:goaway", mu.Pos(), ft.notGoAway, "a stream is registered although the connection is in GOAWAY")
			var names []string
			for k := range gs {
				names = append(names, k)
			}
			sort.Strings(names)
			for _, k := range names {
				c.Check("stream-id", "processSynStream:reject-"+k, mu.Pos(), endsInError(violated(gs[k])), "the branch taken when the stream-id test `"+k+"` fails does not return an error")
			}
			// maxStreamID writers
			if mf := fieldVar("serverConn.maxStreamID"); mf != nil {
				i := 0
				for _, st := range core.FieldStores(fns, mf) {
					i++
					ok := st.Fn == f && rs(st.Store.Val) == id
					if ok {
						sf, _ := gather(st.Store.Block())
						ok = sf.parity && (sf.gt || sf.ge)
					}
					c.Check("stream-id", fmt.Sprintf("maxStreamID-writer#%d", i), st.Store.Pos(), ok, "sc.maxStreamID is written in "+spdyShort(st.Fn)+" with "+core.Render(st.Store.Val)+"; it may only be raised to an accepted odd id in processSynStream")
				}
				c.Check("stream-id", "maxStreamID-raised", mu.Pos(), i > 0, "sc.maxStreamID is never updated: the monotonicity test compares against a constant")
				// id-consumed (x_s_spdy2.go): the id is recorded on every path that
				// leaves the function with the id tests passed
				accepted := func(b *ssa.BasicBlock) bool {
					sf, _ := gather(b)
					return sf.parity && (sf.gt || (sf.ge && sf.ne))
				}
				isMaxStore := func(in ssa.Instruction) bool {
					st, ok := spdyFieldStore(in, mf)
					return ok && rs(st.Val) == id
				}
				infeasible := func(from *ssa.BasicBlock, succ int) bool {
					ifi, ok := from.Instrs[len(from.Instrs)-1].(*ssa.If)
					if !ok || len(from.Succs) != 2 || from.Succs[0] == from.Succs[1] || !accepted(from) {
						return false
					}
					cmp, ok := spdyNorm(ifi.Cond, succ == 0, func(x ssa.Value) bool { return core.Render(x) == id })
					if !ok || !strings.HasSuffix(rs(cmp.Other), ".maxStreamID") {
						return false
					}
					return cmp.Op == token.LEQ || cmp.Op == token.LSS || cmp.Op == token.EQL
				}
				c40IDConsumed(c, f, accepted, isMaxStore, infeasible)
			}
			// handler start under the concurrency limit
			started := false
			for _, in := range allInstrs(f) {
				g, ok := in.(*ssa.Go)
				if !ok {
					continue
				}
				started = true
				okLim := spdyHasGuard(g.Block(), func(gd core.Guard) bool {
					cmp, ok := spdyNorm(gd.Cond, gd.Pol, func(x ssa.Value) bool { return strings.HasSuffix(core.Render(x), ".curOpenStreams") })
					return ok && upper(cmp.Op) && strings.HasSuffix(rs(cmp.Other), ".advMaxStreams")
				})
				c.Check("stream-id", "processSynStream:max-streams", g.Pos(), okLim && core.Dominates(mu, g), "the handler goroutine is started without curOpenStreams <= advMaxStreams having been established after the stream was counted")
			}
			if !started {
				c.Check("stream-id", "processSynStream:max-streams", f.Pos(), false, "no handler goroutine is started")
			}
			// body-invariant
			bodyF := fieldVar("stream.body")
			n := 0
			for _, r := range core.Returns(f) {
				if !spdySuccessReturn(r) || !spdyReaches(f, mu, r) {
					continue
				}
				n++
				// the store that counts puts the request's own pipe into st.body
				pipeF, _ := c.P.Obj(spdyPkg, "RequestBody.pipe").(*types.Var)
				bad := core.ReachAvoiding(f, mu, func(in ssa.Instruction) bool {
					s, ok := spdyFieldStore(in, bodyF)
					return ok && spdyFieldLoad(strip(s.Val), pipeF)
				}, func(in ssa.Instruction) bool { return in == ssa.Instruction(r) })
				c.Check("body-invariant", fmt.Sprintf("processSynStream:return#%d", n), r.Pos(), bad == nil, "a stream stays registered (success return) without st.body having been set from the pipe of the request body (a load of RequestBody.pipe): the first DATA frame on it hits `panic(\"internal error: should have a body in this state\")`")
			}
		}
	}
	if f := fn("serverConn.newWriterAndRequest"); f != nil {
		pf := fieldVar("RequestBody.pipe")
		n := 0
		for _, in := range allInstrs(f) {
			s, ok := spdyFieldStore(in, pf)
			if !ok {
				continue
			}
			n++
			open, okK := constVal("stateOpen")
			guarded := okK && spdyHasGuard(s.Block(), func(g core.Guard) bool {
				cmp, isCmp := spdyNorm(g.Cond, g.Pol, func(x ssa.Value) bool { return strings.HasSuffix(core.Render(x), ".state") })
				if !isCmp || cmp.Op != token.EQL {
					return false
				}
				k, isK := spdyConstInt(cmp.Other)
				return isK && k == open
			})
			c.Check("body-invariant", fmt.Sprintf("newWriterAndRequest:pipe#%d", n), s.Pos(), guarded && !spdyIsNil(s.Val), "the request body pipe must be created exactly when the stream is in state open")
		}
		// converse (x_spdymods3.go): an open stream gets a pipe on every success path
		if open, okK := constVal("stateOpen"); okK && pf != nil {
			c40OpenHasPipe(c, f, pf, open)
			if sf := fieldVar("stream.state"); sf != nil {
				c40OpenStateFixedBeforeRequest(c, fns, sf, open)
			}
		}
	}
	c.Min("body-invariant", 4)
	if f := fn("serverConn.processResetStream"); f != nil {
		idle, okK := constVal("stateIdle")
		found := false
		for _, r := range core.Returns(f) {
			if spdyHasGuard(r.Block(), func(g core.Guard) bool {
				cmp, ok := spdyNorm(g.Cond, g.Pol, func(x ssa.Value) bool { _, e := x.(*ssa.Extract); return e })
				k, isK := spdyConstInt(cmp.Other)
				return ok && cmp.Op == token.EQL && isK && okK && k == idle
			}) {
				found = true
				c.Check("stream-id", "processResetStream:idle", r.Pos(), spdyErrorReturn(r), "RST_STREAM for an idle stream must be a connection error")
			}
		}
		if !found {
			c.Check("stream-id", "processResetStream:idle", f.Pos(), false, "no branch for RST_STREAM on an idle stream")
		}
	}
	c.Min("stream-id", 12)

	// ---- data-state ------------------------------------------------------------
	if pd != nil {
		open, okK := constVal("stateOpen")
		// the sites may sit in a private helper of processData: the conditions
		// established at the helper's single call site hold inside it (GuardsAtCtx)
		sites := append(c.P.RegionCalls(pd, flowTake), c.P.RegionCalls(pd, "bfe_util/pipe.Pipe.Write")...)
		okLookup, okOpen := len(sites) > 0, len(sites) > 0 && okK
		var gl, gopen *core.Guard
		found := func(g core.Guard) bool {
			v, truth := spdyBoolCond(g.Cond, g.Pol)
			if !truth {
				return false
			}
			ex, ok := v.(*ssa.Extract)
			if !ok || ex.Index != 1 {
				return false
			}
			lk, ok := ex.Tuple.(*ssa.Lookup)
			return ok && strings.HasSuffix(core.Render(lk.X), ".streams")
		}
		isOpen := func(g core.Guard) bool {
			cmp, ok := spdyNorm(g.Cond, g.Pol, func(x ssa.Value) bool { return strings.HasSuffix(core.Render(x), ".state") })
			if !ok || cmp.Op != token.EQL {
				return false
			}
			k, isK := spdyConstInt(cmp.Other)
			return isK && k == open
		}
		for _, s := range sites {
			b := s.(ssa.Instruction).Block()
			l, o := false, false
			for _, g := range c.P.GuardsAtCtx(b) {
				gg := g
				if spdyImplied(g, found, false) {
					l, gl = true, &gg
				}
				if spdyImplied(g, isOpen, false) {
					o, gopen = true, &gg
				}
			}
			okLookup = okLookup && l
			okOpen = okOpen && o
		}
		c.Check("data-state", "processData:lookup", pd.Pos(), okLookup, "DATA is accounted/written without the stream having been found in sc.streams (comma-ok lookup true)")
		c.Check("data-state", "processData:open", pd.Pos(), okOpen, "DATA is accounted/written without st.state == stateOpen having been established: frames for half-closed (remote) or closed streams must be refused")
		c.Check("data-state", "processData:reject-unknown", pd.Pos(), gl != nil && endsInError(violated(*gl)), "DATA for an unknown stream id must return an error (StreamError INVALID_STREAM)")
		c.Check("data-state", "processData:reject-not-open", pd.Pos(), gopen != nil && endsInError(violated(*gopen)), "DATA for a stream that is not open must return an error (StreamError STREAM_ALREADY_CLOSED)")
	}
	c.Min("data-state", 4)

	// ---- window-size-range --------------------------------------------------------
	if f := fn("serverConn.processSettingInitialWindowSize"); f != nil && len(f.Params) == 2 {
		val := f.Params[1]
		n := 0
		for _, in := range allInstrs(f) {
			cv, ok := in.(*ssa.Convert)
			if !ok || cv.X != ssa.Value(val) {
				continue
			}
			if b, isBasic := cv.Type().Underlying().(*types.Basic); !isBasic || b.Kind() != types.Int32 {
				continue
			}
			n++
			ok = spdyEdgeGuarded(cv.Block(), func(g core.Guard) bool {
				cmp, ok := spdyNorm(g.Cond, g.Pol, func(x ssa.Value) bool { return x == ssa.Value(val) })
				k, isK := spdyConstInt(cmp.Other)
				return ok && isK && ((cmp.Op == token.LEQ && k <= 1<<31-1) || (cmp.Op == token.LSS && k <= 1<<31))
			})
			c.Check("window-size-range", fmt.Sprintf("processSettingInitialWindowSize:int32#%d", n), cv.Pos(), ok,
				"the 32-bit SETTINGS_INITIAL_WINDOW_SIZE is converted to int32 without val <= 2^31-1 having been established (the comment refers to a Valid() call that does not exist): values >= 2^31 become negative and `growth := new - old` wraps, so stream send windows can jump to ~2^31")
		}
		if n == 0 {
			c.Check("window-size-range", "processSettingInitialWindowSize:int32#1", f.Pos(), false, "no conversion of the setting value to int32 found")
		}
	}
	if f := fn("WindowUpdateFrame.read"); f != nil {
		df := fieldVar("WindowUpdateFrame.DeltaWindowSize")
		var mask ssa.Instruction
		for _, in := range allInstrs(f) {
			if s, ok := spdyFieldStore(in, df); ok {
				if b, isB := strip(s.Val).(*ssa.BinOp); isB && b.Op == token.AND {
					for _, o := range []ssa.Value{b.X, b.Y} {
						if k, isK := spdyConstInt(o); isK && k == 1<<31-1 {
							mask = in
						}
					}
				}
			}
		}
		ok := mask != nil
		for _, r := range core.Returns(f) {
			if spdySuccessReturn(r) && (mask == nil || !core.Dominates(mask, r)) {
				ok = false
			}
		}
		c.Check("window-size-range", "WindowUpdateFrame.read:delta-mask", f.Pos(), ok, "the WINDOW_UPDATE delta is not masked to 31 bits on every accepted frame; processWindowUpdate converts it to int32, so the reserved bit would turn the increment negative")
	}
	c.Min("window-size-range", 2)

	// ---- affinity ------------------------------------------------------------------
	g := c40BuildGraph(c)
	serve := c.P.Func(spdyPkg, "serverConn.serve")
	if serve == nil {
		c.Missing(spdyPkg + ".serverConn.serve")
	} else {
		asserts := func(f *ssa.Function, m string) bool {
			for _, call := range core.Calls(f, "github.com/baidu/go-lib/gotrack.GoroutineLock."+m) {
				if strings.HasSuffix(core.Render(call.Common().Args[0]), ".serveG") {
					return true
				}
			}
			return false
		}
		var other []*ssa.Function
		why := map[*ssa.Function]string{}
		for _, f := range g.fns {
			if w, ok := g.spawned[f]; ok {
				other = append(other, f)
				why[f] = w
				continue
			}
			if f.Parent() != nil || f == serve {
				continue
			}
			if o := f.Object(); o != nil && o.Exported() {
				other = append(other, f)
				why[f] = "exported entry point " + spdyShort(f)
			}
		}
		fromOther := g.reach(other, serve)
		fromServe := g.reach([]*ssa.Function{serve}, nil)
		nS, nN := 0, 0
		for _, f := range g.fns {
			if asserts(f, "Check") {
				nS++
				root, reached := fromOther[f]
				c.Check("affinity", "serve-only:"+spdyShort(f), f.Pos(), !reached,
					spdyShort(f)+" asserts it runs on the serve goroutine (serveG.Check) but is reachable from "+why[root]+" without passing through serverConn.serve: serve-loop state (windows, stream table, scheduler) would be touched from another goroutine")
			}
			if asserts(f, "CheckNotOn") {
				nN++
				_, reached := fromServe[f]
				c.Check("affinity", "not-serve:"+spdyShort(f), f.Pos(), !reached,
					spdyShort(f)+" asserts it does NOT run on the serve goroutine (it blocks on channels the serve loop drains) but is reachable from serverConn.serve: the serve loop would dead-lock on itself")
			}
		}
		c.Note("affinity: %d package functions, %d non-serve roots, %d serve-only, %d not-serve functions", len(g.fns), len(other), nS, nN)
		c.Min("affinity", 30)

		// ---- panic-census (serve side) -----------------------------------------
		// counted per region: the panics of a private helper belong to the
		// reviewed function it was extracted from
		var reviewed []string
		for name := range c40Reviewed {
			reviewed = append(reviewed, name)
		}
		sort.Strings(reviewed)
		censusOwner := spdyRegionSet(c.P, reviewed...)
		type tally struct{ p, a int }
		tallies := map[string]*tally{}
		first := map[string]*ssa.Function{}
		var order []string
		for _, f := range g.fns {
			if _, ok := fromServe[f]; !ok {
				continue
			}
			p, a := 0, 0
			core.Instrs(f, func(in ssa.Instruction) {
				switch x := in.(type) {
				case *ssa.Panic:
					if mi, ok := x.X.(*ssa.MakeInterface); ok {
						if s, isS := core.ConstString(mi.X); isS && strings.HasPrefix(s, "blocking select matched no case") {
							return
						}
					}
					p++
				case *ssa.TypeAssert:
					// x.(T) with T the static type of x is the nil check go/ssa
					// inserts for a method value (sc.handler.ServeHTTP)
					if !x.CommaOk && !types.Identical(x.X.Type(), x.AssertedType) {
						a++
					}
				}
			})
			if p == 0 && a == 0 {
				continue
			}
			name := spdyOwner(censusOwner, f)
			if tallies[name] == nil {
				tallies[name] = &tally{}
				order = append(order, name)
			}
			tallies[name].p += p
			tallies[name].a += a
			if first[name] == nil || spdyShort(f) == name {
				first[name] = f
			}
		}
		for _, name := range order {
			t, rv := tallies[name], c40Reviewed[name]
			c.Check("panic-census", name, first[name].Pos(), t.p <= rv.panics && t.a <= rv.asserts,
				fmt.Sprintf("%s (with its private helpers) is reachable from the serve loop and contains %d explicit panic(s) and %d unchecked type assertion(s); reviewed: %d and %d (%s). A new panic site on the frame path lets a client frame sequence kill the connection's serve goroutine", name, t.p, t.a, rv.panics, rv.asserts, rv.why))
		}
		c.Min("panic-census", 12)
	}

	// ---- single-writer ----------------------------------------------------------------
	for _, f := range fns {
		for _, call := range core.Calls(f, spdyPkg+".Framer.WriteFrame") {
			s := spdyShort(f)
			c.Check("single-writer", "WriteFrame@"+s, call.Pos(), owner(f) == "serverConn.writeFrames" || owner(f) == "serverConn.rejectConn",
				"Framer.WriteFrame is called from "+s+"; frames may only be written by the writeFrames goroutine (and by rejectConn before the serve loop exists): a second writer interleaves bytes of two frames on the connection")
		}
		for _, in := range allInstrs(f) {
			switch x := in.(type) {
			case *ssa.Go:
				if core.CallIs(x.Common(), spdyPkg+".serverConn.writeFrames") {
					c.Check("single-writer", "go-writeFrames@"+spdyShort(f), x.Pos(), owner(f) == "serverConn.serve" && !spdyInLoop(x.Block()), "the frame-writing goroutine must be started exactly once, by serve")
				}
			case *ssa.Send:
				if strings.HasSuffix(core.Render(x.Chan), ".sendChan") {
					okFlag := spdyHasGuardCtx(c.P, x.Block(), func(gd core.Guard) bool {
						v, truth := spdyBoolCond(gd.Cond, gd.Pol)
						return !truth && strings.HasSuffix(core.Render(v), ".writingFrame")
					})
					set := false
					for _, y := range allInstrs(f) {
						if st, ok := y.(*ssa.Store); ok && strings.HasSuffix(core.Render(st.Addr), ".writingFrame") && core.Render(st.Val) == "true" && core.Dominates(y, x) {
							set = true
						}
					}
					c.Check("single-writer", "send@"+spdyShort(f), x.Pos(), owner(f) == "serverConn.startFrameWrite" && okFlag && set,
						"a frame is handed to the writer goroutine outside startFrameWrite, or without `writingFrame` having been tested false and then set: two frames could be in flight and the one-slot channel would block the serve loop")
				}
			case *ssa.Store:
				if strings.HasSuffix(core.Render(x.Addr), ".writingFrame") {
					v, s := core.Render(x.Val), spdyShort(f)
					c.Check("single-writer", "flag-"+v+"@"+s, x.Pos(), (v == "true" && owner(f) == "serverConn.startFrameWrite") || (v == "false" && owner(f) == "serverConn.wroteFrame"),
						"sc.writingFrame is set to "+v+" in "+s+"; reviewed: true in startFrameWrite, false in wroteFrame")
				}
			}
		}
	}
	c.Min("single-writer", 6)

	// ---- queue-mutators ----------------------------------------------------------------
	if qs := fieldVar("writeQueue.s"); qs != nil {
		for _, st := range core.FieldStores(fns, qs) {
			s := owner(st.Fn)
			ok := s == "writeQueue.push" || s == "writeQueue.shift" || s == "writeScheduler.forgetStream"
			if s == "writeQueue.push" {
				cl, isCall := st.Store.Val.(*ssa.Call)
				ok = isCall && core.CalleeKey(&cl.Call) == "builtin:append" && strings.HasSuffix(core.Render(cl.Call.Args[0]), ".s")
			}
			c.Check("queue-mutators", s, st.Store.Pos(), ok, "writeQueue.s is modified in "+s+" with "+core.Render(st.Store.Val)+"; reviewed mutators: push (append at tail), shift (remove head), forgetStream (clear): frames of one stream must leave in the order they were queued")
		}
		c.Min("queue-mutators", 3)
	}
}
