package rules

// Round-3 rules of the HTTP/2 properties C33, C35 and C38. Each of them is an
// invariant of a mechanism stated over all sites of its kind:
//
//	C33 refund-once      an octet count refunded when a body pipe is discarded
//	                     must not be refundable again through a later read
//	C35 inv-sched-quota  a signed value derived from a send window that is used
//	                     as a slice bound is known to be non-negative, locally
//	                     or through a filter every caller applies
//	C38 trailer-set      membership test and insertion of the declared-trailer
//	                     set use one and the same canonical key
//	C38 chunk-order      body bytes reach writeChunk in write order: a call that
//	                     bypasses the response buffer needs the buffer empty
//
// Everything works on resolved SSA values; nothing matches source text.

import (
	"fmt"
	"go/token"
	"go/types"

	"golang.org/x/tools/go/ssa"

	"verif/internal/core"
)

const h23PipePkg = "bfe_util/pipe"

// h23PipeMethod: cc is a static call of a method of *pipe.Pipe; returns the
// method name and the receiver value.
func h23PipeMethod(cc *ssa.CallCommon) (string, ssa.Value) {
	sc := cc.StaticCallee()
	if sc == nil || sc.Signature.Recv() == nil || len(cc.Args) == 0 {
		return "", nil
	}
	if core.TypeStr(sc.Signature.Recv().Type()) != "*"+h23PipePkg+".Pipe" {
		return "", nil
	}
	return sc.Name(), cc.Args[0]
}

// h23PipeOf: the value v is computed from what a *pipe.Pipe reports about its
// own state (its buffered length, ...): the result of a method that moves no
// data (no slice parameter, unlike Read/Write); returns that pipe.
func h23PipeOf(v ssa.Value) ssa.Value {
	seen := map[ssa.Value]bool{}
	var walk func(v ssa.Value, d int) ssa.Value
	walk = func(v ssa.Value, d int) ssa.Value {
		if v == nil || d > 6 || seen[v] {
			return nil
		}
		seen[v] = true
		if call, ok := v.(*ssa.Call); ok {
			if name, recv := h23PipeMethod(&call.Call); name != "" {
				moves := false
				for _, a := range call.Call.Args[1:] {
					if _, isSlice := a.Type().Underlying().(*types.Slice); isSlice {
						moves = true
					}
				}
				if !moves {
					return recv
				}
				return nil
			}
		}
		in, ok := v.(ssa.Instruction)
		if !ok {
			return nil
		}
		if _, isPhi := v.(*ssa.Phi); isPhi && d > 3 {
			return nil
		}
		for _, op := range in.Operands(nil) {
			if *op == nil {
				continue
			}
			if p := walk(*op, d+1); p != nil {
				return p
			}
		}
		return nil
	}
	return walk(v, 0)
}

// c33RefundOnce: octets that were debited from the connection window come back
// exactly once. They normally come back when the handler reads them
// (noteBodyRead, unconditional at connection level, rule body-read-refund).
// A refund whose amount is taken from a body pipe (what is still buffered in
// it) anticipates those reads, so after it the buffered octets must have
// become unreadable: on every path the same pipe is released (buffer dropped)
// or broken (reads fail immediately). Closing it with CloseWithError is not
// enough: the reader still drains the buffer and every such read is refunded
// a second time.
func c33RefundOnce(c *core.Ctx) {
	ord := h2aOrd{}
	for _, fn := range c.P.SrcFuncs(h2aPkg) {
		fn := fn
		core.Instrs(fn, func(in ssa.Instruction) {
			r, ok := h2aRefundOf(in)
			if !ok {
				return
			}
			p := h23PipeOf(r.amount)
			if p == nil {
				return
			}
			disables := func(x ssa.Instruction) bool {
				ci, ok := x.(ssa.CallInstruction)
				if !ok {
					return false
				}
				if _, isGo := x.(*ssa.Go); isGo {
					return false
				}
				name, recv := h23PipeMethod(ci.Common())
				return (name == "Release" || name == "BreakWithError") && h2aSame(recv, p)
			}
			done := false
			core.Instrs(fn, func(x ssa.Instruction) {
				if disables(x) && core.Dominates(x, in) {
					done = true
				}
			})
			if !done {
				done = core.MustPass(fn, in, disables) == nil
			}
			level := "connection"
			if !r.conn {
				level = "stream"
			}
			c.Check("refund-once", ord.key(h2aShort(fn)+":buffered-refund"), in.Pos(), done,
				h2aShort(fn)+" refunds at "+level+" level the octets still buffered in "+core.Render(p)+" ("+core.Render(r.amount)+") but does not make them unreadable on every path (no Pipe.Release / Pipe.BreakWithError of the same pipe; CloseWithError lets the reader drain the buffer): each later RequestBody.Read of these octets is reported to noteBodyRead, which refunds them to the connection window a second time, so the window is re-opened by more octets than were received and the client may exceed the advertised connection window")
		})
	}
	// what "unreadable" rests on
	bF, _ := c.P.Obj(h23PipePkg, "Pipe.b").(*types.Var)
	brF, _ := c.P.Obj(h23PipePkg, "Pipe.breakErr").(*types.Var)
	rel, brk, rd := c.P.Func(h23PipePkg, "Pipe.Release"), c.P.Func(h23PipePkg, "Pipe.BreakWithError"), c.P.Func(h23PipePkg, "Pipe.Read")
	if bF == nil || brF == nil || rel == nil || brk == nil || rd == nil || rel.Blocks == nil || brk.Blocks == nil || rd.Blocks == nil {
		c.Missing(h23PipePkg + ".Pipe.{b,breakErr,Release,BreakWithError,Read}")
		return
	}
	c.Analysed(core.FuncKey(rel), core.FuncKey(brk), core.FuncKey(rd))
	clears := func(x ssa.Instruction) bool {
		st, ok := x.(*ssa.Store)
		if !ok || !h2aIsNil(st.Val) {
			return false
		}
		b, ok := h2aFieldAddrOf(st.Addr, bF)
		return ok && b == ssa.Value(rel.Params[0])
	}
	c.Check("pipe-disable", "Pipe.Release:drops-buffer", rel.Pos(), core.MustPass(rel, nil, clears) == nil,
		"Pipe.Release can return without p.b = nil: a released pipe would still hand out (recycled) buffer contents to its reader")
	okBrk := false
	core.Instrs(brk, func(x ssa.Instruction) {
		ci, ok := x.(ssa.CallInstruction)
		if !ok || !core.CallIs(ci.Common(), h23PipePkg+".Pipe.closeWithError") || len(ci.Common().Args) < 2 {
			return
		}
		if b, ok := h2aFieldAddrOf(ci.Common().Args[1], brF); ok && b == ssa.Value(brk.Params[0]) && ci.Common().Args[0] == ssa.Value(brk.Params[0]) {
			okBrk = true
		}
	})
	c.Check("pipe-disable", "Pipe.BreakWithError:sets-break-error", brk.Pos(), okBrk, "Pipe.BreakWithError no longer records its error in p.breakErr (the error that makes Read fail before looking at the buffer)")
	nRead := 0
	recv := ssa.Value(rd.Params[0])
	isLoad := func(f *types.Var) func(ssa.Value) bool {
		return func(v ssa.Value) bool { b, ok := h2aFieldLoad(v, f); return ok && b == recv }
	}
	core.Instrs(rd, func(x ssa.Instruction) {
		call, ok := x.(*ssa.Call)
		if !ok || !call.Call.IsInvoke() || call.Call.Method.Name() != "Read" || !isLoad(bF)(call.Call.Value) {
			return
		}
		nRead++
		okG := h2bGuarded(call.Block(), func(r h2bRel) bool { return r.Cmp(token.NEQ, isLoad(bF), h2bNilV) }) &&
			h2bGuarded(call.Block(), func(r h2bRel) bool { return r.Cmp(token.EQL, isLoad(brF), h2bNilV) })
		c.Check("pipe-disable", fmt.Sprintf("Pipe.Read:buffer-read#%d", nRead), call.Pos(), okG,
			"Pipe.Read takes bytes from the buffer without having found p.breakErr == nil and p.b != nil: a broken or released pipe still delivers data; guards: "+h2bGuardList(call.Block()))
	})
	if nRead == 0 {
		c.Check("pipe-disable", "Pipe.Read:buffer-read#1", rd.Pos(), false, "Pipe.Read no longer reads from p.b: the rule cannot tell when buffered octets are delivered")
	}
	c.Min("pipe-disable", 3)
}

// ---- C35: window-derived slice bounds ---------------------------------------------

// c35SchedQuota. A send window may legally be negative (RFC 7540 6.9.2: the
// peer lowers SETTINGS_INITIAL_WINDOW_SIZE while DATA is queued). Every signed
// value that flows from flow.available() (through conversions and clamp phis)
// into a slice bound or a make size would then panic on the serve goroutine.
// For each such site the bound must be known non-negative where it is used:
// by a sign test that controls the site, or - when the function works on the
// head frame of a *writeQueue parameter - at every call site of the function,
// where the queue handed over must (a) have passed `F(q) > 0` for a function F
// whose result is provably <= available() of the same head frame - directly,
// as an element of a slice (field or local) that is only ever extended under
// such a test, or as the result of a helper that returns only such queues - or
// (b) be known to have no DATA payload at its head (no-payload predicate true)
// while the site is only reached for a head frame with payload.
func c35SchedQuota(c *core.Ctx, e *h2bEnv) {
	const rule = "inv-sched-quota"
	streamF, flowF, writeF, pF, sF := e.field("frameWriteMsg.stream"), e.field("stream.flow"), e.field("frameWriteMsg.write"), e.field("writeData.p"), e.field("writeQueue.s")
	headFn := e.fn("writeQueue.head")
	if streamF == nil || flowF == nil || writeF == nil || pF == nil || sF == nil || headFn == nil {
		return
	}
	isAvail := func(v ssa.Value) (*ssa.Call, bool) { return h2bIsCall(core.StripConv(v), "flow.available") }
	isQueuePtr := func(t types.Type) bool { return core.TypeStr(t) == "*"+h2bPkg+".writeQueue" }
	isBuiltin := func(v ssa.Value, names ...string) (*ssa.Call, bool) {
		call, ok := v.(*ssa.Call)
		if !ok {
			return nil, false
		}
		b, ok := call.Call.Value.(*ssa.Builtin)
		if !ok {
			return nil, false
		}
		for _, n := range names {
			if b.Name() == n {
				return call, true
			}
		}
		return nil, false
	}

	// availLeaves: the flow.available() calls v is derived from through conversions and phis.
	var availLeaves func(v ssa.Value, seen map[ssa.Value]bool, out *[]*ssa.Call)
	availLeaves = func(v ssa.Value, seen map[ssa.Value]bool, out *[]*ssa.Call) {
		v = core.StripConv(v)
		if v == nil || seen[v] {
			return
		}
		seen[v] = true
		if call, ok := isAvail(v); ok {
			*out = append(*out, call)
			return
		}
		if phi, ok := v.(*ssa.Phi); ok {
			for _, ed := range phi.Edges {
				availLeaves(ed, seen, out)
			}
		}
	}
	signGuard := func(v ssa.Value, blk *ssa.BasicBlock) bool {
		m := func(o ssa.Value) bool { return h2bEq(core.StripConv(o), core.StripConv(v)) }
		return e.guarded(blk, func(r h2bRel) bool {
			return r.Cmp(token.GTR, m, h2bIsInt(0)) || r.Cmp(token.GEQ, m, h2bIsInt(0)) || r.Cmp(token.GEQ, m, h2bIsInt(1)) || r.Cmp(token.GTR, m, h2bIsInt(-1))
		})
	}
	var nonNeg func(v ssa.Value, blk *ssa.BasicBlock, seen map[ssa.Value]bool) bool
	nonNeg = func(v ssa.Value, blk *ssa.BasicBlock, seen map[ssa.Value]bool) bool {
		if v == nil {
			return false
		}
		if signGuard(v, blk) {
			return true
		}
		switch x := v.(type) {
		case *ssa.Const:
			k, ok := h2bInt(x)
			return ok && k >= 0
		case *ssa.Convert:
			if bt, ok := x.X.Type().Underlying().(*types.Basic); ok && bt.Info()&types.IsUnsigned != 0 {
				return true
			}
			return nonNeg(x.X, blk, seen)
		case *ssa.ChangeType:
			return nonNeg(x.X, blk, seen)
		case *ssa.Call:
			_, ok := isBuiltin(x, "len", "cap")
			return ok
		case *ssa.Phi:
			if seen[v] {
				return false
			}
			seen[v] = true
			for _, ed := range x.Edges {
				if !nonNeg(ed, blk, seen) {
					return false
				}
			}
			return len(x.Edges) > 0
		}
		return false
	}

	// headOf: w holds the head frame of queue q: the result of q.head() (directly or
	// through a local it was stored in, no other store reaching `at`), or q.s[0].
	headOf := func(w ssa.Value, at ssa.Instruction) ssa.Value {
		isHeadCall := func(v ssa.Value) ssa.Value {
			if call, ok := h2bIsCall(v, "writeQueue.head"); ok && len(call.Call.Args) == 1 {
				return h2bCanon(call.Call.Args[0])
			}
			return nil
		}
		switch x := w.(type) {
		case *ssa.Call:
			return isHeadCall(x)
		case *ssa.Alloc:
			if x.Referrers() == nil {
				return nil
			}
			var q ssa.Value
			var first *ssa.Store
			for _, r := range *x.Referrers() {
				st, ok := r.(*ssa.Store)
				if !ok || st.Addr != ssa.Value(x) {
					continue
				}
				if hq := isHeadCall(st.Val); hq != nil && core.Dominates(st, at) {
					q, first = hq, st
				}
			}
			if first == nil {
				return nil
			}
			for _, r := range *x.Referrers() {
				st, ok := r.(*ssa.Store)
				if !ok || st.Addr != ssa.Value(x) || st == first {
					continue
				}
				if core.ReachAvoiding(x.Parent(), st, nil, h2bInstrIs(at)) != nil {
					return nil
				}
			}
			return q
		case *ssa.IndexAddr:
			if k, ok := h2bInt(x.Index); ok && k == 0 {
				if b, ok := h2bFieldLoad(x.X, sF); ok {
					return h2bCanon(b)
				}
			}
		}
		return nil
	}
	// frameOfField: v is a load of field fld of a frameWriteMsg; returns the holder of the frame.
	frameOfField := func(v ssa.Value, fld *types.Var) ssa.Value {
		b, ok := h2bFieldLoad(v, fld)
		if !ok {
			return nil
		}
		return b
	}
	// windowQueue: call is flow.available() on the send window of the head frame's stream of queue q.
	windowQueue := func(call *ssa.Call) ssa.Value {
		if len(call.Call.Args) != 1 {
			return nil
		}
		fa, ok := call.Call.Args[0].(*ssa.FieldAddr)
		if !ok || core.FieldObj(fa.X, fa.Field) != flowF {
			return nil
		}
		w := frameOfField(fa.X, streamF)
		if w == nil {
			return nil
		}
		return headOf(w, call)
	}
	// wdAssert: v is component idx of `x.(*writeData)` (comma-ok) applied to the writer of a head frame.
	wdAssert := func(v ssa.Value, idx int) *ssa.TypeAssert {
		ex, ok := v.(*ssa.Extract)
		if !ok || ex.Index != idx {
			return nil
		}
		ta, ok := ex.Tuple.(*ssa.TypeAssert)
		if !ok || !ta.CommaOk || core.TypeStr(ta.AssertedType) != "*"+h2bPkg+".writeData" {
			return nil
		}
		return ta
	}
	headWriter := func(ta *ssa.TypeAssert) ssa.Value {
		w := frameOfField(ta.X, writeF)
		if w == nil {
			return nil
		}
		return headOf(w, ta)
	}
	payloadLen := func(q ssa.Value) func(ssa.Value) bool {
		return func(v ssa.Value) bool {
			call, ok := isBuiltin(v, "len")
			if !ok || len(call.Call.Args) != 1 {
				return false
			}
			b, ok := h2bFieldLoad(call.Call.Args[0], pF)
			if !ok {
				return false
			}
			ta := wdAssert(b, 0)
			return ta != nil && headWriter(ta) == q
		}
	}
	isOK := func(q ssa.Value) func(ssa.Value) bool {
		return func(v ssa.Value) bool { ta := wdAssert(v, 1); return ta != nil && headWriter(ta) == q }
	}

	// quota functions: F(…, q, …) <= available() of q's head frame on every return
	type fnParam struct {
		fn  *ssa.Function
		idx int
	}
	quotaMemo := map[fnParam]bool{}
	quotaFn := func(fn *ssa.Function, idx int) bool {
		k := fnParam{fn, idx}
		if v, ok := quotaMemo[k]; ok {
			return v
		}
		quotaMemo[k] = false
		if idx >= len(fn.Params) || fn.Signature.Results().Len() != 1 {
			return false
		}
		q := ssa.Value(fn.Params[idx])
		isBound := func(v ssa.Value) bool {
			call, ok := isAvail(v)
			return ok && windowQueue(call) == q
		}
		rets := core.Returns(fn)
		ok := len(rets) > 0
		for _, r := range rets {
			v := core.RetVals(r)[0]
			if k, isK := h2bInt(v); isK && k <= 0 {
				continue
			}
			if !h2aLeq(v, isBound, core.GuardsAt(r.Block()), 0, map[ssa.Value]bool{}) {
				ok = false
			}
		}
		quotaMemo[k] = ok
		return ok
	}
	quotaGuard := func(arg ssa.Value, blk *ssa.BasicBlock) bool {
		isQuota := func(v ssa.Value) bool {
			call, ok := core.StripConv(v).(*ssa.Call)
			if !ok {
				return false
			}
			t := e.real(call.Call.StaticCallee())
			if t == nil {
				return false
			}
			for i, a := range call.Call.Args {
				if isQueuePtr(a.Type()) && h2bEq(a, arg) && quotaFn(t, i) {
					return true
				}
			}
			return false
		}
		return e.guarded(blk, func(r h2bRel) bool {
			return r.Cmp(token.GTR, isQuota, h2bIsInt(0)) || r.Cmp(token.GEQ, isQuota, h2bIsInt(1))
		})
	}
	// filtered slices: every element passed the quota filter. A slice value is
	// filtered if it is nil, a re-slice or phi of filtered slices, an append of
	// quota-guarded elements (or of a filtered slice) to a filtered slice, or a
	// load of a slice field all of whose stores are of that kind.
	contMemo := map[*types.Var]bool{}
	var sliceFiltered func(v ssa.Value, self *types.Var, seen map[ssa.Value]bool) bool
	var container func(fld *types.Var) bool
	sliceFiltered = func(v ssa.Value, self *types.Var, seen map[ssa.Value]bool) bool {
		v = h2bCanon(v)
		if v == nil {
			return false
		}
		if h2bIsNil(v) {
			return true
		}
		if seen[v] {
			return true // loop-carried: the other edges decide
		}
		seen[v] = true
		if fld, _ := h2bAnyFieldLoad(v); fld != nil {
			return fld == self || container(fld)
		}
		switch x := v.(type) {
		case *ssa.Phi:
			for _, ed := range x.Edges {
				if !sliceFiltered(ed, self, seen) {
					return false
				}
			}
			return len(x.Edges) > 0
		case *ssa.Slice:
			return sliceFiltered(x.X, self, seen)
		case *ssa.Call:
			app, isApp := isBuiltin(x, "append")
			if !isApp || len(app.Call.Args) != 2 || !sliceFiltered(app.Call.Args[0], self, seen) {
				return false
			}
			va, isVA := app.Call.Args[1].(*ssa.Slice)
			var arr *ssa.Alloc
			if isVA {
				arr, _ = va.X.(*ssa.Alloc)
			}
			if arr == nil || arr.Referrers() == nil {
				return sliceFiltered(app.Call.Args[1], self, seen)
			}
			n := 0
			for _, r := range *arr.Referrers() {
				ia, isIA := r.(*ssa.IndexAddr)
				if !isIA || ia.Referrers() == nil {
					continue
				}
				for _, rr := range *ia.Referrers() {
					if st, isSt := rr.(*ssa.Store); isSt && st.Addr == ssa.Value(ia) {
						n++
						if !quotaGuard(st.Val, app.Block()) {
							return false
						}
					}
				}
			}
			return n > 0
		}
		return false
	}
	container = func(fld *types.Var) bool {
		if v, ok := contMemo[fld]; ok {
			return v
		}
		contMemo[fld] = false
		if sl, ok := fld.Type().Underlying().(*types.Slice); !ok || !isQueuePtr(sl.Elem()) {
			return false
		}
		ok := true
		isFld := func(v ssa.Value) bool { _, is := h2bFieldLoad(v, fld); return is }
		for _, s := range core.FieldStores(e.fns, fld) {
			if !sliceFiltered(s.Store.Val, fld, map[ssa.Value]bool{}) {
				ok = false
			}
		}
		for _, fn := range e.fns {
			for _, in := range h2bAll(fn) {
				st, isSt := in.(*ssa.Store)
				if !isSt {
					continue
				}
				ia, isIA := st.Addr.(*ssa.IndexAddr)
				if !isIA || !isFld(ia.X) {
					continue
				}
				if !h2bIsNil(st.Val) && !quotaGuard(st.Val, st.Block()) {
					ok = false
				}
			}
		}
		contMemo[fld] = ok
		return ok
	}
	var filtered func(arg ssa.Value, blk *ssa.BasicBlock, d int) bool
	onPhi := map[ssa.Value]bool{}
	filtered = func(arg ssa.Value, blk *ssa.BasicBlock, d int) bool {
		if quotaGuard(arg, blk) {
			return true
		}
		switch x := h2bCanon(arg).(type) {
		case *ssa.Phi:
			if onPhi[x] {
				return true // loop-carried: the other edges decide
			}
			if d > 3 || len(x.Edges) == 0 {
				return false
			}
			onPhi[x] = true
			defer delete(onPhi, x)
			for _, ed := range x.Edges {
				if !filtered(ed, blk, d+1) {
					return false
				}
			}
			return true
		case *ssa.UnOp:
			if x.Op != token.MUL {
				return false
			}
			ia, ok := x.X.(*ssa.IndexAddr)
			if !ok {
				return false
			}
			if sl, ok := ia.X.Type().Underlying().(*types.Slice); !ok || !isQueuePtr(sl.Elem()) {
				return false
			}
			return sliceFiltered(ia.X, nil, map[ssa.Value]bool{})
		case *ssa.Call:
			// a helper that picks the queue: every queue it returns is filtered where it is returned
			t := e.real(x.Call.StaticCallee())
			if t == nil || d > 1 || t.Signature.Results().Len() != 1 {
				return false
			}
			rets := core.Returns(t)
			for _, r := range rets {
				rv := core.RetVals(r)[0]
				if h2bIsNil(rv) {
					continue
				}
				if !filtered(rv, r.Block(), d+1) {
					return false
				}
			}
			return len(rets) > 0
		}
		return false
	}
	// no-payload predicates: P(q) == true only if q's head frame carries no DATA payload
	predMemo := map[*ssa.Function]bool{}
	noPayloadPred := func(fn *ssa.Function) bool {
		if v, ok := predMemo[fn]; ok {
			return v
		}
		predMemo[fn] = false
		if len(fn.Params) != 1 || !isQueuePtr(fn.Params[0].Type()) || fn.Signature.Results().Len() != 1 {
			return false
		}
		q := ssa.Value(fn.Params[0])
		rets := core.Returns(fn)
		ok := len(rets) > 0
		for _, r := range rets {
			v := core.RetVals(r)[0]
			if k, isK := h2bBool(v); isK {
				if k && !e.guarded(r.Block(), func(rel h2bRel) bool { return rel.Flag(false, isOK(q)) }) {
					ok = false
				}
				continue
			}
			rel := h2bRelOfCond(v, true)
			if !(rel.Cmp(token.EQL, payloadLen(q), h2bIsInt(0)) || rel.Cmp(token.LEQ, payloadLen(q), h2bIsInt(0)) || rel.Cmp(token.LSS, payloadLen(q), h2bIsInt(1))) {
				ok = false
			}
		}
		predMemo[fn] = ok
		return ok
	}
	noPayloadGuard := func(arg ssa.Value, blk *ssa.BasicBlock) bool {
		return e.guarded(blk, func(r h2bRel) bool {
			return r.Flag(true, func(v ssa.Value) bool {
				call, ok := v.(*ssa.Call)
				if !ok || len(call.Call.Args) != 1 || !h2bEq(call.Call.Args[0], arg) {
					return false
				}
				t := e.real(call.Call.StaticCallee())
				return t != nil && noPayloadPred(t)
			})
		})
	}

	// the sites
	type delegated struct {
		idx     int
		payload bool // every delegated site is reached only for a head frame with DATA payload
		n       int
	}
	deleg := map[*ssa.Function]*delegated{}
	var delegOrder []*ssa.Function
	ord := h2aOrd{}
	for _, fn := range e.fns {
		for _, in := range h2bAll(fn) {
			var bounds []ssa.Value
			kind := ""
			switch x := in.(type) {
			case *ssa.Slice:
				bounds, kind = []ssa.Value{x.Low, x.High, x.Max}, "slice"
			case *ssa.MakeSlice:
				bounds, kind = []ssa.Value{x.Len, x.Cap}, "make"
			default:
				continue
			}
			for _, b := range bounds {
				if b == nil {
					continue
				}
				var leaves []*ssa.Call
				availLeaves(b, map[ssa.Value]bool{}, &leaves)
				if len(leaves) == 0 {
					continue
				}
				key := ord.key(h2bShort(fn) + ":" + kind)
				if nonNeg(b, in.Block(), map[ssa.Value]bool{}) {
					c.Check(rule, key, in.Pos(), true, "")
					continue
				}
				// delegation to the callers: all windows are that of the head frame of one queue parameter
				idx := -1
				for _, lf := range leaves {
					q := windowQueue(lf)
					j := -1
					for i, p := range fn.Params {
						if q != nil && q == ssa.Value(p) {
							j = i
						}
					}
					if j < 0 || (idx >= 0 && idx != j) {
						idx = -1
						break
					}
					idx = j
				}
				c.Check(rule, key, in.Pos(), idx >= 0,
					"the "+kind+" bound "+core.Render(b)+" in "+h2bShort(fn)+" comes from flow.available(), which is negative after the peer lowered SETTINGS_INITIAL_WINDOW_SIZE (RFC 7540 6.9.2), and no test of its sign controls this site (a `== 0` test lets negative values through); the window is not that of the head frame of a *writeQueue parameter either, so no caller-side filter can be checked: run-time panic `slice bounds out of range` on the serve goroutine; guards: "+e.guardList(in.Block()))
				if idx < 0 {
					continue
				}
				d := deleg[fn]
				if d == nil {
					d = &delegated{idx: idx, payload: true}
					deleg[fn] = d
					delegOrder = append(delegOrder, fn)
				}
				if d.idx != idx {
					d.payload = false
				}
				d.n++
				q := ssa.Value(fn.Params[idx])
				if !(e.guarded(in.Block(), func(r h2bRel) bool { return r.Flag(true, isOK(q)) }) &&
					e.guarded(in.Block(), func(r h2bRel) bool {
						return r.Cmp(token.GTR, payloadLen(q), h2bIsInt(0)) || r.Cmp(token.GEQ, payloadLen(q), h2bIsInt(1)) || r.Cmp(token.NEQ, payloadLen(q), h2bIsInt(0))
					})) {
					d.payload = false
				}
			}
		}
	}
	c.Min(rule, 2)
	usedPred := false
	for _, fn := range delegOrder {
		d := deleg[fn]
		ordC := h2aOrd{}
		for _, s := range e.callSites(h2bShort(fn)) {
			args := s.Call.Common().Args
			if d.idx >= len(args) {
				continue
			}
			in := s.Call.(ssa.Instruction)
			arg := args[d.idx]
			key := ordC.key(h2bShort(s.Fn) + ":" + fn.Name())
			ok := filtered(arg, in.Block(), 0)
			if !ok && d.payload && noPayloadGuard(arg, in.Block()) {
				ok, usedPred = true, true
			}
			c.Check(rule, key, in.Pos(), ok,
				h2bShort(s.Fn)+" hands "+core.Render(arg)+" to "+fn.Name()+", which slices the head frame's payload by a value taken from flow.available() without testing its sign; the queue is not known to have send quota here (no `F(q) > 0` with F <= available() of its head frame, not an element of a slice filled only under such a test) nor to have a head frame without DATA payload: when the peer has lowered SETTINGS_INITIAL_WINDOW_SIZE while DATA is queued the stream's send window is negative and "+fn.Name()+" panics `slice bounds out of range` on the serve goroutine (connection dropped without GOAWAY); guards: "+e.guardList(in.Block()))
		}
	}
	if usedPred {
		// the predicate and the callee look at the same frame: head() is s[0]
		ok := true
		rets := core.Returns(headFn)
		for _, r := range rets {
			v := core.RetVals(r)[0]
			u, isU := v.(*ssa.UnOp)
			if !isU || u.Op != token.MUL {
				ok = false
				continue
			}
			if q := headOf(u.X, r); q == nil || q != ssa.Value(headFn.Params[0]) {
				ok = false
			}
		}
		c.Check(rule, "writeQueue.head:first-element", headFn.Pos(), ok && len(rets) > 0, "writeQueue.head no longer returns q.s[0]: the no-payload predicate and the scheduler would look at different frames")
	}
}

// ---- C38: the declared-trailer set ---------------------------------------------------

// c38TrailerSet: rws.trailers is a set of canonical header names: the trailers
// frame is built by looking each of them up in the handler's header map and
// emitting one field per element. Every insertion must therefore (a) insert
// the result of CanonicalHeaderKey and (b) be controlled by a negative
// membership test of that same value on the same slice. A test made on
// another spelling of the key (before canonicalisation) lets a trailer that
// was announced twice be appended twice, and it is then sent twice.
func c38TrailerSet(c *core.Ctx, e *h2bEnv, trailersF *types.Var) {
	const rule = "trailer-set"
	isCanonCall := func(v ssa.Value) bool {
		call, ok := h2bCanon(v).(*ssa.Call)
		if !ok {
			return false
		}
		sc := call.Call.StaticCallee()
		return sc != nil && (sc.Name() == "CanonicalHeaderKey" || sc.Name() == "CanonicalMIMEHeaderKey")
	}
	// the canonicaliser itself, or (one level) a helper of the package every
	// result of which - at that position - is the canonicaliser's result or a constant
	isCanon := func(v ssa.Value) bool {
		if isCanonCall(v) {
			return true
		}
		v = h2bCanon(v)
		idx := 0
		if ex, ok := v.(*ssa.Extract); ok {
			v, idx = ex.Tuple, ex.Index
		}
		call, ok := v.(*ssa.Call)
		if !ok {
			return false
		}
		t := e.real(call.Call.StaticCallee())
		if t == nil || idx >= t.Signature.Results().Len() {
			return false
		}
		rets := core.Returns(t)
		for _, r := range rets {
			rv := core.RetVals(r)[idx]
			if _, isK := core.ConstString(rv); !isK && !isCanonCall(rv) {
				return false
			}
		}
		return len(rets) > 0
	}
	// isMember: o is strSliceContains(<base>.trailers, v), or (one level) a helper
	// of the package that returns exactly that for its parameters
	isMember := func(o ssa.Value, base, v ssa.Value) bool {
		direct := func(o ssa.Value, isBase, isKey func(ssa.Value) bool) bool {
			call, ok := h2bIsCall(o, "strSliceContains")
			if !ok || len(call.Call.Args) != 2 {
				return false
			}
			ob, isOld := h2bFieldLoad(call.Call.Args[0], trailersF)
			return isOld && isBase(ob) && isKey(call.Call.Args[1])
		}
		if direct(o, h2bIs(base), h2bIs(v)) {
			return true
		}
		call, ok := h2bCanon(o).(*ssa.Call)
		if !ok {
			return false
		}
		t := e.real(call.Call.StaticCallee())
		if t == nil || t.Signature.Results().Len() != 1 || len(call.Call.Args) != len(t.Params) {
			return false
		}
		bi, ki := -1, -1
		for i, a := range call.Call.Args {
			if h2bEq(a, base) {
				bi = i
			}
			if h2bEq(a, v) {
				ki = i
			}
		}
		if bi < 0 || ki < 0 {
			return false
		}
		rets := core.Returns(t)
		for _, r := range rets {
			if !direct(core.RetVals(r)[0], h2bIs(t.Params[bi]), h2bIs(t.Params[ki])) {
				return false
			}
		}
		return len(rets) > 0
	}
	contains := e.fn("strSliceContains")
	ord := h2aOrd{}
	for _, s := range core.FieldStores(e.fns, trailersF) {
		base, _ := h2bStoreField(s.Store, trailersF)
		name := h2bShort(s.Fn)
		if h2bIsNil(s.Store.Val) {
			continue
		}
		app, isApp := s.Store.Val.(*ssa.Call)
		if isApp {
			b, isB := app.Call.Value.(*ssa.Builtin)
			isApp = isB && b.Name() == "append" && len(app.Call.Args) == 2
		}
		var elems []ssa.Value
		if isApp {
			if ob, isOld := h2bFieldLoad(app.Call.Args[0], trailersF); !isOld || !h2bEq(ob, base) {
				isApp = false
			}
		}
		if isApp {
			if va, isVA := app.Call.Args[1].(*ssa.Slice); isVA {
				if arr, isArr := va.X.(*ssa.Alloc); isArr && arr.Referrers() != nil {
					for _, r := range *arr.Referrers() {
						ia, isIA := r.(*ssa.IndexAddr)
						if !isIA || ia.Referrers() == nil {
							continue
						}
						for _, rr := range *ia.Referrers() {
							if st, isSt := rr.(*ssa.Store); isSt && st.Addr == ssa.Value(ia) {
								elems = append(elems, st.Val)
							}
						}
					}
				}
			}
		}
		if !isApp || len(elems) == 0 {
			c.Check(rule, ord.key(name+":insert"), s.Store.Pos(), false, "responseWriterState.trailers is assigned "+core.Render(s.Store.Val)+" in "+name+"; the rule can follow only `append(rws.trailers, key)` of single keys")
			continue
		}
		for _, v := range elems {
			key := ord.key(name + ":insert")
			c.Check(rule, key+":canonical", s.Store.Pos(), isCanon(v),
				"the trailer name inserted into rws.trailers is "+core.Render(v)+", not the result of CanonicalHeaderKey: the trailers frame looks the name up in the handler's header map (canonical keys) and would lose the value")
			okG := e.guarded(app.Block(), func(r h2bRel) bool {
				return r.Flag(false, func(o ssa.Value) bool { return isMember(o, base, v) })
			})
			c.Check(rule, key+":once", s.Store.Pos(), okG,
				"a trailer name is appended to rws.trailers without a negative membership test of the very value that is appended ("+core.Render(v)+") on rws.trailers: a test on another spelling of the name (e.g. before CanonicalHeaderKey, while the set holds canonical names) does not see the earlier declaration, the name is stored twice and the trailing HEADERS frame carries the field twice; guards: "+e.guardList(app.Block()))
		}
	}
	if contains != nil && len(contains.Params) == 2 {
		ok := false
		bad := false
		for _, r := range core.Returns(contains) {
			v, isK := h2bBool(core.RetVals(r)[0])
			if !isK {
				bad = true
				continue
			}
			if !v {
				continue
			}
			if e.guarded(r.Block(), func(rel h2bRel) bool {
				return rel.Cmp(token.EQL, h2bIsRangeElemOf(contains.Params[0]), h2bIs(contains.Params[1]))
			}) {
				ok = true
			} else {
				bad = true
			}
		}
		c.Check(rule, "strSliceContains:equality", contains.Pos(), ok && !bad, "strSliceContains reports membership other than by `element == s` for an element of the slice")
	}
	c.Min(rule, 3)
}

// h2bIsRangeElemOf: v is an element of the slice s obtained by ranging over it
// (or indexing it).
func h2bIsRangeElemOf(s ssa.Value) func(ssa.Value) bool {
	return func(v ssa.Value) bool {
		u, ok := v.(*ssa.UnOp)
		if !ok || u.Op != token.MUL {
			return false
		}
		ia, ok := u.X.(*ssa.IndexAddr)
		return ok && h2bCanon(ia.X) == s
	}
}

// ---- C38: body bytes reach writeChunk in write order -----------------------------------

// c38ChunkOrder: the handler's writes go through rws.bw (a bufio.Writer whose
// sink chunkWriter.Write forwards to writeChunk), which keeps them in order.
// Any other call of writeChunk overtakes whatever is still buffered, so it is
// accepted only where the buffer is known to be empty: controlled by
// `rws.bw.Buffered() == 0` (<= 0, not > 0) for the same rws, or dominated by
// rws.bw.Flush() with no buffered write in between.
func c38ChunkOrder(c *core.Ctx, e *h2bEnv) {
	const rule = "chunk-order"
	bwF, cwF := e.field("responseWriterState.bw"), e.field("chunkWriter.rws")
	if bwF == nil || cwF == nil {
		return
	}
	bufCall := func(v ssa.Value, rws ssa.Value, names ...string) bool {
		call, ok := v.(*ssa.Call)
		if !ok {
			return false
		}
		sc := call.Call.StaticCallee()
		if sc == nil || sc.Signature.Recv() == nil || core.TypeStr(sc.Signature.Recv().Type()) != "*bufio.Writer" || len(call.Call.Args) == 0 {
			return false
		}
		hit := false
		for _, n := range names {
			if sc.Name() == n {
				hit = true
			}
		}
		if !hit {
			return false
		}
		b, ok := h2bFieldLoad(call.Call.Args[0], bwF)
		return ok && h2bEq(b, rws)
	}
	// bufferEmptyAt: at instruction in of fn the buffer of rws is known to hold nothing.
	bufferEmptyAt := func(fn *ssa.Function, in ssa.Instruction, rws ssa.Value) bool {
		if e.guarded(in.Block(), func(r h2bRel) bool {
			isBuffered := func(v ssa.Value) bool { return bufCall(v, rws, "Buffered") }
			return r.Cmp(token.EQL, isBuffered, h2bIsInt(0)) || r.Cmp(token.LEQ, isBuffered, h2bIsInt(0)) || r.Cmp(token.LSS, isBuffered, h2bIsInt(1))
		}) {
			return true
		}
		for _, x := range h2bAll(fn) {
			v, isV := x.(ssa.Value)
			if !isV || !bufCall(v, rws, "Flush") || !core.Dominates(x, in) {
				continue
			}
			refill := core.ReachAvoiding(fn, x, h2bInstrIs(in), func(y ssa.Instruction) bool {
				yv, ok := y.(ssa.Value)
				return ok && bufCall(yv, rws, "Write", "WriteString", "WriteByte", "WriteRune", "ReadFrom")
			})
			if refill == nil {
				return true
			}
		}
		return false
	}
	ord := h2aOrd{}
	n := 0
	for _, s := range e.callSites("responseWriterState.writeChunk") {
		args := s.Call.Common().Args
		in := s.Call.(ssa.Instruction)
		if len(args) != 2 {
			continue
		}
		n++
		name := h2bShort(s.Fn)
		if recv := s.Fn.Signature.Recv(); recv != nil && typeShortName(recv.Type()) == "chunkWriter" && s.Fn.Name() == "Write" {
			_, own := h2bFieldLoad(args[0], cwF)
			ok := own && len(s.Fn.Params) == 2 && h2bEq(args[1], s.Fn.Params[1])
			c.Check(rule, ord.key(name+":sink"), in.Pos(), ok, "chunkWriter.Write (the sink of the response buffer) must hand exactly the bytes it was given to writeChunk of its own responseWriterState; hands "+core.Render(args[1])+" to "+core.Render(args[0]))
			continue
		}
		rws := args[0]
		empty := bufferEmptyAt(s.Fn, in, rws)
		if !empty {
			// one level up: a helper that receives the response state; every call of it is made with the buffer empty
			for i, p := range s.Fn.Params {
				if h2bCanon(rws) != ssa.Value(p) {
					continue
				}
				outer := e.callSites(h2bShort(s.Fn))
				empty = len(outer) > 0
				for _, o := range outer {
					oa := o.Call.Common().Args
					if i >= len(oa) || !bufferEmptyAt(o.Fn, o.Call.(ssa.Instruction), oa[i]) {
						empty = false
					}
				}
			}
		}
		c.Check(rule, ord.key(name+":writeChunk"), in.Pos(), empty,
			name+" calls writeChunk directly, past the response buffer rws.bw, without the buffer being known empty (no `rws.bw.Buffered() == 0` controlling the call, no rws.bw.Flush() before it): bytes of earlier Write/WriteString calls that are still buffered are sent after this chunk, so the DATA frames carry the body out of order (and the response HEADERS, content-type sniffing included, are derived from the wrong chunk); guards: "+e.guardList(in.Block()))
	}
	if n == 0 {
		c.Check(rule, "writeChunk:callers", token.NoPos, false, "no call of responseWriterState.writeChunk found in bfe_http2")
	}
	c.Min(rule, 2)
}
