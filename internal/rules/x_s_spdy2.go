package rules

// Second batch of bfe_spdy rules (C39 block-consumed, C40 id-consumed): both
// are "state and validation are ordered on every path" rules.

import (
	"fmt"
	"go/constant"
	"go/token"
	"go/types"

	"golang.org/x/tools/go/ssa"

	"verif/internal/core"
)

// spdyReachWithout returns the blocks reachable from the entry of fn when the
// CFG edges rejected by keep are removed.
func spdyReachWithout(fn *ssa.Function, keep func(from *ssa.BasicBlock, succ int) bool) map[*ssa.BasicBlock]bool {
	seen := map[*ssa.BasicBlock]bool{}
	if len(fn.Blocks) == 0 {
		return seen
	}
	work := []*ssa.BasicBlock{fn.Blocks[0]}
	seen[fn.Blocks[0]] = true
	for len(work) > 0 {
		b := work[len(work)-1]
		work = work[:len(work)-1]
		for i, s := range b.Succs {
			if seen[s] || !keep(b, i) {
				continue
			}
			seen[s] = true
			work = append(work, s)
		}
	}
	return seen
}

// spdyEntryReachesAvoiding: is there a path from the entry of fn to the end
// of block target on which no instruction satisfies stop, using only the
// edges accepted by feasible?
func spdyEntryReachesAvoiding(fn *ssa.Function, target *ssa.BasicBlock, stop func(ssa.Instruction) bool, feasible func(from *ssa.BasicBlock, succ int) bool) bool {
	if len(fn.Blocks) == 0 {
		return false
	}
	clean := func(b *ssa.BasicBlock) bool {
		for _, in := range b.Instrs {
			if stop(in) {
				return false
			}
		}
		return true
	}
	seen := map[*ssa.BasicBlock]bool{fn.Blocks[0]: true}
	work := []*ssa.BasicBlock{fn.Blocks[0]}
	for len(work) > 0 {
		b := work[len(work)-1]
		work = work[:len(work)-1]
		if !clean(b) {
			continue
		}
		if b == target {
			return true
		}
		for i, s := range b.Succs {
			if seen[s] || (feasible != nil && !feasible(b, i)) {
				continue
			}
			seen[s] = true
			work = append(work, s)
		}
	}
	return false
}

// spdyErrClass classifies the error value of a return of a block parser.
//
//	"success"  the nil constant (or a phi that may be nil)
//	"io"       the error result of a call that was handed the block reader
//	"untyped"  fmt.Errorf / errors.New / a boxed value that is not *bfe_spdy.Error
//	"conn"     &Error{code, 0}: typed, not attributed to a stream
//	"stream"   &Error{code, id}: typed and attributed to one stream
//	"unknown"  anything else
//
// For phis the most severe class of the edges is returned (stream > success >
// unknown > the fatal classes). code is the ErrorCode text of typed errors.
func spdyErrClass(v ssa.Value, reader ssa.Value) (class, code string) {
	rank := map[string]int{"io": 1, "untyped": 1, "conn": 1, "unknown": 2, "success": 3, "stream": 4}
	seen := map[ssa.Value]bool{}
	var walk func(v ssa.Value) (string, string)
	walk = func(v ssa.Value) (string, string) {
		if spdyIsNil(v) {
			return "success", ""
		}
		switch x := v.(type) {
		case *ssa.Phi:
			if seen[x] {
				return "", ""
			}
			seen[x] = true
			best, bestCode := "", ""
			for _, e := range x.Edges {
				cl, cd := walk(e)
				if cl == "" {
					continue
				}
				if best == "" || rank[cl] > rank[best] || (rank[cl] == rank[best] && cd < bestCode) {
					best, bestCode = cl, cd
				}
			}
			return best, bestCode
		case *ssa.MakeInterface:
			if core.TypeStr(x.X.Type()) != "*"+spdyPkg+".Error" {
				return "untyped", ""
			}
			a, ok := x.X.(*ssa.Alloc)
			if !ok || a.Referrers() == nil {
				return "stream", "?"
			}
			code, idKnown, idZero := "?", false, false
			for _, r := range *a.Referrers() {
				fa, ok := r.(*ssa.FieldAddr)
				if !ok || fa.Referrers() == nil {
					continue
				}
				f := core.FieldObj(fa.X, fa.Field)
				for _, u := range *fa.Referrers() {
					st, ok := u.(*ssa.Store)
					if !ok || st.Addr != ssa.Value(fa) || f == nil {
						continue
					}
					switch f.Name() {
					case "Err":
						if s, ok := core.ConstString(st.Val); ok {
							code = s
						}
					case "StreamId":
						idKnown = true
						k, isK := spdyConstInt(st.Val)
						idZero = isK && k == 0
					}
				}
			}
			// a composite literal that does not mention StreamId leaves it zero
			if !idKnown || idZero {
				return "conn", code
			}
			return "stream", code
		case *ssa.Call:
			if core.CallIs(&x.Call, "fmt.Errorf", "errors.New") {
				return "untyped", ""
			}
			if spdyCallGets(&x.Call, reader) {
				return "io", ""
			}
		case *ssa.Extract:
			if cl, ok := x.Tuple.(*ssa.Call); ok && spdyCallGets(&cl.Call, reader) {
				return "io", ""
			}
		}
		return "unknown", ""
	}
	class, code = walk(v)
	if class == "" {
		class = "unknown"
	}
	return
}

// spdyErrLeaf is one way the error value of a return can come about.
type spdyErrLeaf struct{ class, code string }

// spdyErrLeaves classifies the error value v of a return of a block parser.
// When v is the error result of a bfe_spdy function with a body that was handed
// the block reader (the read-and-check sequence of one field extracted into a
// helper), every return of that helper is classified in the helper's own frame
// (its reader parameter taking the place of reader) and yields one leaf - the
// helper's body stands where its call stands. nonNil says that the caller has
// established v != nil at the return: nil results of the helper are then not
// among the values returned. Everything else yields the single leaf of
// spdyErrClass.
func spdyErrLeaves(v, reader ssa.Value, nonNil bool, depth int) []spdyErrLeaf {
	if depth < 3 {
		idx := 0
		cv := v
		if ex, ok := v.(*ssa.Extract); ok {
			idx, cv = ex.Index, ex.Tuple
		}
		if call, ok := cv.(*ssa.Call); ok {
			h := call.Call.StaticCallee()
			if h != nil && h.Blocks != nil && core.FuncPkgRel(h) == spdyPkg && !call.Call.IsInvoke() {
				var rp ssa.Value
				for j, a := range call.Call.Args {
					if j < len(h.Params) && spdyCallGets(&ssa.CallCommon{Args: []ssa.Value{a}}, reader) {
						rp = h.Params[j]
					}
				}
				if rp != nil {
					var out []spdyErrLeaf
					for _, r := range core.Returns(h) {
						rv := core.RetVals(r)
						if idx >= len(rv) {
							out = append(out, spdyErrLeaf{"unknown", ""})
							continue
						}
						ev := rv[idx]
						if spdyIsNil(ev) {
							if !nonNil {
								out = append(out, spdyErrLeaf{"success", ""})
							}
							continue
						}
						inner := spdyHasGuard(r.Block(), func(g core.Guard) bool {
							c, ok := spdyNorm(g.Cond, g.Pol, func(x ssa.Value) bool { return x == ev })
							return ok && c.Op == token.NEQ && spdyIsNil(c.Other)
						})
						out = append(out, spdyErrLeaves(ev, rp, inner, depth+1)...)
					}
					if len(out) > 0 {
						return out
					}
				}
			}
		}
	}
	class, code := spdyErrClass(v, reader)
	return []spdyErrLeaf{{class, code}}
}

// spdyCallGets: the call is made on v (interface receiver) or passes v as an argument.
func spdyCallGets(cc *ssa.CallCommon, v ssa.Value) bool {
	if v == nil {
		return false
	}
	if cc.IsInvoke() && cc.Value == v {
		return true
	}
	for _, a := range cc.Args {
		if a == v {
			return true
		}
		if mi, ok := a.(*ssa.MakeInterface); ok && mi.X == v {
			return true
		}
		if ct, ok := a.(*ssa.ChangeInterface); ok && ct.X == v {
			return true
		}
	}
	return false
}

// spdyCodeName maps the text of an ErrorCode to the name of the package-level
// constant that holds it ("multiple headers with same name" -> DuplicateHeaders).
func spdyCodeName(c *core.Ctx, text string) string {
	pk := c.P.Pkg(spdyPkg)
	if pk != nil {
		sc := pk.Types.Scope()
		for _, n := range sc.Names() {
			k, ok := sc.Lookup(n).(*types.Const)
			if ok && k.Val().Kind() == constant.String && constant.StringVal(k.Val()) == text {
				return n
			}
		}
	}
	return "code"
}

// c39BlockConsumed — rule block-consumed.
//
// The header blocks of all frames of a connection go through ONE zlib
// decompressor. Whatever parseHeaderValueBlock leaves unread stays inside it
// and is delivered as the first bytes of the next frame's block. Hence a
// return that leaves the loop over the announced pairs early (return or break
// inside the loop, or any return before it) aborts the connection's header
// context: it may only report an error that no caller can mistake for the
// problem of a single stream (the reader's own I/O error, an untyped error,
// a typed error without stream id). Success and *Error{code, streamId} may be
// returned only through the exhaustion exit of the loop.
func c39BlockConsumed(c *core.Ctx) {
	const rule = "block-consumed"
	fn := c.P.Func(spdyPkg, "parseHeaderValueBlock")
	if fn == nil {
		c.Missing(spdyPkg + ".parseHeaderValueBlock")
		return
	}
	c.Analysed(core.FuncKey(fn))
	var reader ssa.Value
	for _, p := range fn.Params {
		if core.TypeStr(p.Type()) == "io.Reader" {
			reader = p
		}
	}
	if reader == nil {
		c.Check(rule, "parseHeaderValueBlock:reader", fn.Pos(), false, "parseHeaderValueBlock has no io.Reader parameter: the block reader cannot be identified")
		return
	}
	readsBlock := func(b *ssa.BasicBlock) bool {
		for _, in := range b.Instrs {
			if ci, ok := in.(ssa.CallInstruction); ok && spdyCallGets(ci.Common(), reader) {
				return true
			}
		}
		return false
	}
	// outermost loops that consume the reader
	var reading []*core.Loop
	for _, l := range core.Loops(fn) {
		for b := range l.Body {
			if readsBlock(b) {
				reading = append(reading, l)
				break
			}
		}
	}
	var outer []*core.Loop
	for _, l := range reading {
		nested := false
		for _, o := range reading {
			if o != l && o.Body[l.Header] {
				nested = true
			}
		}
		if !nested {
			outer = append(outer, l)
		}
	}
	exhaustible := len(outer) > 0
	for _, l := range outer {
		has := false
		if _, isIf := l.Header.Instrs[len(l.Header.Instrs)-1].(*ssa.If); isIf {
			for _, s := range l.Header.Succs {
				if !l.Body[s] {
					has = true
				}
			}
		}
		exhaustible = exhaustible && has
	}
	c.Check(rule, "parseHeaderValueBlock:loop", fn.Pos(), exhaustible,
		fmt.Sprintf("expected the pairs of a header block to be consumed by loop(s) over the block reader that end through their own loop condition; found %d such loop(s), not all with a conditional exit at the loop head", len(outer)))
	if !exhaustible {
		return
	}
	// early: reachable from the entry without taking the exhaustion exit of some reading loop
	early := map[*ssa.BasicBlock]bool{}
	for _, l := range outer {
		l := l
		for b := range spdyReachWithout(fn, func(from *ssa.BasicBlock, i int) bool {
			return !(from == l.Header && !l.Body[from.Succs[i]])
		}) {
			early[b] = true
		}
	}
	ord := map[string]int{}
	complete, completeOK := 0, 0
	for _, r := range core.Returns(fn) {
		rv := core.RetVals(r)
		if len(rv) == 0 {
			continue
		}
		ev := rv[len(rv)-1]
		if !early[r.Block()] {
			complete++
			if class, _ := spdyErrClass(ev, reader); class == "success" && spdyIsNil(ev) {
				completeOK++
			}
			continue
		}
		nonNil := spdyHasGuard(r.Block(), func(g core.Guard) bool {
			c, ok := spdyNorm(g.Cond, g.Pol, func(x ssa.Value) bool { return x == ev })
			return ok && c.Op == token.NEQ && spdyIsNil(c.Other)
		})
		for _, leaf := range spdyErrLeaves(ev, reader, nonNil, 0) {
			class, code := leaf.class, leaf.code
			name := class
			switch class {
			case "stream":
				name = spdyCodeName(c, code)
			case "conn":
				name = "conn:" + spdyCodeName(c, code)
			}
			ord[name]++
			key := fmt.Sprintf("parseHeaderValueBlock:early:%s#%d", name, ord[name])
			var why string
			switch class {
			case "stream":
				why = "it reports the stream-level error *Error{" + spdyCodeName(c, code) + ", streamId}: the error blames one stream, yet the rest of this frame's block is still inside the connection-wide zlib decompressor and is parsed as the beginning of the NEXT frame's header block (next SYN_STREAM/SYN_REPLY/HEADERS on the connection fails with WrongCompressedPayloadSize or yields garbage headers). Record the error and keep consuming, as is done for the errors returned after the loop"
			case "success":
				why = "it reports success (nil error, possibly through a phi): a block is accepted although its announced pairs were not all consumed"
			case "unknown":
				why = "its error value (" + core.Render(ev) + ") cannot be classified as connection-fatal (reader error, untyped error, *Error without stream id)"
			}
			c.Check(rule, key, r.Pos(), why == "",
				"parseHeaderValueBlock returns before the loop over the announced header pairs has run to its end, and "+why)
		}
	}
	c.Check(rule, "parseHeaderValueBlock:complete", fn.Pos(), complete > 0 && completeOK > 0,
		fmt.Sprintf("no success return lies behind the exhaustion exit of the pair loop (%d returns behind it, %d of them success)", complete, completeOK))
}

// c40IDConsumed — rule stream-id / id-consumed.
//
// A stream id that passed the id tests of processSynStream (odd, above
// maxStreamID) is used up whatever happens to the request afterwards: every
// return that is reached with those tests passed must have gone through the
// store that raises sc.maxStreamID to the id. Otherwise a SYN_STREAM that is
// refused later (bad request, too many streams) leaves the id "idle" and the
// same or a lower id is accepted again.
//
// accepted(b): the id tests are established at b. isMaxStore: store of the id
// into sc.maxStreamID. infeasible(from, i): edge i of from contradicts the id
// tests established at from (the else-edge of `if id > sc.maxStreamID`).
func c40IDConsumed(c *core.Ctx, f *ssa.Function, accepted func(b *ssa.BasicBlock) bool,
	isMaxStore func(in ssa.Instruction) bool, infeasible func(from *ssa.BasicBlock, succ int) bool) {
	n := 0
	for _, r := range core.Returns(f) {
		if !accepted(r.Block()) {
			continue
		}
		n++
		kind := "success"
		if rv := core.RetVals(r); len(rv) > 0 && !spdyIsNil(rv[len(rv)-1]) {
			kind = "error"
		}
		bad := spdyEntryReachesAvoiding(f, r.Block(), isMaxStore, func(from *ssa.BasicBlock, i int) bool { return !infeasible(from, i) })
		c.Check("stream-id", fmt.Sprintf("processSynStream:id-consumed:return#%d", n), r.Pos(), !bad,
			"this "+kind+" return is reached after the stream id passed the parity and monotonicity tests, but on some path sc.maxStreamID has not been raised to the id: the id counts as never seen (sc.state() reports idle, GOAWAY omits it), so after this SYN_STREAM was refused or failed the client can open a stream with the same or a lower id and is served instead of receiving PROTOCOL_ERROR. Record the id as soon as it is validated, before anything that can reject the request")
	}
	c.Check("stream-id", "processSynStream:id-consumed", f.Pos(), n > 0, "no return of processSynStream is reached with the stream-id tests established")
}
