package rules

import (
	"fmt"
	"go/token"
	"go/types"
	"sort"
	"strings"

	"golang.org/x/tools/go/ssa"

	"verif/internal/core"
)

// C13 — documented configs load, loaded configs are closed, loaders never panic.
func init() {
	Register(&Rule{
		ID: "C13", Section: "4 C13",
		Technique: "sentinel-guard census, cross-reference closure rule on ServerDataConf.check, nil-before-dereference analysis for optional (pointer-typed) JSON config fields and container elements against the facts established by the *Check functions, error-discipline rule on loaders",
		Meta: core.Meta{
			Level:       "other",
			Explanation: "Decides: (a) sentinel consistency — every ClusterTable.Lookup whose argument is a basic route rule's ClusterName (directly, or through the parameter of a private helper all of whose call sites pass one) is guarded by a comparison with route_rule_conf.AdvancedMode in any spelling or polarity, so the documented ADVANCED_MODE target is not treated as a missing cluster; (b) closure — ServerDataConf.check (with its private helpers and closures) ranges over all products of the advanced table and of the basic tree and over all rules of both tables, each lookup is unconditional (guarded only by loop conditions, the sentinel test and early rejects whose other edge cannot reach a success return) and a miss makes check return an error (through the helper's error result if the lookup sits in a helper); a product of the advanced table or basic tree that equals no hostTagTable entry is rejected, the membership test being recognised by role (a flag or helper result that is true only where the product was compared equal to a hostTagTable element); LoadServerDataConf returns success only after check(); (c) crash-freedom for absent optional fields — every dereference, in the loading packages, of a pointer-typed field of a config struct declared under bfe_config/ (or of a pointer element of a config container) is either dominated by a nil test of that value in the same function or covered by a fact established in a *Check function of the declaring package: a nil test (== or !=, either operand order) after whose nil edge no success return is reachable unless the field was assigned first — followed path-sensitively through switches, early returns and named booleans — and which lies on every success path of that Check; for container elements the test must run for every element of one non-nested range or zero-based index loop that is on every success path; and every loader that decodes a config calls its Check (directly or in a helper that always does) before a success return; a struct-valued map element copied into a local (range variable or explicit v := m[k]) whose address is handed to a callee is stored back before the next iteration; (d) error discipline — the error results of Decode/Unmarshal, *Check, condition.Build and nested *Load calls in the loaders are returned or tested, never dropped. Not covered: acceptance of every documented file (only the ADVANCED_MODE feature is tied to the docs), malformed JSON beyond absent/null fields, index-out-of-range on malformed lists, vip-to-product references; nil tests moved out of a *Check function into an unexported helper that is not itself named *Check* establish no fact (reported as unresolved dereferences); the path-sensitive search is bounded (4000 steps), beyond that the nil branch counts as not rejecting.",
			RuleText:    "obligations = each Lookup of a basic-rule cluster name, each cross-reference loop of check(), each dereference site of an optional config value, each decode site, each error-returning loader call",
		},
		Run: runC13,
		Mutants: []Mutant{
			{Name: "sentinel-dropped", File: "bfe_route/server_data_conf.go", Old: "			if routeRule.ClusterName == route_rule_conf.AdvancedMode {\n				continue\n			}\n", New: "", Expect: "sentinel"},
			{Name: "basic-check-skipped-for-mixed-products", File: "bfe_route/server_data_conf.go", Old: "	for _, routeRules := range s.HostTable.productBasicRouteTable {\n		for _, routeRule := range routeRules {", New: "	for product, routeRules := range s.HostTable.productBasicRouteTable {\n		if _, ok := s.HostTable.productAdvancedRouteTable[product]; ok {\n			continue\n		}\n		for _, routeRule := range routeRules {", Expect: "closure"},
			{Name: "hosttags-nil-check-moved", File: "bfe_config/bfe_route_conf/host_rule_conf/host_table_load.go", Old: "	for product, hostTagList := range *conf.HostTags {\n		if hostTagList == nil {\n			return fmt.Errorf(\"no HostTagList for %s\", product)\n		}\n	}\n", New: "", Expect: "nil-deref"},
			{Name: "version-check-dropped", File: "bfe_config/bfe_route_conf/host_rule_conf/host_table_load.go", Old: "	if conf.Version == nil {\n		return errors.New(\"no Version\")\n	}\n\n	if conf.Hosts == nil {", New: "	if conf.Hosts == nil {", Expect: "nil-deref"},
			{Name: "check-not-called", File: "bfe_config/bfe_route_conf/host_rule_conf/host_table_load.go", Old: "	// check config\n	if err := HostTableConfCheck(*conf); err != nil {\n		return \"\", err\n	}\n", New: "", Expect: "check-before-use"},
			{Name: "check-error-dropped", File: "bfe_route/server_data_conf.go", Old: "	if err := s.check(); err != nil {\n		return nil, fmt.Errorf(\"ServerDataConf.check Error %s\", err)\n	}", New: "	s.check()", Expect: "closure"},
			{Name: "defaults-not-written-back", File: "bfe_config/bfe_cluster_conf/cluster_conf/cluster_conf_load.go", Old: "		conf[clusterName] = clusterConf\n", New: "", Expect: "copy-write-back"},
			{Name: "hash-header-required-for-one-strategy-only", File: "bfe_config/bfe_cluster_conf/cluster_conf/cluster_conf_load.go", Old: "	if *conf.HashStrategy == ClientIdOnly || *conf.HashStrategy == ClientIdPreferred {", New: "	if *conf.HashStrategy == ClientIdOnly {", Expect: "nil-deref"},
			{Name: "gslb-retrymax-default-removed", File: "bfe_config/bfe_cluster_conf/cluster_conf/cluster_conf_load.go", Old: "	if conf.RetryMax == nil {\n		defaultRetryMax := 2\n		conf.RetryMax = &defaultRetryMax\n	}\n", New: "", Expect: "nil-deref"},
			{Name: "gslb-retrymax-default-conditional", File: "bfe_config/bfe_cluster_conf/cluster_conf/cluster_conf_load.go", Old: "	if conf.RetryMax == nil {", New: "	if conf.RetryMax == nil && conf.HashConf != nil {", Expect: "nil-deref"},
			// behaviour-preserving edits: the verdict must not change
			{Name: "silent-extract-advanced-cross-reference", Silent: true, File: "bfe_route/server_data_conf.go",
				Old: "	// check cluster_name of advanced rule in route and cluster_conf\n	for _, routeRules := range s.HostTable.productAdvancedRouteTable {\n		for _, routeRule := range routeRules {\n			if _, err := s.ClusterTable.Lookup(routeRule.ClusterName); err != nil {\n				return fmt.Errorf(\"cluster[%s] in advanced route should exist in cluster_conf\",\n					routeRule.ClusterName)\n			}\n		}\n	}\n",
				New: "	// check cluster_name of advanced rule in route and cluster_conf\n	checkAdvanced := func() error {\n		for _, rules := range s.HostTable.productAdvancedRouteTable {\n			for _, rule := range rules {\n				_, lookupErr := s.ClusterTable.Lookup(rule.ClusterName)\n				if lookupErr == nil {\n					continue\n				}\n				return fmt.Errorf(\"cluster[%s] in advanced route should exist in cluster_conf\",\n					rule.ClusterName)\n			}\n		}\n		return nil\n	}\n	if err := checkAdvanced(); err != nil {\n		return err\n	}\n"},
			{Name: "silent-hosttable-switch-and-named-bool", Silent: true, File: "bfe_config/bfe_route_conf/host_rule_conf/host_table_load.go",
				Old: "	if conf.Version == nil {\n		return errors.New(\"no Version\")\n	}\n\n	if conf.Hosts == nil {\n		return errors.New(\"no Hosts\")\n	}\n\n	if conf.HostTags == nil {\n		return errors.New(\"no HostTags\")\n	}\n\n	// check config for each product\n	for product, hostTagList := range *conf.HostTags {\n		if hostTagList == nil {\n			return fmt.Errorf(\"no HostTagList for %s\", product)\n		}\n	}\n",
				New: "	switch {\n	case conf.Version == nil:\n		return errors.New(\"no Version\")\n	case conf.Hosts == nil:\n		return errors.New(\"no Hosts\")\n	case nil == conf.HostTags:\n		return errors.New(\"no HostTags\")\n	}\n\n	// check config for each product\n	for product, hostTagList := range *conf.HostTags {\n		present := hostTagList != nil\n		if present {\n			continue\n		}\n		return fmt.Errorf(\"no HostTagList for %s\", product)\n	}\n"},
			{Name: "silent-maxconns-named-bool", Silent: true, File: "bfe_config/bfe_cluster_conf/cluster_conf/cluster_conf_load.go",
				Old: "	if conf.MaxConnsPerHost == nil || *conf.MaxConnsPerHost < 0 {\n",
				New: "	unsetConns := conf.MaxConnsPerHost == nil || *conf.MaxConnsPerHost < 0\n	if unsetConns {\n"},
			{Name: "silent-cluster-copy-explicit", Silent: true, File: "bfe_config/bfe_cluster_conf/cluster_conf/cluster_conf_load.go",
				Old: "	for clusterName, clusterConf := range conf {\n		err := ClusterConfCheck(&clusterConf)\n		if err != nil {\n			return fmt.Errorf(\"conf for %s:%s\", clusterName, err.Error())\n		}\n		conf[clusterName] = clusterConf\n	}",
				New: "	for clusterName := range conf {\n		checked := conf[clusterName]\n		if err := ClusterConfCheck(&checked); err != nil {\n			return fmt.Errorf(\"conf for %s:%s\", clusterName, err.Error())\n		}\n		conf[clusterName] = checked\n	}"},
		},
	})
}

// inLoaderScope: the loaders of the host/vip/route/cluster/gslb/cluster-table files and their first consumer.
func inLoaderScope(rel string) bool {
	return strings.HasPrefix(rel, "bfe_config/bfe_route_conf/") || strings.HasPrefix(rel, "bfe_config/bfe_cluster_conf/") || rel == "bfe_route"
}

// nilRejecting: functions that reject a nil pointer parameter with an error on every success path -> param index.
func nilRejecting(fns []*ssa.Function) map[*ssa.Function]map[int]bool {
	out := map[*ssa.Function]map[int]bool{}
	for _, fn := range fns {
		for _, in := range allInstrs(fn) {
			t, ok := rNilTestOf(in)
			if !ok {
				continue
			}
			p, ok := t.V.(*ssa.Parameter)
			if !ok {
				continue
			}
			// the nil branch never reaches a success return, and the test is on every success path
			if !t.rejectsOrDefaults() || !rOnEverySuccessPath(fn, in) {
				continue
			}
			if i := paramIndex(p); i >= 0 {
				if out[fn] == nil {
					out[fn] = map[int]bool{}
				}
				out[fn][i] = true
			}
		}
	}
	return out
}

// missIsError: f returns a non-nil error wherever the value accepted by isErr is
// non-nil; when f is a private helper of the region, each of its callers does
// the same with f's error result, up to the region's root.
func missIsError(rg *rRegion, f *ssa.Function, isErr func(ssa.Value) bool, depth int) bool {
	ok := false
	for _, r := range core.Returns(f) {
		rv := core.RetVals(r)
		if len(rv) >= 1 && !isNilConst(rv[len(rv)-1]) && isErrorType(rv[len(rv)-1].Type()) && rHolds(rg.p, r.Block(), rNonNil(isErr)) {
			ok = true
		}
	}
	if !ok || f == rg.root {
		return ok
	}
	if depth <= 0 || len(rg.sites[f]) == 0 {
		return false
	}
	n := f.Signature.Results().Len()
	for _, s := range rg.sites[f] {
		call, isCall := s.(*ssa.Call)
		if !isCall {
			return false
		}
		isRes := func(v ssa.Value) bool {
			v = core.StripConv(v)
			if n == 1 {
				return v == ssa.Value(call)
			}
			ex, isEx := v.(*ssa.Extract)
			return isEx && ex.Tuple == ssa.Value(call) && ex.Index == n-1
		}
		if !missIsError(rg, s.Parent(), isRes, depth-1) {
			return false
		}
	}
	return true
}

func declaredUnderConfig(t types.Type) bool {
	if p, ok := t.(*types.Pointer); ok {
		t = p.Elem()
	}
	n, ok := t.(*types.Named)
	if !ok || n.Obj().Pkg() == nil {
		return false
	}
	return strings.HasPrefix(n.Obj().Pkg().Path(), core.ModPath+"/bfe_config/")
}

// optValue describes a pointer value read from a config object.
type optValue struct {
	kind string // "field" or "elem"
	key  string // field: "pkg.Type.Field"; elem: named container type
	v    ssa.Value
}

// classifyOpt: is v a pointer loaded from a pointer-typed field of a config
// struct, or a pointer element of a config container?
func classifyOpt(v ssa.Value) (optValue, bool) {
	if _, isPtr := v.Type().Underlying().(*types.Pointer); !isPtr {
		return optValue{}, false
	}
	switch x := v.(type) {
	case *ssa.UnOp:
		if x.Op != token.MUL {
			return optValue{}, false
		}
		switch a := x.X.(type) {
		case *ssa.FieldAddr:
			st := a.X.Type()
			if p, ok := st.Underlying().(*types.Pointer); ok {
				st = p.Elem()
			}
			if declaredUnderConfig(st) {
				fv := core.FieldObj(a.X, a.Field)
				return optValue{"field", core.TypeStr(st) + "." + fv.Name(), v}, true
			}
		case *ssa.IndexAddr:
			if declaredUnderConfig(a.X.Type()) {
				return optValue{"elem", core.TypeStr(a.X.Type()), v}, true
			}
		}
	case *ssa.Field:
		if declaredUnderConfig(x.X.Type()) {
			fv := core.FieldObj(x.X, x.Field)
			return optValue{"field", core.TypeStr(x.X.Type()) + "." + fv.Name(), v}, true
		}
	case *ssa.Lookup:
		if declaredUnderConfig(x.X.Type()) {
			return optValue{"elem", core.TypeStr(x.X.Type()), v}, true
		}
	case *ssa.Extract:
		if nx, ok := x.Tuple.(*ssa.Next); ok && x.Index == 2 {
			if rg, ok := nx.Iter.(*ssa.Range); ok && declaredUnderConfig(rg.X.Type()) {
				return optValue{"elem", core.TypeStr(rg.X.Type()), v}, true
			}
		}
		if lk, ok := x.Tuple.(*ssa.Lookup); ok && x.Index == 0 && declaredUnderConfig(lk.X.Type()) {
			return optValue{"elem", core.TypeStr(lk.X.Type()), v}, true
		}
	}
	return optValue{}, false
}

func nilTestOf(g core.Guard) (v ssa.Value, nonNil bool, ok bool) {
	b, isB := g.Cond.(*ssa.BinOp)
	if !isB || !isNilConst(b.Y) {
		return nil, false, false
	}
	switch b.Op {
	case token.NEQ:
		return b.X, g.Pol, true
	case token.EQL:
		return b.X, !g.Pol, true
	}
	return nil, false, false
}

func runC13(c *core.Ctx) {
	all := c.P.SrcFuncs("")
	// ---- (a) sentinel ---------------------------------------------------------------------
	cn, ok := c.P.Obj("bfe_config/bfe_route_conf/route_rule_conf", "BasicRouteRule.ClusterName").(*types.Var)
	if !ok {
		c.Missing("route_rule_conf.BasicRouteRule.ClusterName")
	} else {
		isBasicName := func(v ssa.Value) bool { return rFieldLoad(v, cn) != nil }
		// the value is (in either spelling or polarity) known to differ from the sentinel
		notSentinel := func(val ssa.Value) func(core.Guard) bool {
			same := func(v ssa.Value) bool {
				v = core.StripConv(v)
				return v == val || core.Render(v) == core.Render(val)
			}
			isAdv := func(v ssa.Value) bool { s, ok := core.ConstString(v); return ok && s == "ADVANCED_MODE" }
			return rCmp(token.NEQ, same, isAdv)
		}
		n := 0
		for _, fn := range all {
			for _, ci := range core.Calls(fn, "bfe_route.ClusterTable.Lookup") {
				arg := core.StripConv(ci.Common().Args[1])
				blk := ci.(ssa.Instruction).Block()
				guarded := false
				switch {
				case isBasicName(arg):
					guarded = rHolds(c.P, blk, notSentinel(arg))
				default:
					// the name arrives through a parameter of a private helper: every call site passes a
					// basic rule's ClusterName, and the sentinel is excluded inside or at every site
					par := rParamOf(arg)
					if par == nil || par.Parent() != fn || (fn.Object() != nil && fn.Object().Exported()) {
						continue
					}
					sites := c.P.CallSites(fn)
					if len(sites) == 0 {
						continue
					}
					allBasic, allGuarded := true, true
					pi := paramIndex(par)
					for _, s := range sites {
						a := core.StripConv(s.Common().Args[pi])
						if !isBasicName(a) {
							allBasic = false
							break
						}
						if !rHolds(c.P, s.Block(), notSentinel(a)) {
							allGuarded = false
						}
					}
					if !allBasic {
						continue
					}
					guarded = allGuarded || rHolds(c.P, blk, notSentinel(arg))
				}
				n++
				c.Check("sentinel", fmt.Sprintf("%s:lookup#%d", core.FuncKey(fn), n), ci.Pos(), guarded, "a basic route rule's ClusterName is looked up as a cluster without excluding the ADVANCED_MODE sentinel: the documented configuration (basic rule -> ADVANCED_MODE) is rejected")
			}
		}
		c.Min("sentinel", 1)
		if k, ok := c.P.Obj("bfe_config/bfe_route_conf/route_rule_conf", "AdvancedMode").(*types.Const); !ok || k.Val().ExactString() != "\"ADVANCED_MODE\"" {
			c.Check("sentinel", "AdvancedMode-const", token.NoPos, false, "route_rule_conf.AdvancedMode is not the documented string ADVANCED_MODE")
		}
	}
	// ---- (b) closure ---------------------------------------------------------------------------
	if chk := c.P.Func("bfe_route", "ServerDataConf.check"); chk == nil {
		c.Missing("bfe_route.ServerDataConf.check")
	} else {
		c.Analysed(core.FuncKey(chk))
		crg := rNewRegion(c.P, chk)
		fieldNamed := func(v ssa.Value, name string) bool {
			return fieldLoadOf(v, name) != nil
		}
		// ranges over the four tables (in check or its private helpers)
		ranged := map[string]bool{}
		crg.instrs(func(in ssa.Instruction) {
			if r, ok := in.(*ssa.Range); ok {
				for _, t := range []string{"productAdvancedRouteTable", "productBasicRouteTree", "productBasicRouteTable", "hostTagTable"} {
					if fieldNamed(r.X, t) {
						ranged[t] = true
					}
				}
			}
		})
		for _, t := range []string{"productAdvancedRouteTable", "productBasicRouteTree", "productBasicRouteTable", "hostTagTable"} {
			c.Check("closure", "check:ranges:"+t, chk.Pos(), ranged[t], "ServerDataConf.check no longer iterates s.HostTable."+t+": references from that table are not cross-checked")
		}
		// a guard that only rejects: the edge not taken cannot reach a success return
		rejectOnly := func(g core.Guard) bool {
			if g.If == nil {
				return false
			}
			other := g.If.Block().Succs[0]
			if g.Pol {
				other = g.If.Block().Succs[1]
			}
			w := &rPaths{}
			env := map[ssa.Value]bool{}
			rSetBool(env, g.Cond, !g.Pol)
			return !w.reach(other, 0, env, nil, rIsSuccessReturn)
		}
		isSentinelTest := func(g core.Guard) bool {
			_, x, y, ok := g.Cmp()
			if !ok {
				return false
			}
			sx, okx := core.ConstString(x)
			sy, oky := core.ConstString(y)
			return (okx && sx == "ADVANCED_MODE") || (oky && sy == "ADVANCED_MODE")
		}
		// cluster lookups: unconditional apart from loop conditions, the sentinel and early rejects
		nl := 0
		loopConds := map[*ssa.Function]map[ssa.Value]bool{}
		for _, ci := range crg.calls("bfe_route.ClusterTable.Lookup") {
			nl++
			var extra []string
			for _, g := range c.P.GuardsAtCtx(ci.(ssa.Instruction).Block()) {
				if g.If != nil {
					f := g.If.Block().Parent()
					if loopConds[f] == nil {
						loopConds[f] = core.LoopConds(f)
					}
					if loopConds[f][g.Cond] {
						continue
					}
				}
				if isSentinelTest(g) || rejectOnly(g) {
					continue
				}
				extra = append(extra, g.Str)
			}
			c.Check("closure", fmt.Sprintf("check:lookup#%d:unconditional", nl), ci.Pos(), len(extra) == 0, "the cluster cross-reference is skipped under "+strings.Join(extra, " && ")+": some accepted rules may name clusters that do not exist")
			// a miss returns an error
			call, _ := ci.(*ssa.Call)
			okErr := false
			if call != nil {
				isErrOfCall := func(v ssa.Value) bool {
					ex, isEx := core.StripConv(v).(*ssa.Extract)
					return isEx && ex.Tuple == ssa.Value(call) && ex.Index == 1
				}
				okErr = missIsError(crg, call.Parent(), isErrOfCall, 3)
			}
			c.Check("closure", fmt.Sprintf("check:lookup#%d:miss-is-error", nl), ci.Pos(), okErr, "a failed cluster lookup does not make check() return an error")
		}
		if nl < 2 {
			c.Check("closure", "check:lookups", chk.Pos(), false, fmt.Sprintf("expected cluster lookups for advanced and basic rules, found %d", nl))
		}
		// product membership: for the advanced table and the basic tree, a product that equals no
		// hostTagTable entry makes check() return an error. The membership test is recognised by role:
		// a flag (or the result of a private helper) that is true only where the product was compared
		// equal to an element of a range over hostTagTable.
		nf := 0
		for _, tbl := range []string{"productAdvancedRouteTable", "productBasicRouteTree"} {
			found := false
			for _, r := range core.Returns(chk) {
				rv := core.RetVals(r)
				if len(rv) != 1 || isNilConst(rv[0]) {
					continue
				}
				// inside the range over tbl
				var key ssa.Value
				for _, g := range core.GuardsAt(r.Block()) {
					if ex, ok := g.Cond.(*ssa.Extract); ok && g.Pol && ex.Index == 0 {
						if nx, ok := ex.Tuple.(*ssa.Next); ok {
							if rg, ok := nx.Iter.(*ssa.Range); ok && fieldNamed(rg.X, tbl) {
								key = nx
							}
						}
					}
				}
				if key == nil {
					continue
				}
				isKey := func(v ssa.Value) bool {
					ex, ok := core.StripConv(v).(*ssa.Extract)
					return ok && ex.Tuple == key && ex.Index == 1
				}
				if rHolds(c.P, r.Block(), func(g core.Guard) bool {
					return !g.Pol && isMembershipFlag(crg, g.Cond, isKey, "hostTagTable", 3)
				}) {
					found = true
				}
			}
			if found {
				nf++
			}
		}
		c.Check("closure", "check:product-membership", chk.Pos(), nf >= 2, fmt.Sprintf("expected two product-membership error exits (advanced table, basic tree), found %d", nf))
	}
	if ld := c.P.Func("bfe_route", "LoadServerDataConf"); ld == nil {
		c.Missing("bfe_route.LoadServerDataConf")
	} else {
		c.Analysed(core.FuncKey(ld))
		calls := core.Calls(ld, "bfe_route.ServerDataConf.check")
		ok := false
		for _, cc := range calls {
			call, isCall := cc.(*ssa.Call)
			if !isCall {
				continue
			}
			good := true
			for _, r := range core.Returns(ld) {
				rv := core.RetVals(r)
				if !isNilConst(rv[len(rv)-1]) {
					continue
				}
				// success return: dominated by check() and guarded by its error being nil
				if !core.Dominates(call, r) || !rHolds(c.P, r.Block(), rCmp(token.EQL, func(v ssa.Value) bool { return core.StripConv(v) == ssa.Value(call) }, isNilConst)) {
					good = false
				}
			}
			if good {
				ok = true
			}
		}
		c.Check("closure", "LoadServerDataConf:check-gates-success", ld.Pos(), ok, "LoadServerDataConf must return a conf only after ServerDataConf.check() returned nil")
	}

	// ---- (b') the two representations of a basic rule carry the same target --------------------
	// convertBasicRule fills the per-product rule list (read by ServerDataConf.check) and the
	// lookup tree (read by routing); both must receive the file's ClusterName untransformed,
	// otherwise check() validates a name routing never uses.
	if cb := c.P.Func("bfe_config/bfe_route_conf/route_rule_conf", "convertBasicRule"); cb == nil {
		c.Missing("route_rule_conf.convertBasicRule")
	} else if cn != nil {
		c.Analysed(core.FuncKey(cb))
		n := 0
		for _, st := range core.FieldStores([]*ssa.Function{cb}, cn) {
			n++
			v := core.StripConv(st.Store.Val)
			plain := false
			if u, ok := v.(*ssa.UnOp); ok && u.Op == token.MUL {
				if ov, ok := classifyOpt(u.X); ok && strings.HasSuffix(ov.key, "BasicRouteRuleFile.ClusterName") {
					plain = true
				}
			}
			c.Check("basic-rule-agree", fmt.Sprintf("convertBasicRule:list#%d", n), st.Store.Pos(), plain, "the ClusterName put into the per-product basic rule list is "+core.Render(v)+", not the file's ClusterName itself; the lookup tree is built from the file value, so the cross-reference check and routing can disagree about the target")
		}
		ins := core.Calls(cb, "bfe_config/bfe_route_conf/route_rule_conf.BasicRouteRuleTree.Insert")
		c.Check("basic-rule-agree", "convertBasicRule:tree", cb.Pos(), len(ins) == 1 && n >= 1, fmt.Sprintf("expected one list store and one tree insert per basic rule, found %d and %d", n, len(ins)))
		if it := c.P.Func("bfe_config/bfe_route_conf/route_rule_conf", "BasicRouteRuleTree.Insert"); it != nil {
			okArg := false
			for _, ci := range core.AllCalls(it) {
				if strings.HasSuffix(core.CalleeKey(ci.Common()), "pathTrees.insert") {
					a := ci.Common().Args[len(ci.Common().Args)-1]
					// the (dereferenced) ClusterName field of Insert's own parameter, whatever it is called
					v := core.StripConv(a)
					for {
						u, isLoad := v.(*ssa.UnOp)
						if !isLoad || u.Op != token.MUL {
							break
						}
						v = u.X
					}
					if fa, isFA := v.(*ssa.FieldAddr); isFA && core.FieldObj(fa.X, fa.Field) != nil && core.FieldObj(fa.X, fa.Field).Name() == "ClusterName" {
						par := rParamOf(fa.X)
						okArg = par != nil && par.Parent() == it
					}
				}
			}
			c.Check("basic-rule-agree", "BasicRouteRuleTree.Insert:cluster", it.Pos(), okArg, "the tree must store the rule file's ClusterName itself")
		}
	}
	// ---- (c') defaults assigned through a copy are written back ------------------------------------
	// A *Check function that fills defaults through a pointer to the range copy of a map element
	// (map of struct values) must store the copy back, or the defaults never reach the table.
	nwb := 0
	for _, fn := range all {
		if !strings.HasPrefix(core.FuncPkgRel(fn), "bfe_config/") {
			continue
		}
		// a struct-valued map element copied into an addressable local (the range value variable or
		// an explicit `v := m[k]`), whose address is passed to a callee
		for _, x := range allInstrs(fn) {
			st, ok := x.(*ssa.Store)
			if !ok {
				continue
			}
			al, ok := st.Addr.(*ssa.Alloc)
			if !ok {
				continue
			}
			var m ssa.Value          // the map
			var next ssa.Instruction // start of the next iteration, if the copy is a range variable
			switch v := st.Val.(type) {
			case *ssa.Extract:
				switch t := v.Tuple.(type) {
				case *ssa.Next:
					if rg, isRg := t.Iter.(*ssa.Range); isRg && v.Index == 2 {
						m, next = rg.X, t
					}
				case *ssa.Lookup:
					if v.Index == 0 {
						m = t.X
					}
				}
			case *ssa.Lookup:
				m = v.X
			}
			if m == nil {
				continue
			}
			mt, ok := m.Type().Underlying().(*types.Map)
			if !ok {
				continue
			}
			if _, isStruct := mt.Elem().Underlying().(*types.Struct); !isStruct {
				continue
			}
			passed := false
			for _, r := range *al.Referrers() {
				if ci, isCall := r.(ssa.CallInstruction); isCall {
					for _, a := range ci.Common().Args {
						if a == ssa.Value(al) {
							passed = true
						}
					}
				}
			}
			if !passed {
				continue
			}
			nwb++
			// the enclosing loop's header starts the next iteration when the copy is not a range variable
			var hdr ssa.Instruction
			if l := rLoopOf(core.Loops(fn), st.Block()); l != nil && len(l.Header.Instrs) > 0 {
				hdr = l.Header.Instrs[0]
			}
			// on every path from the copy to the next iteration / a success return the copy is stored back
			bad := core.ReachAvoiding(fn, st, func(y ssa.Instruction) bool {
				mu, ok := y.(*ssa.MapUpdate)
				if !ok || (mu.Map != m && core.Render(mu.Map) != core.Render(m)) {
					return false
				}
				u, ok := mu.Value.(*ssa.UnOp)
				return ok && u.X == ssa.Value(al)
			}, func(y ssa.Instruction) bool {
				if (next != nil && y == next) || (hdr != nil && y == hdr) {
					return true
				}
				return rIsSuccessReturn(y)
			})
			c.Check("copy-write-back", core.FuncKey(fn), st.Pos(), bad == nil, core.FuncKey(fn)+" passes the address of a copy of a "+core.TypeStr(m.Type())+" element to a callee (which may assign defaults) and can continue without storing the copy back into the map: defaults for omitted sections are lost and later dereferences crash")
		}
	}
	if nwb == 0 {
		c.Check("copy-write-back", "sites", token.NoPos, false, "no range-copy-passed-by-address site found (ClusterToConfCheck was the reviewed instance)")
	}
	// ---- (c) nil before dereference -------------------------------------------------------------------
	// facts from *Check functions
	fieldFact := map[string]string{}
	elemFact := map[string]string{}
	nPartial := map[string]int{}
	nHandled := 0
	for _, fn := range all {
		rel := core.FuncPkgRel(fn)
		if !strings.HasPrefix(rel, "bfe_config/") || !strings.Contains(fn.Name(), "Check") {
			continue
		}
		var loops []*core.Loop
		for _, in := range allInstrs(fn) {
			t, ok := rNilTestOf(in)
			if !ok {
				continue
			}
			ov, ok := classifyOpt(t.V)
			if !ok {
				continue
			}
			// once the value is found nil the file is rejected or a default is assigned, whatever
			// the shape of the code between the test and the return (switch, named boolean, ...)
			if !t.rejectsOrDefaults() {
				// a nil test of an optional value in a Check function that neither rejects nor
				// assigns in its nil branch is a partial default (e.g. "x == nil && other" guarding
				// the assignment): the value may stay nil although the function looks like it
				// normalises it. Users outside the loader packages rely on the normalisation.
				// (`if x != nil { validate(x) }` is the ordinary optional-section idiom, not a default.)
				if ov.kind == "field" && t.EqlForm {
					nPartial[core.FuncKey(fn)+":"+ov.key]++
					c.Check("nil-deref", fmt.Sprintf("%s:%s:nil-branch#%d", core.FuncKey(fn), ov.key, nPartial[core.FuncKey(fn)+":"+ov.key]), t.If.Cond.Pos(), false,
						"the nil test of optional config value "+ov.key+" in "+core.FuncKey(fn)+" neither rejects the file nor assigns a default in its nil branch (the branch is conditional on something else): the value can stay nil after a successful check and is dereferenced by its users")
				}
				continue
			}
			nHandled++
			switch ov.kind {
			case "field":
				// on every success path of the Check
				if rOnEverySuccessPath(fn, in) {
					fieldFact[ov.key] = core.FuncKey(fn)
				}
			case "elem":
				// executed for every element of one loop that is on every success path
				if loops == nil {
					loops = core.Loops(fn)
				}
				blk := t.If.Block()
				if l := rLoopOf(loops, blk); l != nil && rUnconditionalInLoop(fn, blk) && rElemCoversAll(l, t.V) {
					elemFact[ov.key] = core.FuncKey(fn)
				}
			}
		}
	}
	rejecting := nilRejecting(all)
	for _, fn := range all {
		rel := core.FuncPkgRel(fn)
		if !strings.HasPrefix(rel, "bfe_config/") || !strings.Contains(fn.Name(), "Check") {
			continue
		}
		loops := core.Loops(fn)
		for _, ci := range core.AllCalls(fn) {
			sc := ci.Common().StaticCallee()
			if sc == nil || rejecting[sc] == nil {
				continue
			}
			for i, a := range ci.Common().Args {
				if !rejecting[sc][i] {
					continue
				}
				ov, ok := classifyOpt(a)
				if !ok || ov.kind != "elem" {
					continue
				}
				// unconditional within exactly one (non-nested) loop over all elements
				blk := ci.(ssa.Instruction).Block()
				if l := rLoopOf(loops, blk); l != nil && rUnconditionalInLoop(fn, blk) && rElemCoversAll(l, a) {
					elemFact[ov.key] = core.FuncKey(fn) + " via " + core.FuncKey(sc)
				}
			}
		}
	}
	c.Note("nil facts from Check functions: %d fields, %d containers (%d handled nil tests)", len(fieldFact), len(elemFact), nHandled)
	if nHandled < 40 {
		c.Check("nil-deref", "check-nil-tests", token.NoPos, false, fmt.Sprintf("only %d reject-or-default nil tests found in the *Check functions; 50 were reviewed (floor 40)", nHandled))
	}
	// dereference sites
	ord := map[string]int{}
	nSites := 0
	for _, fn := range all {
		rel := core.FuncPkgRel(fn)
		inLoader := inLoaderScope(rel)
		k := core.FuncKey(fn)
		core.Instrs(fn, func(in ssa.Instruction) {
			var p ssa.Value
			switch x := in.(type) {
			case *ssa.UnOp:
				if x.Op == token.MUL {
					p = x.X
				}
			case *ssa.FieldAddr:
				p = x.X
			}
			if p == nil {
				return
			}
			ov, ok := classifyOpt(p)
			if !ok {
				return
			}
			if !inLoader {
				// users outside the loader packages: only optional fields of the routing and
				// cluster configuration (the property's subject), which the loaders normalise
				if ov.kind != "field" || !(strings.HasPrefix(ov.key, "bfe_config/bfe_route_conf/") || strings.HasPrefix(ov.key, "bfe_config/bfe_cluster_conf/")) {
					return
				}
			}
			nSites++
			c.Analysed(k)
			pStr := core.Render(p)
			sameP := func(v ssa.Value) bool { return v == p || core.Render(v) == pStr }
			local := rHolds(c.P, in.Block(), rNonNil(sameP))
			fact := ""
			if ov.kind == "field" {
				fact = fieldFact[ov.key]
			} else {
				fact = elemFact[ov.key]
			}
			// a Check function testing the very field it dereferences later is covered by dominance of its own test
			if !local && fact == "" && strings.Contains(fn.Name(), "Check") {
				for _, x := range allInstrs(fn) {
					if t, isT := rNilTestOf(x); isT && sameP(t.V) && core.Dominates(t.If, in) {
						local = true
					}
				}
			}
			if !local && fact == "" && ov.kind == "field" {
				if callersEstablish(c, all, fn, p) {
					fact = "callers"
				}
			}
			if !local && fact == "" && ov.kind == "field" {
				if why := correlatedFact(all, in, ov); why != "" {
					fact = why
				}
			}
			id := k + ":" + ov.key
			ord[id]++
			if ord[id] > 1 && (local || fact != "") {
				return // one obligation per function and value kind is enough when discharged
			}
			c.Check("nil-deref", fmt.Sprintf("%s#%d", id, ord[id]), in.Pos(), local || fact != "",
				"optional config value "+ov.key+" ("+core.Render(p)+") is dereferenced; no nil test dominates this use and no *Check function of the declaring package rejects/defaults a nil value on every success path: a file that omits it (or sets it to null) crashes the loader instead of being rejected")
		})
	}
	c.Note("%d dereference sites of optional config values inspected", nSites)
	c.Min("nil-deref", 30)
	// decode => check before success
	nDec := 0
	for _, fn := range all {
		rel := core.FuncPkgRel(fn)
		if !strings.HasPrefix(rel, "bfe_config/") {
			continue
		}
		for _, ci := range core.AllCalls(fn) {
			k := core.CalleeKey(ci.Common())
			if !(strings.HasSuffix(k, ".Decoder.Decode") || strings.HasSuffix(k, "json.Unmarshal") || strings.HasSuffix(k, "json.UnmarshalFromString")) {
				continue
			}
			nDec++
			dec := ci.(ssa.Instruction)
			bad := core.ReachAvoiding(fn, dec, core.LiftMust(func(x ssa.Instruction) bool {
				cc, ok := x.(ssa.CallInstruction)
				if !ok {
					return false
				}
				n := core.CalleeKey(cc.Common())
				base := n[strings.LastIndex(n, ".")+1:]
				// route_rule_conf validates while converting the file form (convert -> convertBasicRule/convertAdvancedRule)
				return strings.Contains(base, "Check") || strings.Contains(base, "check") || n == "bfe_config/bfe_route_conf/route_rule_conf.convert"
			}, 2), func(x ssa.Instruction) bool {
				r, isR := x.(*ssa.Return)
				if !isR {
					return false
				}
				rv := core.RetVals(r)
				return len(rv) == 0 || isNilConst(rv[len(rv)-1])
			})
			// loaders that delegate checking to their caller are reviewed by name
			reviewed := map[string]bool{}
			c.Check("check-before-use", core.FuncKey(fn), dec.Pos(), bad == nil || reviewed[core.FuncKey(fn)], core.FuncKey(fn)+" decodes a config file and can return success without having run its Check function: the nil-facts the other loaders rely on are not established")
		}
	}
	c.Note("%d decode sites", nDec)
	// ---- (d) error discipline ----------------------------------------------------------------------------
	nErr := 0
	for _, fn := range all {
		rel := core.FuncPkgRel(fn)
		if !(strings.HasPrefix(rel, "bfe_config/") || rel == "bfe_route") {
			continue
		}
		for _, ci := range core.AllCalls(fn) {
			call, ok := ci.(*ssa.Call)
			if !ok {
				continue
			}
			k := core.CalleeKey(ci.Common())
			base := k[strings.LastIndex(k, ".")+1:]
			interesting := strings.HasSuffix(k, ".Decoder.Decode") || strings.HasSuffix(k, "json.Unmarshal") || strings.Contains(base, "Check") || base == "check" || k == "bfe_basic/condition.Build" || strings.HasSuffix(base, "Load") || strings.HasSuffix(base, "LoadAndCheck")
			if !interesting {
				continue
			}
			res := call.Call.Signature().Results()
			if res.Len() == 0 || !isErrorType(res.At(res.Len()-1).Type()) {
				continue
			}
			nErr++
			used := false
			if res.Len() == 1 {
				used = call.Referrers() != nil && len(*call.Referrers()) > 0
			} else if call.Referrers() != nil {
				for _, r := range *call.Referrers() {
					if ex, isEx := r.(*ssa.Extract); isEx && ex.Index == res.Len()-1 && ex.Referrers() != nil && len(*ex.Referrers()) > 0 {
						used = true
					}
				}
			}
			if !used {
				c.Check("error-dropped", core.FuncKey(fn)+":"+base, ci.Pos(), false, "the error result of "+k+" is dropped in a loader: a malformed or inconsistent file would be accepted")
			}
		}
	}
	c.Check("error-dropped", "sites", token.NoPos, nErr >= 30, fmt.Sprintf("%d error-returning loader calls inspected", nErr))
	_ = sort.Strings
}

// callersEstablish: p is a load of a field of a parameter of fn; every static
// call site of fn passes an object whose same field was tested non-nil before the call.
func callersEstablish(c *core.Ctx, all []*ssa.Function, fn *ssa.Function, p ssa.Value) bool {
	u, ok := p.(*ssa.UnOp)
	if !ok {
		return false
	}
	fa, ok := u.X.(*ssa.FieldAddr)
	if !ok {
		return false
	}
	par, ok := fa.X.(*ssa.Parameter)
	if !ok {
		return false
	}
	idx := -1
	for i, q := range fn.Params {
		if q == par {
			idx = i
		}
	}
	fld := core.FieldObj(fa.X, fa.Field)
	sites := 0
	for _, f := range all {
		for _, ci := range core.AllCalls(f) {
			if ci.Common().StaticCallee() != fn {
				continue
			}
			sites++
			arg := core.Render(ci.Common().Args[idx])
			okSite := core.HasGuard(ci.(ssa.Instruction).Block(), func(g core.Guard) bool {
				v, nonNil, ok := nilTestOf(g)
				if !ok || !nonNil {
					return false
				}
				r := core.Render(v)
				return r == arg+"."+fld.Name() || strings.HasSuffix(r, "."+fld.Name()) && strings.HasPrefix(r, strings.TrimPrefix(arg, "&"))
			})
			if !okSite {
				return false
			}
		}
	}
	return sites > 0
}

// discriminatorTest recognises a guard establishing "*<optional field D> == K"
// (K constant; either operand order, either branch polarity) and returns D's key and K.
func discriminatorTest(g core.Guard) (string, string, bool) {
	op, x, y, ok := g.Cmp()
	if !ok || op != token.EQL {
		return "", "", false
	}
	k, isK := y.(*ssa.Const)
	if !isK {
		x, y = y, x
		k, isK = y.(*ssa.Const)
	}
	if !isK || k.Value == nil {
		return "", "", false
	}
	ld, ok := x.(*ssa.UnOp)
	if !ok || ld.Op != token.MUL {
		return "", "", false
	}
	d, ok := classifyOpt(ld.X)
	if !ok || d.kind != "field" {
		return "", "", false
	}
	return d.key, k.Value.ExactString(), true
}

// correlatedFact: the dereference `in` of optional field F is guarded by "*D == K" for a
// sibling discriminator field D, and a *Check function rejects a nil F on every success path
// that follows its own "*D == K" test (conditionally required value, e.g. HashHeader is
// required exactly for the header-based hash strategies). The paths are followed with the
// truth values they fix, so the test may be spelled with named booleans.
func correlatedFact(all []*ssa.Function, in ssa.Instruction, f optValue) string {
	type dk struct{ d, k string }
	var have []dk
	for _, g := range core.GuardsAt(in.Block()) {
		if d, k, ok := discriminatorTest(g); ok {
			have = append(have, dk{d, k})
		}
	}
	if len(have) == 0 {
		return ""
	}
	for _, fn := range all {
		if !strings.HasPrefix(core.FuncPkgRel(fn), "bfe_config/") || !strings.Contains(fn.Name(), "Check") {
			continue
		}
		// the rejecting nil tests of F in fn
		nilTests := map[ssa.Instruction]bool{}
		for _, x := range allInstrs(fn) {
			t, ok := rNilTestOf(x)
			if !ok {
				continue
			}
			ov, ok := classifyOpt(t.V)
			if !ok || ov.kind != "field" || ov.key != f.key {
				continue
			}
			if t.rejectsOrDefaults() {
				nilTests[x] = true
			}
		}
		if len(nilTests) == 0 {
			continue
		}
		for _, h := range have {
			for _, x := range allInstrs(fn) {
				ifi, ok := x.(*ssa.If)
				if !ok || len(ifi.Block().Succs) != 2 {
					continue
				}
				for e := 0; e < 2; e++ {
					d, k, ok := discriminatorTest(rMkGuard(ifi.Cond, e == 0))
					if !ok || d != h.d || k != h.k {
						continue
					}
					// from the edge on which *D == K holds, no success return is reachable without executing a nil test of F
					tb := ifi.Block().Succs[e]
					env := map[ssa.Value]bool{}
					rSetBool(env, ifi.Cond, e == 0)
					for j, p := range tb.Preds {
						if p != ifi.Block() {
							continue
						}
						for _, pin := range tb.Instrs {
							phi, isPhi := pin.(*ssa.Phi)
							if !isPhi {
								break
							}
							if v, kn := rEvalBool(phi.Edges[j], env); kn {
								env[phi] = v
							}
						}
					}
					w := &rPaths{}
					if !w.reach(tb, 0, env, func(y ssa.Instruction) bool { return nilTests[y] }, rIsSuccessReturn) {
						return "required when " + h.d + " == " + h.k + " (" + core.FuncKey(fn) + ")"
					}
				}
			}
		}
	}
	return ""
}
