package rules

import (
	"fmt"
	"go/token"
	"go/types"
	"sort"
	"strings"

	"golang.org/x/tools/go/ssa"

	"verif/internal/core"
)

// C34 — HTTP/2 outbound DATA respects peer windows and frame order.
func init() {
	Register(&Rule{
		ID: "C34", Section: "5 C34",
		Technique: "feasible-path enumeration of writeScheduler.takeFrom and startFrameWrite with private helpers spliced in, upper bounds proved from the comparisons taken on each path (take amount <= available, maxFrameSize, len(p)), census of queue mutators / channel users / goroutine starts, guard analysis of the single-writer flag and of the stream-state tests",
		Meta: core.Meta{
			Level:       "other",
			Explanation: "Decides: (a) in writeScheduler.takeFrom every flow.take is on the send window of the head frame's own stream and its amount is provably (from `if x < y { y = x }` clamps and branch guards) <= available() of that window, <= ws.maxFrameSize and <= len(p); on every returning path a DATA frame with payload leaves only after exactly one take, a split frame carries p[:n] for the n taken, keeps p[n:] at the head of the queue (no shift), copies the stream and stream id and never sets END_STREAM, a whole frame is shifted off the queue, frames without payload cost nothing; (b) FIFO per stream: writeQueue.s is written only by push (append at the tail), shift (returns s[0], moves s[1:] down) and forgetStream (drop all); writeScheduler.add queues on the queue of wm.stream.id; writeScheduler.take returns only what zero.shift or takeFrom produced; (c) single writer: writeFramer.writeFrame is invoked only in serverConn.writeFrames, which is started by exactly one `go` statement in serve and fed only by startFrameWrite through writeFrameCh; startFrameWrite sends only under !writingFrame and after setting it, writingFrame is cleared only by wroteFrame, every startFrameWrite call in scheduleFrameWrite is under !writingFrame, and the frame taken from the scheduler is the frame started; Framer.WriteData is reached only from writeData.writeFrame; (d) nothing after end/reset: startFrameWrite reaches the send only with no stream or a stream whose state is neither HalfClosedLocal nor Closed; closeStream always forgets the stream's queue; wroteFrame, after a frame for which endsStream() holds, resets an Open stream and closes a HalfClosedRemote one; endsStream reports the endStream flag of DATA/HEADERS writes; (e) peer limits: ws.maxFrameSize is written only from a valid SETTINGS_MAX_FRAME_SIZE (and the 16384 default), the send windows are credited only by WINDOW_UPDATE (right level, the frame's Increment, overflow => FLOW_CONTROL_ERROR), by the SETTINGS_INITIAL_WINDOW_SIZE delta (new - old, every stream) and at creation (peer's initial window / 65535), and each stream's send window is linked to the connection's; (f) the arithmetic shape of flow.available/take/add. How: takeFrom and startFrameWrite are judged over their feasible paths with their private helpers spliced in at the call sites, values resolved along each path (parameter -> argument, phi -> edge taken, result -> value returned) and compared by structure, bounds proved from the comparisons taken on the path; census rules attribute a site in a new unexported helper (not in the reviewed snapshot of bfe_http2, static calls only, not started as a goroutine) to the reviewed functions that call it; so helper extraction/inlining, early returns, switch vs if, named booleans, renamed locals, logging, counters and defensive panics do not change the verdict. Not covered by this technique: a take inside a loop or an anonymous function of takeFrom (reported, not passed); helpers shared by several reviewed functions. Not covered: scheduling interleavings and priorities; which stream is picked; that the handler stops writing after END_STREAM beyond the state tests above; HEADERS/CONTINUATION fragmentation against the peer's frame size (write.go uses the protocol minimum 16384).",
			RuleText:    "obligations = each take in takeFrom x each bound, each path class of takeFrom, each writer of writeQueue.s / maxFrameSize / writingFrame, each user of writeFrameCh, each invoke of writeFrame, each go statement of writeFrames, each startFrameWrite call, each credit of a send window, the state tests of startFrameWrite/wroteFrame/closeStream, the flow methods",
			Assumptions: []string{"Setting.Valid() bounds SETTINGS_MAX_FRAME_SIZE to 2^14..2^24-1 so that int32(ws.maxFrameSize) is positive (C32 parses SETTINGS)", "serveG.Check() enforces at run time that the serve-goroutine functions run on one goroutine (C35 decides the goroutine affinity)"},
		},
		Run: runC34,
		Mutants: []Mutant{
			{Name: "max-frame-clamp-dropped", File: "bfe_http2/writesched.go", Old: "		if int32(ws.maxFrameSize) < allowed {\n			allowed = int32(ws.maxFrameSize)\n		}\n		// TODO: further restrict", New: "		// TODO: further restrict", Expect: "le-max-frame"},
			{Name: "window-clamp-inverted", File: "bfe_http2/writesched.go", Old: "		if int32(ws.maxFrameSize) < allowed {\n			allowed = int32(ws.maxFrameSize)\n		}\n		// TODO: further restrict", New: "		if int32(ws.maxFrameSize) > allowed {\n			allowed = int32(ws.maxFrameSize)\n		}\n		// TODO: further restrict", Expect: "le-window"},
			{Name: "chunk-longer-than-taken", File: "bfe_http2/writesched.go", Old: "			wm.stream.flow.take(allowed)\n", New: "			wm.stream.flow.take(allowed - 1)\n", Expect: "data-path|takeFrom:split"},
			{Name: "split-sets-end-stream", File: "bfe_http2/writesched.go", Old: "					endStream: false,\n", New: "					endStream: wd.endStream,\n", Expect: "data-path|takeFrom:split"},
			{Name: "whole-frame-not-debited", File: "bfe_http2/writesched.go", Old: "		wm.stream.flow.take(int32(len(wd.p)))\n", New: "", Expect: "data-path|takeFrom:whole"},
			{Name: "shift-from-tail", File: "bfe_http2/writesched.go", Old: "	wm := q.s[0]\n	// TODO: less copy-happy queue.", New: "	wm := q.s[len(q.s)-1]\n	// TODO: less copy-happy queue.", Expect: "fifo|shift"},
			{Name: "push-at-head", File: "bfe_http2/writesched.go", Old: "	q.s = append(q.s, wm)\n", New: "	q.s = append([]frameWriteMsg{wm}, q.s...)\n", Expect: "fifo|push"},
			{Name: "single-writer-check-dropped", File: "bfe_http2/server.go", Old: "	if sc.writingFrame {\n		panic(\"internal error: can only be writing one frame at a time\")\n	}\n", New: "", Expect: "single-writer|startFrameWrite"},
			{Name: "second-writer-goroutine", File: "bfe_http2/server.go", Old: "	go sc.writeFrames() // closed by defer sc.conn.Close above\n", New: "	go sc.writeFrames() // closed by defer sc.conn.Close above\n	go sc.writeFrames()\n", Expect: "single-writer|go:serverConn.writeFrames"},
			{Name: "closed-stream-test-dropped", File: "bfe_http2/server.go", Old: "		case stateClosed:\n			if st.sentReset || st.gotReset {", New: "		case stateIdle:\n			if st.sentReset || st.gotReset {", Expect: "stream-state|startFrameWrite"},
			{Name: "reset-keeps-queue", File: "bfe_http2/server.go", Old: "	sc.writeSched.forgetStream(st.id)\n", New: "", Expect: "stream-state|closeStream"},
			{Name: "settings-swapped", File: "bfe_http2/server.go", Old: "	case SettingMaxFrameSize:\n		sc.writeSched.maxFrameSize = s.Val\n	case SettingMaxHeaderListSize:\n		sc.peerMaxHeaderListSize = s.Val", New: "	case SettingMaxFrameSize:\n		sc.peerMaxHeaderListSize = s.Val\n	case SettingMaxHeaderListSize:\n		sc.writeSched.maxFrameSize = s.Val", Expect: "peer-limits|processSetting:max-frame-size"},
			{Name: "window-update-wrong-level", File: "bfe_http2/server.go", Old: "		if !st.flow.add(int32(f.Increment)) {", New: "		if !sc.flow.add(int32(f.Increment)) {", Expect: "peer-limits|processWindowUpdate"},
			{Name: "initial-window-delta-absolute", File: "bfe_http2/server.go", Old: "	growth := sc.initialWindowSize - old // may be negative", New: "	growth := sc.initialWindowSize + 0*old // may be negative", Expect: "peer-limits|processSettingInitialWindowSize"},
			{Name: "data-without-stream", File: "bfe_http2/server.go", Old: "		write:  writeArg,\n		stream: stream,\n		done:   ch,", New: "		write:  writeArg,\n		done:   ch,", Expect: "data-queue|serverConn.writeDataFromHandler:stream-set"},
			{Name: "silent-shift-reslice", Silent: true, File: "bfe_http2/writesched.go", Old: "	copy(q.s, q.s[1:])\n	q.s[len(q.s)-1] = frameWriteMsg{}\n	q.s = q.s[:len(q.s)-1]\n", New: "	q.s[0] = frameWriteMsg{}\n	q.s = q.s[1:]\n"},
			{Name: "silent-clamp-respelled", Silent: true, File: "bfe_http2/writesched.go", Old: "		if int32(ws.maxFrameSize) < allowed {\n			allowed = int32(ws.maxFrameSize)\n		}\n		// TODO: further restrict", New: "		if max := int32(ws.maxFrameSize); allowed > max {\n			allowed = max\n		}\n		// TODO: further restrict"},
			{Name: "silent-log-in-start", Silent: true, File: "bfe_http2/server.go", Old: "	sc.writingFrame = true\n	sc.needsFrameFlush = true\n", New: "	sc.needsFrameFlush = true\n	log.Logger.Debug(\"http2: start write %v\", wm)\n	sc.writingFrame = true\n"},
			// helper extraction (modelled on C34-N1, other sites): the unsplit debit and the hand-over to the writer move into new private methods
			{Name: "silent-extract-whole-debit", Silent: true, File: "bfe_http2/writesched.go", Old: "\t\twm.stream.flow.take(int32(len(wd.p)))\n\t}\n\n\tq.shift()\n\tif q.empty() {\n\t\tws.putEmptyQueue(q)\n\t\tdelete(ws.sq, id)\n\t}\n\treturn wm, true\n}\n\n", New: "\t\tws.debitWhole(wm.stream, wd)\n\t}\n\n\tq.shift()\n\tif q.empty() {\n\t\tws.putEmptyQueue(q)\n\t\tdelete(ws.sq, id)\n\t}\n\treturn wm, true\n}\n\n// debitWhole charges a DATA frame that is sent unsplit to its stream's send window.\nfunc (ws *writeScheduler) debitWhole(strm *stream, data *writeData) {\n\tstrm.flow.take(int32(len(data.p)))\n}\n\n"},
			{Name: "silent-extract-hand-over", Silent: true, File: "bfe_http2/server.go", Old: "\tsc.writingFrame = true\n\tsc.needsFrameFlush = true\n\n\t// Note: for avoid blocking serve goroutine, we let write goroutine to write frame\n\tsc.writeFrameCh <- wm\n}\n", New: "\tsc.handToWriter(wm)\n}\n\n// handToWriter marks the connection busy and passes the frame to the writer goroutine.\nfunc (sc *serverConn) handToWriter(msg frameWriteMsg) {\n\tsc.writingFrame = true\n\tsc.needsFrameFlush = true\n\tsc.writeFrameCh <- msg\n}\n"},
			// named booleans / inverted tests (modelled on the C33-N4 and C34-N2 classes)
			{Name: "silent-named-payload-test", Silent: true, File: "bfe_http2/writesched.go", Old: "\tif wd, ok := wm.write.(*writeData); ok && len(wd.p) > 0 {\n", New: "\twd, isData := wm.write.(*writeData)\n\thasPayload := isData && len(wd.p) > 0\n\tif hasPayload {\n"},
			{Name: "silent-inverted-fit-test", Silent: true, File: "bfe_http2/writesched.go", Old: "\t\tif len(wd.p) > int(allowed) {\n", New: "\t\tfits := len(wd.p) <= int(allowed)\n\t\tif !fits {\n"},
		},
	})
}

func runC34(c *core.Ctx) {
	if c.P.Pkg(h2aPkg) == nil {
		c.Missing(h2aPkg)
		return
	}
	fl := h2aLoadFlows(c)
	if fl == nil {
		return
	}
	h2aCheckFlowType(c, "flow-arith", fl)
	c.Min("flow-arith", 12)
	h2aFlowCensus(c, "outflow-census", fl, map[string]bool{"conn-out": true, "stream-out": true}, map[string][]string{
		"take:stream-out":     {"writeScheduler.takeFrom"},
		"add:conn-out":        {"Server.ServeConn", "serverConn.processWindowUpdate"},
		"add:stream-out":      {"serverConn.processHeaders", "serverConn.processWindowUpdate", "serverConn.processSettingInitialWindowSize"},
		"raw-conn:stream-out": {"serverConn.processHeaders"},
	})
	c.Min("outflow-census", 7)
	c34TakeFrom(c, fl)
	c34DataOnStreamQueue(c)
	c34Fifo(c)
	c34SingleWriter(c)
	c34StreamState(c)
	c34PeerLimits(c, fl)
	h2aDropCache(c)
}

// c34TakeFrom judges writeScheduler.takeFrom together with its private helpers,
// over the feasible paths of the function with the helpers spliced in and over
// values resolved along each path (see x_h2a_r.go): the rule sees the same
// instruction sequences whether the quota computation or the frame split is
// written inline or extracted, whatever the locals are called and however the
// clamps are spelled.
func c34TakeFrom(c *core.Ctx, fl *h2aFlows) {
	fn := h2aFn(c, "writeScheduler.takeFrom")
	mfs := h2aField(c, "writeScheduler.maxFrameSize")
	wdP := h2aField(c, "writeData.p")
	wdSID := h2aField(c, "writeData.streamID")
	wdEnd := h2aField(c, "writeData.endStream")
	fwStream := h2aField(c, "frameWriteMsg.stream")
	fwWrite := h2aField(c, "frameWriteMsg.write")
	if fn == nil || mfs == nil || wdP == nil || wdSID == nil || wdEnd == nil || fwStream == nil || fwWrite == nil || len(fn.Params) != 3 {
		return
	}
	const wsIdx, qIdx = 0, 2
	paths, complete := h2aPathsOf(c, fn, 20000)

	// x is a path with the head of the queue: the first q.head() executed
	type pctx struct {
		p       *h2aIPath
		head    h2aCV
		hasHead bool
	}
	ctxOf := func(p *h2aIPath) *pctx {
		x := &pctx{p: p}
		for _, e := range p.evs {
			if cc := h2aCallOf(e.in, "writeQueue.head"); cc != nil && len(cc.Args) == 1 && p.isRootParam(h2aCV{cc.Args[0], e.fr}, qIdx) {
				if call, isCall := e.in.(*ssa.Call); isCall {
					x.head, x.hasHead = h2aCV{call, e.fr}, true
					break
				}
			}
		}
		return x
	}
	isHead := func(x *pctx, v h2aCV) bool {
		v = x.p.valueOf(v)
		return x.hasHead && v.v == x.head.v && v.fr == x.head.fr
	}
	// isHeadField: v is a load of field fld of the head frame (the q.head() result
	// itself or a local / parameter that holds it when the field is read)
	isHeadField := func(x *pctx, v h2aCV, fld *types.Var) bool {
		cv := x.p.strip(v)
		base, ok := x.p.fieldLoad(cv, fld)
		if !ok || !x.hasHead {
			return false
		}
		if isHead(x, base) {
			return true
		}
		al, isAl := base.v.(*ssa.Alloc)
		if !isAl {
			return false
		}
		at := len(x.p.evs)
		if in, isI := cv.v.(ssa.Instruction); isI {
			if i := x.p.evIndex(in, cv.fr); i >= 0 {
				at = i
			}
		}
		return x.p.holds(al, base.fr, at, x.head)
	}
	// the *writeData of the head
	isHeadData := func(x *pctx, v h2aCV) bool {
		cv := x.p.strip(v)
		var ta *ssa.TypeAssert
		switch y := cv.v.(type) {
		case *ssa.Extract:
			if y.Index != 0 {
				return false
			}
			ta, _ = y.Tuple.(*ssa.TypeAssert)
		case *ssa.TypeAssert:
			ta = y
		}
		return ta != nil && core.TypeStr(ta.AssertedType) == "*"+h2aPkg+".writeData" && isHeadField(x, h2aCV{ta.X, cv.fr}, fwWrite)
	}
	// isHeadP: v is wd.p of the head's writeData as it was queued (read before any
	// store to that field on the path)
	isHeadP := func(x *pctx, v h2aCV) bool {
		cv := x.p.strip(v)
		base, ok := x.p.fieldLoad(cv, wdP)
		if !ok || !isHeadData(x, base) {
			return false
		}
		at := len(x.p.evs)
		if in, isI := cv.v.(ssa.Instruction); isI {
			if i := x.p.evIndex(in, cv.fr); i >= 0 {
				at = i
			}
		}
		for j := 0; j < at; j++ {
			if st, isSt := x.p.evs[j].in.(*ssa.Store); isSt {
				if b, isP := x.p.fieldAddr(h2aCV{st.Addr, x.p.evs[j].fr}, wdP); isP && isHeadData(x, b) {
					return false
				}
			}
		}
		return true
	}

	// static sites of the region
	type takeSite struct {
		in                       ssa.Instruction
		key                      string
		reached                  bool
		own, leWin, leMax, lePay bool
		recvS, amountS           string
	}
	var takes []*takeSite
	siteOf := map[ssa.Instruction]*takeSite{}
	hasHeadCall := false
	h2aRegionInstrs(c, fn, func(g *ssa.Function, in ssa.Instruction) {
		if cc := h2aCallOf(in, "flow.take"); cc != nil && len(cc.Args) == 2 {
			t := &takeSite{in: in, key: fmt.Sprintf("takeFrom:take#%d", len(takes)+1), own: true, leWin: true, leMax: true, lePay: true, recvS: core.Render(cc.Args[0]), amountS: core.Render(cc.Args[1])}
			takes = append(takes, t)
			siteOf[in] = t
		}
		if h2aCallOf(in, "writeQueue.head") != nil {
			hasHeadCall = true
		}
	})
	anyHead := false
	for _, p := range paths {
		if ctxOf(p).hasHead {
			anyHead = true
		}
	}
	c.Check("data-take", "takeFrom:inspects-head", fn.Pos(), hasHeadCall && anyHead, "takeFrom does not start from q.head(): the frame that is debited and the frame that is sent cannot be related")
	if !(hasHeadCall && anyHead) {
		return
	}
	isWhole := func(x *pctx, amount h2aCV) bool {
		d, isLen := x.p.lenOf(amount)
		return isLen && isHeadP(x, d)
	}
	for _, p := range paths {
		x := ctxOf(p)
		for i, e := range p.evs {
			t := siteOf[e.in]
			if t == nil {
				continue
			}
			t.reached = true
			cc := e.in.(ssa.CallInstruction).Common()
			recv, amount := p.strip(h2aCV{cc.Args[0], e.fr}), h2aCV{cc.Args[1], e.fr}
			kind, base := fl.kind(recv.v)
			if !(kind == "stream-out" && isHeadField(x, h2aCV{base, recv.fr}, fwStream)) {
				t.own = false
			}
			isAvail := func(v h2aCV) bool {
				call, cfr := p.callOf(v, "flow.available")
				return call != nil && p.same(h2aCV{call.Call.Args[0], cfr}, recv)
			}
			isMax := func(v h2aCV) bool {
				b, ok := p.fieldLoad(v, mfs)
				return ok && p.isRootParam(b, wsIdx)
			}
			isLenP := func(v h2aCV) bool {
				d, ok := p.lenOf(v)
				return ok && isHeadP(x, d)
			}
			if !p.leq(amount, isAvail, i) {
				t.leWin = false
			}
			if !p.leq(amount, isMax, i) {
				t.leMax = false
			}
			if !p.leq(amount, isLenP, i) {
				t.lePay = false
			}
		}
	}
	for _, t := range takes {
		if !t.reached {
			c.Check("data-take", t.key+":own-stream-window", t.in.Pos(), false, "flow.take lies on no enumerated path of takeFrom (inside a loop or an anonymous function): the rule cannot relate it to the frame that is sent")
			continue
		}
		c.Check("data-take", t.key+":own-stream-window", t.in.Pos(), t.own,
			"flow.take debits "+t.recvS+"; it must debit the send window (stream.flow, which also debits the connection's) of the stream of the frame at the head of the queue")
		c.Check("data-take", t.key+":le-window", t.in.Pos(), t.leWin,
			"cannot prove that the octets debited ("+t.amountS+") are <= available() of the stream's send window (minimum of stream and connection window): a DATA frame could exceed the peer's window")
		c.Check("data-take", t.key+":le-max-frame", t.in.Pos(), t.leMax,
			"cannot prove that the octets debited ("+t.amountS+") are <= ws.maxFrameSize (the peer's SETTINGS_MAX_FRAME_SIZE): a DATA frame could be larger than the peer accepts")
		c.Check("data-take", t.key+":le-payload", t.in.Pos(), t.lePay,
			"cannot prove that the octets debited ("+t.amountS+") are <= len(p) of the frame at the head of the queue")
	}
	c.Min("data-take", 9)

	// path classes
	type agg struct {
		ok     bool
		detail string
		n      int
	}
	res := map[string]*agg{}
	note := func(class string, ok bool, detail string) {
		a := res[class]
		if a == nil {
			a = &agg{ok: true}
			res[class] = a
		}
		a.n++
		if !ok && a.ok {
			a.ok, a.detail = false, detail
		}
	}
	for _, p := range paths {
		if !p.Returned() {
			continue
		}
		x := ctxOf(p)
		rv := p.RootResults()
		if len(rv) != 2 {
			note("shape", false, "takeFrom no longer returns (frameWriteMsg, bool)")
			continue
		}
		sig := h2aFactSig(p)
		type onp struct {
			t      *takeSite
			amount h2aCV
			at     int
		}
		var onPath []onp
		nShift := 0
		for i, e := range p.evs {
			if t := siteOf[e.in]; t != nil {
				onPath = append(onPath, onp{t, p.strip(h2aCV{e.in.(ssa.CallInstruction).Common().Args[1], e.fr}), i})
			}
			if cc := h2aCallOf(e.in, "writeQueue.shift"); cc != nil && len(cc.Args) == 1 && p.isRootParam(h2aCV{cc.Args[0], e.fr}, qIdx) {
				nShift++
			}
		}
		// does the path know the head is DATA with payload?
		hasPayload := false
		for _, cm := range p.cmps(-1) {
			if v, sense, ok := p.posTest(cm); ok && sense {
				if d, isLen := p.lenOf(v); isLen && isHeadP(x, d) {
					hasPayload = true
				}
			}
		}
		if k, isK := p.strip(rv[1]).v.(*ssa.Const); isK && core.Render(k) == "false" {
			note("takeFrom:no-quota", len(onPath) == 0 && nShift == 0, "a path that reports `nothing to send` has debited a window or removed a frame from the queue; path: "+sig)
			continue
		}
		switch {
		case !hasPayload:
			note("takeFrom:no-payload", len(onPath) == 0 && nShift == 1, fmt.Sprintf("a frame without DATA payload must cost nothing and be shifted off the queue once (takes=%d shifts=%d); path: %s", len(onPath), nShift, sig))
		case len(onPath) != 1:
			note("takeFrom:payload", false, fmt.Sprintf("a DATA frame with payload leaves takeFrom after %d flow.take calls (exactly one required); path: %s", len(onPath), sig))
		case isWhole(x, onPath[0].amount):
			note("takeFrom:whole", nShift == 1, fmt.Sprintf("a DATA frame that is sent whole must be shifted off the queue exactly once (shifts=%d); path: %s", nShift, sig))
			// what is returned is the head itself
			note("takeFrom:whole", isHead(x, rv[0]), "the frame returned after debiting len(p) is not the frame at the head of the queue; path: "+sig)
		default:
			t := onPath[0]
			note("takeFrom:split", nShift == 0, "a split DATA frame must leave the remainder at the head of the queue (no shift); path: "+sig)
			// stores on the path: new writeData{streamID, p[:n], false}; wd.p = p[n:]
			okChunk, okRest, okSID, okEnd, okStream := false, false, false, false, false
			for _, e := range p.evs {
				st, ok := e.in.(*ssa.Store)
				if !ok {
					continue
				}
				addr, val := h2aCV{st.Addr, e.fr}, p.strip(h2aCV{st.Val, e.fr})
				if base, ok := p.fieldAddr(addr, wdP); ok {
					sl, isSl := val.v.(*ssa.Slice)
					if isHeadData(x, base) {
						okRest = isSl && isHeadP(x, h2aCV{sl.X, val.fr}) && sl.High == nil && sl.Low != nil && p.same(h2aCV{sl.Low, val.fr}, t.amount)
					} else {
						okChunk = isSl && isHeadP(x, h2aCV{sl.X, val.fr}) && sl.Low == nil && sl.High != nil && p.same(h2aCV{sl.High, val.fr}, t.amount)
					}
				}
				if base, ok := p.fieldAddr(addr, wdSID); ok && !isHeadData(x, base) {
					b2, isSID := p.fieldLoad(val, wdSID)
					okSID = isSID && isHeadData(x, b2)
				}
				if base, ok := p.fieldAddr(addr, wdEnd); ok && !isHeadData(x, base) {
					k, isK := val.v.(*ssa.Const)
					okEnd = isK && core.Render(k) == "false"
				}
				if _, ok := p.fieldAddr(addr, fwStream); ok {
					okStream = isHeadField(x, val, fwStream)
				}
			}
			note("takeFrom:split", okChunk, "the DATA chunk sent is not p[:n] for the n debited from the window ("+core.Render(t.amount.v)+"): more (or other) octets are sent than were taken; path: "+sig)
			note("takeFrom:split", okRest, "after a split the head of the queue does not keep p[n:] for the n debited: octets would be lost or sent twice; path: "+sig)
			note("takeFrom:split", okSID && okStream, "the split DATA frame is not addressed to the stream (id and *stream) of the frame it was cut from; path: "+sig)
			note("takeFrom:split", okEnd, "the split DATA frame may carry END_STREAM although p[n:] is still queued: octets would follow the end of the stream; path: "+sig)
		}
	}
	c.Check("data-path", "takeFrom:paths-enumerated", fn.Pos(), complete && len(paths) > 0, fmt.Sprintf("path enumeration of takeFrom incomplete (%d paths)", len(paths)))
	var keys []string
	for k := range res {
		keys = append(keys, k)
	}
	sort.Strings(keys)
	for _, k := range keys {
		c.Check("data-path", k, fn.Pos(), res[k].ok, res[k].detail)
	}
	for _, want := range []string{"takeFrom:no-quota", "takeFrom:no-payload", "takeFrom:whole", "takeFrom:split"} {
		if res[want] == nil {
			c.Check("data-path", want, fn.Pos(), false, "no path of this class exists in takeFrom any more: the rule cannot relate debits to frames")
		}
	}
	c.Min("data-path", 5)
}

// every DATA write is queued for the stream it is addressed to (a DATA write
// without a stream would travel on the zero queue, which costs no window).
func c34DataOnStreamQueue(c *core.Ctx) {
	fwStream := h2aField(c, "frameWriteMsg.stream")
	fwWrite := h2aField(c, "frameWriteMsg.write")
	wdSID := h2aField(c, "writeData.streamID")
	idFld := h2aField(c, "stream.id")
	if fwStream == nil || fwWrite == nil || wdSID == nil || idFld == nil {
		return
	}
	ord := h2aOrd{}
	for _, fn := range c.P.SrcFuncs(h2aPkg) {
		name := h2aShort(fn)
		var streams []ssa.Value // values stored into frameWriteMsg.stream of DATA messages
		var sites []*ssa.Store
		core.Instrs(fn, func(in ssa.Instruction) {
			st, ok := in.(*ssa.Store)
			if !ok {
				return
			}
			base, ok := h2aFieldAddrOf(st.Addr, fwWrite)
			if !ok {
				return
			}
			mi, isMI := st.Val.(*ssa.MakeInterface)
			if !isMI || core.TypeStr(mi.X.Type()) != "*"+h2aPkg+".writeData" {
				return
			}
			sites = append(sites, st)
			// the stream stored into the same message
			var sv ssa.Value
			core.Instrs(fn, func(in2 ssa.Instruction) {
				if s2, ok := in2.(*ssa.Store); ok {
					if b2, ok := h2aFieldAddrOf(s2.Addr, fwStream); ok && b2 == base {
						sv = s2.Val
					}
				}
			})
			// a parameter of a private helper is what its call sites pass
			okS := sv != nil && h2aEvery(c, sv, func(v ssa.Value) bool {
				if _, isPar := core.StripConv(v).(*ssa.Parameter); isPar && len(h2aParamArgs(c, core.StripConv(v))) > 0 {
					return false // decided by the arguments
				}
				return !h2aIsNil(v)
			}, 3)
			if okS {
				streams = append(streams, sv)
			}
			c.Check("data-queue", ord.key(name+":stream-set"), st.Pos(), okS, "a DATA write is queued in "+name+" without a stream (frameWriteMsg.stream unset or nil): it would be scheduled on the zero queue and sent without debiting any window")
		})
		if len(sites) == 0 {
			continue
		}
		core.Instrs(fn, func(in ssa.Instruction) {
			st, ok := in.(*ssa.Store)
			if !ok {
				return
			}
			if _, ok := h2aFieldAddrOf(st.Addr, wdSID); !ok {
				return
			}
			okID := false
			if b, isID := h2aFieldLoad(st.Val, idFld); isID {
				for _, sv := range streams {
					if h2aSame(b, sv) {
						okID = true
					}
				}
			} else if _, isCopy := h2aFieldLoad(st.Val, wdSID); isCopy {
				// split frame: id copied from the head frame, stream copied from the head message
				for _, sv := range streams {
					if h2aEvery(c, sv, func(v ssa.Value) bool { _, isHeadStream := h2aFieldLoad(v, fwStream); return isHeadStream }, 3) {
						okID = true
					}
				}
			}
			c.Check("data-queue", ord.key(name+":addressed-to-queued-stream"), st.Pos(), okID, "the DATA frame built in "+name+" is addressed to stream id "+core.Render(st.Val)+", which is not the id of the stream whose queue and window it is charged to")
		})
	}
	c.Min("data-queue", 4)
}

func c34Fifo(c *core.Ctx) {
	sFld := h2aField(c, "writeQueue.s")
	if sFld == nil {
		return
	}
	isS := func(v ssa.Value, recv ssa.Value) bool {
		b, ok := h2aFieldLoad(v, sFld)
		return ok && b == recv
	}
	// who writes writeQueue.s
	ord := h2aOrd{}
	n := 0
	for _, st := range core.FieldStores(c.P.SrcFuncs(""), sFld) {
		name := h2aShort(st.Fn)
		who, ok := name, false
		if core.FuncPkgRel(st.Fn) == h2aPkg {
			who, ok = h2aOwnedBy(c, st.Fn, "writeQueue.push", "writeQueue.shift", "writeScheduler.forgetStream")
		}
		n++
		c.Check("fifo", ord.key("writers:"+who), st.Store.Pos(), ok, "writeQueue.s is written in "+name+"; reviewed mutators: push (tail), shift (head), forgetStream (drop all)")
	}
	// element stores through s (s[i] = …) outside the reviewed mutators
	for _, fn := range c.P.SrcFuncs(h2aPkg) {
		name := h2aShort(fn)
		core.Instrs(fn, func(in ssa.Instruction) {
			st, ok := in.(*ssa.Store)
			if !ok {
				return
			}
			ia, ok := st.Addr.(*ssa.IndexAddr)
			if !ok {
				return
			}
			if _, isS := h2aFieldLoad(ia.X, sFld); !isS {
				return
			}
			who, okW := h2aOwnedBy(c, fn, "writeQueue.shift", "writeScheduler.forgetStream")
			zero := false
			if k, isK := st.Val.(*ssa.Const); isK && k.Value == nil {
				zero = true
			}
			c.Check("fifo", ord.key("element-writers:"+who), st.Pos(), okW && zero, "an element of writeQueue.s is overwritten in "+name+" with "+core.Render(st.Val)+"; only clearing (zero value) in shift/forgetStream is reviewed")
		})
	}
	if fn := h2aFn(c, "writeQueue.push"); fn != nil && len(fn.Params) == 2 {
		recv, wm := fn.Params[0], fn.Params[1]
		for _, st := range core.FieldStores([]*ssa.Function{fn}, sFld) {
			call, isCall := st.Store.Val.(*ssa.Call)
			ok := false
			if isCall {
				if b, isB := call.Call.Value.(*ssa.Builtin); isB && b.Name() == "append" && len(call.Call.Args) == 2 && isS(call.Call.Args[0], recv) {
					// the appended slice holds exactly wm
					if sl, isSl := call.Call.Args[1].(*ssa.Slice); isSl {
						if al, isAl := sl.X.(*ssa.Alloc); isAl && al.Referrers() != nil {
							cnt := 0
							for _, r := range *al.Referrers() {
								if ia, isIA := r.(*ssa.IndexAddr); isIA && ia.Referrers() != nil {
									for _, rr := range *ia.Referrers() {
										if s2, isSt := rr.(*ssa.Store); isSt {
											cnt++
											ok = s2.Val == ssa.Value(wm)
										}
									}
								}
							}
							ok = ok && cnt == 1
						}
					}
				}
			}
			c.Check("fifo", "push:appends-at-tail", st.Store.Pos(), ok, "writeQueue.push must store append(q.s, wm) (tail insertion); stores "+core.Render(st.Store.Val))
		}
	}
	headElem := func(v ssa.Value, recv ssa.Value) bool { // q.s[0]
		ld, ok := v.(*ssa.UnOp)
		if !ok || ld.Op != token.MUL {
			return false
		}
		ia, ok := ld.X.(*ssa.IndexAddr)
		if !ok || !isS(ia.X, recv) {
			return false
		}
		k, isK := h2aInt(ia.Index)
		return isK && k == 0
	}
	if fn := h2aFn(c, "writeQueue.head"); fn != nil && len(fn.Params) == 1 {
		for i, r := range core.Returns(fn) {
			c.Check("fifo", fmt.Sprintf("head:returns-first#%d", i), r.Pos(), len(r.Results) == 1 && headElem(r.Results[0], fn.Params[0]), "writeQueue.head must return q.s[0]; returns "+core.Render(r.Results[0]))
		}
	}
	if fn := h2aFn(c, "writeQueue.shift"); fn != nil && len(fn.Params) == 1 {
		recv := fn.Params[0]
		var sStore *ssa.Store
		for _, st := range core.FieldStores([]*ssa.Function{fn}, sFld) {
			sStore = st.Store
		}
		for i, r := range core.Returns(fn) {
			ok := len(r.Results) == 1 && headElem(r.Results[0], recv)
			if ok && sStore != nil {
				// the element is read before the queue is changed
				ld := r.Results[0].(ssa.Instruction)
				ok = core.Dominates(ld, sStore)
			}
			c.Check("fifo", fmt.Sprintf("shift:returns-head#%d", i), r.Pos(), ok, "writeQueue.shift must return the element that was q.s[0] before the queue is modified; returns "+core.Render(r.Results[0]))
		}
		okCopy, okTrunc := false, false
		core.Instrs(fn, func(in ssa.Instruction) {
			call, ok := in.(*ssa.Call)
			if !ok {
				return
			}
			if b, isB := call.Call.Value.(*ssa.Builtin); isB && b.Name() == "copy" && len(call.Call.Args) == 2 {
				sl, isSl := call.Call.Args[1].(*ssa.Slice)
				if isS(call.Call.Args[0], recv) && isSl && isS(sl.X, recv) && sl.High == nil && sl.Low != nil {
					if k, isK := h2aInt(sl.Low); isK && k == 1 {
						okCopy = true
					}
				}
			}
		})
		if sStore != nil {
			if sl, isSl := sStore.Val.(*ssa.Slice); isSl && isS(sl.X, recv) && sl.Low == nil && sl.High != nil {
				if b, isBin := sl.High.(*ssa.BinOp); isBin && b.Op == token.SUB {
					d, isLen := h2aLenOf(b.X)
					k, isK := h2aInt(b.Y)
					okTrunc = isLen && isS(d, recv) && isK && k == 1
				}
			}
		}
		if sStore != nil && !(okCopy && okTrunc) {
			// equivalent spelling: q.s = q.s[1:]
			if sl, isSl := sStore.Val.(*ssa.Slice); isSl && isS(sl.X, recv) && sl.High == nil && sl.Low != nil {
				if k, isK := h2aInt(sl.Low); isK && k == 1 {
					okCopy, okTrunc = true, true
				}
			}
		}
		c.Check("fifo", "shift:moves-rest-down", fn.Pos(), okCopy && okTrunc, fmt.Sprintf("writeQueue.shift must keep the order of the remaining frames: copy(q.s, q.s[1:]) and q.s = q.s[:len(q.s)-1], or q.s = q.s[1:] (copy=%v truncate=%v)", okCopy, okTrunc))
	}
	// add: queue chosen by the frame's own stream id; the frame queued is the argument
	if fn := h2aFn(c, "writeScheduler.add"); fn != nil && len(fn.Params) == 2 {
		wm := fn.Params[1]
		fwStream := h2aField(c, "frameWriteMsg.stream")
		idFld := h2aField(c, "stream.id")
		zeroFld := h2aField(c, "writeScheduler.zero")
		isWM := func(v ssa.Value) bool { return h2aRoot(v) == ssa.Value(wm) }
		pushes := 0
		core.Instrs(fn, func(in ssa.Instruction) {
			cc := h2aCallOf(in, "writeQueue.push")
			if cc == nil || len(cc.Args) != 2 {
				return
			}
			pushes++
			okArg := isWM(cc.Args[1])
			okQ := false
			what := ""
			if _, isZero := h2aFieldAddrOf(cc.Args[0], zeroFld); isZero {
				what = "zero"
				// only for frames without a stream
				okQ = core.HasGuard(in.Block(), func(g core.Guard) bool {
					b, ok := g.Cond.(*ssa.BinOp)
					if !ok || !h2aIsNil(b.Y) {
						return false
					}
					if base, isStr := h2aFieldLoad(b.X, fwStream); !isStr || h2aRoot(base) != ssa.Value(wm) {
						return false
					}
					return (b.Op == token.EQL) == g.Pol
				})
			} else if call, isCall := cc.Args[0].(*ssa.Call); isCall && core.CallIs(&call.Call, h2aPkg+".writeScheduler.streamQueue") {
				what = "stream"
				if sb, isID := h2aFieldLoad(call.Call.Args[1], idFld); isID {
					if b2, isStr := h2aFieldLoad(sb, fwStream); isStr && h2aRoot(b2) == ssa.Value(wm) {
						okQ = true
					}
				}
			}
			c.Check("fifo", "add:"+what+"-queue", in.Pos(), okArg && okQ, "writeScheduler.add must push its argument on ws.zero when wm.stream == nil and on streamQueue(wm.stream.id) otherwise; pushes "+core.Render(cc.Args[1])+" on "+core.Render(cc.Args[0]))
		})
		c.Check("fifo", "add:queues-every-frame", fn.Pos(), pushes >= 2 && core.MustPass(fn, nil, core.LiftMust(h2aIsCall("writeQueue.push"), 2)) == nil, "a path through writeScheduler.add returns without queueing the frame")
	}
	// streamQueue: one queue per id
	if fn := h2aFn(c, "writeScheduler.streamQueue"); fn != nil && len(fn.Params) == 2 {
		id := fn.Params[1]
		sq := h2aField(c, "writeScheduler.sq")
		okAll := true
		why := ""
		var inserted ssa.Value
		core.Instrs(fn, func(in ssa.Instruction) {
			if mu, ok := in.(*ssa.MapUpdate); ok {
				if _, isSq := h2aFieldLoad(mu.Map, sq); isSq {
					if mu.Key != ssa.Value(id) {
						okAll, why = false, "a queue is registered under "+core.Render(mu.Key)
					}
					inserted = mu.Value
				}
			}
		})
		for _, r := range core.Returns(fn) {
			v := r.Results[0]
			if v == inserted {
				continue
			}
			e, isE := v.(*ssa.Extract)
			lk, isL := (ssa.Value)(nil), false
			if isE {
				if l, ok := e.Tuple.(*ssa.Lookup); ok {
					lk, isL = l, true
					_, isSq := h2aFieldLoad(l.X, sq)
					if !isSq || l.Index != ssa.Value(id) {
						okAll, why = false, "returns "+core.Render(v)
					}
				}
			}
			if !isL {
				okAll, why = false, "returns "+core.Render(v)
			}
			_ = lk
		}
		c.Check("fifo", "streamQueue:one-queue-per-stream", fn.Pos(), okAll && inserted != nil, "writeScheduler.streamQueue must return ws.sq[streamID] or the queue it has just registered under that id: "+why)
	}
	// take: hands out only zero.shift() / takeFrom() results
	if fn := h2aFn(c, "writeScheduler.take"); fn != nil {
		zeroFld := h2aField(c, "writeScheduler.zero")
		ordT := h2aOrd{}
		var wmSlot *ssa.Alloc
		for _, r := range core.Returns(fn) {
			if len(r.Results) == 2 {
				if ld, ok := r.Results[0].(*ssa.UnOp); ok {
					if al, ok := ld.X.(*ssa.Alloc); ok {
						wmSlot = al
					}
				}
			}
		}
		if wmSlot == nil || wmSlot.Referrers() == nil {
			c.Check("fifo", "take:sources", fn.Pos(), false, "cannot follow the result of writeScheduler.take")
		} else {
			for _, r := range *wmSlot.Referrers() {
				st, ok := r.(*ssa.Store)
				if !ok || st.Addr != ssa.Value(wmSlot) {
					continue
				}
				okSrc := false
				switch v := st.Val.(type) {
				case *ssa.Call:
					if core.CallIs(&v.Call, h2aPkg+".writeQueue.shift") {
						_, okSrc = h2aFieldAddrOf(v.Call.Args[0], zeroFld)
					}
				case *ssa.Extract:
					if call, isCall := v.Tuple.(*ssa.Call); isCall && v.Index == 0 && core.CallIs(&call.Call, h2aPkg+".writeScheduler.takeFrom") {
						okSrc = true
					}
				}
				c.Check("fifo", ordT.key("take:source"), st.Pos(), okSrc, "writeScheduler.take returns "+core.Render(st.Val)+"; frames may only leave through ws.zero.shift() or takeFrom(), which debit and dequeue at the head")
			}
		}
		// takeFrom is given the queue it was registered under
		core.Instrs(fn, func(in ssa.Instruction) {
			cc := h2aCallOf(in, "writeScheduler.takeFrom")
			if cc == nil || len(cc.Args) != 3 {
				return
			}
			ok := false
			switch id := cc.Args[1].(type) {
			case *ssa.Extract: // range key with range value
				if qv, isE := cc.Args[2].(*ssa.Extract); isE && qv.Tuple == id.Tuple && id.Index == 1 && qv.Index == 2 {
					ok = true
				}
			case *ssa.Call:
				ok = core.CallIs(&id.Call, h2aPkg+".writeQueue.streamID") && id.Call.Args[0] == cc.Args[2]
			}
			c.Check("fifo", ordT.key("take:queue-id"), in.Pos(), ok, "takeFrom is called with id "+core.Render(cc.Args[1])+" and queue "+core.Render(cc.Args[2])+" that are not known to belong together: the emptied queue of another stream would be deleted")
		})
	}
	c.Min("fifo", 14)
}

func c34SingleWriter(c *core.Ctx) {
	all := c.P.SrcFuncs("")
	ord := h2aOrd{}
	wfCh := h2aField(c, "serverConn.writeFrameCh")
	wrCh := h2aField(c, "serverConn.wroteFrameCh")
	wFlag := h2aField(c, "serverConn.writingFrame")
	if wfCh == nil || wrCh == nil || wFlag == nil {
		return
	}
	wfIface, _ := c.P.Obj(h2aPkg, "writeFramer.writeFrame").(*types.Func)
	if wfIface == nil {
		c.Missing(h2aPkg + ".writeFramer.writeFrame")
		return
	}
	goStarts := 0
	for _, fn := range all {
		if core.FuncPkgRel(fn) == "" {
			continue
		}
		fn := fn
		name := strings.TrimPrefix(core.FuncKey(fn), h2aPkg+".")
		// within: the site belongs to one of the reviewed functions (itself, a closure
		// that is not started as a goroutine, a new private helper only they call);
		// who is the name the site is reported under
		within := func(names ...string) (who string, ok bool) {
			if core.FuncPkgRel(fn) != h2aPkg {
				return name, false
			}
			return h2aOwnedBy(c, fn, names...)
		}
		core.Instrs(fn, func(in ssa.Instruction) {
			switch x := in.(type) {
			case ssa.CallInstruction:
				cc := x.Common()
				if cc.IsInvoke() && cc.Method == wfIface {
					who, ok := within("serverConn.writeFrames")
					c.Check("single-writer", ord.key("invoke-writeFrame:"+who), in.Pos(), ok, "writeFramer.writeFrame is invoked in "+name+"; frames may be written to the connection only by the writeFrames goroutine")
				}
				if core.CallIs(cc, h2aPkg+".serverConn.writeFrames") {
					_, isGo := in.(*ssa.Go)
					if isGo {
						goStarts++
					}
					_, inServe := within("serverConn.serve")
					c.Check("single-writer", ord.key("go:serverConn.writeFrames"), in.Pos(), isGo && inServe && goStarts == 1, "serverConn.writeFrames is started/called in "+name+"; exactly one `go sc.writeFrames()` in serve is reviewed (a second writer would interleave frames)")
				}
				if core.CallIs(cc, h2aPkg+".Framer.WriteData", h2aPkg+".Framer.WriteDataPadded") {
					who, ok := within("writeData.writeFrame", "Framer.WriteData")
					// a DATA frame with a nil payload carries no octets: it consumes no flow-control window
					if !ok && len(cc.Args) >= 4 {
						if k, isK := cc.Args[3].(*ssa.Const); isK && k.Value == nil {
							ok = true
						}
					}
					if core.FuncPkgRel(fn) != h2aPkg {
						return // other packages have their own framers of other connections
					}
					c.Check("single-writer", ord.key("data-writer:"+who), in.Pos(), ok, "a DATA frame is written by "+name+" outside writeData.writeFrame: it bypasses the scheduler's window accounting")
				}
			case *ssa.Send:
				if _, ok := h2aFieldLoad(x.Chan, wfCh); ok {
					who, ok := within("serverConn.startFrameWrite")
					c.Check("single-writer", ord.key("send-writeFrameCh:"+who), in.Pos(), ok, "a frame is handed to the writer goroutine in "+name+"; only startFrameWrite may do so")
				}
			case *ssa.Select:
				for _, s := range x.States {
					if _, ok := h2aFieldLoad(s.Chan, wfCh); ok {
						who, okU := within("serverConn.writeFrames")
						if s.Send != nil {
							who, okU = within("serverConn.startFrameWrite")
						}
						c.Check("single-writer", ord.key("select-writeFrameCh:"+who), in.Pos(), okU, "writeFrameCh is used in a select in "+name+"; reviewed: receive in writeFrames, send in startFrameWrite")
					}
					if _, ok := h2aFieldLoad(s.Chan, wrCh); ok {
						who, okU := within("serverConn.serve")
						if s.Send != nil {
							who, okU = within("serverConn.writeFrames")
						}
						c.Check("single-writer", ord.key("select-wroteFrameCh:"+who), in.Pos(), okU, "wroteFrameCh is used in "+name+"; reviewed: send in writeFrames, receive in serve")
					}
				}
			case *ssa.UnOp:
				if x.Op == token.ARROW {
					if _, ok := h2aFieldLoad(x.X, wfCh); ok {
						who, ok := within("serverConn.writeFrames")
						c.Check("single-writer", ord.key("recv-writeFrameCh:"+who), in.Pos(), ok, "writeFrameCh is received from in "+name)
					}
				}
			}
		})
	}
	if fn := h2aFn(c, "serverConn.writeFrames"); fn != nil {
		resWM := h2aField(c, "frameWriteResult.wm")
		fwWrite := h2aField(c, "frameWriteMsg.write")
		var written ssa.Value
		core.Instrs(fn, func(in ssa.Instruction) {
			if ci, ok := in.(ssa.CallInstruction); ok && ci.Common().IsInvoke() && ci.Common().Method == wfIface {
				if b, isW := h2aFieldLoad(ci.Common().Value, fwWrite); isW {
					written = h2aRoot(b)
				}
			}
		})
		okRep := false
		core.Instrs(fn, func(in ssa.Instruction) {
			if st, ok := in.(*ssa.Store); ok && resWM != nil {
				if _, isR := h2aFieldAddrOf(st.Addr, resWM); isR {
					okRep = written != nil && h2aRoot(st.Val) == written
				}
			}
		})
		c.Check("single-writer", "writeFrames:reports-written-frame", fn.Pos(), okRep, "writeFrames does not report back (frameWriteResult.wm) the frame it has just written: wroteFrame would apply END_STREAM bookkeeping to another frame")
	}
	if goStarts == 0 {
		c.Check("single-writer", "go:serverConn.writeFrames", token.NoPos, false, "no `go sc.writeFrames()` found")
	}
	// writingFrame writers
	for _, st := range core.FieldStores(c.P.SrcFuncs(h2aPkg), wFlag) {
		name := h2aShort(st.Fn)
		v := core.Render(st.Store.Val)
		who, ok := name, false
		switch v {
		case "true":
			who, ok = h2aOwnedBy(c, st.Fn, "serverConn.startFrameWrite")
		case "false":
			who, ok = h2aOwnedBy(c, st.Fn, "serverConn.wroteFrame")
		}
		c.Check("single-writer", ord.key("writingFrame:"+who+"="+v), st.Store.Pos(), ok, "sc.writingFrame is set to "+v+" in "+name+"; reviewed: true in startFrameWrite, false in wroteFrame (after the writer goroutine reported back)")
	}
	flagClear := func(g core.Guard) bool { // writingFrame known false
		base, ok := h2aFieldLoad(g.Cond, wFlag)
		return ok && base != nil && !g.Pol
	}
	// startFrameWrite, over its paths with private helpers spliced in: every path
	// that hands a frame to the writer has found the flag clear, has set it, and
	// hands over the frame it was given
	if fn := h2aFn(c, "serverConn.startFrameWrite"); fn != nil {
		paths, complete := h2aPathsOf(c, fn, 5000)
		nSend := 0
		okGuard, okBusy, okHand := complete, complete, complete && len(fn.Params) == 2
		var pos token.Pos
		handed := ""
		for _, p := range paths {
			for i, e := range p.evs {
				var sent h2aCV
				switch x := e.in.(type) {
				case *ssa.Send:
					if _, isCh := p.fieldLoad(h2aCV{x.Chan, e.fr}, wfCh); !isCh {
						continue
					}
					sent = h2aCV{x.X, e.fr}
				case *ssa.Select:
					found := false
					for _, st := range x.States {
						if _, isCh := p.fieldLoad(h2aCV{st.Chan, e.fr}, wfCh); isCh && st.Send != nil {
							sent, found = h2aCV{st.Send, e.fr}, true
						}
					}
					if !found {
						continue
					}
				default:
					continue
				}
				nSend++
				pos = e.in.Pos()
				clear, busy := false, false
				for _, f := range p.facts {
					if f.at >= i {
						continue
					}
					if v, pol := p.boolFact(f); !pol {
						if _, isFlag := p.fieldLoad(v, wFlag); isFlag {
							clear = true
						}
					}
				}
				for j := 0; j < i; j++ {
					if st, isSt := p.evs[j].in.(*ssa.Store); isSt {
						if _, isF := p.fieldAddr(h2aCV{st.Addr, p.evs[j].fr}, wFlag); isF {
							k, isK := p.strip(h2aCV{st.Val, p.evs[j].fr}).v.(*ssa.Const)
							busy = isK && core.Render(k) == "true"
						}
					}
				}
				if !clear {
					okGuard = false
				}
				if !busy {
					okBusy = false
				}
				if len(fn.Params) == 2 && !p.isRootParam(p.rootOf(p.valueOf(sent), nil), 1) {
					okHand, handed = false, core.Render(p.strip(sent).v)
				}
			}
		}
		if nSend == 0 {
			c.Check("single-writer", "startFrameWrite:hands-over", fn.Pos(), false, "startFrameWrite no longer sends the frame on writeFrameCh")
		} else {
			c.Check("single-writer", "startFrameWrite:guard", pos, okGuard, "the frame is handed to the writer without having established !sc.writingFrame: two frames could be in flight and be written in either order")
			c.Check("single-writer", "startFrameWrite:marks-busy", pos, okBusy, "sc.writingFrame is not set before the frame is handed to the writer")
			c.Check("single-writer", "startFrameWrite:hands-over", pos, okHand, "startFrameWrite hands "+handed+" to the writer, not the frame it was given")
		}
	}
	if fn := h2aFn(c, "serverConn.wroteFrame"); fn != nil {
		for _, st := range core.FieldStores([]*ssa.Function{fn}, wFlag) {
			ok := core.HasGuard(st.Store.Block(), func(g core.Guard) bool {
				base, ok := h2aFieldLoad(g.Cond, wFlag)
				return ok && base != nil && g.Pol
			})
			c.Check("single-writer", "wroteFrame:was-busy", st.Store.Pos(), ok, "wroteFrame clears sc.writingFrame without having checked that a write was in flight")
		}
	}
	h2aCallerCensus(c, "single-writer", "serverConn.startFrameWrite", "serverConn.scheduleFrameWrite")
	h2aCallerCensus(c, "single-writer", "serverConn.wroteFrame", "serverConn.serve")
	h2aCallerCensus(c, "single-writer", "writeScheduler.take", "serverConn.scheduleFrameWrite")
	h2aCallerCensus(c, "single-writer", "writeScheduler.takeFrom", "writeScheduler.take")
	h2aCallerCensus(c, "single-writer", "writeScheduler.add", "serverConn.writeFrame")
	if fn := h2aFn(c, "serverConn.scheduleFrameWrite"); fn != nil {
		ordS := h2aOrd{}
		// also in a private helper of scheduleFrameWrite: the guard then holds at its call site
		h2aRegionInstrs(c, fn, func(g *ssa.Function, in ssa.Instruction) {
			if cc := h2aCallOf(in, "serverConn.startFrameWrite"); cc != nil {
				c.Check("single-writer", ordS.key("scheduleFrameWrite:start-when-idle"), in.Pos(), c.P.HasGuardCtx(in.Block(), flagClear), "scheduleFrameWrite starts a frame write without having established !sc.writingFrame")
			}
		})
		// the frame taken from the scheduler is started on every path
		for _, tk := range core.Calls(fn, h2aPkg+".writeScheduler.take") {
			call, ok := tk.(*ssa.Call)
			if !ok {
				continue
			}
			var okEdge *ssa.BasicBlock
			for _, b := range fn.Blocks {
				if ifi, isIf := b.Instrs[len(b.Instrs)-1].(*ssa.If); isIf {
					if e, isE := ifi.Cond.(*ssa.Extract); isE && e.Tuple == ssa.Value(call) && e.Index == 1 {
						okEdge = b.Succs[0]
					}
				}
			}
			good := false
			if okEdge != nil {
				isStart := func(x ssa.Instruction) bool {
					cc := h2aCallOf(x, "serverConn.startFrameWrite")
					if cc == nil || len(cc.Args) != 2 {
						return false
					}
					e, isE := cc.Args[1].(*ssa.Extract)
					return isE && e.Tuple == ssa.Value(call) && e.Index == 0
				}
				first := okEdge.Instrs[0]
				good = isStart(first) || core.ReachAvoiding(fn, first, isStart, core.IsReturn) == nil
			}
			c.Check("single-writer", "scheduleFrameWrite:taken-frame-started", call.Pos(), good, "a frame removed from the scheduler (window already debited) is not passed to startFrameWrite on every path: it would be lost, or a different frame would be written")
		}
	}
	c.Min("single-writer", 18)
}

func c34StreamState(c *core.Ctx) {
	stateFld := h2aField(c, "stream.state")
	fwStream := h2aField(c, "frameWriteMsg.stream")
	wfCh := h2aField(c, "serverConn.writeFrameCh")
	hcl, ok1 := h2aConst(c, "stateHalfClosedLocal")
	closed, ok2 := h2aConst(c, "stateClosed")
	open, ok3 := h2aConst(c, "stateOpen")
	hcr, ok4 := h2aConst(c, "stateHalfClosedRemote")
	if stateFld == nil || fwStream == nil || wfCh == nil || !ok1 || !ok2 || !ok3 || !ok4 {
		return
	}
	// stateTest: guard establishes state ==/!= k
	stateTest := func(g core.Guard) (k int64, equal bool, ok bool) {
		b, isBin := g.Cond.(*ssa.BinOp)
		if !isBin || (b.Op != token.EQL && b.Op != token.NEQ) {
			return 0, false, false
		}
		if _, isState := h2aFieldLoad(b.X, stateFld); !isState {
			return 0, false, false
		}
		kk, isK := h2aInt(b.Y)
		if !isK {
			return 0, false, false
		}
		return kk, (b.Op == token.EQL) == g.Pol, true
	}
	// startFrameWrite: every path (private helpers spliced in) that reaches the send
	// has established that the frame has no stream, or that the stream's state is
	// neither HalfClosedLocal nor Closed - as `!= K` tests, switch cases not taken,
	// or `== K'` for another state
	if fn := h2aFn(c, "serverConn.startFrameWrite"); fn != nil {
		paths, complete := h2aPathsOf(c, fn, 5000)
		nSend, okAll := 0, complete
		var pos token.Pos
		why := ""
		for _, p := range paths {
			for i, e := range p.evs {
				isSend := false
				switch x := e.in.(type) {
				case *ssa.Send:
					_, isSend = p.fieldLoad(h2aCV{x.Chan, e.fr}, wfCh)
				case *ssa.Select:
					for _, st := range x.States {
						if _, isCh := p.fieldLoad(h2aCV{st.Chan, e.fr}, wfCh); isCh && st.Send != nil {
							isSend = true
						}
					}
				}
				if !isSend {
					continue
				}
				nSend++
				pos = e.in.Pos()
				noStream, exHCL, exClosed := false, false, false
				for _, cm := range p.cmps(i) {
					if cm.op != token.EQL && cm.op != token.NEQ {
						continue
					}
					for _, xy := range [][2]h2aCV{{cm.x, cm.y}, {cm.y, cm.x}} {
						if _, isStr := p.fieldLoad(xy[0], fwStream); isStr && p.isNil(xy[1]) && cm.op == token.EQL {
							noStream = true
						}
						if _, isState := p.fieldLoad(xy[0], stateFld); isState {
							if k, isK := p.intOf(xy[1]); isK {
								switch {
								case cm.op == token.EQL && k != hcl && k != closed:
									exHCL, exClosed = true, true
								case cm.op == token.NEQ && k == hcl:
									exHCL = true
								case cm.op == token.NEQ && k == closed:
									exClosed = true
								}
							}
						}
					}
				}
				if !(noStream || (exHCL && exClosed)) && okAll {
					okAll, why = false, " (path: "+h2aFactSig(p)+")"
				}
			}
		}
		if nSend > 0 {
			c.Check("stream-state", "startFrameWrite:not-after-end", pos, okAll, "a frame can be handed to the writer for a stream whose state was not established to be neither HalfClosedLocal (we sent END_STREAM) nor Closed (reset): something would be sent after the stream ended"+why)
		} else {
			c.Check("stream-state", "startFrameWrite:not-after-end", fn.Pos(), false, "startFrameWrite no longer sends on writeFrameCh")
		}
	}
	if fn := h2aFn(c, "serverConn.closeStream"); fn != nil && len(fn.Params) >= 2 {
		idFld := h2aField(c, "stream.id")
		// the stream being closed: the parameter itself or, in a private helper of
		// closeStream, a parameter that receives it at every call site
		isSt := func(v ssa.Value) bool {
			return h2aEvery(c, v, func(x ssa.Value) bool { return core.StripConv(x) == ssa.Value(fn.Params[1]) }, 3)
		}
		isForget := func(in ssa.Instruction) bool {
			cc := h2aCallOf(in, "writeScheduler.forgetStream")
			if cc == nil || len(cc.Args) != 2 {
				return false
			}
			b, ok := h2aFieldLoad(cc.Args[1], idFld)
			return ok && isSt(b)
		}
		c.Check("stream-state", "closeStream:forgets-queue", fn.Pos(), core.MustPass(fn, nil, core.LiftMust(isForget, 2)) == nil, "a path through closeStream returns without writeSched.forgetStream(st.id): frames queued for a closed/reset stream stay schedulable")
		isClosedStore := func(in ssa.Instruction) bool {
			st, ok := in.(*ssa.Store)
			if !ok {
				return false
			}
			b, isState := h2aFieldAddrOf(st.Addr, stateFld)
			k, isK := h2aInt(st.Val)
			return isState && isSt(b) && isK && k == closed
		}
		c.Check("stream-state", "closeStream:marks-closed", fn.Pos(), core.MustPass(fn, nil, core.LiftMust(isClosedStore, 2)) == nil, "a path through closeStream returns without setting st.state = stateClosed: startFrameWrite's test could not see the stream is gone")
	}
	if fn := h2aFn(c, "serverConn.wroteFrame"); fn != nil {
		// under endsStream(...) == true: Open -> resetStream, HalfClosedRemote -> closeStream
		ended := func(b *ssa.BasicBlock) bool {
			return core.HasGuard(b, func(g core.Guard) bool {
				call, ok := g.Cond.(*ssa.Call)
				return ok && g.Pol && core.CallIs(&call.Call, h2aPkg+".endsStream")
			})
		}
		inState := func(b *ssa.BasicBlock, want int64) bool {
			return core.HasGuard(b, func(g core.Guard) bool {
				k, eq, ok := stateTest(g)
				return ok && eq && k == want
			})
		}
		okOpen, okHCR := false, false
		core.Instrs(fn, func(in ssa.Instruction) {
			if h2aCallOf(in, "serverConn.resetStream") != nil && ended(in.Block()) && inState(in.Block(), open) {
				okOpen = true
			}
			if h2aCallOf(in, "serverConn.closeStream") != nil && ended(in.Block()) && inState(in.Block(), hcr) {
				okHCR = true
			}
		})
		c.Check("stream-state", "wroteFrame:end-closes-open", fn.Pos(), okOpen, "after writing a frame for which endsStream() holds, an Open stream is not reset/closed: later frames for it would still pass startFrameWrite")
		c.Check("stream-state", "wroteFrame:end-closes-half-closed", fn.Pos(), okHCR, "after writing a frame for which endsStream() holds, a HalfClosedRemote stream is not closed")
		// endsStream is asked about the frame that was written
		okArg := false
		core.Instrs(fn, func(in ssa.Instruction) {
			if cc := h2aCallOf(in, "endsStream"); cc != nil && len(cc.Args) == 1 {
				_, okArg = h2aFieldLoad(cc.Args[0], h2aField(c, "frameWriteMsg.write"))
			}
		})
		c.Check("stream-state", "wroteFrame:asks-written-frame", fn.Pos(), okArg, "wroteFrame does not evaluate endsStream on the written frame's write")
	}
	if fn := h2aFn(c, "endsStream"); fn != nil {
		n := 0
		for _, r := range core.Returns(fn) {
			if len(r.Results) != 1 || core.Render(r.Results[0]) == "false" {
				continue
			}
			ld, isLd := r.Results[0].(*ssa.UnOp)
			ok := false
			tname := ""
			if isLd {
				if fa, isFA := ld.X.(*ssa.FieldAddr); isFA {
					if fo := core.FieldObj(fa.X, fa.Field); fo != nil && fo.Name() == "endStream" {
						tname = core.TypeStr(fa.X.Type())
						ok = tname == "*"+h2aPkg+".writeData" || tname == "*"+h2aPkg+".writeResHeaders"
					}
				}
			}
			n++
			c.Check("stream-state", "endsStream:"+strings.TrimPrefix(tname, "*"+h2aPkg+"."), r.Pos(), ok, "endsStream returns "+core.Render(r.Results[0])+"; it must report the endStream flag of the DATA / HEADERS write")
		}
		c.Check("stream-state", "endsStream:covers-data-and-headers", fn.Pos(), n >= 2, "endsStream must report END_STREAM for both *writeData and *writeResHeaders")
	}
	c.Min("stream-state", 8)
}

func c34PeerLimits(c *core.Ctx, fl *h2aFlows) {
	mfs := h2aField(c, "writeScheduler.maxFrameSize")
	setID, setVal := h2aField(c, "Setting.ID"), h2aField(c, "Setting.Val")
	sMFS, ok1 := h2aConst(c, "SettingMaxFrameSize")
	initMFS, ok2 := h2aConst(c, "initialMaxFrameSize")
	flowCode, ok3 := h2aConst(c, "ErrCodeFlowControl")
	defWin, ok4 := h2aConst(c, "initialWindowSize")
	iwFld := h2aField(c, "serverConn.initialWindowSize")
	if mfs == nil || setID == nil || setVal == nil || iwFld == nil || !ok1 || !ok2 || !ok3 || !ok4 {
		return
	}
	names := h2aErrCodeNames(c)
	ord := h2aOrd{}
	for _, st := range core.FieldStores(c.P.SrcFuncs(h2aPkg), mfs) {
		name := h2aShort(st.Fn)
		if who, ok := h2aOwnedBy(c, st.Fn, "serverConn.processSetting", "Server.ServeConn"); ok {
			name = who
		}
		switch name {
		case "serverConn.processSetting":
			_, isVal := h2aFieldLoad(st.Store.Val, setVal)
			okID := c.P.HasGuardCtx(st.Store.Block(), func(g core.Guard) bool {
				// ID == SettingMaxFrameSize in any spelling (switch case, ==, !(... != ...), mirrored)
				return g.CmpIs(token.EQL,
					func(v ssa.Value) bool { _, isID := h2aFieldLoad(v, setID); return isID },
					func(v ssa.Value) bool { k, isK := h2aInt(v); return isK && k == sMFS })
			})
			okValid := c.P.HasGuardCtx(st.Store.Block(), func(g core.Guard) bool {
				// Valid() == nil established
				return g.CmpIs(token.EQL,
					func(v ssa.Value) bool {
						call, isCall := v.(*ssa.Call)
						return isCall && core.CallIs(&call.Call, h2aPkg+".Setting.Valid")
					}, h2aIsNil)
			})
			c.Check("peer-limits", ord.key("processSetting:max-frame-size"), st.Store.Pos(), isVal && okID && okValid,
				fmt.Sprintf("ws.maxFrameSize is set from %s; it must be the Val of a setting whose ID == SettingMaxFrameSize and that passed Valid() (value=%v id=%v valid=%v)", core.Render(st.Store.Val), isVal, okID, okValid))
		case "Server.ServeConn":
			k, isK := h2aInt(st.Store.Val)
			c.Check("peer-limits", ord.key("ServeConn:max-frame-size"), st.Store.Pos(), isK && k == initMFS && initMFS == 16384, "the initial ws.maxFrameSize must be 16384 (RFC 7540 6.5.2 initial SETTINGS_MAX_FRAME_SIZE); is "+core.Render(st.Store.Val))
		default:
			c.Check("peer-limits", ord.key("max-frame-size-writer:"+name), st.Store.Pos(), false, "ws.maxFrameSize is written in "+name+"; reviewed writers: processSetting, ServeConn")
		}
	}
	c.Check("peer-limits", "processSetting:max-frame-size-applied", token.NoPos, ord["processSetting:max-frame-size"] >= 1, "processSetting no longer applies SETTINGS_MAX_FRAME_SIZE to the write scheduler")
	// WINDOW_UPDATE
	if fn := h2aFn(c, "serverConn.processWindowUpdate"); fn != nil && len(fn.Params) == 2 {
		f := fn.Params[1]
		inc := h2aField(c, "WindowUpdateFrame.Increment")
		sid := h2aField(c, "FrameHeader.StreamID")
		streams := h2aField(c, "serverConn.streams")
		sidNonZero := func(b *ssa.BasicBlock) (nz, known bool) {
			for _, g := range core.GuardsAt(b) {
				bin, ok := g.Cond.(*ssa.BinOp)
				if !ok {
					continue
				}
				if _, isSid := h2aFieldLoad(bin.X, sid); !isSid || h2aRoot(bin.X) != ssa.Value(f) {
					continue
				}
				if k, isK := h2aInt(bin.Y); !isK || k != 0 {
					continue
				}
				switch bin.Op {
				case token.NEQ:
					return g.Pol, true
				case token.EQL:
					return !g.Pol, true
				}
			}
			return false, false
		}
		nAdd := 0
		core.Instrs(fn, func(in ssa.Instruction) {
			cc := h2aCallOf(in, "flow.add")
			if cc == nil || len(cc.Args) != 2 {
				return
			}
			call := in.(*ssa.Call)
			nAdd++
			kind, base := fl.kind(cc.Args[0])
			_, isInc := h2aFieldLoad(cc.Args[1], inc)
			okAmt := isInc && h2aRoot(cc.Args[1]) == ssa.Value(f)
			nz, known := sidNonZero(in.Block())
			okLvl := false
			switch kind {
			case "conn-out":
				okLvl = known && !nz
			case "stream-out":
				// the stream looked up under the frame's StreamID
				if lk, isL := base.(*ssa.Lookup); isL {
					_, isStreams := h2aFieldLoad(lk.X, streams)
					_, isSid := h2aFieldLoad(lk.Index, sid)
					okLvl = known && nz && isStreams && isSid && h2aRoot(lk.Index) == ssa.Value(f)
				}
			}
			c.Check("peer-limits", "processWindowUpdate:"+kind, in.Pos(), okAmt && okLvl,
				"WINDOW_UPDATE credits "+core.Render(cc.Args[1])+" to "+core.Render(cc.Args[0])+"; required: f.Increment, to the connection window when StreamID == 0 and to the window of streams[StreamID] otherwise")
			// overflow => FLOW_CONTROL error
			var failB *ssa.BasicBlock
			for _, b := range fn.Blocks {
				if ifi, isIf := b.Instrs[len(b.Instrs)-1].(*ssa.If); isIf && ifi.Cond == ssa.Value(call) {
					failB = b.Succs[1]
				}
			}
			okErr := false
			if failB != nil {
				okErr = true
				for b := range h2aRegion(failB) {
					if r, isRet := b.Instrs[len(b.Instrs)-1].(*ssa.Return); isRet {
						rv := core.RetVals(r)
						e, isErr := h2aErrOf(rv[len(rv)-1])
						if !isErr || !(e.hasCode && e.code == flowCode || e.typ == h2aPkg+".goAwayFlowError") {
							okErr = false
						}
					}
				}
			}
			c.Check("peer-limits", "processWindowUpdate:"+kind+"-overflow", in.Pos(), okErr, "a WINDOW_UPDATE that overflows the "+kind+" window must end in a FLOW_CONTROL_ERROR (RFC 7540 6.9.1)")
		})
		c.Check("peer-limits", "processWindowUpdate:both-levels", fn.Pos(), nAdd >= 2, "processWindowUpdate must credit the stream-level and the connection-level send window")
		_ = names
	}
	// SETTINGS_INITIAL_WINDOW_SIZE delta
	if fn := h2aFn(c, "serverConn.processSettingInitialWindowSize"); fn != nil && len(fn.Params) == 2 {
		val := fn.Params[1]
		var store *ssa.Store
		for _, st := range core.FieldStores([]*ssa.Function{fn}, iwFld) {
			store = st.Store
		}
		okStore := store != nil && core.StripConv(store.Val) == ssa.Value(val)
		c.Check("peer-limits", "processSettingInitialWindowSize:records-new", fn.Pos(), okStore, "sc.initialWindowSize must be set to the new SETTINGS value so that later streams start with it")
		n := 0
		core.Instrs(fn, func(in ssa.Instruction) {
			cc := h2aCallOf(in, "flow.add")
			if cc == nil || len(cc.Args) != 2 {
				return
			}
			n++
			kind, base := fl.kind(cc.Args[0])
			okDelta := false
			if b, isBin := cc.Args[1].(*ssa.BinOp); isBin && b.Op == token.SUB && store != nil {
				// new - old: X is the new value (val or a load after the store), Y a load before the store
				newOK := core.StripConv(b.X) == ssa.Value(val)
				if ld, isLd := b.X.(*ssa.UnOp); isLd && !newOK {
					if _, isIW := h2aFieldLoad(ld, iwFld); isIW && core.Dominates(store, ld) {
						newOK = true
					}
				}
				oldOK := false
				if ld, isLd := b.Y.(*ssa.UnOp); isLd {
					if _, isIW := h2aFieldLoad(ld, iwFld); isIW && core.Dominates(ld, store) {
						oldOK = true
					}
				}
				okDelta = newOK && oldOK
			}
			// every stream: the window is that of a range element over sc.streams
			okAll := false
			if e, isE := base.(*ssa.Extract); isE && kind == "stream-out" {
				if nx, isN := e.Tuple.(*ssa.Next); isN {
					if rg, isR := nx.Iter.(*ssa.Range); isR {
						_, okAll = h2aFieldLoad(rg.X, h2aField(c, "serverConn.streams"))
					}
				}
			}
			c.Check("peer-limits", "processSettingInitialWindowSize:delta", in.Pos(), okDelta && okAll, "a change of SETTINGS_INITIAL_WINDOW_SIZE must adjust the send window of every stream in sc.streams by (new - old); adjusts "+core.Render(cc.Args[0])+" by "+core.Render(cc.Args[1]))
		})
		if n == 0 {
			c.Check("peer-limits", "processSettingInitialWindowSize:delta", fn.Pos(), false, "existing streams' send windows are not adjusted when SETTINGS_INITIAL_WINDOW_SIZE changes")
		}
	}
	// creation
	if fn := h2aFn(c, "serverConn.processHeaders"); fn != nil {
		linked, credited := false, false
		core.Instrs(fn, func(in ssa.Instruction) {
			switch x := in.(type) {
			case *ssa.Store:
				if fb, ok := h2aFieldAddrOf(x.Addr, fl.flowConn); ok {
					if k, _ := fl.kind(fb); k == "stream-out" {
						vk, _ := fl.kind(x.Val)
						linked = true
						c.Check("peer-limits", "processHeaders:stream-linked", x.Pos(), vk == "conn-out", "stream.flow.conn is set to "+core.Render(x.Val)+", not to the connection's send window: DATA on the stream would not be limited by the connection window")
					}
				}
			case ssa.CallInstruction:
				cc := h2aCallOf(in, "flow.add")
				if cc == nil || len(cc.Args) != 2 {
					return
				}
				if k, _ := fl.kind(cc.Args[0]); k == "stream-out" {
					credited = true
					_, isIW := h2aFieldLoad(cc.Args[1], iwFld)
					c.Check("peer-limits", "processHeaders:stream-credit", in.Pos(), isIW, "a new stream's send window starts at "+core.Render(cc.Args[1])+"; it must start at the peer's SETTINGS_INITIAL_WINDOW_SIZE (sc.initialWindowSize)")
				}
			}
		})
		if !linked {
			c.Check("peer-limits", "processHeaders:stream-linked", fn.Pos(), false, "processHeaders does not link the new stream's send window to the connection's")
		}
		if !credited {
			c.Check("peer-limits", "processHeaders:stream-credit", fn.Pos(), false, "processHeaders does not initialise the new stream's send window")
		}
	}
	if fn := h2aFn(c, "Server.ServeConn"); fn != nil {
		found := false
		core.Instrs(fn, func(in ssa.Instruction) {
			if cc := h2aCallOf(in, "flow.add"); cc != nil && len(cc.Args) == 2 {
				if k, _ := fl.kind(cc.Args[0]); k == "conn-out" {
					found = true
					v, isK := h2aInt(cc.Args[1])
					c.Check("peer-limits", "ServeConn:conn-credit", in.Pos(), isK && v == defWin && defWin == 65535, "the connection send window starts at "+core.Render(cc.Args[1])+"; RFC 7540 6.9.2 fixes it at 65535 until the peer sends WINDOW_UPDATE")
				}
			}
		})
		if !found {
			c.Check("peer-limits", "ServeConn:conn-credit", fn.Pos(), false, "ServeConn does not initialise serverConn.flow")
		}
		for _, st := range core.FieldStores([]*ssa.Function{fn}, iwFld) {
			v, isK := h2aInt(st.Store.Val)
			c.Check("peer-limits", "ServeConn:peer-initial-window", st.Store.Pos(), isK && v == defWin, "sc.initialWindowSize (the peer's per-stream window before its SETTINGS arrive) starts at "+core.Render(st.Store.Val)+", required 65535")
		}
	}
	c.Min("peer-limits", 12)
}
