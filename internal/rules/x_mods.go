package rules

// Shared helpers of the module-property rules (C49, C50, C51, C54, C56):
// normalised branch facts, "established on every way in" queries over the
// dominator chain, value-flow slices and small extractors for tables that live
// in code (map literals, command switches).

import (
	"fmt"
	"go/constant"
	"go/token"
	"go/types"
	"sort"
	"strings"

	"golang.org/x/tools/go/ssa"

	"verif/internal/core"
)

// mdFact is a branch condition with logical negations folded into the polarity.
type mdFact struct {
	Cond ssa.Value
	Pol  bool
}

func mdUnNot(v ssa.Value, pol bool) (ssa.Value, bool) {
	for {
		u, ok := v.(*ssa.UnOp)
		if !ok || u.Op != token.NOT {
			return v, pol
		}
		v, pol = u.X, !pol
	}
}

// mdEdgeFact is the fact established by moving from pred to succ (pred must end
// in a two-way If).
func mdEdgeFact(pred, succ *ssa.BasicBlock) (mdFact, bool) {
	if len(pred.Instrs) == 0 {
		return mdFact{}, false
	}
	ifi, ok := pred.Instrs[len(pred.Instrs)-1].(*ssa.If)
	if !ok || len(pred.Succs) != 2 || pred.Succs[0] == pred.Succs[1] {
		return mdFact{}, false
	}
	c, pol := mdUnNot(ifi.Cond, pred.Succs[0] == succ)
	return mdFact{c, pol}, true
}

// mdEstablished reports whether every way of reaching b passes an edge whose
// fact satisfies match: some block D on b's dominator chain (b included) is
// entered only through matching edges. Disjunctive conditions (`if a || b`,
// the continuation of `if a && b { return }`) give D one edge per disjunct.
func mdEstablished(b *ssa.BasicBlock, match func(f mdFact) bool) bool {
	seen := map[*ssa.BasicBlock]bool{}
	for cur := b; cur != nil && !seen[cur]; {
		seen[cur] = true
		switch {
		case len(cur.Preds) == 0:
			return false
		case len(cur.Preds) == 1:
			if f, ok := mdEdgeFact(cur.Preds[0], cur); ok && match(f) {
				return true
			}
			cur = cur.Preds[0]
		default:
			all := true
			for _, p := range cur.Preds {
				f, ok := mdEdgeFact(p, cur)
				if !ok || !match(f) {
					all = false
					break
				}
			}
			if all {
				return true
			}
			cur = cur.Idom()
		}
	}
	return false
}

// mdFactStrs renders the facts established at b (single-predecessor chain and
// dominators), for messages only.
func mdFactStrs(b *ssa.BasicBlock) string {
	var out []string
	seen := map[*ssa.BasicBlock]bool{}
	for cur := b; cur != nil && !seen[cur]; {
		seen[cur] = true
		if len(cur.Preds) == 1 {
			if f, ok := mdEdgeFact(cur.Preds[0], cur); ok {
				s := core.Render(f.Cond)
				if !f.Pol {
					s = "!" + s
				}
				out = append(out, s)
			}
			cur = cur.Preds[0]
			continue
		}
		cur = cur.Idom()
	}
	if len(out) > 8 {
		out = out[:8]
	}
	return strings.Join(out, " && ")
}

// mdCallOf returns the call common of v when v is a call value (looking through
// tuple extraction) and, for extractions, the index (-1 otherwise).
func mdCallOf(v ssa.Value) (*ssa.CallCommon, int) {
	v = core.StripConv(v)
	if ex, ok := v.(*ssa.Extract); ok {
		if c, ok := ex.Tuple.(*ssa.Call); ok {
			return &c.Call, ex.Index
		}
		return nil, -1
	}
	if c, ok := v.(*ssa.Call); ok {
		return &c.Call, -1
	}
	return nil, -1
}

// mdIsNil: v is the constant nil.
func mdIsNil(v ssa.Value) bool {
	k, ok := core.StripConv(v).(*ssa.Const)
	return ok && k.Value == nil
}

// mdNilTest decodes `x == nil` / `x != nil` facts: returns x and whether the
// fact says x is non-nil.
func mdNilTest(f mdFact) (x ssa.Value, nonNil bool, ok bool) {
	b, isBin := f.Cond.(*ssa.BinOp)
	if !isBin || (b.Op != token.EQL && b.Op != token.NEQ) {
		return nil, false, false
	}
	switch {
	case mdIsNil(b.Y):
		x = b.X
	case mdIsNil(b.X):
		x = b.Y
	default:
		return nil, false, false
	}
	return x, (b.Op == token.NEQ) == f.Pol, true
}

// mdStrTest decodes `x == "s"` / `x != "s"` facts: returns x, s and whether the
// fact says they are equal.
func mdStrTest(f mdFact) (x ssa.Value, s string, equal bool, ok bool) {
	b, isBin := f.Cond.(*ssa.BinOp)
	if !isBin || (b.Op != token.EQL && b.Op != token.NEQ) {
		return nil, "", false, false
	}
	if k, isStr := core.ConstString(b.Y); isStr && mdIsStringConst(b.Y) {
		x, s = b.X, k
	} else if k, isStr := core.ConstString(b.X); isStr && mdIsStringConst(b.X) {
		x, s = b.Y, k
	} else {
		return nil, "", false, false
	}
	return x, s, (b.Op == token.EQL) == f.Pol, true
}

func mdIsStringConst(v ssa.Value) bool {
	k, ok := core.StripConv(v).(*ssa.Const)
	return ok && k.Value != nil && k.Value.Kind() == constant.String
}

// mdIntConst returns the integer constant value of v.
func mdIntConst(v ssa.Value) (int64, bool) {
	k, ok := core.StripConv(v).(*ssa.Const)
	if !ok || k.Value == nil || k.Value.Kind() != constant.Int {
		return 0, false
	}
	n, exact := constant.Int64Val(k.Value)
	return n, exact
}

// mdBackSlice collects the values v is computed from (operands, transitively,
// through loads of local allocs' stores; not through calls' callees). The
// slice stops at depth 12.
func mdBackSlice(v ssa.Value) map[ssa.Value]bool {
	out := map[ssa.Value]bool{}
	var walk func(v ssa.Value, d int)
	walk = func(v ssa.Value, d int) {
		if v == nil || out[v] || d > 12 {
			return
		}
		out[v] = true
		switch x := v.(type) {
		case *ssa.UnOp:
			walk(x.X, d+1)
			if a, ok := x.X.(*ssa.Alloc); ok && x.Op == token.MUL {
				for _, st := range mdStoresTo(a) {
					walk(st.Val, d+1)
				}
			}
			if fa, ok := x.X.(*ssa.FieldAddr); ok && x.Op == token.MUL {
				// field of a local struct: values stored to the same field of the same alloc
				if a, ok := fa.X.(*ssa.Alloc); ok && a.Referrers() != nil {
					for _, r := range *a.Referrers() {
						if fa2, ok := r.(*ssa.FieldAddr); ok && fa2.Field == fa.Field {
							for _, st := range mdStoresToAddr(fa2) {
								walk(st.Val, d+1)
							}
						}
					}
				}
			}
		case *ssa.Alloc:
			// everything stored into the cell or into its elements/fields
			if x.Referrers() != nil {
				for _, r := range *x.Referrers() {
					switch y := r.(type) {
					case *ssa.Store:
						if y.Addr == ssa.Value(x) {
							walk(y.Val, d+1)
						}
					case *ssa.IndexAddr:
						for _, st := range mdStoresToAddr(y) {
							walk(st.Val, d+1)
						}
					case *ssa.FieldAddr:
						for _, st := range mdStoresToAddr(y) {
							walk(st.Val, d+1)
						}
					}
				}
			}
		case ssa.Instruction:
			for _, op := range x.Operands(nil) {
				if *op != nil {
					walk(*op, d+1)
				}
			}
		}
	}
	walk(v, 0)
	return out
}

func mdStoresTo(a *ssa.Alloc) []*ssa.Store { return mdStoresToAddr(a) }

func mdStoresToAddr(a ssa.Value) []*ssa.Store {
	var out []*ssa.Store
	if a.Referrers() == nil {
		return nil
	}
	for _, r := range *a.Referrers() {
		if st, ok := r.(*ssa.Store); ok && st.Addr == a {
			out = append(out, st)
		}
	}
	return out
}

// mdSliceHas reports whether the backward slice of v contains a value
// satisfying pred.
func mdSliceHas(v ssa.Value, pred func(ssa.Value) bool) bool {
	for x := range mdBackSlice(v) {
		if pred(x) {
			return true
		}
	}
	return false
}

// mdIsCallTo: v is (a result of) a call to one of names.
func mdIsCallTo(v ssa.Value, names ...string) bool {
	c, _ := mdCallOf(v)
	return c != nil && core.CallIs(c, names...)
}

// mdFieldLoadNamed: v is a load of (or a value-struct selection of) a field
// called name; returns the struct operand.
func mdFieldLoadNamed(v ssa.Value, name string) (ssa.Value, bool) {
	switch x := v.(type) {
	case *ssa.UnOp:
		if x.Op != token.MUL {
			return nil, false
		}
		if fa, ok := x.X.(*ssa.FieldAddr); ok {
			if f := core.FieldObj(fa.X, fa.Field); f != nil && f.Name() == name {
				return fa.X, true
			}
		}
	case *ssa.Field:
		if f := core.FieldObj(x.X, x.Field); f != nil && f.Name() == name {
			return x.X, true
		}
	}
	return nil, false
}

// mdErrNonNil: r returns a non-nil error as its last result (a value that
// is not the constant nil).
func mdErrNonNil(r *ssa.Return) bool {
	rv := core.RetVals(r)
	if len(rv) == 0 {
		return false
	}
	last := rv[len(rv)-1]
	if !types.Identical(last.Type(), types.Universe.Lookup("error").Type()) {
		return false
	}
	return !mdIsNil(last)
}

// mdErrNil: r returns the constant nil as its last (error) result.
func mdErrNil(r *ssa.Return) bool {
	rv := core.RetVals(r)
	if len(rv) == 0 {
		return false
	}
	last := rv[len(rv)-1]
	return types.Identical(last.Type(), types.Universe.Lookup("error").Type()) && mdIsNil(last)
}

// mdBlockReturn returns the Return terminating b, if any.
func mdBlockReturn(b *ssa.BasicBlock) *ssa.Return {
	if len(b.Instrs) == 0 {
		return nil
	}
	r, _ := b.Instrs[len(b.Instrs)-1].(*ssa.Return)
	return r
}

// mdMapLiteralKeys returns the constant string keys of the map literal that
// initialises the package-level variable (read from the package initialiser:
// MakeMap + MapUpdate + Store to the global).
func mdMapLiteralKeys(p *core.Prog, rel, name string) ([]string, token.Pos, bool) {
	sp := p.SPkg[rel]
	if sp == nil {
		return nil, token.NoPos, false
	}
	g, _ := sp.Members[name].(*ssa.Global)
	init := sp.Func("init")
	if g == nil || init == nil {
		return nil, token.NoPos, false
	}
	var keys []string
	found := false
	core.Instrs(init, func(in ssa.Instruction) {
		st, ok := in.(*ssa.Store)
		if !ok || st.Addr != g {
			return
		}
		mm, ok := st.Val.(*ssa.MakeMap)
		if !ok || mm.Referrers() == nil {
			return
		}
		found = true
		for _, r := range *mm.Referrers() {
			if mu, ok := r.(*ssa.MapUpdate); ok && mu.Map == mm {
				if s, ok := core.ConstString(mu.Key); ok {
					keys = append(keys, s)
				}
			}
		}
	})
	sort.Strings(keys)
	return keys, g.Pos(), found
}

// mdConstVal returns the constant value of package-level constant name.
func mdConstVal(p *core.Prog, rel, name string) (constant.Value, bool) {
	k, ok := p.Obj(rel, name).(*types.Const)
	if !ok {
		return nil, false
	}
	return k.Val(), true
}

// mdPkgCallSites indexes the static call sites of the functions of a package
// among the given functions.
func mdPkgCallSites(fns []*ssa.Function) map[*ssa.Function][]ssa.CallInstruction {
	out := map[*ssa.Function][]ssa.CallInstruction{}
	for _, fn := range fns {
		for _, c := range core.AllCalls(fn) {
			if sc := c.Common().StaticCallee(); sc != nil {
				out[sc] = append(out[sc], c)
			}
		}
	}
	return out
}

func mdSortedKeys(m map[string]bool) []string {
	var s []string
	for k := range m {
		s = append(s, k)
	}
	sort.Strings(s)
	return s
}

// reachable returns the blocks reachable from b (b included).
func mdReachableFrom(b *ssa.BasicBlock) map[*ssa.BasicBlock]bool {
	seen := map[*ssa.BasicBlock]bool{b: true}
	work := []*ssa.BasicBlock{b}
	for len(work) > 0 {
		x := work[len(work)-1]
		work = work[:len(work)-1]
		for _, s := range x.Succs {
			if !seen[s] {
				seen[s] = true
				work = append(work, s)
			}
		}
	}
	return seen
}

// mdVerdictConsts resolves the bfe_module handler verdict constants.
func mdVerdictConsts(c *core.Ctx) (map[string]int64, bool) {
	out := map[string]int64{}
	for _, n := range []string{"BfeHandlerGoOn", "BfeHandlerClose", "BfeHandlerResponse", "BfeHandlerFinish", "BfeHandlerRedirect"} {
		v, ok := mdConstVal(c.P, "bfe_module", n)
		if !ok {
			c.Missing("bfe_module." + n)
			return nil, false
		}
		i, _ := constant.Int64Val(v)
		out[n] = i
	}
	return out, true
}

// mdPossibleInts lists the integer constants v may be (through phis and, two
// levels deep, through the returns of statically called helpers); ok is false
// when some source is not a constant.
func mdPossibleInts(v ssa.Value) (vals []int64, ok bool) {
	seen := map[ssa.Value]bool{}
	ok = true
	depth := 0
	var walk func(v ssa.Value)
	walk = func(v ssa.Value) {
		if seen[v] {
			return
		}
		seen[v] = true
		if phi, isPhi := v.(*ssa.Phi); isPhi {
			for _, e := range phi.Edges {
				walk(e)
			}
			return
		}
		if n, isInt := mdIntConst(v); isInt {
			vals = append(vals, n)
			return
		}
		// result of a helper whose returns are themselves constants
		if cc, idx := mdCallOf(v); cc != nil && depth < 2 {
			if sc := cc.StaticCallee(); sc != nil && sc.Blocks != nil {
				if idx < 0 {
					idx = 0
				}
				rets := core.Returns(sc)
				for _, r := range rets {
					rv := core.RetVals(r)
					if idx >= len(rv) {
						ok = false
						return
					}
					depth++
					walk(rv[idx])
					depth--
				}
				if len(rets) > 0 {
					return
				}
			}
		}
		ok = false
	}
	walk(v)
	return vals, ok
}

// mdUniq sorts and de-duplicates.
func mdUniq(s []string) []string {
	s = append([]string(nil), s...)
	sort.Strings(s)
	var out []string
	for i, x := range s {
		if i == 0 || x != s[i-1] {
			out = append(out, x)
		}
	}
	return out
}

// mdBlockPos returns a source position inside b (the first instruction that
// has one).
func mdBlockPos(b *ssa.BasicBlock) token.Pos {
	for _, in := range b.Instrs {
		if in.Pos().IsValid() {
			return in.Pos()
		}
	}
	return token.NoPos
}

// mdNeedParams reports (as an unresolved anchor) a function whose signature
// has fewer parameters (receiver included) than the rule addresses.
func mdNeedParams(c *core.Ctx, n int, fns ...*ssa.Function) bool {
	ok := true
	for _, fn := range fns {
		if fn == nil || len(fn.Params) < n {
			ok = false
			if fn != nil {
				c.Missing(core.FuncKey(fn) + fmt.Sprintf(" (signature changed: fewer than %d parameters)", n))
			}
		}
	}
	return ok
}

// mdFieldNameOf names the field addressed by fa.
func mdFieldNameOf(fa *ssa.FieldAddr) string {
	if f := core.FieldObj(fa.X, fa.Field); f != nil {
		return f.Name()
	}
	return "?"
}

// mdPredImplies: fn returns one bool, and whenever it may return true a fact
// accepted by match has been established inside fn (so `if fn(x)` implies the
// fact, up to the parameter/argument mapping done by match).
func mdPredImplies(fn *ssa.Function, match func(mdFact) bool) bool {
	if fn == nil || fn.Blocks == nil || fn.Signature.Results().Len() != 1 {
		return false
	}
	rets := core.Returns(fn)
	if len(rets) == 0 {
		return false
	}
	for _, r := range rets {
		if len(r.Results) != 1 || !mdBoolImplies(r.Results[0], r.Block(), match, 0) {
			return false
		}
	}
	return true
}

// mdBoolImplies: if v (evaluated on the way into / inside b) is true then a
// fact accepted by match holds.
func mdBoolImplies(v ssa.Value, b *ssa.BasicBlock, match func(mdFact) bool, depth int) bool {
	if depth > 4 {
		return false
	}
	if k, ok := v.(*ssa.Const); ok && k.Value != nil && k.Value.Kind() == constant.Bool {
		if !constant.BoolVal(k.Value) {
			return true
		}
		return mdEstablished(b, match)
	}
	cnd, pol := mdUnNot(v, true)
	if match(mdFact{cnd, pol}) {
		return true
	}
	if phi, ok := v.(*ssa.Phi); ok {
		for i, e := range phi.Edges {
			pred := phi.Block().Preds[i]
			if k, ok := e.(*ssa.Const); ok && k.Value != nil && k.Value.Kind() == constant.Bool {
				if !constant.BoolVal(k.Value) {
					continue
				}
				hit := false
				for _, f := range mdEdgeFacts(pred, phi.Block()) {
					if match(f) {
						hit = true
					}
				}
				if !hit && !mdEstablished(pred, match) {
					return false
				}
				continue
			}
			if !mdBoolImplies(e, pred, match, depth+1) {
				return false
			}
		}
		return true
	}
	return mdEstablished(b, match)
}
