package rules

import (
	"go/token"
	"go/types"

	"golang.org/x/tools/go/ssa"

	"verif/internal/core"
)

// Helpers that make C14/C15 robust against behaviour-preserving refactorings
// (helper extraction / inlining, renamed locals, named intermediates, inverted
// branches). Everything here is per-run state (rules run concurrently on
// several programs in the self-test).

// confIdx is a per-run index of the static call sites of every function of the
// module and of the functions used as values (their callers are not all
// static, so they are never treated as private helpers).
type confIdx struct {
	p     *core.Prog
	sites map[*ssa.Function][]ssa.CallInstruction
	taken map[*ssa.Function]bool
}

func newConfIdx(p *core.Prog) *confIdx {
	x := &confIdx{p: p, sites: map[*ssa.Function][]ssa.CallInstruction{}, taken: map[*ssa.Function]bool{}}
	for _, fn := range p.SrcFuncs("") {
		core.Instrs(fn, func(in ssa.Instruction) {
			var calleeSlot *ssa.Value
			if ci, ok := in.(ssa.CallInstruction); ok {
				calleeSlot = &ci.Common().Value
				if sc := ci.Common().StaticCallee(); sc != nil {
					x.sites[sc] = append(x.sites[sc], ci)
				}
			}
			for _, op := range in.Operands(nil) {
				if op == nil || *op == nil || op == calleeSlot {
					continue
				}
				if f, ok := (*op).(*ssa.Function); ok {
					x.taken[f] = true
				}
			}
		})
	}
	return x
}

// private reports whether h is an implementation detail of its callers: a
// named function or method with an unexported name and a body, never used as
// a value, with at least one static call site.
func (x *confIdx) private(h *ssa.Function) bool {
	if h == nil || h.Blocks == nil || h.Parent() != nil || h.Object() == nil || h.Object().Exported() {
		return false
	}
	return !x.taken[h] && len(x.sites[h]) > 0
}

// regionOf returns the seeds (with their anonymous functions) plus the private
// helpers of the same package whose every static call site lies inside the
// set (fixpoint, depth <= 6). A helper shared by several seeds belongs to the
// joint region although it is in no single seed's core.Region.
func (x *confIdx) regionOf(seeds ...*ssa.Function) map[*ssa.Function]bool {
	in := map[*ssa.Function]bool{}
	var order []*ssa.Function
	add := func(f *ssa.Function) {
		for _, g := range core.WithClosures(f) {
			if !in[g] {
				in[g] = true
				order = append(order, g)
			}
		}
	}
	for _, s := range seeds {
		if s != nil {
			add(s)
		}
	}
	for depth := 0; depth < 6; depth++ {
		grew := false
		for _, f := range append([]*ssa.Function(nil), order...) {
			core.Instrs(f, func(in0 ssa.Instruction) {
				ci, ok := in0.(ssa.CallInstruction)
				if !ok {
					return
				}
				h := ci.Common().StaticCallee()
				if h == nil || in[h] || !x.private(h) || core.FuncPkgRel(h) != core.FuncPkgRel(f) {
					return
				}
				for _, s := range x.sites[h] {
					if !in[s.Parent()] {
						return
					}
				}
				add(h)
				grew = true
			})
		}
		if !grew {
			break
		}
	}
	return in
}

// regionList is regionOf as a list in a deterministic order.
func (x *confIdx) regionList(seeds ...*ssa.Function) []*ssa.Function {
	in := x.regionOf(seeds...)
	var out []*ssa.Function
	for _, f := range x.p.SrcFuncs("") {
		if in[f] {
			out = append(out, f)
		}
	}
	return out
}

// rootFunc is the named function enclosing fn (fn itself unless anonymous).
func rootFunc(fn *ssa.Function) *ssa.Function {
	for fn != nil && fn.Parent() != nil {
		fn = fn.Parent()
	}
	return fn
}

// paramIndex returns the index of p in its function's parameter list (which
// is also its index in the argument list of a static call), or -1.
func paramIndex(p *ssa.Parameter) int {
	for i, q := range p.Parent().Params {
		if q == p {
			return i
		}
	}
	return -1
}

// argsFor returns, for parameter p of a private function, the argument passed
// at each static call site; ok is false when p's function is not private.
func (x *confIdx) argsFor(p *ssa.Parameter) (args []ssa.Value, blocks []*ssa.BasicBlock, ok bool) {
	h := p.Parent()
	i := paramIndex(p)
	if i < 0 || !x.private(h) {
		return nil, nil, false
	}
	for _, s := range x.sites[h] {
		if _, isGo := s.(*ssa.Go); isGo {
			return nil, nil, false
		}
		a := s.Common().Args
		if i >= len(a) {
			return nil, nil, false
		}
		args = append(args, a[i])
		blocks = append(blocks, s.Block())
	}
	return args, blocks, true
}

// derivesFromField reports whether v is obtained, on every path, from a load
// of the struct field fld (through further field selections, loads, type
// assertions, conversions, phis, single-assignment locals and - for a
// parameter of a private helper - the arguments at all its call sites).
func (x *confIdx) derivesFromField(v ssa.Value, fld *types.Var, depth int, seen map[ssa.Value]bool) bool {
	if v == nil || depth > 24 {
		return false
	}
	if seen[v] {
		return true // a cycle adds no new origin
	}
	seen[v] = true
	switch t := v.(type) {
	case *ssa.FieldAddr:
		if core.FieldObj(t.X, t.Field) == fld {
			return true
		}
		return x.derivesFromField(t.X, fld, depth+1, seen)
	case *ssa.Field:
		if core.FieldObj(t.X, t.Field) == fld {
			return true
		}
		return x.derivesFromField(t.X, fld, depth+1, seen)
	case *ssa.UnOp:
		if t.Op == token.MUL {
			return x.derivesFromField(t.X, fld, depth+1, seen)
		}
	case *ssa.TypeAssert:
		return x.derivesFromField(t.X, fld, depth+1, seen)
	case *ssa.Extract:
		if ta, ok := t.Tuple.(*ssa.TypeAssert); ok && t.Index == 0 {
			return x.derivesFromField(ta.X, fld, depth+1, seen)
		}
	case *ssa.ChangeType:
		return x.derivesFromField(t.X, fld, depth+1, seen)
	case *ssa.ChangeInterface:
		return x.derivesFromField(t.X, fld, depth+1, seen)
	case *ssa.MakeInterface:
		return x.derivesFromField(t.X, fld, depth+1, seen)
	case *ssa.Phi:
		for _, e := range t.Edges {
			if !x.derivesFromField(e, fld, depth+1, seen) {
				return false
			}
		}
		return len(t.Edges) > 0
	case *ssa.Alloc:
		// a local variable kept in memory: every value stored into it
		n := 0
		if t.Referrers() != nil {
			for _, r := range *t.Referrers() {
				if st, ok := r.(*ssa.Store); ok && st.Addr == ssa.Value(t) {
					n++
					if !x.derivesFromField(st.Val, fld, depth+1, seen) {
						return false
					}
				}
			}
		}
		return n > 0
	case *ssa.Parameter:
		args, _, ok := x.argsFor(t)
		if !ok {
			return false
		}
		for _, a := range args {
			if !x.derivesFromField(a, fld, depth+1, seen) {
				return false
			}
		}
		return len(args) > 0
	}
	return false
}

// reachAll returns every instruction satisfying pred that can execute after
// `from` (nil: from the entry of fn).
func reachAll(fn *ssa.Function, from ssa.Instruction, pred func(ssa.Instruction) bool) []ssa.Instruction {
	var out []ssa.Instruction
	core.ReachAvoiding(fn, from, nil, func(in ssa.Instruction) bool {
		if pred(in) {
			out = append(out, in)
		}
		return false
	})
	return out
}

// ---- joining syntax and SSA by position ---------------------------------------------------

// mapUpdateAt finds the MapUpdate generated for the assignment `m[k] = v` whose index
// expression opens at lbrack, in fn or one of its anonymous functions.
func mapUpdateAt(fn *ssa.Function, lbrack token.Pos) *ssa.MapUpdate {
	if fn == nil {
		return nil
	}
	var out *ssa.MapUpdate
	for _, g := range core.WithClosures(fn) {
		core.Instrs(g, func(in ssa.Instruction) {
			if mu, ok := in.(*ssa.MapUpdate); ok && mu.Pos() == lbrack {
				out = mu
			}
		})
	}
	return out
}

// builtinCallAt finds the call of the builtin `name` whose argument list opens at lparen.
func builtinCallAt(fn *ssa.Function, name string, lparen token.Pos) *ssa.Call {
	if fn == nil {
		return nil
	}
	var out *ssa.Call
	for _, g := range core.WithClosures(fn) {
		core.Instrs(g, func(in ssa.Instruction) {
			if call, ok := in.(*ssa.Call); ok && call.Pos() == lparen {
				if b, isB := call.Call.Value.(*ssa.Builtin); isB && b.Name() == name {
					out = call
				}
			}
		})
	}
	return out
}

// sameAccess: a and b denote the same storage or the same value: identical SSA values, or
// loads / field selections / conversions of the same shape over the same roots.
func sameAccess(a, b ssa.Value) bool {
	a, b = core.StripConv(a), core.StripConv(b)
	if a == b {
		return true
	}
	switch x := a.(type) {
	case *ssa.UnOp:
		y, ok := b.(*ssa.UnOp)
		return ok && x.Op == token.MUL && y.Op == token.MUL && sameAccess(x.X, y.X)
	case *ssa.FieldAddr:
		y, ok := b.(*ssa.FieldAddr)
		return ok && x.Field == y.Field && sameAccess(x.X, y.X)
	case *ssa.Field:
		y, ok := b.(*ssa.Field)
		return ok && x.Field == y.Field && sameAccess(x.X, y.X)
	}
	return false
}

func isZeroConst(v ssa.Value) bool {
	c, ok := core.StripConv(v).(*ssa.Const)
	if !ok {
		return false
	}
	if c.Value == nil {
		return true
	}
	switch c.Value.ExactString() {
	case `""`, "0", "false":
		return true
	}
	return false
}

// dupRejected: the keyed store mu is executed only when a test has established that the key
// is absent from the same map (`_, ok := m[k]` false, `m[k] == <zero>`, in any spelling and
// branch shape), and the outcome "present" does not come back to the store (it rejects the
// input instead of skipping the entry: with a skip the first writer in map order would win).
func dupRejected(mu *ssa.MapUpdate) bool {
	isLookup := func(v ssa.Value, commaOk bool) bool {
		l, ok := v.(*ssa.Lookup)
		return ok && l.CommaOk == commaOk && sameAccess(l.X, mu.Map) && sameAccess(l.Index, mu.Key)
	}
	absentVal := func(v ssa.Value) bool {
		if isLookup(v, false) {
			return true
		}
		e, ok := v.(*ssa.Extract)
		return ok && e.Index == 0 && isLookup(e.Tuple, true)
	}
	for _, g := range core.GuardsAt(mu.Block()) {
		cond, pol := g.Cond, g.Pol
		for {
			u, ok := cond.(*ssa.UnOp)
			if !ok || u.Op != token.NOT {
				break
			}
			cond, pol = u.X, !pol
		}
		absent := false
		if e, ok := cond.(*ssa.Extract); ok && e.Index == 1 && isLookup(e.Tuple, true) && !pol {
			absent = true
		}
		if !absent {
			g2 := core.Guard{Cond: cond, Pol: pol}
			absent = g2.CmpIs(token.EQL, absentVal, isZeroConst)
		}
		if !absent || g.If == nil {
			continue
		}
		// the edge taken when the key is present must not lead back to the store
		other := g.If.Block().Succs[0]
		if g.Pol {
			other = g.If.Block().Succs[1]
		}
		seen := map[*ssa.BasicBlock]bool{}
		var back func(b *ssa.BasicBlock) bool
		back = func(b *ssa.BasicBlock) bool {
			if b == mu.Block() {
				return true
			}
			if seen[b] {
				return false
			}
			seen[b] = true
			for _, s := range b.Succs {
				if back(s) {
					return true
				}
			}
			return false
		}
		if !back(other) {
			return true
		}
	}
	return false
}

var sortCallees = map[string]bool{"sort.Strings": true, "sort.Ints": true, "sort.Float64s": true, "sort.Slice": true, "sort.SliceStable": true, "sort.Sort": true, "sort.Stable": true}

// flowsToSort: the slice value v (the result of an append) reaches a sort.* call as the sorted
// operand, following phis, further appends, stores to a variable/field and the later loads of
// the same access path, sorter struct literals, arguments of same-package callees, and - when
// it is returned by a private helper - the results at every call site of that helper.
func (x *confIdx) flowsToSort(v ssa.Value, depth int, seen map[ssa.Value]bool) bool {
	if v == nil || seen[v] || depth < 0 {
		return false
	}
	seen[v] = true
	refs := v.Referrers()
	if refs == nil {
		return false
	}
	fn := v.Parent()
	for _, r := range *refs {
		switch t := r.(type) {
		case *ssa.Phi:
			if x.flowsToSort(t, depth, seen) {
				return true
			}
		case *ssa.MakeInterface:
			if x.flowsToSort(t, depth, seen) {
				return true
			}
		case *ssa.ChangeType:
			if x.flowsToSort(t, depth, seen) {
				return true
			}
		case *ssa.Convert:
			if x.flowsToSort(t, depth, seen) {
				return true
			}
		case *ssa.Slice:
			if t.X == v && x.flowsToSort(t, depth, seen) {
				return true
			}
		case *ssa.Store:
			if t.Val != v {
				continue
			}
			// struct literal (sorter) field: the whole struct value
			if fa, ok := t.Addr.(*ssa.FieldAddr); ok {
				if al, isAl := fa.X.(*ssa.Alloc); isAl && al.Referrers() != nil {
					for _, ar := range *al.Referrers() {
						if ld, isLd := ar.(*ssa.UnOp); isLd && ld.Op == token.MUL && x.flowsToSort(ld, depth, seen) {
							return true
						}
						if mi, isMI := ar.(*ssa.MakeInterface); isMI && x.flowsToSort(mi, depth, seen) {
							return true
						}
					}
				}
			}
			// a variable or field: later loads of the same access path
			path := core.Render(t.Addr)
			found := false
			for _, g := range core.WithClosures(rootFunc(fn)) {
				core.Instrs(g, func(in ssa.Instruction) {
					if found {
						return
					}
					if ld, ok := in.(*ssa.UnOp); ok && ld.Op == token.MUL && (ld.X == t.Addr || core.Render(ld.X) == path) {
						if x.flowsToSort(ld, depth, seen) {
							found = true
						}
					}
				})
			}
			if found {
				return true
			}
		case *ssa.Return:
			h := t.Parent()
			if !x.private(h) || depth == 0 {
				continue
			}
			idx := -1
			for i, rv := range t.Results {
				if rv == v {
					idx = i
				}
			}
			if idx < 0 {
				continue
			}
			all := true
			for _, s := range x.sites[h] {
				val, ok := s.(*ssa.Call)
				if !ok {
					all = false
					break
				}
				var res ssa.Value = val
				if len(t.Results) > 1 {
					res = nil
					if val.Referrers() != nil {
						for _, rr := range *val.Referrers() {
							if e, isE := rr.(*ssa.Extract); isE && e.Index == idx {
								res = e
							}
						}
					}
				}
				if res == nil || !x.flowsToSort(res, depth-1, map[ssa.Value]bool{}) {
					all = false
					break
				}
			}
			if all && len(x.sites[h]) > 0 {
				return true
			}
		case ssa.CallInstruction:
			com := t.Common()
			if b, ok := com.Value.(*ssa.Builtin); ok {
				if call, isCall := r.(*ssa.Call); isCall && b.Name() == "append" && len(com.Args) > 0 && com.Args[0] == v {
					if x.flowsToSort(call, depth, seen) {
						return true
					}
				}
				continue
			}
			ai := -1
			for i, a := range com.Args {
				if a == v {
					ai = i
				}
			}
			if ai < 0 {
				continue
			}
			if sortCallees[core.CalleeKey(com)] {
				return true
			}
			if h := com.StaticCallee(); h != nil && h.Blocks != nil && depth > 0 && core.FuncPkgRel(h) == core.FuncPkgRel(fn) && ai < len(h.Params) {
				if x.flowsToSort(h.Params[ai], depth-1, seen) {
					return true
				}
			}
		}
	}
	return false
}

// ---- backward transformer chains of a key ---------------------------------------------------

type chainStep struct {
	callee string
	call   *ssa.Call
}

type keyChain struct {
	steps []chainStep // outermost transformer first
	leaf  ssa.Value   // where the walk stopped (range element, parameter, unknown producer)
	bad   string      // non-empty: the walk met a construct it cannot follow
}

// keyChains enumerates the chains of calls through which v is computed, walking backwards:
// a call of a function without a body in the module (or of another package) is a step and the
// walk continues with its first argument when that is a string; a call of a same-package
// function with a body is entered (each returned value continues the walk, its parameters
// lead back to the arguments of that call); phis and locals kept in memory fork the walk.
// Renamed locals, named intermediates and helper extraction do not change the result.
func keyChains(v ssa.Value) []keyChain {
	w := &chainWalker{seen: map[ssa.Value]bool{}, seenIn: map[phiVisit]bool{}}
	w.walk(v, nil, nil, 0)
	return w.out
}

type phiVisit struct {
	v    ssa.Value
	call *ssa.Call
}

type chainWalker struct {
	seen   map[ssa.Value]bool
	seenIn map[phiVisit]bool
	out    []keyChain
}

func (w *chainWalker) emit(steps []chainStep, leaf ssa.Value, bad string) {
	w.out = append(w.out, keyChain{steps: append([]chainStep(nil), steps...), leaf: leaf, bad: bad})
}

func (w *chainWalker) walk(v ssa.Value, frames []*ssa.Call, steps []chainStep, depth int) {
	if depth > 40 || len(w.out) > 256 {
		w.emit(steps, v, "chain too complex")
		return
	}
	if len(frames) == 0 {
		if w.seen[v] {
			return
		}
		w.seen[v] = true
	} else if _, isPhi := v.(*ssa.Phi); isPhi {
		k := phiVisit{v, frames[len(frames)-1]}
		if w.seenIn[k] {
			return
		}
		w.seenIn[k] = true
	}
	switch t := v.(type) {
	case *ssa.Convert:
		w.walk(t.X, frames, steps, depth+1)
	case *ssa.ChangeType:
		w.walk(t.X, frames, steps, depth+1)
	case *ssa.Phi:
		for _, e := range t.Edges {
			w.walk(e, frames, steps, depth+1)
		}
	case *ssa.UnOp:
		if t.Op != token.MUL {
			w.emit(steps, v, "")
			return
		}
		if al, ok := t.X.(*ssa.Alloc); ok && al.Referrers() != nil {
			n := 0
			for _, r := range *al.Referrers() {
				if st, isSt := r.(*ssa.Store); isSt && st.Addr == ssa.Value(al) {
					n++
					w.walk(st.Val, frames, steps, depth+1)
				}
			}
			if n == 0 {
				w.emit(steps, v, "")
			}
			return
		}
		w.emit(steps, v, "")
	case *ssa.Parameter:
		if len(frames) == 0 {
			w.emit(steps, v, "")
			return
		}
		call := frames[len(frames)-1]
		i := paramIndex(t)
		if i < 0 || i >= len(call.Call.Args) || t.Parent() != call.Call.StaticCallee() {
			w.emit(steps, v, "parameter not matched with an argument")
			return
		}
		w.walk(call.Call.Args[i], frames[:len(frames)-1], steps, depth+1)
	case *ssa.Extract:
		if call, ok := t.Tuple.(*ssa.Call); ok {
			w.walkCall(call, t.Index, frames, steps, depth)
			return
		}
		w.emit(steps, v, "")
	case *ssa.Call:
		w.walkCall(t, 0, frames, steps, depth)
	default:
		w.emit(steps, v, "")
	}
}

func (w *chainWalker) walkCall(call *ssa.Call, result int, frames []*ssa.Call, steps []chainStep, depth int) {
	h := call.Call.StaticCallee()
	if h != nil && h.Blocks != nil && core.FuncPkgRel(h) != "" && core.FuncPkgRel(h) == core.FuncPkgRel(call.Parent()) && len(frames) < 3 {
		// same-package helper: enter it
		n := 0
		for _, r := range core.Returns(h) {
			rv := core.RetVals(r)
			if result < len(rv) {
				n++
				w.walk(rv[result], append(append([]*ssa.Call(nil), frames...), call), steps, depth+1)
			}
		}
		if n > 0 {
			return
		}
	}
	steps = append(append([]chainStep(nil), steps...), chainStep{core.CalleeKey(&call.Call), call})
	if len(call.Call.Args) > 0 && !call.Call.IsInvoke() {
		if b, ok := call.Call.Args[0].Type().Underlying().(*types.Basic); ok && b.Info()&types.IsString != 0 {
			w.walk(call.Call.Args[0], frames, steps, depth+1)
			return
		}
	}
	w.emit(steps, call, "")
}

// rangeKeyOfMap: v is the key produced by a `range` over a map.
func rangeKeyOfMap(v ssa.Value) bool {
	e, ok := v.(*ssa.Extract)
	if !ok || e.Index != 1 {
		return false
	}
	nx, ok := e.Tuple.(*ssa.Next)
	if !ok || nx.IsString {
		return false
	}
	rg, ok := nx.Iter.(*ssa.Range)
	if !ok {
		return false
	}
	_, isMap := rg.X.Type().Underlying().(*types.Map)
	return isMap
}

// ---- "only an error text" sinks ---------------------------------------------------------------

// sliceOnlyErrorText: every use of the slice value v (the result of an append inside a
// map-range loop) is len(), a nil test, a further append to itself, or strings.Join whose
// result only becomes part of an error value or a log line. The order of the elements then
// influences the wording of a message, not what is accepted or built.
func sliceOnlyErrorText(v ssa.Value, seen map[ssa.Value]bool) bool {
	if seen[v] {
		return true
	}
	seen[v] = true
	refs := v.Referrers()
	if refs == nil {
		return false
	}
	for _, r := range *refs {
		switch t := r.(type) {
		case *ssa.DebugRef:
		case *ssa.Phi:
			if !sliceOnlyErrorText(t, seen) {
				return false
			}
		case *ssa.BinOp:
			if t.Op != token.EQL && t.Op != token.NEQ {
				return false
			}
		case *ssa.Store:
			al, ok := t.Addr.(*ssa.Alloc)
			if !ok || t.Val != v || al.Referrers() == nil {
				return false
			}
			for _, ar := range *al.Referrers() {
				switch u := ar.(type) {
				case *ssa.Store:
					if u.Addr != ssa.Value(al) {
						return false
					}
				case *ssa.UnOp:
					if u.Op != token.MUL || !sliceOnlyErrorText(u, seen) {
						return false
					}
				case *ssa.DebugRef:
				default:
					return false
				}
			}
		case *ssa.Call:
			if b, ok := t.Call.Value.(*ssa.Builtin); ok {
				switch b.Name() {
				case "len", "cap":
				case "append":
					for i, a := range t.Call.Args {
						if a == v && i != 0 {
							return false
						}
					}
					if !sliceOnlyErrorText(t, seen) {
						return false
					}
				default:
					return false
				}
				continue
			}
			if core.CallIs(&t.Call, "strings.Join") && len(t.Call.Args) > 0 && t.Call.Args[0] == v {
				if !textOnlyErrorText(t, map[ssa.Value]bool{}) {
					return false
				}
				continue
			}
			return false
		default:
			return false
		}
	}
	return true
}

// messageSink: the call only builds an error value or writes a log line.
func messageSink(c *ssa.CallCommon) bool {
	sig := c.Signature()
	if sig == nil {
		return false
	}
	if sig.Results().Len() == 1 && isErrorType(sig.Results().At(0).Type()) {
		if sc := c.StaticCallee(); sc != nil && sc.Pkg != nil {
			switch sc.Pkg.Pkg.Path() {
			case "fmt", "errors":
				return true
			}
		}
		return false
	}
	if sig.Results().Len() == 0 {
		var pk *types.Package
		if c.IsInvoke() {
			pk = c.Method.Pkg()
		} else if sc := c.StaticCallee(); sc != nil && sc.Object() != nil {
			pk = sc.Object().Pkg()
		}
		if pk != nil {
			switch pk.Name() {
			case "log", "log4go":
				return true
			}
		}
	}
	return false
}

func textOnlyErrorText(v ssa.Value, seen map[ssa.Value]bool) bool {
	if seen[v] {
		return true
	}
	seen[v] = true
	refs := v.Referrers()
	if refs == nil {
		return false
	}
	for _, r := range *refs {
		switch t := r.(type) {
		case *ssa.DebugRef:
		case *ssa.Phi, *ssa.MakeInterface:
			if !textOnlyErrorText(t.(ssa.Value), seen) {
				return false
			}
		case *ssa.BinOp:
			if t.Op != token.ADD || !textOnlyErrorText(t, seen) {
				return false
			}
		case *ssa.Store:
			// element of a variadic argument array
			ia, ok := t.Addr.(*ssa.IndexAddr)
			if !ok || t.Val != v {
				return false
			}
			al, ok := ia.X.(*ssa.Alloc)
			if !ok || al.Referrers() == nil {
				return false
			}
			for _, ar := range *al.Referrers() {
				switch u := ar.(type) {
				case *ssa.IndexAddr:
				case *ssa.Slice:
					if u.Referrers() == nil {
						return false
					}
					for _, sr := range *u.Referrers() {
						ci, isCall := sr.(ssa.CallInstruction)
						if !isCall || !messageSink(ci.Common()) {
							return false
						}
					}
				default:
					return false
				}
			}
		case ssa.CallInstruction:
			if !messageSink(t.Common()) {
				return false
			}
		default:
			return false
		}
	}
	return true
}

// ---- list comparators (C14's own, structure-based variant of C02's checkComparators) -------------

// c14Comparators: the two list comparators are the strict order `l[i].<key> < l[j].<key>` on the
// unique immutable key (AddrInfo, Name). The operands are matched by structure - which
// parameter indexes the list and which field is read last - so renaming the receiver or the
// index parameters, writing `l[j].k > l[i].k`, or naming the operands first does not matter.
func c14Comparators(c *core.Ctx, rule string) {
	const slb, gslb = "bfe_balance/bal_slb", "bfe_balance/bal_gslb"
	for _, cmp := range []struct{ pkg, typ, field string }{{slb, "BackendListSorter", "AddrInfo"}, {gslb, "SubClusterListSorter", "Name"}} {
		fn := c.P.Func(cmp.pkg, cmp.typ+".Less")
		if fn == nil {
			c.Missing(cmp.pkg + "." + cmp.typ + ".Less")
			continue
		}
		c.Analysed(core.FuncKey(fn))
		ok := len(fn.Params) == 3
		n := 0
		// operand -> (last field read, parameter that indexes the list)
		operand := func(v ssa.Value) (*types.Var, *ssa.Parameter) {
			var last *types.Var
			for d := 0; d < 12; d++ {
				switch t := v.(type) {
				case *ssa.UnOp:
					if t.Op != token.MUL {
						return nil, nil
					}
					v = t.X
				case *ssa.FieldAddr:
					if last == nil {
						last = core.FieldObj(t.X, t.Field)
					}
					v = t.X
				case *ssa.Field:
					if last == nil {
						last = core.FieldObj(t.X, t.Field)
					}
					v = t.X
				case *ssa.IndexAddr:
					p, _ := t.Index.(*ssa.Parameter)
					return last, p
				case *ssa.Index:
					p, _ := t.Index.(*ssa.Parameter)
					return last, p
				default:
					return nil, nil
				}
			}
			return nil, nil
		}
		for _, r := range core.Returns(fn) {
			n++
			rv := core.RetVals(r)
			if !ok || len(rv) != 1 {
				ok = false
				continue
			}
			b, isB := rv[0].(*ssa.BinOp)
			if !isB || (b.Op != token.LSS && b.Op != token.GTR) {
				ok = false
				continue
			}
			fx, px := operand(b.X)
			fy, py := operand(b.Y)
			if b.Op == token.GTR {
				px, py = py, px
			}
			if fx == nil || fx != fy || fx.Name() != cmp.field || px != fn.Params[1] || py != fn.Params[2] {
				ok = false
			}
		}
		c.Check(rule, cmp.typ+".Less", fn.Pos(), ok && n > 0, cmp.typ+".Less must be the strict order `l[i]."+cmp.field+" < l[j]."+cmp.field+"` on the unique immutable key (a non-strict or different key makes the walked order depend on history)")
	}
}

// ---- read-only callees ---------------------------------------------------------------------------

// localRoot: the storage written through addr (or the container v) was created by the
// enclosing function itself (Alloc, make), so writing it is not an effect on outer state.
func localRoot(v ssa.Value, seen map[ssa.Value]bool) bool {
	if v == nil || seen[v] {
		return v != nil
	}
	seen[v] = true
	switch t := v.(type) {
	case *ssa.Alloc, *ssa.MakeMap, *ssa.MakeSlice:
		return true
	case *ssa.FieldAddr:
		return localRoot(t.X, seen)
	case *ssa.IndexAddr:
		return localRoot(t.X, seen)
	case *ssa.Slice:
		return localRoot(t.X, seen)
	case *ssa.Phi:
		for _, e := range t.Edges {
			if !localRoot(e, seen) {
				return false
			}
		}
		return len(t.Edges) > 0
	case *ssa.Call:
		if b, ok := t.Call.Value.(*ssa.Builtin); ok && b.Name() == "append" && len(t.Call.Args) > 0 {
			return localRoot(t.Call.Args[0], seen)
		}
	}
	return false
}

var readOnlyPkgs = map[string]bool{"strings": true, "strconv": true, "errors": true, "unicode": true, "unicode/utf8": true, "math": true, "path": true, "path/filepath": true}
var readOnlyFuncs = map[string]bool{"fmt.Sprintf": true, "fmt.Errorf": true, "fmt.Sprint": true, "fmt.Sprintln": true, "net.ParseIP": true, "net.ParseCIDR": true, "net.IP.String": true, "net.IP.Equal": true, "time.Now": true, "time.Since": true, "bytes.Equal": true, "bytes.Compare": true}

// readOnlyFunc reports whether calling fn has no effect on state that outlives the call
// (apart from logging and lock operations): it stores only into storage it created itself,
// updates only maps it made, starts no goroutine, sends on no channel, and calls only
// functions of the same kind (module functions up to depth, a short list of pure library
// functions, logging). A loop body may call such a function on an outer object: the call
// cannot make the outcome depend on the iteration order.
func (x *confIdx) readOnlyFunc(fn *ssa.Function, depth int, seen map[*ssa.Function]bool) bool {
	if fn == nil || fn.Blocks == nil {
		return false
	}
	if seen[fn] {
		return true
	}
	seen[fn] = true
	ok := true
	callOK := func(com *ssa.CallCommon) bool {
		if b, isB := com.Value.(*ssa.Builtin); isB {
			switch b.Name() {
			case "len", "cap", "append", "new", "make", "min", "max", "panic", "real", "imag", "complex":
				return true
			case "delete":
				return len(com.Args) > 0 && localRoot(com.Args[0], map[ssa.Value]bool{})
			case "copy":
				return len(com.Args) > 0 && localRoot(com.Args[0], map[ssa.Value]bool{})
			}
			return false
		}
		if com.IsInvoke() {
			if pk := com.Method.Pkg(); pk != nil && (pk.Name() == "log" || pk.Name() == "log4go") {
				return true
			}
			return (com.Method.Name() == "Error" || com.Method.Name() == "String") && len(com.Args) == 0
		}
		sc := com.StaticCallee()
		if sc == nil {
			return false
		}
		if sc.Blocks != nil && core.FuncPkgRel(sc) != "" {
			return depth > 0 && x.readOnlyFunc(sc, depth-1, seen)
		}
		if readOnlyFuncs[core.FuncKey(sc)] {
			return true
		}
		var pk *types.Package
		if sc.Pkg != nil {
			pk = sc.Pkg.Pkg
		} else if sc.Object() != nil {
			pk = sc.Object().Pkg()
		}
		if pk == nil {
			return false
		}
		if pk.Path() == "sync" {
			switch sc.Name() {
			case "Lock", "Unlock", "RLock", "RUnlock":
				return true
			}
			return false
		}
		return readOnlyPkgs[pk.Path()] || pk.Name() == "log" || pk.Name() == "log4go"
	}
	for _, g := range core.WithClosures(fn) {
		core.Instrs(g, func(in ssa.Instruction) {
			if !ok {
				return
			}
			switch t := in.(type) {
			case *ssa.Store:
				ok = localRoot(t.Addr, map[ssa.Value]bool{})
			case *ssa.MapUpdate:
				ok = localRoot(t.Map, map[ssa.Value]bool{})
			case *ssa.Send, *ssa.Go:
				ok = false
			case *ssa.Select:
				ok = false
			case *ssa.Call:
				ok = callOK(&t.Call)
			case *ssa.Defer:
				ok = callOK(&t.Call)
			}
		})
	}
	return ok
}
