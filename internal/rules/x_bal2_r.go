package rules

import (
	"go/constant"
	"go/token"
	"go/types"
	"sync"

	"golang.org/x/tools/go/ssa"

	"verif/internal/core"
)

// x_bal2_r.go — helpers that keep the rules of C05–C07 silent on
// behaviour-preserving refactorings (helper extraction / inlining, inverted or
// named conditions, early returns, renamed locals, deferred closures) without
// giving up what they decide. Everything here is structural: values are
// compared by identity after following them through spilled variables,
// captured variables and the parameters of private helpers; conditions are
// followed through `!`, short-circuit phis and the results of helpers.

// ---- value origin ---------------------------------------------------------------

// rbClosureSite returns the MakeClosure instruction that creates the anonymous
// function fn (nil when fn is not anonymous or is created at several places).
func rbClosureSite(fn *ssa.Function) *ssa.MakeClosure {
	par := fn.Parent()
	if par == nil {
		return nil
	}
	var mc *ssa.MakeClosure
	n := 0
	core.Instrs(par, func(in ssa.Instruction) {
		if m, ok := in.(*ssa.MakeClosure); ok && m.Fn == ssa.Value(fn) {
			mc = m
			n++
		}
	})
	if n != 1 {
		return nil
	}
	return mc
}

// rbSingleStore returns the value of the only store into the local variable a
// (nil when there are none or several).
func rbSingleStore(a *ssa.Alloc) ssa.Value {
	var v ssa.Value
	n := 0
	var scan func(fn *ssa.Function)
	scan = func(fn *ssa.Function) {
		core.Instrs(fn, func(in ssa.Instruction) {
			if st, ok := in.(*ssa.Store); ok && rbAllocOf(st.Addr) == a {
				v = st.Val
				n++
			}
		})
		for _, an := range fn.AnonFuncs {
			scan(an)
		}
	}
	if a.Parent() != nil {
		scan(a.Parent())
	}
	if n != 1 {
		return nil
	}
	return v
}

// rbAllocOf resolves an address to the local variable it denotes: the Alloc
// itself or a free variable bound to it by the closure's MakeClosure.
func rbAllocOf(addr ssa.Value) *ssa.Alloc {
	for i := 0; i < 6; i++ {
		switch x := addr.(type) {
		case *ssa.Alloc:
			return x
		case *ssa.FreeVar:
			fn := x.Parent()
			mc := rbClosureSite(fn)
			if mc == nil {
				return nil
			}
			idx := -1
			for j, fv := range fn.FreeVars {
				if fv == x {
					idx = j
				}
			}
			if idx < 0 || idx >= len(mc.Bindings) {
				return nil
			}
			addr = mc.Bindings[idx]
		default:
			return nil
		}
	}
	return nil
}

// rbRoot follows v to its origin: through conversions, loads of local
// variables that are assigned once (or are spilled parameters), variables
// captured by closures, and the parameters of anonymous functions and of
// private helpers that have exactly one static call site (parameter ->
// argument). Two values with the same root denote the same object.
func rbRoot(p *core.Prog, v ssa.Value) ssa.Value {
	for i := 0; i < 16 && v != nil; i++ {
		v = core.StripConv(v)
		switch x := v.(type) {
		case *ssa.UnOp:
			if x.Op != token.MUL {
				return v
			}
			a := rbAllocOf(x.X)
			if a == nil {
				return v
			}
			if sp := core.SpilledParam(a); sp != nil {
				v = sp
				continue
			}
			if sv := rbSingleStore(a); sv != nil {
				v = sv
				continue
			}
			if sv := rbBlockStore(x, a); sv != nil {
				v = sv
				continue
			}
			return v
		case *ssa.Parameter:
			fn := x.Parent()
			idx := -1
			for j, q := range fn.Params {
				if q == x {
					idx = j
				}
			}
			if idx < 0 {
				return v
			}
			if fn.Parent() != nil {
				// anonymous function called / deferred at one place
				sites := rbAnonSites(fn)
				if len(sites) != 1 || idx >= len(sites[0].Common().Args) {
					return v
				}
				v = sites[0].Common().Args[idx]
				continue
			}
			if fn.Object() == nil || fn.Object().Exported() {
				return v
			}
			sites := rbCallSites(p, fn)
			if len(sites) != 1 || sites[0].Common().IsInvoke() || idx >= len(sites[0].Common().Args) {
				return v
			}
			v = sites[0].Common().Args[idx]
			continue
		default:
			return v
		}
	}
	return v
}

// rbSame: a and b denote the same object (same origin, or — inside one
// function — the same access path).
func rbSame(p *core.Prog, a, b ssa.Value) bool {
	ra, rb := rbRoot(p, a), rbRoot(p, b)
	if ra == rb {
		return true
	}
	ia, okA := ra.(ssa.Instruction)
	ib, okB := rb.(ssa.Instruction)
	if okA && okB && ia.Parent() == ib.Parent() {
		return sameElem(ra, rb)
	}
	return false
}

// rbFieldAddr: addr addresses the field named name of a struct whose type
// string ends in typeSuffix ("" = any); returns the base value.
func rbFieldAddr(addr ssa.Value, typeSuffix, name string) (ssa.Value, bool) {
	fa, ok := addr.(*ssa.FieldAddr)
	if !ok {
		return nil, false
	}
	fo := core.FieldObj(fa.X, fa.Field)
	if fo == nil || fo.Name() != name {
		return nil, false
	}
	if typeSuffix != "" {
		t := fa.X.Type()
		if pt, isP := t.Underlying().(*types.Pointer); isP {
			t = pt.Elem()
		}
		ts := core.TypeStr(t)
		if len(ts) < len(typeSuffix) || ts[len(ts)-len(typeSuffix):] != typeSuffix {
			return nil, false
		}
	}
	return fa.X, true
}

// rbFieldLoad: v is a load of field name (of a struct type ending in
// typeSuffix); returns the base.
func rbFieldLoad(v ssa.Value, typeSuffix, name string) (ssa.Value, bool) {
	v = core.StripConv(v)
	if u, ok := v.(*ssa.UnOp); ok && u.Op == token.MUL {
		return rbFieldAddr(u.X, typeSuffix, name)
	}
	return nil, false
}

// rbDerefOfField: v is `*x.name` or `x.name` for some x (the configured
// threshold read through the conf pointer), possibly passed on through the
// parameter of a private helper.
func rbDerefOfField(p *core.Prog, v ssa.Value, name string) bool {
	v = rbRoot(p, v)
	for i := 0; i < 4; i++ {
		v = core.StripConv(v)
		switch x := v.(type) {
		case *ssa.UnOp:
			if x.Op != token.MUL {
				return false
			}
			v = x.X
		case *ssa.FieldAddr:
			fo := core.FieldObj(x.X, x.Field)
			return fo != nil && fo.Name() == name
		case *ssa.Field:
			fo := core.FieldObj(x.X, x.Field)
			return fo != nil && fo.Name() == name
		default:
			return false
		}
	}
	return false
}

func rbBoolConst(v ssa.Value) (val, ok bool) {
	k, isK := v.(*ssa.Const)
	if !isK || k.Value == nil || k.Value.Kind() != constant.Bool {
		return false, false
	}
	return constant.BoolVal(k.Value), true
}

// ---- conditions ---------------------------------------------------------------

// rbNorm peels `!x`, `x == true`, `x != false`, ... and returns the inner
// value with the polarity under which the original value has polarity pol.
func rbNorm(v ssa.Value, pol bool) (ssa.Value, bool) {
	for i := 0; i < 8; i++ {
		switch x := v.(type) {
		case *ssa.UnOp:
			if x.Op == token.NOT {
				v, pol = x.X, !pol
				continue
			}
		case *ssa.BinOp:
			if x.Op == token.EQL || x.Op == token.NEQ {
				if k, ok := rbBoolConst(x.Y); ok {
					if k != (x.Op == token.EQL) {
						pol = !pol
					}
					v = x.X
					continue
				}
				if k, ok := rbBoolConst(x.X); ok {
					if k != (x.Op == token.EQL) {
						pol = !pol
					}
					v = x.Y
					continue
				}
			}
		}
		break
	}
	return v, pol
}

// rbAtom decides whether "v has truth value pol" is the fact looked for.
type rbAtom func(v ssa.Value, pol bool) bool

// rbImplies: does "v has truth value pol" establish the atom? v is followed
// through negations, through the phi of a short-circuit `a && b` / `a || b` or
// of a flag variable (every incoming edge that can carry pol must establish the
// atom, by its value or by the guards of the edge), and through the result of
// a function with a body (every return that can yield pol must establish it).
func rbImplies(p *core.Prog, v ssa.Value, pol bool, atom rbAtom, depth int) bool {
	return rbImpliesRec(p, v, pol, atom, depth, map[ssa.Value]bool{})
}

func rbImpliesRec(p *core.Prog, v ssa.Value, pol bool, atom rbAtom, depth int, seen map[ssa.Value]bool) bool {
	v, pol = rbNorm(v, pol)
	if atom(v, pol) {
		return true
	}
	// a named boolean kept in a local variable that is assigned once
	if r := rbRoot(p, v); r != v {
		if _, isParam := r.(*ssa.Parameter); !isParam {
			if rv, rpol := rbNorm(r, pol); atom(rv, rpol) {
				return true
			}
		}
	}
	if depth <= 0 || seen[v] {
		return false
	}
	seen[v] = true
	defer delete(seen, v)
	switch x := v.(type) {
	case *ssa.Phi:
		n := 0
		for i, e := range x.Edges {
			k, isK := rbBoolConst(e)
			if isK && k != pol {
				continue
			}
			n++
			ok := false
			if !isK {
				ok = rbImpliesRec(p, e, pol, atom, depth-1, seen)
			}
			if !ok {
				for _, g := range core.GuardsOnEdge(x.Block().Preds[i], x.Block()) {
					if rbImpliesRec(p, g.Cond, g.Pol, atom, depth-1, seen) {
						ok = true
						break
					}
				}
			}
			if !ok {
				return false
			}
		}
		return n > 0
	case *ssa.Call:
		return rbResultImplies(p, x.Call.StaticCallee(), 0, pol, atom, depth-1, seen)
	case *ssa.Extract:
		if call, ok := x.Tuple.(*ssa.Call); ok {
			return rbResultImplies(p, call.Call.StaticCallee(), x.Index, pol, atom, depth-1, seen)
		}
	}
	return false
}

func rbResultImplies(p *core.Prog, h *ssa.Function, idx int, pol bool, atom rbAtom, depth int, seen map[ssa.Value]bool) bool {
	if h == nil || h.Blocks == nil || depth < 0 {
		return false
	}
	n := 0
	for _, r := range core.Returns(h) {
		rv := core.RetVals(r)
		if idx >= len(rv) {
			return false
		}
		k, isK := rbBoolConst(rv[idx])
		if isK && k != pol {
			continue
		}
		n++
		ok := false
		if !isK {
			ok = rbImpliesRec(p, rv[idx], pol, atom, depth, seen)
		}
		if !ok {
			for _, g := range core.GuardsAt(r.Block()) {
				if rbImpliesRec(p, g.Cond, g.Pol, atom, depth, seen) {
					ok = true
					break
				}
			}
		}
		if !ok {
			return false
		}
	}
	return n > 0
}

// rbGuarded: on every way of reaching b the atom has been established by a
// branch condition — in b's function or, when that is a private helper with
// one call site (or an anonymous function), at the call site.
func rbGuarded(p *core.Prog, b *ssa.BasicBlock, atom rbAtom) bool {
	match := func(g core.Guard) bool { return rbImplies(p, g.Cond, g.Pol, atom, 4) }
	for _, g := range rbGuardsAtCtx(p, b) {
		if match(g) {
			return true
		}
	}
	return core.AllEdgesGuarded(b, match)
}

// rbCmpAtom builds an atom "X op Y" (any spelling: mirrored, negated).
func rbCmpAtom(op token.Token, mx, my func(ssa.Value) bool) rbAtom {
	return func(v ssa.Value, pol bool) bool {
		return core.Guard{Cond: v, Pol: pol}.CmpIs(op, mx, my)
	}
}

// ---- path facts ---------------------------------------------------------------

// rbFact is a condition known to hold on a path.
type rbFact struct {
	V   ssa.Value
	Pol bool
}

// rbValueOnPath resolves phis of v along the path (the edge taken into the
// phi's block at its last occurrence on the path).
func rbValueOnPath(path *core.Path, v ssa.Value) ssa.Value {
	for i := 0; i < 8; i++ {
		phi, ok := v.(*ssa.Phi)
		if !ok {
			return v
		}
		at := -1
		for j, b := range path.Blocks {
			if b == phi.Block() {
				at = j
			}
		}
		if at <= 0 {
			return v
		}
		pred := path.Blocks[at-1]
		found := false
		for j, q := range phi.Block().Preds {
			if q == pred {
				v = phi.Edges[j]
				found = true
				break
			}
		}
		if !found {
			return v
		}
	}
	return v
}

// rbPathFacts lists the branch conditions taken on the path (normalised).
func rbPathFacts(path *core.Path) []rbFact {
	var out []rbFact
	path.Edges(func(cond ssa.Value, taken bool) {
		v, pol := rbNorm(rbValueOnPath(path, cond), taken)
		out = append(out, rbFact{v, pol})
	})
	return out
}

// rbResultPaths enumerates the entry-to-return paths of fn on which result
// #idx can have the value want, and calls f with the return, the path and the
// facts holding on it (branches taken plus "result == want" when the result is
// not a constant). It reports whether the enumeration was complete.
func rbResultPaths(fn *ssa.Function, idx int, want bool, f func(r *ssa.Return, path *core.Path, facts []rbFact)) bool {
	return core.EnumPaths(fn, 2, 4000, func(path *core.Path) {
		r, ok := path.Last().(*ssa.Return)
		if !ok {
			return
		}
		rv := core.RetVals(r)
		if idx >= len(rv) {
			return
		}
		v, pol := rbNorm(rbValueOnPath(path, rv[idx]), want)
		facts := rbPathFacts(path)
		if k, isK := rbBoolConst(v); isK {
			if k != pol {
				return
			}
		} else {
			for _, ft := range facts {
				if ft.V == v && ft.Pol != pol {
					return // contradicts a branch taken on this path
				}
			}
			facts = append(facts, rbFact{v, pol})
		}
		f(r, path, facts)
	})
}

// rbFactsImply: one of the facts establishes the atom.
func rbFactsImply(p *core.Prog, facts []rbFact, atom rbAtom) bool {
	for _, ft := range facts {
		if rbImplies(p, ft.V, ft.Pol, atom, 4) {
			return true
		}
	}
	return false
}

// ---- interprocedural reachability -------------------------------------------------

// rbReach answers "starting after an instruction, can a target be executed
// before an instruction of the avoid set?", following control into the bodies
// of statically called module functions and — from the return of a private
// helper (or anonymous function) — back to its call sites.
type rbReach struct {
	p          *core.Prog
	avoid      func(ssa.Instruction) bool
	target     func(ssa.Instruction) bool
	exitTarget bool // a return of a function that cannot be ascended from counts as a target
	depth      int
	memoHit    map[*ssa.Function]int8 // 1: target reachable from the entry before avoid, 2: not
	memoPass   map[*ssa.Function]int8 // 1: some path entry->return does not pass avoid, 2: every path passes it
}

func newRbReach(p *core.Prog, avoid, target func(ssa.Instruction) bool) *rbReach {
	return &rbReach{p: p, avoid: avoid, target: target, depth: 4, memoHit: map[*ssa.Function]int8{}, memoPass: map[*ssa.Function]int8{}}
}

func rbBody(ci ssa.CallInstruction) *ssa.Function {
	if _, isGo := ci.(*ssa.Go); isGo {
		return nil
	}
	if _, isDefer := ci.(*ssa.Defer); isDefer {
		return nil
	}
	h := ci.Common().StaticCallee()
	if h == nil {
		if mc, ok := ci.Common().Value.(*ssa.MakeClosure); ok {
			h, _ = mc.Fn.(*ssa.Function)
		}
	}
	if h == nil || h.Blocks == nil {
		return nil
	}
	return h
}

// entryHit: a target can be executed inside h before avoid.
func (r *rbReach) entryHit(h *ssa.Function, depth int) bool {
	if m := r.memoHit[h]; m != 0 {
		return m == 1
	}
	r.memoHit[h] = 2 // recursion: assume no
	hit := r.walk(h, h.Blocks[0], 0, false, false, depth, nil) != nil
	if hit {
		r.memoHit[h] = 1
	}
	return hit
}

// passes: some path from h's entry to a return does not execute avoid.
func (r *rbReach) passes(h *ssa.Function, depth int) bool {
	if m := r.memoPass[h]; m != 0 {
		return m == 1
	}
	r.memoPass[h] = 1 // recursion: assume it can fall through
	ok := r.walk(h, h.Blocks[0], 0, false, true, depth, nil) != nil
	if !ok {
		r.memoPass[h] = 2
	}
	return ok
}

// From: is a target reachable after `from` (ascending from helpers)?
func (r *rbReach) From(from ssa.Instruction) ssa.Instruction {
	b := from.Block()
	i := 0
	for j, x := range b.Instrs {
		if x == from {
			i = j + 1
		}
	}
	return r.walk(b.Parent(), b, i, true, false, r.depth, map[ssa.Instruction]bool{})
}

// FromEntry: is a target reachable from fn's entry (no ascent)?
func (r *rbReach) FromEntry(fn *ssa.Function) ssa.Instruction {
	if len(fn.Blocks) == 0 {
		return nil
	}
	return r.walk(fn, fn.Blocks[0], 0, false, false, r.depth, nil)
}

// walk scans from (b, i). wantReturn: the "target" is any return of fn (used by passes).
func (r *rbReach) walk(fn *ssa.Function, b *ssa.BasicBlock, i int, ascend, wantReturn bool, depth int, sites map[ssa.Instruction]bool) ssa.Instruction {
	seen := map[*ssa.BasicBlock]bool{}
	type item struct {
		b *ssa.BasicBlock
		i int
	}
	work := []item{{b, i}}
	for len(work) > 0 {
		it := work[len(work)-1]
		work = work[:len(work)-1]
		stopped := false
		for j := it.i; j < len(it.b.Instrs) && !stopped; j++ {
			in := it.b.Instrs[j]
			if !wantReturn && r.target(in) {
				return in
			}
			if r.avoid != nil && r.avoid(in) {
				stopped = true
				break
			}
			switch x := in.(type) {
			case ssa.CallInstruction:
				h := rbBody(x)
				if h == nil || depth <= 0 {
					continue
				}
				if !wantReturn && r.entryHit(h, depth-1) {
					return in
				}
				if !r.passes(h, depth-1) {
					stopped = true
				}
			case *ssa.Return:
				if wantReturn {
					return in
				}
				if ascend {
					up := rbAscendSites(r.p, fn)
					if up != nil {
						for _, s := range up {
							si := s.(ssa.Instruction)
							if sites[si] {
								continue
							}
							sites[si] = true
							sb := si.Block()
							k := 0
							for m, y := range sb.Instrs {
								if y == si {
									k = m + 1
								}
							}
							if hit := r.walk(sb.Parent(), sb, k, true, false, depth, sites); hit != nil {
								return hit
							}
						}
						continue
					}
				}
				if r.exitTarget && ascend {
					return in
				}
			}
		}
		if stopped {
			continue
		}
		for _, s := range it.b.Succs {
			if !seen[s] {
				seen[s] = true
				work = append(work, item{s, 0})
			}
		}
	}
	return nil
}

// rbAscendSites: the plain call sites of a private helper / anonymous function
// (nil when fn is exported, used as a value, started with go or deferred: then
// its return is the end of the activity).
func rbAscendSites(p *core.Prog, fn *ssa.Function) []ssa.CallInstruction {
	if fn.Parent() != nil {
		var out []ssa.CallInstruction
		for _, s := range rbAnonSites(fn) {
			if _, ok := s.(*ssa.Call); !ok {
				return nil
			}
			out = append(out, s)
		}
		return out
	}
	if fn.Object() == nil || fn.Object().Exported() {
		return nil
	}
	sites := rbCallSites(p, fn)
	if len(sites) == 0 {
		return nil
	}
	var out []ssa.CallInstruction
	for _, s := range sites {
		if _, ok := s.(*ssa.Call); !ok {
			return nil
		}
		out = append(out, s)
	}
	return out
}

// rbInRegion reports whether fn belongs to the region of anchor.
func rbInRegion(p *core.Prog, anchor, fn *ssa.Function) bool {
	for _, g := range rbRegion(p, anchor) {
		if g == fn {
			return true
		}
	}
	return false
}

// rbCallTo: in is a call (call, defer or go) of one of the named functions.
func rbCallTo(in ssa.Instruction, names ...string) (ssa.CallInstruction, bool) {
	ci, ok := in.(ssa.CallInstruction)
	if !ok || !core.CallIs(ci.Common(), names...) {
		return nil, false
	}
	return ci, true
}

// ---- misc -------------------------------------------------------------------

// rbAddressTaken: fn is used as a value (method value, callback) somewhere in its package.
func rbAddressTaken(p *core.Prog, fn *ssa.Function) bool {
	taken := false
	for _, g := range p.SrcFuncs(core.FuncPkgRel(fn)) {
		core.Instrs(g, func(in ssa.Instruction) {
			for _, op := range in.Operands(nil) {
				if op == nil || *op == nil {
					continue
				}
				if f, ok := (*op).(*ssa.Function); ok && f == fn {
					if ci, isCall := in.(ssa.CallInstruction); isCall && ci.Common().Value == ssa.Value(fn) {
						continue
					}
					taken = true
				}
			}
		})
	}
	return taken
}

// rbPrivateCallee: fn is an unexported function or method all of whose uses
// are plain static calls (so a requirement on its callers can be checked at
// every call site).
func rbPrivateCallee(p *core.Prog, fn *ssa.Function) bool {
	if fn.Parent() != nil || fn.Object() == nil || fn.Object().Exported() {
		return false
	}
	sites := rbCallSites(p, fn)
	if len(sites) == 0 || rbAddressTaken(p, fn) {
		return false
	}
	return true
}

// rbUnwrapTail: when fn's body was moved into a private helper of its region
// (fn only returns the helper's result), the helper; otherwise fn.
func rbUnwrapTail(p *core.Prog, fn *ssa.Function) *ssa.Function {
	for i := 0; i < 3; i++ {
		rets := core.Returns(fn)
		if len(rets) != 1 {
			return fn
		}
		rv := core.RetVals(rets[0])
		if len(rv) == 0 {
			return fn
		}
		var call *ssa.Call
		switch x := rv[0].(type) {
		case *ssa.Call:
			call = x
		case *ssa.Extract:
			call, _ = x.Tuple.(*ssa.Call)
		}
		if call == nil {
			return fn
		}
		h := call.Call.StaticCallee()
		if h == nil || h.Blocks == nil || !rbInRegion(p, fn, h) || len(rbCallSites(p, h)) != 1 {
			return fn
		}
		fn = h
	}
	return fn
}

// rbHoldsUp: a lock whose path ends in suffix is held (mode "W": write lock)
// before in — in in's function or, when that is a private helper / anonymous
// function, at every one of its call sites.
func rbHoldsUp(p *core.Prog, in ssa.Instruction, suffix, mode string, depth int) bool {
	fn := in.Parent()
	if core.ComputeLockSets(fn).HoldsAny(in, suffix, mode) {
		return true
	}
	if depth <= 0 {
		return false
	}
	sites := rbAscendSites(p, fn)
	if len(sites) == 0 {
		return false
	}
	for _, s := range sites {
		if !rbHoldsUp(p, s.(ssa.Instruction), suffix, mode, depth-1) {
			return false
		}
	}
	return true
}

// rbWrite is a place of a region that writes a field: a store, or a call of a
// function outside the region that (transitively) stores it; vals are the
// values written, expressed in the frame of the place (nil = unknown).
type rbWrite struct {
	in   ssa.Instruction
	vals []ssa.Value
}

// rbAvailWrites lists the writes (isStore) performed by the functions of region.
func rbAvailWrites(p *core.Prog, region []*ssa.Function, isStore func(ssa.Instruction) bool) []rbWrite {
	inRegion := map[*ssa.Function]bool{}
	for _, g := range region {
		inRegion[g] = true
	}
	var out []rbWrite
	for _, g := range region {
		core.Instrs(g, func(in ssa.Instruction) {
			if isStore(in) {
				out = append(out, rbWrite{in, []ssa.Value{in.(*ssa.Store).Val}})
				return
			}
			ci, ok := in.(ssa.CallInstruction)
			if !ok {
				return
			}
			h := ci.Common().StaticCallee()
			if h == nil || h.Blocks == nil || inRegion[h] || !core.MayPass(h, isStore, 2) {
				return
			}
			out = append(out, rbWrite{in, rbWrittenVals(h, ci.Common().Args, isStore, 2)})
		})
	}
	return out
}

// rbWrittenVals: the values h stores (isStore), with h's parameters replaced by args.
func rbWrittenVals(h *ssa.Function, args []ssa.Value, isStore func(ssa.Instruction) bool, depth int) []ssa.Value {
	subst := func(v ssa.Value) ssa.Value {
		if prm, ok := v.(*ssa.Parameter); ok {
			for j, q := range h.Params {
				if q == prm && j < len(args) {
					return args[j]
				}
			}
			return nil
		}
		if _, ok := v.(*ssa.Const); ok {
			return v
		}
		return nil
	}
	var out []ssa.Value
	core.Instrs(h, func(in ssa.Instruction) {
		if isStore(in) {
			out = append(out, subst(in.(*ssa.Store).Val))
			return
		}
		ci, ok := in.(ssa.CallInstruction)
		if !ok || depth <= 0 {
			return
		}
		g := ci.Common().StaticCallee()
		if g == nil || g.Blocks == nil || g == h || !core.MayPass(g, isStore, depth-1) {
			return
		}
		var inner []ssa.Value
		for _, a := range ci.Common().Args {
			inner = append(inner, subst(a))
		}
		out = append(out, rbWrittenVals(g, inner, isStore, depth-1)...)
	})
	return out
}

// ---- interprocedural typestate ----------------------------------------------------

// rbTypestate runs core.Typestate over a function and, at a plain call of a
// function of the region (a private helper), over the helper's body with the
// state at the call as initial state; the call's result state is the union of
// the states at the helper's returns. step is told whether the instruction
// belongs to the top function (returns of helpers are not returns of the rule's
// anchor). Obligations are recorded once: in the final pass of the top
// function, for the final pass of each helper activation.
type rbTypestate struct {
	p        *core.Prog
	inRegion map[*ssa.Function]bool
	step     func(in ssa.Instruction, s uint32, report, top bool) uint32
	refine   func(cond ssa.Value, pol bool, s uint32) uint32
}

func (t *rbTypestate) run(fn *ssa.Function, init uint32, outerReport, top bool, depth int) uint32 {
	var exit uint32
	core.Typestate(fn, init, func(in ssa.Instruction, s uint32, report bool) uint32 {
		rep := report && outerReport
		if _, isRet := in.(*ssa.Return); isRet {
			if report && in.Block() != fn.Recover {
				exit |= s
			}
			return t.step(in, s, rep, top)
		}
		if call, ok := in.(*ssa.Call); ok && depth > 0 && s != 0 {
			h := call.Call.StaticCallee()
			if h == nil {
				if mc, isMC := call.Call.Value.(*ssa.MakeClosure); isMC {
					h, _ = mc.Fn.(*ssa.Function)
				}
			}
			if h != nil && h.Blocks != nil && h != fn && t.inRegion[h] {
				return t.run(h, s, rep, false, depth-1)
			}
		}
		return t.step(in, s, rep, top)
	}, t.refine)
	return exit
}

// rbFieldReaching: v is a load of a struct field; when the enclosing function
// stores that field (same field object, same base) exactly once and the store
// dominates the load, the stored value (effects of callees on the field are
// not considered).
func rbFieldReaching(v ssa.Value) ssa.Value {
	u, ok := v.(*ssa.UnOp)
	if !ok || u.Op != token.MUL {
		return nil
	}
	fa, ok := u.X.(*ssa.FieldAddr)
	if !ok {
		return nil
	}
	fo := core.FieldObj(fa.X, fa.Field)
	var st *ssa.Store
	n := 0
	core.Instrs(u.Parent(), func(in ssa.Instruction) {
		s, ok := in.(*ssa.Store)
		if !ok {
			return
		}
		fb, ok := s.Addr.(*ssa.FieldAddr)
		if !ok || core.FieldObj(fb.X, fb.Field) != fo || !sameElem(fb.X, fa.X) {
			return
		}
		st = s
		n++
	})
	if n != 1 || !core.Dominates(st, u) {
		return nil
	}
	return st.Val
}

// rbStdlibValueErr: call is a static call of a standard-library function (no
// body in the module, import path without a dot) returning (value, error).
func rbStdlibValueErr(call *ssa.Call) bool {
	h := call.Call.StaticCallee()
	if h == nil || h.Blocks != nil {
		return false
	}
	path := ""
	if h.Pkg != nil {
		path = h.Pkg.Pkg.Path()
	} else if o := h.Object(); o != nil && o.Pkg() != nil {
		path = o.Pkg().Path()
	}
	if path == "" {
		return false
	}
	for i := 0; i < len(path) && path[i] != '/'; i++ {
		if path[i] == '.' {
			return false
		}
	}
	res := h.Signature.Results()
	if res.Len() != 2 {
		return false
	}
	return types.TypeString(res.At(1).Type(), nil) == "error"
}

// rbBlockStore: the value of the last store into the local variable a that
// precedes the load u inside u's block (`x, err = f(); if err != nil`).
func rbBlockStore(u *ssa.UnOp, a *ssa.Alloc) ssa.Value {
	b := u.Block()
	if b == nil {
		return nil
	}
	at := -1
	for i, in := range b.Instrs {
		if in == ssa.Instruction(u) {
			at = i
		}
	}
	for i := at - 1; i >= 0; i-- {
		if st, ok := b.Instrs[i].(*ssa.Store); ok && rbAllocOf(st.Addr) == a {
			return st.Val
		}
	}
	return nil
}

// rbAnonSites: the call / defer / go instructions that invoke the anonymous
// function fn directly (as a closure value or, when it captures nothing, as a
// plain function value); nil when fn is also used in any other way.
func rbAnonSites(fn *ssa.Function) []ssa.CallInstruction {
	par := fn.Parent()
	if par == nil {
		return nil
	}
	isFn := func(v ssa.Value) bool {
		if v == ssa.Value(fn) {
			return true
		}
		mc, ok := v.(*ssa.MakeClosure)
		return ok && mc.Fn == ssa.Value(fn)
	}
	var out []ssa.CallInstruction
	other := false
	var scan func(g *ssa.Function)
	scan = func(g *ssa.Function) {
		core.Instrs(g, func(in ssa.Instruction) {
			if ci, ok := in.(ssa.CallInstruction); ok && isFn(ci.Common().Value) {
				out = append(out, ci)
				for _, a := range ci.Common().Args {
					if isFn(a) {
						other = true
					}
				}
				return
			}
			if _, isMC := in.(*ssa.MakeClosure); isMC {
				return
			}
			for _, op := range in.Operands(nil) {
				if op != nil && *op != nil && isFn(*op) {
					other = true
				}
			}
		})
		for _, a := range g.AnonFuncs {
			if a != fn {
				scan(a)
			}
		}
	}
	scan(par)
	if other {
		return nil
	}
	return out
}

// rbSameExpr: a and b are the same value or structurally equal side-effect-free
// expressions (go/ssa does not share common subexpressions: `next+1` written
// twice is two values).
func rbSameExpr(a, b ssa.Value) bool {
	a, b = core.StripConv(a), core.StripConv(b)
	if a == b {
		return true
	}
	switch x := a.(type) {
	case *ssa.BinOp:
		y, ok := b.(*ssa.BinOp)
		return ok && x.Op == y.Op && rbSameExpr(x.X, y.X) && rbSameExpr(x.Y, y.Y)
	case *ssa.Const:
		y, ok := b.(*ssa.Const)
		return ok && x.Value != nil && y.Value != nil && x.Value.ExactString() == y.Value.ExactString() && types.Identical(x.Type(), y.Type())
	}
	return false
}

// rbCallSites is Prog.CallSites with one index per program (the thorough tier
// analyses several overlay programs concurrently; the shared single-program
// cache of package core would be rebuilt on every alternation).
var rbSitesIdx sync.Map // *core.Prog -> map[*ssa.Function][]ssa.CallInstruction

func rbCallSites(p *core.Prog, f *ssa.Function) []ssa.CallInstruction {
	if m, ok := rbSitesIdx.Load(p); ok {
		return m.(map[*ssa.Function][]ssa.CallInstruction)[f]
	}
	idx := map[*ssa.Function][]ssa.CallInstruction{}
	for _, fn := range p.SrcFuncs("") {
		core.Instrs(fn, func(in ssa.Instruction) {
			if ci, ok := in.(ssa.CallInstruction); ok {
				if sc := ci.Common().StaticCallee(); sc != nil {
					idx[sc] = append(idx[sc], ci)
				}
			}
		})
	}
	m, _ := rbSitesIdx.LoadOrStore(p, idx)
	return m.(map[*ssa.Function][]ssa.CallInstruction)[f]
}

// ---- region / context guards on the per-program call-site index -----------------------
// Copies of Prog.Region / Prog.GuardsAtCtx / Prog.HasGuardCtx / Prog.RegionCalls of
// package core (same meaning) that use rbCallSites, so that concurrent analyses
// of several programs do not rebuild the shared call-site cache on every query.

var rbRegionCache sync.Map // rbRegionKey -> []*ssa.Function

type rbRegionKey struct {
	p  *core.Prog
	fn *ssa.Function
}

// rbRegion: fn, its closures and its private helpers (same package, unexported,
// not used as values, every static call site inside the region; depth <= 4).
func rbRegion(p *core.Prog, fn *ssa.Function) []*ssa.Function {
	if fn == nil {
		return nil
	}
	if r, ok := rbRegionCache.Load(rbRegionKey{p, fn}); ok {
		return r.([]*ssa.Function)
	}
	in := map[*ssa.Function]bool{}
	var out []*ssa.Function
	add := func(f *ssa.Function) {
		for _, g := range core.WithClosures(f) {
			if !in[g] {
				in[g] = true
				out = append(out, g)
			}
		}
	}
	add(fn)
	for depth := 0; depth < 4; depth++ {
		grew := false
		for _, f := range append([]*ssa.Function(nil), out...) {
			core.Instrs(f, func(x ssa.Instruction) {
				ci, ok := x.(ssa.CallInstruction)
				if !ok {
					return
				}
				h := ci.Common().StaticCallee()
				if h == nil || in[h] || h.Blocks == nil || h.Pkg == nil || h.Pkg != fn.Pkg || h.Parent() != nil {
					return
				}
				if h.Object() == nil || h.Object().Exported() {
					return
				}
				for _, s := range rbCallSites(p, h) {
					if !in[s.Parent()] {
						return
					}
				}
				if rbAddressTaken(p, h) {
					return
				}
				add(h)
				grew = true
			})
		}
		if !grew {
			break
		}
	}
	rbRegionCache.Store(rbRegionKey{p, fn}, out)
	return out
}

// rbRegionCalls: the calls of the named functions in fn's region.
func rbRegionCalls(p *core.Prog, fn *ssa.Function, names ...string) []ssa.CallInstruction {
	var out []ssa.CallInstruction
	for _, g := range rbRegion(p, fn) {
		out = append(out, core.Calls(g, names...)...)
	}
	return out
}

// rbGuardsAtCtx: guards at b plus, through the single call site of a private
// helper / anonymous function, the guards at that site (depth <= 4).
func rbGuardsAtCtx(p *core.Prog, b *ssa.BasicBlock) []core.Guard {
	out := core.GuardsAt(b)
	f := b.Parent()
	for depth := 0; depth < 4 && f != nil; depth++ {
		var site ssa.CallInstruction
		if f.Parent() != nil {
			sites := rbAnonSites(f)
			if len(sites) != 1 {
				break
			}
			site = sites[0]
		} else {
			if f.Object() == nil || f.Object().Exported() {
				break
			}
			sites := rbCallSites(p, f)
			if len(sites) != 1 || rbAddressTaken(p, f) {
				break
			}
			site = sites[0]
		}
		sb := site.Block()
		out = append(out, core.GuardsAt(sb)...)
		f = sb.Parent()
	}
	return out
}
