package rules

// Round-4 strengthenings of C45, C47, C48 and C55 (prefixes c45r, c47s, c48a,
// c55e): upper-bound ranges of integers assembled from message bytes
// (wrap-around of a bound expression), the sole-reader discipline of a
// connection that is going to be hijacked, "success means registered" for
// AddFilter, and the provenance of the error that ends a FastCGI reply.

import (
	"fmt"
	"go/constant"
	"go/token"
	"go/types"
	"math/big"
	"sort"
	"strings"

	"golang.org/x/tools/go/ssa"

	"verif/internal/core"
)

// ---------------------------------------------------------------- C45: int-wrap

var c45rSizes = types.SizesFor("gc", "amd64")

// c45rLenMax: assumed upper bound of len() of a message slice (handshake
// messages are at most 2^24+4 bytes, tickets 2^16; anything below 2^31 serves).
var c45rLenMax = big.NewInt(1<<31 - 1)

// c45rIntType returns the largest value and the width of an integer type.
func c45rIntType(t types.Type) (max *big.Int, bits int, unsigned, ok bool) {
	bt, isB := t.Underlying().(*types.Basic)
	if !isB || bt.Info()&types.IsInteger == 0 {
		return nil, 0, false, false
	}
	bits = int(c45rSizes.Sizeof(bt)) * 8
	unsigned = bt.Info()&types.IsUnsigned != 0
	max = new(big.Int).Lsh(big.NewInt(1), uint(bits))
	if !unsigned {
		max.Rsh(max, 1)
	}
	max.Sub(max, big.NewInt(1))
	return max, bits, unsigned, true
}

type c45rRanger struct {
	p *c45Prover
}

func c45rMask(a, b *big.Int) *big.Int {
	m := a
	if b.Cmp(a) > 0 {
		m = b
	}
	out := new(big.Int).Lsh(big.NewInt(1), uint(m.BitLen()))
	return out.Sub(out, big.NewInt(1))
}

// ub: an upper bound of the non-negative integer value v that holds where
// block `at` executes (v dominates at). ok is false when nothing is known (a
// 64-bit value of unknown origin).
func (r *c45rRanger) ub(v ssa.Value, at *ssa.BasicBlock, depth int, seen map[ssa.Value]bool) (*big.Int, bool) {
	if v == nil || depth > 16 {
		return nil, false
	}
	if k, isK := v.(*ssa.Const); isK {
		if k.Value == nil || k.Value.Kind() != constant.Int {
			return nil, false
		}
		if n, exact := constant.Int64Val(k.Value); exact && n >= 0 {
			return big.NewInt(n), true
		}
		if n, exact := constant.Uint64Val(k.Value); exact {
			return new(big.Int).SetUint64(n), true
		}
		return nil, false
	}
	var best *big.Int
	take := func(n *big.Int) {
		if n != nil && n.Sign() >= 0 && (best == nil || n.Cmp(best) < 0) {
			best = n
		}
	}
	tmax, bits, unsigned, isInt := c45rIntType(v.Type())
	if !isInt {
		return nil, false
	}
	if bits < 64 {
		take(tmax)
	}
	nonNeg := func(x ssa.Value) bool {
		if _, _, u, ok := c45rIntType(x.Type()); ok && u {
			return true
		}
		n, ok := r.p.lb(x, at, 0, map[ssa.Value]bool{})
		return ok && n >= 0
	}
	switch x := v.(type) {
	case *ssa.Convert:
		if _, _, _, ok := c45rIntType(x.X.Type()); ok && nonNeg(x.X) {
			if n, ok := r.ub(x.X, at, depth+1, seen); ok && n.Cmp(tmax) <= 0 {
				take(n)
			}
		}
	case *ssa.ChangeType:
		if n, ok := r.ub(x.X, at, depth+1, seen); ok {
			take(n)
		}
	case *ssa.BinOp:
		a, okA := r.ub(x.X, at, depth+1, seen)
		b, okB := r.ub(x.Y, at, depth+1, seen)
		ky, isKy := tlsConstInt(x.Y)
		switch x.Op {
		case token.ADD:
			if okA && okB && nonNeg(x.X) && nonNeg(x.Y) {
				take(new(big.Int).Add(a, b))
			}
		case token.MUL:
			if okA && okB && nonNeg(x.X) && nonNeg(x.Y) {
				take(new(big.Int).Mul(a, b))
			}
		case token.SHL:
			if okA && isKy && ky >= 0 && ky < 64 && nonNeg(x.X) {
				take(new(big.Int).Lsh(a, uint(ky)))
			}
		case token.SHR:
			if okA && nonNeg(x.X) {
				if isKy && ky >= 0 && ky < 64 {
					take(new(big.Int).Rsh(a, uint(ky)))
				} else {
					take(a)
				}
			}
		case token.OR, token.XOR:
			if okA && okB && nonNeg(x.X) && nonNeg(x.Y) {
				take(c45rMask(a, b))
			}
		case token.AND:
			if isKy && ky >= 0 {
				take(big.NewInt(ky))
			}
			if kx, isKx := tlsConstInt(x.X); isKx && kx >= 0 {
				take(big.NewInt(kx))
			}
			if unsigned {
				if okA {
					take(a)
				}
				if okB {
					take(b)
				}
			}
		case token.SUB:
			if okA && isKy && ky >= 0 {
				if !unsigned && nonNeg(x.X) {
					take(a)
				} else if n, ok := r.p.lb(x.X, at, 0, map[ssa.Value]bool{}); ok && n >= ky {
					take(new(big.Int).Sub(a, big.NewInt(ky)))
				}
			}
		case token.QUO:
			if okA && isKy && ky > 0 && nonNeg(x.X) {
				take(new(big.Int).Quo(a, big.NewInt(ky)))
			}
		case token.REM:
			if isKy && ky > 0 && nonNeg(x.X) {
				take(big.NewInt(ky - 1))
			}
		}
	case *ssa.Call:
		if core.CalleeKey(&x.Call) == "builtin:len" {
			take(c45rLenMax)
		}
	case *ssa.Phi:
		if !seen[x] {
			seen[x] = true
			var max *big.Int
			all := len(x.Edges) > 0
			for _, e := range x.Edges {
				n, ok := r.ub(e, at, depth+1, seen)
				if !ok {
					all = false
					break
				}
				if max == nil || n.Cmp(max) > 0 {
					max = n
				}
			}
			delete(seen, x)
			if all {
				take(max)
			}
		}
	}
	// dominating comparisons on v itself
	if depth < 6 {
		for _, f := range r.p.factsAt(at) {
			x, y, op, ok := tlsRel(f)
			if !ok {
				continue
			}
			other := y
			if y == v {
				other, op = x, tlsFlip(op)
			} else if x != v {
				continue
			}
			if other == v {
				continue
			}
			n, okN := r.ub(other, at, depth+6, seen)
			if !okN {
				continue
			}
			switch op {
			case token.LEQ, token.EQL:
				take(n)
			case token.LSS:
				if n.Sign() > 0 {
					take(new(big.Int).Sub(n, big.NewInt(1)))
				}
			}
		}
	}
	return best, best != nil
}

// c45rWire: v is computed from a byte of a message slice.
func c45rWire(v ssa.Value) bool {
	return nxFlows(v, func(x ssa.Value) bool {
		a, isLoad := tlsLoad(x)
		if !isLoad {
			return false
		}
		ia, ok := a.(*ssa.IndexAddr)
		return ok && c45IsByteSlice(ia.X.Type())
	}, func(x ssa.Value) bool {
		// do not look into what a call computes, nor through memory
		switch x.(type) {
		case *ssa.Call, *ssa.Alloc:
			return true
		}
		return false
	})
}

// c45NoWrap: in an unmarshal function, every +, * and << (and every narrowing
// conversion) applied to an integer assembled from message bytes must be
// unable to leave the range of its type: a wrapped sum that is then compared
// with len() "passes" the bound check it was meant to implement. Returns the
// number of operations examined.
func c45NoWrap(c *core.Ctx, m string, fn *ssa.Function) int {
	r := &c45rRanger{p: &c45Prover{facts: map[*ssa.BasicBlock][]tlsFact{}}}
	examined := 0
	var open []string
	for _, in := range tlsInstrs(fn) {
		switch x := in.(type) {
		case *ssa.BinOp:
			if x.Op != token.ADD && x.Op != token.MUL && x.Op != token.SHL {
				continue
			}
			tmax, bits, _, isInt := c45rIntType(x.Type())
			if !isInt || !c45rWire(x) {
				continue
			}
			at := x.Block()
			a, okA := r.ub(x.X, at, 0, map[ssa.Value]bool{})
			b, okB := r.ub(x.Y, at, 0, map[ssa.Value]bool{})
			if !okA || !okB {
				continue
			}
			var exact *big.Int
			switch x.Op {
			case token.ADD:
				exact = new(big.Int).Add(a, b)
			case token.MUL:
				exact = new(big.Int).Mul(a, b)
			case token.SHL:
				k, isK := tlsConstInt(x.Y)
				if !isK || k < 0 || k > 128 {
					continue
				}
				exact = new(big.Int).Lsh(a, uint(k))
			}
			examined++
			if exact.Cmp(tmax) > 0 {
				open = append(open, fmt.Sprintf("%s: %s (%d-bit %s) can reach %s > %s", c.P.Pos(x.Pos()), c45rShort(core.Render(x)), bits, x.Type().String(), exact.String(), tmax.String()))
			}
		case *ssa.Convert:
			tmax, bits, _, isInt := c45rIntType(x.Type())
			_, sbits, _, srcInt := c45rIntType(x.X.Type())
			if !isInt || !srcInt || bits >= sbits || !c45rWire(x) {
				continue
			}
			n, ok := r.ub(x.X, x.Block(), 0, map[ssa.Value]bool{})
			if !ok {
				continue
			}
			examined++
			if n.Cmp(tmax) > 0 {
				open = append(open, fmt.Sprintf("%s: conversion of %s (up to %s) to %s drops its high bits", c.P.Pos(x.Pos()), c45rShort(core.Render(x.X)), n.String(), x.Type().String()))
			}
		}
	}
	if examined == 0 {
		return 0
	}
	sort.Strings(open)
	c.Check("int-wrap", m+".unmarshal", fn.Pos(), len(open) == 0,
		fmt.Sprintf("%s.unmarshal: %d of %d arithmetic operations on integers assembled from message bytes can leave the range of their type: %s — the wrapped value then satisfies the length comparison that was meant to bound it, and the slice expression built from it panics (high < low) or reads other bytes than the ones checked", m, len(open), examined, strings.Join(open, " | ")))
	return examined
}

func c45rShort(s string) string {
	if len(s) > 90 {
		return s[:90] + "…"
	}
	return s
}

// ---------------------------------------------------------------- C47: sole reader

// c47sReads: the goroutine body fn (with its in-module callees, two levels)
// reads from some stream.
func c47sReads(fn *ssa.Function) bool {
	for _, f := range core.TransitiveCallees(fn, 2) {
		hit := false
		core.Instrs(f, func(in ssa.Instruction) {
			call, ok := in.(ssa.CallInstruction)
			if !ok {
				return
			}
			cc := call.Common()
			if cc.IsInvoke() && (cc.Method.Name() == "Read" || cc.Method.Name() == "ReadFrom") {
				hit = true
			}
			if core.CallIs(cc, "io.Copy", "io.CopyBuffer", "io.CopyN", "io.ReadFull", "io.ReadAtLeast", "io.ReadAll", "io/ioutil.ReadAll") {
				hit = true
			}
		})
		if hit {
			return true
		}
	}
	return false
}

// c47sSpawners: the functions of pkg that start a goroutine which reads
// (directly, or through static calls inside the package).
func c47sSpawners(c *core.Ctx, pkg string) map[*ssa.Function]string {
	out := map[*ssa.Function]string{}
	fns := c.P.SrcFuncs(pkg)
	for _, f := range fns {
		if core.FuncPkgRel(f) != pkg {
			continue
		}
		core.Instrs(f, func(in ssa.Instruction) {
			g, ok := in.(*ssa.Go)
			if !ok {
				return
			}
			var body *ssa.Function
			if mc, isMC := g.Call.Value.(*ssa.MakeClosure); isMC {
				body, _ = mc.Fn.(*ssa.Function)
			} else {
				body = g.Call.StaticCallee()
			}
			if body != nil && body.Blocks != nil && c47sReads(body) {
				out[f] = "starts a reading goroutine at " + c.P.Pos(g.Pos())
			}
		})
	}
	for changed := true; changed; {
		changed = false
		for _, f := range fns {
			if _, done := out[f]; done || core.FuncPkgRel(f) != pkg {
				continue
			}
			for _, call := range core.AllCalls(f) {
				if _, isGo := call.(*ssa.Go); isGo {
					continue
				}
				if g := call.Common().StaticCallee(); g != nil {
					if _, sp := out[g]; sp {
						out[f] = "calls " + nxShort(g)
						changed = true
						break
					}
				}
			}
		}
	}
	return out
}

// c47soleReader: the client connection of a WebSocket tunnel is the
// connection of the ResponseWriter that is hijacked. bfe_server's response
// has methods that start a goroutine reading that very connection (the lazy
// close notifier); such a reader survives Hijack() and steals client bytes
// from the tunnel. Neither the tunnel package, on the ResponseWriter it is
// going to hijack, nor conn.serve before the hand-off may use them.
func c47soleReader(c *core.Ctx, ws string, serve *ssa.Function) {
	const srv = "bfe_server"
	tn, _ := c.P.Obj(srv, "response").(*types.TypeName)
	if tn == nil {
		c.Missing(srv + ".response")
		return
	}
	ptr := types.NewPointer(tn.Type())
	spawn := c47sSpawners(c, srv)
	bad := map[string]string{} // method name of *response -> why
	for f, why := range spawn {
		if recv := f.Signature.Recv(); recv != nil && types.Identical(recv.Type(), ptr) {
			bad[f.Name()] = "bfe_server.response." + f.Name() + " " + why
		}
	}
	var names []string
	for n := range bad {
		names = append(names, n)
	}
	sort.Strings(names)
	c.Note("tunnel-sole-reader: methods of bfe_server.response that start a goroutine reading the connection: %v", names)
	implemented := func(t types.Type) *types.Interface {
		it, ok := t.Underlying().(*types.Interface)
		if !ok || it.NumMethods() == 0 || !types.Implements(ptr, it) {
			return nil
		}
		return it
	}
	// (a) the tunnel package
	for _, fn := range core.TransitiveCallees(serve, 4) {
		if core.FuncPkgRel(fn) != ws {
			continue
		}
		sites := 0
		var hits []string
		for _, in := range allInstrs(fn) {
			var it *types.Interface
			var used []string
			switch x := in.(type) {
			case ssa.CallInstruction:
				cc := x.Common()
				if !cc.IsInvoke() {
					continue
				}
				if it = implemented(cc.Value.Type()); it != nil {
					used = []string{cc.Method.Name()}
				}
			case *ssa.TypeAssert:
				if it = implemented(x.AssertedType); it != nil {
					for i := 0; i < it.NumMethods(); i++ {
						used = append(used, it.Method(i).Name())
					}
				}
			case *ssa.ChangeInterface:
				if implemented(x.X.Type()) == nil {
					continue
				}
				if it = implemented(x.Type()); it != nil {
					for i := 0; i < it.NumMethods(); i++ {
						used = append(used, it.Method(i).Name())
					}
				}
			}
			if it == nil {
				continue
			}
			sites++
			for _, m := range used {
				if why, isBad := bad[m]; isBad {
					hits = append(hits, fmt.Sprintf("%s obtains/calls %s on the ResponseWriter (%s)", c.P.Pos(in.Pos()), m, why))
				}
			}
		}
		if sites == 0 {
			continue
		}
		c.Analysed(core.FuncKey(fn))
		sort.Strings(hits)
		c.Check("tunnel-sole-reader", ws+":"+nxShort(fn), fn.Pos(), len(hits) == 0,
			"the tunnel set-up uses a ResponseWriter method that starts a background reader on the client connection it later hijacks: "+strings.Join(c47uniq(hits), "; ")+
				" — that goroutine stays parked in Read on the connection after Hijack(), takes the next client bytes and the tunnel's io.Copy never sees them (the first frames after the upgrade do not reach the backend)")
	}
	// (b) bfe_server's conn.serve before the hand-off to the upgrade handler
	cs := c.P.Func(srv, "conn.serve")
	if cs == nil || cs.Blocks == nil {
		c.Missing(srv + ".conn.serve")
		return
	}
	c.Analysed(core.FuncKey(cs))
	isHandOff := func(in ssa.Instruction) bool {
		call, ok := in.(*ssa.Call)
		if !ok || call.Call.IsInvoke() || call.Call.StaticCallee() != nil {
			return false
		}
		return nxFlows(call.Call.Value, func(v ssa.Value) bool {
			l, isL := v.(*ssa.Lookup)
			return isL && strings.HasSuffix(core.Render(l.X), ".HTTPNextProto")
		}, nil)
	}
	nHand := 0
	for _, in := range allInstrs(cs) {
		if isHandOff(in) {
			nHand++
		}
	}
	var early []string
	for _, call := range core.AllCalls(cs) {
		cc := call.Common()
		why := ""
		if g := cc.StaticCallee(); g != nil {
			if w, sp := spawn[g]; sp {
				why = nxShort(g) + " " + w
			}
		} else if cc.IsInvoke() && implemented(cc.Value.Type()) != nil {
			why = bad[cc.Method.Name()]
		}
		if why == "" {
			continue
		}
		if isHandOff(call.(ssa.Instruction)) || core.ReachAvoiding(cs, call.(ssa.Instruction), nil, isHandOff) != nil {
			early = append(early, c.P.Pos(call.Pos())+": "+why)
		}
	}
	c.Check("tunnel-sole-reader", srv+":conn.serve:hand-off", cs.Pos(), nHand > 0 && len(early) == 0,
		fmt.Sprintf("%d hand-off call(s) to an HTTPNextProto handler found in conn.serve; a background reader of the connection may be started before the hand-off: %s", nHand, strings.Join(early, "; ")))
}

// ---------------------------------------------------------------- C48: success means registered

// c48addRegisters: a nil error of BfeCallbacks.AddFilter must be the verdict
// of an Add<K>Filter call — every returned error value is the result of such a
// call, a constructed error, or nil on an edge where an Add<K>Filter result
// was tested to be nil. A filter that is silently not registered never runs,
// and its verdicts are lost.
func c48addRegisters(c *core.Ctx, fn *ssa.Function) {
	for i, r := range core.Returns(fn) {
		ok, why := c48errFromAdd(fn, r, 0)
		c.Check("add-registers", fmt.Sprintf("AddFilter:return#%d", i), r.Pos(), ok,
			"AddFilter "+why+": the caller is told the filter was registered although no handler list received it — the filter never runs and its verdicts (Close, Finish, Redirect, Response) are lost, the chain answers GoOn")
	}
	c.Min("add-registers", 2)
}

// c48errFromAdd: the error returned by r (last result) is, on every path, the
// result of an Add<K>Filter call of fn, a constructed error, nil established
// from an Add<K>Filter result, or the error of a helper of the package (two
// levels) all of whose returns are of that kind.
func c48errFromAdd(fn *ssa.Function, r *ssa.Return, depth int) (bool, string) {
	var adds []ssa.Value
	for _, k := range c48kinds {
		for _, call := range core.Calls(fn, c48mod+".HandlerList.Add"+k+"Filter") {
			if v, ok := call.(ssa.Value); ok {
				adds = append(adds, v)
			}
		}
	}
	isAdd := func(v ssa.Value) bool {
		for _, a := range adds {
			if a == v {
				return true
			}
		}
		return false
	}
	rv := core.RetVals(r)
	if len(rv) == 0 {
		return false, "returns no error"
	}
	for _, l := range nxPhiLeaves(rv[len(rv)-1]) {
		v := core.StripConv(l.V)
		switch {
		case isNilConst(v):
			var gs []core.Guard
			if l.From != nil {
				gs = core.GuardsOnEdge(l.From, l.To)
			} else {
				gs = core.GuardsAt(r.Block())
			}
			tested := false
			for _, g := range gs {
				for _, a := range adds {
					if nxCondErrNil(g.Cond, g.Pol, a) {
						tested = true
					}
				}
			}
			if !tested {
				return false, "returns nil on a path where no Add<K>Filter result was obtained and found nil (guards: " + guardList(gs) + ")"
			}
		case isAdd(v):
		default:
			call, _ := nxCallResult(v)
			if call != nil && core.CallIs(&call.Call, "fmt.Errorf", "errors.New") {
				continue
			}
			if call != nil && depth < 2 {
				if g := call.Call.StaticCallee(); g != nil && g.Blocks != nil && core.FuncPkgRel(g) == c48mod {
					rets := core.Returns(g)
					good := len(rets) > 0
					why := ""
					for _, gr := range rets {
						if ok, w := c48errFromAdd(g, gr, depth+1); !ok {
							good, why = false, w
						}
					}
					if good {
						continue
					}
					return false, "returns the error of " + nxShort(g) + ", which " + why
				}
			}
			return false, "returns " + core.Render(v) + ", which is neither an Add<K>Filter result nor a constructed error"
		}
	}
	return true, ""
}

func guardList(gs []core.Guard) string {
	var s []string
	for _, g := range gs {
		s = append(s, g.Str)
	}
	return strings.Join(s, " && ")
}

// c48sameTable: the map AddFilter registers into is the map GetHandlerList
// serves from and NewBfeCallbacks fills, reached through the receiver.
func c48sameTable(c *core.Ctx, add *ssa.Function) {
	recvField := func(v ssa.Value, recv ssa.Value) *types.Var {
		a, isLoad := tlsLoad(core.StripConv(v))
		if !isLoad {
			return nil
		}
		fa, ok := a.(*ssa.FieldAddr)
		if !ok || (recv != nil && fa.X != recv) {
			return nil
		}
		return core.FieldObj(fa.X, fa.Field)
	}
	lookupField := func(fn *ssa.Function) *types.Var {
		var f *types.Var
		n := 0
		for _, in := range allInstrs(fn) {
			if lk, ok := in.(*ssa.Lookup); ok && len(fn.Params) >= 2 && lk.Index == ssa.Value(fn.Params[1]) {
				f = recvField(lk.X, fn.Params[0])
				n++
			}
		}
		if n != 1 {
			return nil
		}
		return f
	}
	get := nxFuncOrMissing(c, c48mod, "BfeCallbacks.GetHandlerList")
	mk := nxFuncOrMissing(c, c48mod, "NewBfeCallbacks")
	if get == nil || mk == nil {
		return
	}
	fAdd, fGet := lookupField(add), lookupField(get)
	var fNew *types.Var
	okNew := true
	for _, in := range allInstrs(mk) {
		mu, ok := in.(*ssa.MapUpdate)
		if !ok {
			continue
		}
		if call, _ := nxCallResult(mu.Value); call == nil || !core.CallIs(&call.Call, c48mod+".NewHandlerList") {
			continue
		}
		f := recvField(mu.Map, nil)
		if f == nil || (fNew != nil && f != fNew) {
			okNew = false
		}
		fNew = f
	}
	c.Check("add-dispatch", "AddFilter:table", add.Pos(), fAdd != nil && fAdd == fGet && okNew && fAdd == fNew,
		"AddFilter must look its handler list up in the receiver's own table — the field that NewBfeCallbacks fills and GetHandlerList serves the call sites from; a filter added to any other list is never run")
}

// ---------------------------------------------------------------- C55: end of the reply

// c55respEnd: the HTTP response is built from everything streamReader.Read
// delivers until its first error. (1) every error streamReader.Read returns
// derives from the error of its record.read call; (2) in record.read an
// end-of-stream marker (a package-level error variable such as io.EOF) is
// returned only where rec.h.Type == FCGI_END_REQUEST is established; all other
// errors are results of calls (I/O errors, constructed errors).
func c55respEnd(c *core.Ctx, rd, sr *ssa.Function, fType *types.Var, endReq int64) {
	var recReads []*ssa.Call
	for _, call := range core.Calls(sr, c55pkg+".record.read") {
		if cc, ok := call.(*ssa.Call); ok {
			recReads = append(recReads, cc)
		}
	}
	fromRead := func(v ssa.Value) bool {
		return nxFlows(v, func(x ssa.Value) bool {
			call, i := nxCallResult(x)
			if call == nil {
				return false
			}
			for _, rr := range recReads {
				if call == rr && i == 1 {
					return true
				}
			}
			return false
		}, nil)
	}
	for i, r := range core.Returns(sr) {
		rv := core.RetVals(r)
		ok, why := len(rv) == 2, ""
		if ok {
			for _, l := range nxPhiLeaves(rv[1]) {
				if isNilConst(core.StripConv(l.V)) || fromRead(l.V) {
					continue
				}
				ok, why = false, core.Render(l.V)
			}
		}
		c.Check("resp-end", fmt.Sprintf("streamReader.Read:return#%d", i), r.Pos(), ok,
			"streamReader.Read returns the error "+why+", which does not come from record.read: the reply is cut off (or failed) at a point that is not FCGI_END_REQUEST and not an I/O error — e.g. an empty FCGI_STDERR record would end the HTTP response body although FCGI_STDOUT data is still to come")
	}
	isEnd := func(g core.Guard) bool {
		x, op, k, ok := nxCmp(g.Cond, g.Pol)
		return ok && op == token.EQL && k == endReq && nxLoadsField(x, fType)
	}
	for i, r := range core.Returns(rd) {
		rv := core.RetVals(r)
		ok, why := len(rv) == 2, ""
		if ok {
			for _, l := range nxPhiLeaves(rv[1]) {
				v := core.StripConv(l.V)
				if isNilConst(v) {
					continue
				}
				if call, _ := nxCallResult(v); call != nil {
					continue
				}
				marker := false
				if a, isLoad := tlsLoad(v); isLoad {
					_, marker = a.(*ssa.Global)
				}
				if !marker {
					ok, why = false, "the error value "+core.Render(v)+" (not a call result, not a package-level marker)"
					continue
				}
				var gs []core.Guard
				if l.From != nil {
					gs = core.GuardsOnEdge(l.From, l.To)
				} else {
					gs = core.GuardsAt(r.Block())
				}
				guarded := false
				for _, g := range gs {
					if isEnd(g) {
						guarded = true
					}
				}
				if !guarded {
					ok, why = false, "the end-of-stream marker "+core.Render(v)+" under {"+guardList(gs)+"}"
				}
			}
		}
		c.Check("resp-end", fmt.Sprintf("record.read:return#%d", i), r.Pos(), ok,
			"record.read returns "+why+" without rec.h.Type == FCGI_END_REQUEST being established: the reply stream ends at a record that is not the end of the request, the rest of the responder's standard output is dropped from the HTTP response")
	}
	c.Min("resp-end", 5)
}
