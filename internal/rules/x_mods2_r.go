package rules

// Context helpers of C54/C56 that make the rules insensitive to helper
// extraction / inlining: calling-context frames of a private helper (facts at
// its single call site, parameter -> argument translation), interprocedural
// continuation of must-pass path queries through a helper's returns, lifting
// of events into callees that receive the object in question, and object
// identity across parameters / results.

import (
	"go/constant"
	"go/token"

	"golang.org/x/tools/go/ssa"

	"verif/internal/core"
)

func m2Ident(v ssa.Value) ssa.Value { return v }

// m2SoleSite returns the single static call of h when h is a private helper of
// its caller: unexported package-level function or method, never used as a
// value, called (not go/defer) at exactly one place, that place being inside the
// caller's region. Extracting such a helper from its caller or inlining it
// back does not change behaviour.
func m2SoleSite(p *core.Prog, h *ssa.Function) *ssa.Call {
	if h == nil || h.Parent() != nil || h.Object() == nil || h.Object().Exported() {
		return nil
	}
	sites := p.CallSites(h)
	if len(sites) != 1 {
		return nil
	}
	call, ok := sites[0].(*ssa.Call)
	if !ok {
		return nil
	}
	caller := call.Parent()
	for caller.Parent() != nil {
		caller = caller.Parent()
	}
	if caller == h {
		return nil
	}
	for _, g := range p.Region(caller) {
		if g == h {
			return call
		}
	}
	return nil
}

// m2Frame is one level of calling context of a block: frame 0 is the block
// itself, frame k+1 the block of the single call site of frame k's function.
// Up translates a value of frame 0 into the frame's own terms (parameters
// become the arguments passed; constants and globals stay); nil when the
// value has no counterpart there.
type m2Frame struct {
	Block *ssa.BasicBlock
	Site  *ssa.Call // the call (in this frame) that enters the inner frame; nil in frame 0
	Up    func(ssa.Value) ssa.Value
}

func m2ParamIndex(x *ssa.Parameter) int {
	for i, q := range x.Parent().Params {
		if q == x {
			return i
		}
	}
	return -1
}

func m2Frames(p *core.Prog, b *ssa.BasicBlock) []m2Frame {
	frames := []m2Frame{{Block: b, Up: m2Ident}}
	f := b.Parent()
	up := m2Ident
	for depth := 0; depth < 4; depth++ {
		site := m2SoleSite(p, f)
		if site == nil {
			break
		}
		prev, h, args := up, f, site.Call.Args
		up = func(v ssa.Value) ssa.Value {
			if v == nil {
				return nil
			}
			w := prev(v)
			if w == nil {
				return nil
			}
			switch x := core.StripConv(w).(type) {
			case *ssa.Parameter:
				if x.Parent() == h {
					if i := m2ParamIndex(x); i >= 0 && i < len(args) {
						return args[i]
					}
				}
				return nil
			case *ssa.Const, *ssa.Global, *ssa.Function:
				return w
			}
			return nil
		}
		frames = append(frames, m2Frame{Block: site.Block(), Site: site, Up: up})
		f = site.Parent()
	}
	return frames
}

// m2EstablishedCtx is mdEstablished over the calling context: the fact is
// established at b, or at the call site of b's function when that is a
// private single-site helper, and so on outwards. match receives the
// translation of frame-0 values into the frame the fact lives in.
func m2EstablishedCtx(p *core.Prog, b *ssa.BasicBlock, match func(f mdFact, up func(ssa.Value) ssa.Value) bool) bool {
	for _, fr := range m2Frames(p, b) {
		up := fr.Up
		if mdEstablished(fr.Block, func(f mdFact) bool { return match(f, up) }) {
			return true
		}
	}
	return false
}

// m2FactStrsCtx renders the facts of all frames (messages only).
func m2FactStrsCtx(p *core.Prog, b *ssa.BasicBlock) string {
	s := ""
	for i, fr := range m2Frames(p, b) {
		if i > 0 {
			s += " | caller: "
		}
		s += mdFactStrs(fr.Block)
	}
	return s
}

// m2SliceHasCtx: the backward slice of v contains a value satisfying pred,
// where a parameter of an unexported function is followed to the arguments at
// its static call sites (every site must qualify).
func m2SliceHasCtx(p *core.Prog, v ssa.Value, pred func(ssa.Value) bool, depth int) bool {
	sl := mdBackSlice(v)
	for x := range sl {
		if pred(x) {
			return true
		}
	}
	if depth >= 4 {
		return false
	}
	for x := range sl {
		prm, ok := x.(*ssa.Parameter)
		if !ok || prm.Parent().Object() == nil || prm.Parent().Object().Exported() {
			continue
		}
		i := m2ParamIndex(prm)
		sites := p.CallSites(prm.Parent())
		if i < 0 || len(sites) == 0 {
			continue
		}
		all := true
		for _, s := range sites {
			a := s.Common().Args
			if s.Common().IsInvoke() || i >= len(a) || !m2SliceHasCtx(p, a[i], pred, depth+1) {
				all = false
				break
			}
		}
		if all {
			return true
		}
	}
	return false
}

// m2Ev is an event predicate relative to an object: in is the event for
// object obj (a value of in's function); resolve maps values of in's function
// to the values they stand for (parameters of a callee entered from the
// anchor function -> the arguments passed), so that constants passed down as
// arguments are still recognised.
type m2Ev func(in ssa.Instruction, obj ssa.Value, resolve func(ssa.Value) ssa.Value) bool

// m2CalleeBinding: in is a static call of a function with a body that receives
// obj as an argument; returns the callee, the parameter standing for obj and
// the resolve function of the callee's frame.
func m2CalleeBinding(in ssa.Instruction, obj ssa.Value, resolve func(ssa.Value) ssa.Value) (*ssa.Function, ssa.Value, func(ssa.Value) ssa.Value) {
	call, ok := in.(*ssa.Call)
	if !ok || obj == nil {
		return nil, nil, nil
	}
	h := call.Call.StaticCallee()
	if h == nil || h.Blocks == nil || len(h.Params) != len(call.Call.Args) {
		return nil, nil, nil
	}
	j := -1
	for i, a := range call.Call.Args {
		if core.StripConv(a) == obj {
			j = i
			break
		}
	}
	if j < 0 {
		return nil, nil, nil
	}
	args := call.Call.Args
	res2 := func(v ssa.Value) ssa.Value {
		if x, ok := core.StripConv(v).(*ssa.Parameter); ok && x.Parent() == h {
			if i := m2ParamIndex(x); i >= 0 && i < len(args) {
				return resolve(args[i])
			}
		}
		return v
	}
	return h, h.Params[j], res2
}

// m2Must lifts an event used as a must-pass witness: the instruction is the
// event itself, or a call that hands obj to a function every path of which
// passes the event for it.
func m2Must(ev m2Ev, obj ssa.Value, resolve func(ssa.Value) ssa.Value, depth int) func(ssa.Instruction) bool {
	return func(in ssa.Instruction) bool {
		if ev(in, obj, resolve) {
			return true
		}
		if depth <= 0 {
			return false
		}
		h, o2, r2 := m2CalleeBinding(in, obj, resolve)
		if h == nil {
			return false
		}
		return core.ReachAvoiding(h, nil, m2Must(ev, o2, r2, depth-1), core.IsReturn) == nil
	}
}

// m2May lifts an event used as a forbidden effect: the instruction is the
// event, or a call that hands obj to a function that may execute it.
func m2May(ev m2Ev, obj ssa.Value, resolve func(ssa.Value) ssa.Value, depth int) func(ssa.Instruction) bool {
	return func(in ssa.Instruction) bool {
		if ev(in, obj, resolve) {
			return true
		}
		if depth <= 0 {
			return false
		}
		h, o2, r2 := m2CalleeBinding(in, obj, resolve)
		if h == nil {
			return false
		}
		inner := m2May(ev, o2, r2, depth-1)
		found := false
		core.Instrs(h, func(x ssa.Instruction) {
			if !found && inner(x) {
				found = true
			}
		})
		return found
	}
}

// m2ReachRets collects the returns reachable from (b, i) without executing an
// instruction satisfying avoid; edgeOK (optional) prunes branch edges.
func m2ReachRets(b *ssa.BasicBlock, i int, avoid func(ssa.Instruction) bool, edgeOK func(b *ssa.BasicBlock, succ int) bool) []*ssa.Return {
	var out []*ssa.Return
	seen := map[*ssa.BasicBlock]bool{}
	var work []*ssa.BasicBlock
	scan := func(b *ssa.BasicBlock, i int) {
		for ; i < len(b.Instrs); i++ {
			in := b.Instrs[i]
			if r, ok := in.(*ssa.Return); ok {
				out = append(out, r)
				return
			}
			if avoid != nil && avoid(in) {
				return
			}
		}
		for k, s := range b.Succs {
			if edgeOK != nil && !edgeOK(b, k) {
				continue
			}
			if !seen[s] {
				seen[s] = true
				work = append(work, s)
			}
		}
	}
	scan(b, i)
	for len(work) > 0 {
		x := work[len(work)-1]
		work = work[:len(work)-1]
		scan(x, 0)
	}
	return out
}

func m2InstrIndex(in ssa.Instruction) int {
	for i, x := range in.Block().Instrs {
		if x == in {
			return i
		}
	}
	return -1
}

// m2KnownBranch decides the branch at the end of b when its condition is a
// test of the results of call, which are known to be rets (the values of one
// return of the callee): the boolean result itself (negations folded) or a
// comparison of a result with a constant. Returns the successor index taken.
func m2KnownBranch(b *ssa.BasicBlock, call *ssa.Call, rets []ssa.Value) (int, bool) {
	if len(b.Instrs) == 0 || len(b.Succs) != 2 {
		return 0, false
	}
	ifi, ok := b.Instrs[len(b.Instrs)-1].(*ssa.If)
	if !ok {
		return 0, false
	}
	resultOf := func(v ssa.Value) (ssa.Value, bool) {
		v = core.StripConv(v)
		if v == ssa.Value(call) && len(rets) == 1 {
			return rets[0], true
		}
		if ex, ok := v.(*ssa.Extract); ok && ex.Tuple == ssa.Value(call) && ex.Index < len(rets) {
			return rets[ex.Index], true
		}
		return nil, false
	}
	constOf := func(v ssa.Value) (*ssa.Const, bool) {
		k, ok := core.StripConv(v).(*ssa.Const)
		return k, ok
	}
	cond, pol := mdUnNot(ifi.Cond, true)
	val, known := false, false
	if rv, ok := resultOf(cond); ok {
		if k, ok := constOf(rv); ok && k.Value != nil && k.Value.Kind() == constant.Bool {
			val, known = constant.BoolVal(k.Value), true
		}
	} else if bin, ok := cond.(*ssa.BinOp); ok && (bin.Op == token.EQL || bin.Op == token.NEQ) {
		x, y := bin.X, bin.Y
		rv, isRes := resultOf(x)
		if !isRes {
			rv, isRes = resultOf(y)
			y = x
		}
		if isRes {
			kr, ok1 := constOf(rv)
			ky, ok2 := constOf(y)
			if ok1 && ok2 {
				eq, decided := false, false
				switch {
				case kr.Value == nil && ky.Value == nil:
					eq, decided = true, true
				case kr.Value != nil && ky.Value != nil && kr.Value.Kind() == ky.Value.Kind():
					eq, decided = constant.Compare(kr.Value, token.EQL, ky.Value), true
				}
				if decided {
					val, known = eq == (bin.Op == token.EQL), true
				}
			}
		}
	}
	if !known {
		return 0, false
	}
	if val == pol {
		return 0, true
	}
	return 1, true
}

// m2EscapesCtx answers the must-pass question "does every path from `from`
// to the end of the operation pass the event?" across helper boundaries: it
// returns a return instruction that is reachable without the event, or nil.
// Inside from's function the candidate returns are those accepted by normal0;
// when that function is a private single-site helper the search continues in
// the caller after the call, following only the branch edges consistent with
// the constants the helper returns there, and so on outwards. avoidAt builds
// the (lifted) event predicate of a frame from the frame's translation.
func m2EscapesCtx(p *core.Prog, from ssa.Instruction, normal0 func(*ssa.Return) bool, avoidAt func(up func(ssa.Value) ssa.Value) func(ssa.Instruction) bool) ssa.Instruction {
	frames := m2Frames(p, from.Block())
	var rec func(k int, b *ssa.BasicBlock, i int, edgeOK func(*ssa.BasicBlock, int) bool) ssa.Instruction
	rec = func(k int, b *ssa.BasicBlock, i int, edgeOK func(*ssa.BasicBlock, int) bool) ssa.Instruction {
		rets := m2ReachRets(b, i, avoidAt(frames[k].Up), edgeOK)
		for _, r := range rets {
			if k == 0 && normal0 != nil && !normal0(r) {
				continue
			}
			if k+1 >= len(frames) {
				return r
			}
			site := frames[k+1].Site
			rv := core.RetVals(r)
			prune := func(bb *ssa.BasicBlock, succ int) bool {
				if taken, known := m2KnownBranch(bb, site, rv); known {
					return succ == taken
				}
				return true
			}
			if esc := rec(k+1, site.Block(), m2InstrIndex(site)+1, prune); esc != nil {
				return esc
			}
		}
		return nil
	}
	return rec(0, from.Block(), m2InstrIndex(from)+1, nil)
}

// m2ReachAnyCtx: some instruction satisfying the frame's predicate is
// reachable after `from` in its function or, outwards, after the call sites of
// the enclosing private helpers.
func m2ReachAnyCtx(p *core.Prog, from ssa.Instruction, predAt func(up func(ssa.Value) ssa.Value) func(ssa.Instruction) bool) ssa.Instruction {
	for k, fr := range m2Frames(p, from.Block()) {
		start := from
		if k > 0 {
			start = fr.Site
		}
		if hit := core.ReachAvoiding(start.Parent(), start, nil, predAt(fr.Up)); hit != nil {
			return hit
		}
	}
	return nil
}

// m2SameObj: v denotes the object target (a value of some function of the
// region), following parameters of unexported functions up to the arguments
// at every static call site, call results down to the values returned, phis
// and single-assignment local cells.
func m2SameObj(p *core.Prog, v, target ssa.Value, depth int) bool {
	if v == nil || target == nil {
		return false
	}
	v = core.StripConv(v)
	if v == target {
		return true
	}
	if depth > 5 {
		return false
	}
	switch x := v.(type) {
	case *ssa.Parameter:
		f := x.Parent()
		if f.Object() == nil || f.Object().Exported() {
			return false
		}
		i := m2ParamIndex(x)
		sites := p.CallSites(f)
		if i < 0 || len(sites) == 0 {
			return false
		}
		for _, s := range sites {
			a := s.Common().Args
			if s.Common().IsInvoke() || i >= len(a) || !m2SameObj(p, a[i], target, depth+1) {
				return false
			}
		}
		return true
	case *ssa.Phi:
		for _, e := range x.Edges {
			if !m2SameObj(p, e, target, depth+1) {
				return false
			}
		}
		return len(x.Edges) > 0
	case *ssa.UnOp:
		if a, ok := x.X.(*ssa.Alloc); ok && x.Op == token.MUL {
			sts := mdStoresTo(a)
			for _, st := range sts {
				if !m2SameObj(p, st.Val, target, depth+1) {
					return false
				}
			}
			return len(sts) > 0
		}
	}
	if cc, idx := mdCallOf(v); cc != nil {
		h := cc.StaticCallee()
		if h == nil || h.Blocks == nil {
			return false
		}
		if idx < 0 {
			idx = 0
		}
		rets := core.Returns(h)
		for _, r := range rets {
			rv := core.RetVals(r)
			if idx >= len(rv) || !m2SameObj(p, rv[idx], target, depth+1) {
				return false
			}
		}
		return len(rets) > 0
	}
	return false
}

// m2RegionOf: the functions of fn's region (fn first).
func m2RegionOf(p *core.Prog, fn *ssa.Function) []*ssa.Function { return p.Region(fn) }
