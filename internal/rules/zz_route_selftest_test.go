package rules

import (
	"os"
	"sort"
	"strings"
	"testing"

	"verif/internal/core"
)

// temporary: sequential mutant runner with retry on flaky loads
func TestRouteMutants(t *testing.T) {
	core.VerifDir = "/tmp/build/route"
	props := strings.Split(os.Getenv("RT_PROPS"), ",")
	only := os.Getenv("RT_ONLY")
	base, err := core.Load(nil)
	for try := 0; err != nil && try < 3; try++ {
		base, err = core.Load(nil)
	}
	if err != nil {
		t.Fatal(err)
	}
	for _, id := range props {
		r := Get(id)
		bc := core.NewCtx(base, id, "quick")
		r.Run(bc)
		bc.Evaluate()
		baseFail := map[string]bool{}
		for _, o := range bc.Obs {
			if !o.OK {
				baseFail[o.ID()] = true
				t.Errorf("%s base failure %s: %s", id, o.ID(), o.Detail)
			}
		}
		for _, m := range r.Mutants {
			if only != "" && !strings.Contains(","+only+",", ","+m.Name+",") {
				continue
			}
			file := core.FileOf(m.File)
			src, _ := os.ReadFile(file)
			if strings.Count(string(src), m.Old) != 1 {
				t.Errorf("%s %s: STALE (%d occurrences)", id, m.Name, strings.Count(string(src), m.Old))
				continue
			}
			ov := map[string][]byte{file: []byte(strings.Replace(string(src), m.Old, m.New, 1))}
			p, err := core.Load(ov)
			for try := 0; err != nil && strings.Contains(err.Error(), "no metadata") && try < 4; try++ {
				p, err = core.Load(ov)
			}
			if err != nil {
				t.Errorf("%s %s: NOCOMPILE %v", id, m.Name, err)
				continue
			}
			c := core.NewCtx(p, id, "quick")
			r.Run(c)
			c.Evaluate()
			var nf []string
			for _, o := range c.Obs {
				if !o.OK && !baseFail[o.ID()] {
					nf = append(nf, o.ID())
				}
			}
			sort.Strings(nf)
			switch {
			case m.Silent && len(nf) == 0:
				t.Logf("%s %s: silent-ok", id, m.Name)
			case m.Silent:
				t.Errorf("%s %s: FALSE-ALARM %s", id, m.Name, strings.Join(nf, "; "))
			default:
				hit := ""
				for _, x := range nf {
					if strings.Contains(x, m.Expect) {
						hit = x
						break
					}
				}
				if hit == "" {
					t.Errorf("%s %s: SURVIVED; new failures: %s", id, m.Name, strings.Join(nf, "; "))
				} else {
					t.Logf("%s %s: killed by %s (all: %s)", id, m.Name, hit, strings.Join(nf, "; "))
				}
			}
		}
	}
}
