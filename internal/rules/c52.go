package rules

import (
	"fmt"
	"go/types"
	"strings"

	"golang.org/x/tools/go/ssa"

	"verif/internal/core"
)

// C52 — CORS headers are granted only to allowed origins and vary on Origin.
func init() {
	Register(&Rule{
		ID: "C52", Section: "5 C52", Technique: "control-dependence (guard) analysis and feasible-path enumeration on go/ssa",
		Meta: core.Meta{
			Level:       "other",
			Explanation: "Decides structural clauses in bfe_modules/mod_cors: (1) every Header.Set/Add of an Access-Control-* response header is control-dependent on matchOriginAllowed() having returned true, and the Allow-Origin value is the origin that call yields - both facts are followed through results and parameters of private helpers (unexported, never used as a value, only plain static calls), through phis (named booleans / intermediates) and through the guards at every call site of a private helper; every success return of matchOriginAllowed is unreachable from the function entry without crossing a branch edge that establishes a successful lookup in a rule's AccessControlAllowOriginMap (decided on paths, independent of if-chain shape, merged returns, named lookup results); (2) on every feasible path through addVaryHeader (flag variables propagated through phis; a branch on the boolean result of a helper counts as an observation when every path of the helper yielding that result made it) either a Header.Set/Add(\"Vary\", …) is executed or the path observed that a value equals Origin or \"*\"; every feasible path from a grant of Access-Control-Allow-Origin, and from every branch edge that established \"origin allowed\", to the end of the handler passes addVaryHeader and the store of the yielded origin - a private helper that returns earlier hands the obligation to the code behind each of its call sites together with the constants it returned, and branch edges are not followed when they contradict what the path knows (a result of a call compared with the values the callee can return together with an already tested result; strings.Split with a non-empty constant separator returns at least one element). Not covered: the string content of the Vary value, browsers' interpretation, rule matching (C16-C18); that the lookup key of a success return corresponds to the origin it returns; obligations handed to callers through function values, interface calls, go/defer or more than 3 helper levels (these are reported, not proved); infeasibility arguments other than the two named above (a defensive early return that needs another argument is reported); first-match is decided only for a Match() test located in corsHandler/corsPreflightHandler themselves.",
			RuleText:    "obligations = each Access-Control-* header store, each success return of matchOriginAllowed, each exit path of addVaryHeader, each granting function; keyed by function and header/path signature",
			Assumptions: []string{"bfe_http.Header.Set/Add are the only ways mod_cors writes response headers (checked: no index stores into a Header in the package)"},
		},
		Run: runC52,
		Mutants: []Mutant{
			{Name: "drop-allow-test", File: "bfe_modules/mod_cors/mod_cors.go", Old: "	if !allow {\n		m.state.ReqNotAllowOriginHit.Inc(1)\n		return\n	}\n	m.state.ReqAllowOriginHit.Inc(1)\n\n	rspHeader.Set(HeaderAccessControlAllowOrigin, matchedOrigin)\n\n	if rule.AccessControlAllowCredentials {\n		rspHeader.Set(HeaderAccessControlAllowCredentials, \"true\")\n	}\n\n	if len(rule.AccessControlExposeHeaders)", New: "	if !allow {\n		m.state.ReqNotAllowOriginHit.Inc(1)\n	}\n	m.state.ReqAllowOriginHit.Inc(1)\n\n	rspHeader.Set(HeaderAccessControlAllowOrigin, matchedOrigin)\n\n	if rule.AccessControlAllowCredentials {\n		rspHeader.Set(HeaderAccessControlAllowCredentials, \"true\")\n	}\n\n	if len(rule.AccessControlExposeHeaders)", Expect: "acao-guard"},
			{Name: "echo-origin", File: "bfe_modules/mod_cors/mod_cors.go", Old: "	return false, \"\"\n}", New: "	return true, origin\n}", Expect: "allow-return"},
			{Name: "vary-dead-store", File: "bfe_modules/mod_cors/mod_cors.go", Old: "		rspHeader.Set(HeaderVary, varyValue+\",\"+HeaderOrigin)", New: "		varyValue += \",\" + HeaderOrigin", Expect: "vary-path"},
			{Name: "fallthrough-to-later-rule", File: "bfe_modules/mod_cors/mod_cors.go", Old: "			m.setRespHeaderForNonPreflight(request, response.Header, &rule)\n			break", New: "			m.setRespHeaderForNonPreflight(request, response.Header, &rule)\n			if response.Header.Get(HeaderAccessControlAllowOrigin) != \"\" {\n				break\n			}", Expect: "first-match"},
			{Name: "keep-backend-grant-early-return", File: "bfe_modules/mod_cors/mod_cors.go", Old: "	m.state.ReqAllowOriginHit.Inc(1)\n\n	rspHeader.Set(HeaderAccessControlAllowOrigin, matchedOrigin)\n\n	if rule.AccessControlAllowCredentials {\n		rspHeader.Set(HeaderAccessControlAllowCredentials, \"true\")\n	}\n\n	if len(rule.AccessControlExposeHeaders) > 0 {", New: "	m.state.ReqAllowOriginHit.Inc(1)\n\n	if rspHeader.Get(HeaderAccessControlAllowOrigin) != \"\" {\n		return\n	}\n	rspHeader.Set(HeaderAccessControlAllowOrigin, matchedOrigin)\n\n	if rule.AccessControlAllowCredentials {\n		rspHeader.Set(HeaderAccessControlAllowCredentials, \"true\")\n	}\n\n	if len(rule.AccessControlExposeHeaders) > 0 {", Expect: "vary-after-allow"},
			{Name: "table-merged-on-reload", File: "bfe_modules/mod_cors/cors_rule_table.go", Old: "	t.productRule = ruleConf.Config\n", New: "	for product, ruleList := range ruleConf.Config {\n		t.productRule[product] = ruleList\n	}\n", Expect: "table-replaced"},
			{Name: "vary-call-dropped", File: "bfe_modules/mod_cors/mod_cors.go", Old: "		rspHeader.Set(HeaderAccessControlExposeHeaders, strings.Join(rule.AccessControlExposeHeaders, \",\"))\n	}\n\n	addVaryHeader(rspHeader)", New: "		rspHeader.Set(HeaderAccessControlExposeHeaders, strings.Join(rule.AccessControlExposeHeaders, \",\"))\n	}\n", Expect: "vary-after-grant"},
			{Name: "silent-extract-origin-lookup-helper", File: "bfe_modules/mod_cors/mod_cors.go", Old: "// set response header for non-preflight request\nfunc (m *ModuleCors) setRespHeaderForNonPreflight(request *bfe_basic.Request, rspHeader bfe_http.Header, rule *CorsRule) {\n\torigin := request.HttpRequest.Header.Get(HeaderOrigin)\n\tallow, matchedOrigin := matchOriginAllowed(origin, rule)\n\tif !allow {\n\t\tm.state.ReqNotAllowOriginHit.Inc(1)\n\t\treturn\n\t}\n\tm.state.ReqAllowOriginHit.Inc(1)\n", New: "// grantedOrigin looks the request origin up in the rule and counts the outcome\nfunc (m *ModuleCors) grantedOrigin(req *bfe_basic.Request, r *CorsRule) (string, bool) {\n\to := req.HttpRequest.Header.Get(HeaderOrigin)\n\tgranted, value := matchOriginAllowed(o, r)\n\tif granted {\n\t\tm.state.ReqAllowOriginHit.Inc(1)\n\t\treturn value, true\n\t}\n\tm.state.ReqNotAllowOriginHit.Inc(1)\n\treturn \"\", false\n}\n\n// set response header for non-preflight request\nfunc (m *ModuleCors) setRespHeaderForNonPreflight(request *bfe_basic.Request, rspHeader bfe_http.Header, rule *CorsRule) {\n\tmatchedOrigin, allow := m.grantedOrigin(request, rule)\n\tif !allow {\n\t\treturn\n\t}\n", Silent: true},
			{Name: "silent-extract-grant-writer-helper", File: "bfe_modules/mod_cors/mod_cors.go", Old: "// set response header for preflight request\nfunc (m *ModuleCors) setRespHeaderForPreflght(request *bfe_basic.Request, rspHeader bfe_http.Header, rule *CorsRule) {\n\torigin := request.HttpRequest.Header.Get(HeaderOrigin)\n\tallow, matchedOrigin := matchOriginAllowed(origin, rule)\n\tif !allow {\n\t\tm.state.ReqNotAllowOriginHit.Inc(1)\n\t\treturn\n\t}\n\tm.state.ReqAllowOriginHit.Inc(1)\n\n\trspHeader.Set(HeaderAccessControlAllowOrigin, matchedOrigin)\n\n\tif rule.AccessControlAllowCredentials {\n\t\trspHeader.Set(HeaderAccessControlAllowCredentials, \"true\")\n\t}\n", New: "// writeGrant stores the granted origin and the credentials flag of the rule\nfunc writeGrant(h bfe_http.Header, r *CorsRule, grantedOrigin string) {\n\th.Set(HeaderAccessControlAllowOrigin, grantedOrigin)\n\tif r.AccessControlAllowCredentials {\n\t\th.Set(HeaderAccessControlAllowCredentials, \"true\")\n\t}\n}\n\n// set response header for preflight request\nfunc (m *ModuleCors) setRespHeaderForPreflght(request *bfe_basic.Request, rspHeader bfe_http.Header, rule *CorsRule) {\n\torigin := request.HttpRequest.Header.Get(HeaderOrigin)\n\tallow, matchedOrigin := matchOriginAllowed(origin, rule)\n\tif !allow {\n\t\tm.state.ReqNotAllowOriginHit.Inc(1)\n\t\treturn\n\t}\n\tm.state.ReqAllowOriginHit.Inc(1)\n\n\twriteGrant(rspHeader, rule, matchedOrigin)\n", Silent: true},
			{Name: "silent-match-merged-returns", File: "bfe_modules/mod_cors/mod_cors.go", Old: "\tif _, ok := rule.AccessControlAllowOriginMap[\"%origin\"]; ok {\n\t\treturn true, origin\n\t}\n\n\tif _, ok := rule.AccessControlAllowOriginMap[\"*\"]; ok {\n\t\treturn true, \"*\"\n\t}\n\n\tif _, ok := rule.AccessControlAllowOriginMap[origin]; ok {\n\t\treturn true, origin\n\t}\n\n\treturn false, \"\"\n}\n", New: "\t_, echo := rule.AccessControlAllowOriginMap[\"%origin\"]\n\tif !echo {\n\t\tif _, wildcard := rule.AccessControlAllowOriginMap[\"*\"]; wildcard {\n\t\t\treturn true, \"*\"\n\t\t}\n\t\t_, echo = rule.AccessControlAllowOriginMap[origin]\n\t}\n\tif echo == false {\n\t\treturn false, \"\"\n\t}\n\treturn true, origin\n}\n", Silent: true},
			{Name: "silent-defensive-origin-check", File: "bfe_modules/mod_cors/mod_cors.go", Old: "\tm.state.ReqAllowOriginHit.Inc(1)\n\n\trspHeader.Set(HeaderAccessControlAllowOrigin, matchedOrigin)\n\n\tif rule.AccessControlAllowCredentials {\n\t\trspHeader.Set(HeaderAccessControlAllowCredentials, \"true\")\n\t}\n\n\tif len(rule.AccessControlAllowMethods) > 0 {", New: "\tm.state.ReqAllowOriginHit.Inc(1)\n\tif openDebug {\n\t\tlog.Logger.Debug(\"%s: origin[%s] allowed as [%s]\", m.name, origin, matchedOrigin)\n\t}\n\twildcard := \"*\" == matchedOrigin\n\tif !wildcard && origin != matchedOrigin {\n\t\t// cannot happen: matchOriginAllowed yields the request origin or \"*\"\n\t\tlog.Logger.Warn(\"%s: unexpected matched origin[%s]\", m.name, matchedOrigin)\n\t\treturn\n\t}\n\n\trspHeader.Set(HeaderAccessControlAllowOrigin, matchedOrigin)\n\n\tif rule.AccessControlAllowCredentials {\n\t\trspHeader.Set(HeaderAccessControlAllowCredentials, \"true\")\n\t}\n\n\tif len(rule.AccessControlAllowMethods) > 0 {", Silent: true},
			{Name: "silent-vary-switch-helper", File: "bfe_modules/mod_cors/mod_cors.go", Old: "\tvaryValue := rspHeader.Get(HeaderVary)\n\tif len(varyValue) == 0 {\n\t\trspHeader.Set(HeaderVary, HeaderOrigin)\n\t\treturn\n\t}\n\n\tif varyValue == \"*\" {\n\t\treturn\n\t}\n\n\tneedAddOrigin := true\n\titems := strings.Split(varyValue, \",\")\n\tfor _, item := range items {\n\t\tif strings.TrimSpace(item) == HeaderOrigin {\n\t\t\tneedAddOrigin = false\n\t\t\tbreak\n\t\t}\n\t}\n\n\tif needAddOrigin {\n\t\trspHeader.Set(HeaderVary, varyValue+\",\"+HeaderOrigin)\n\t}\n}\n", New: "\tvaryValue := rspHeader.Get(HeaderVary)\n\tswitch {\n\tcase varyValue == \"\":\n\t\trspHeader.Set(HeaderVary, HeaderOrigin)\n\tcase \"*\" == varyValue:\n\tdefault:\n\t\titems := strings.Split(varyValue, \",\")\n\t\tif len(items) < 1 {\n\t\t\treturn\n\t\t}\n\t\tlisted := originListed(items)\n\t\tif !listed {\n\t\t\trspHeader.Set(HeaderVary, varyValue+\",\"+HeaderOrigin)\n\t\t}\n\t}\n}\n\nfunc originListed(fields []string) bool {\n\tfor i := 0; i < len(fields); i++ {\n\t\tif HeaderOrigin != strings.TrimSpace(fields[i]) {\n\t\t\tcontinue\n\t\t}\n\t\treturn true\n\t}\n\treturn false\n}\n", Silent: true},
		},
	})
}

func headerWrite(in ssa.Instruction) (name string, call *ssa.CallCommon, ok bool) {
	c, isCall := in.(ssa.CallInstruction)
	if !isCall || !core.CallIs(c.Common(), "bfe_http.Header.Set", "bfe_http.Header.Add") {
		return "", nil, false
	}
	args := c.Common().Args
	if len(args) < 3 {
		return "", nil, false
	}
	s, isConst := core.ConstString(args[1])
	if !isConst {
		return "?", c.Common(), true
	}
	return s, c.Common(), true
}

func runC52(c *core.Ctx) {
	const pkg = c52pkg
	if c.P.Pkg(pkg) == nil {
		c.Missing(pkg)
		return
	}
	match := c.P.Func(pkg, "matchOriginAllowed")
	vary := c.P.Func(pkg, "addVaryHeader")
	if match == nil {
		c.Missing(pkg + ".matchOriginAllowed")
	}
	if vary == nil {
		c.Missing(pkg + ".addVaryHeader")
	}
	fns := c.P.SrcFuncs(pkg)
	a := newC52an(c.P)
	// witnesses of the must-pass rules; a call of a function that passes the witness on all of its
	// paths is a witness itself (helper extraction)
	isVary := core.LiftMust(func(x ssa.Instruction) bool {
		ci, ok := x.(ssa.CallInstruction)
		return ok && core.CallIs(ci.Common(), pkg+".addVaryHeader")
	}, 3)
	isGrant := core.LiftMust(func(x ssa.Instruction) bool {
		name, call, ok := headerWrite(x)
		return ok && name == "Access-Control-Allow-Origin" && a.originOK(call.Args[2], x.Block(), 4)
	}, 3)
	// (1) Access-Control-* stores are control-dependent on matchOriginAllowed() == true. The fact may
	// reach the store through the result of a private helper, a named boolean, or the guards at the
	// call sites of the private helper that contains the store.
	for _, fn := range fns {
		c.Analysed(core.FuncKey(fn))
		for _, in := range allInstrs(fn) {
			// raw map stores into a Header would bypass the rule
			if mu, ok := in.(*ssa.MapUpdate); ok && core.TypeStr(mu.Map.Type()) == "bfe_http.Header" {
				c.Check("header-raw-store", core.FuncKey(fn), in.Pos(), false, "raw map store into a bfe_http.Header in mod_cors: header writes must go through Set/Add so that the grant rule sees them")
			}
			name, call, ok := headerWrite(in)
			if !ok || !(strings.HasPrefix(name, "Access-Control-") || name == "?") {
				continue
			}
			c.Check("acao-guard", core.FuncKey(fn)+":"+name, in.Pos(), a.guardedAllowed(in.Block(), 4),
				"Header write of "+name+" is not control-dependent on matchOriginAllowed() == true; guards here: "+strings.Join(core.GuardStrs(in.Block()), " && "))
			if name != "Access-Control-Allow-Origin" {
				continue
			}
			c.Check("acao-value", core.FuncKey(fn), in.Pos(), a.originOK(call.Args[2], in.Block(), 4),
				"Access-Control-Allow-Origin value is "+core.Render(call.Args[2])+", expected the origin returned by matchOriginAllowed")
			if vary != nil {
				// every feasible path from a grant to the end of the handler passes addVaryHeader
				bad := a.escapes(in.Block(), c52idx(in)+1, c52state{}, isVary, 3)
				c.Check("vary-after-grant", core.FuncKey(fn), in.Pos(), bad == nil,
					"a path from granting Access-Control-Allow-Origin reaches return without calling addVaryHeader")
			}
		}
	}
	// (1b) once the handler has branched on "origin allowed", the response depends on the request
	// Origin whatever it does next (also when it decides to keep a header the backend supplied):
	// every feasible path from the allowed edge to the end of the handler passes addVaryHeader, and
	// passes the store of the origin the rule yields (a stale or backend-supplied
	// Access-Control-Allow-Origin is not what the matching rule configured). A private helper that
	// returns to its caller before that hands the obligation to the code behind its call sites.
	for _, fn := range fns {
		for _, in := range allInstrs(fn) {
			ifi, ok := in.(*ssa.If)
			if !ok || len(ifi.Block().Succs) != 2 || ifi.Block().Succs[0] == ifi.Block().Succs[1] {
				continue
			}
			base, pol := c52normBool(ifi.Cond)
			if !a.impliesAllowed(base, 4) {
				continue
			}
			// the obligation belongs to the branch that establishes the fact: a test in code that
			// already runs under "allowed" (its own guards or those of every call site of the
			// private helper it lies in) is covered by the search from the establishing edge
			if a.guardedAllowed(ifi.Block(), 4) {
				continue
			}
			st, feasible := a.edge(c52state{}, ifi.Cond, pol)
			if !feasible {
				continue
			}
			ab := ifi.Block().Succs[1]
			if pol {
				ab = ifi.Block().Succs[0]
			}
			for _, spec := range []struct {
				rule string
				pred func(ssa.Instruction) bool
				msg  string
			}{
				{"vary-after-allow", isVary, "after matchOriginAllowed() reported the origin as allowed a return is reachable without addVaryHeader: the response depends on the request Origin but Vary does not list it"},
				{"grant-after-allow", isGrant, "after matchOriginAllowed() reported the origin as allowed a return is reachable without storing the origin the rule yields into Access-Control-Allow-Origin: the response keeps whatever value was there instead of the configured grant"},
			} {
				// a later re-test of the same fact (logging, metrics) after the obligation was met on
				// every path is harmless
				okPath := false
				for _, x := range allInstrs(fn) {
					if spec.pred(x) && core.Dominates(x, ifi) {
						okPath = true
					}
				}
				// the tested value is the result of a helper that met the obligation itself before
				// every return that can yield true
				if call, idx, isCall := c52callOf(base); !okPath && isCall {
					if h := a.body(&call.Call); h != nil && !a.isMatchFn(h) {
						met := true
						for _, r := range core.Returns(h) {
							rv := core.RetVals(r)
							if idx >= len(rv) {
								met = false
								break
							}
							if cb, isC := c52constBool(rv[idx]); isC && !cb {
								continue
							}
							ret := ssa.Instruction(r)
							if core.ReachAvoiding(h, nil, spec.pred, func(x ssa.Instruction) bool { return x == ret }) != nil {
								met = false
							}
						}
						okPath = met
					}
				}
				if !okPath {
					okPath = a.escapes(ab, 0, st, spec.pred, 3) == nil
				}
				c.Check(spec.rule, core.FuncKey(fn), ifi.Pos(), okPath, spec.msg)
			}
		}
	}
	// (1c) the rule table is replaced as a whole on reload: rules dropped from the file must stop granting
	if tn, ok := c.P.Obj(pkg, "CorsRuleTable").(*types.TypeName); !ok {
		c.Missing(pkg + ".CorsRuleTable")
	} else if upd := c.P.Func(pkg, "CorsRuleTable.Update"); upd == nil {
		c.Missing(pkg + ".CorsRuleTable.Update")
	} else if st, isSt := tn.Type().Underlying().(*types.Struct); isSt {
		var lockField *types.Var
		for i := 0; i < st.NumFields(); i++ {
			if ts := st.Field(i).Type().String(); ts == "sync.RWMutex" || ts == "sync.Mutex" {
				lockField = st.Field(i)
			}
		}
		probs := tableUpdateProblems(upd, st, lockField)
		for _, pr := range probs {
			c.Check("table-replaced", "CorsRuleTable.Update:"+pr.key, pr.pos, false, "CorsRuleTable.Update "+pr.msg+" (origins that no current rule allows keep receiving Access-Control-* headers)")
		}
		c.Check("table-replaced", "CorsRuleTable.Update", upd.Pos(), true, "")
	}
	c.Min("acao-guard", 7)
	c.Min("vary-after-grant", 2)
	c.Min("vary-after-allow", 2)
	c.Min("grant-after-allow", 2)
	// first matching rule decides: once a rule's condition matched, no later rule is consulted
	for _, hname := range []string{"ModuleCors.corsHandler", "ModuleCors.corsPreflightHandler"} {
		fn := c.P.Func(pkg, hname)
		if fn == nil {
			c.Missing(pkg + "." + hname)
			continue
		}
		n := 0
		for _, in := range allInstrs(fn) {
			ifi, ok := in.(*ssa.If)
			if !ok || len(ifi.Block().Succs) != 2 {
				continue
			}
			base, pol := c52normBool(ifi.Cond)
			call, ok := base.(*ssa.Call)
			if !ok || !call.Call.IsInvoke() || call.Call.Method.Name() != "Match" {
				continue
			}
			n++
			matched := ifi.Block().Succs[1]
			if pol {
				matched = ifi.Block().Succs[0]
			}
			again := core.ReachAvoiding(fn, matched.Instrs[0], nil, func(x ssa.Instruction) bool { return x == ssa.Instruction(call) })
			c.Check("first-match", hname, ifi.Pos(), again == nil && matched.Instrs[0] != ssa.Instruction(call),
				"after a CORS rule's condition matched, another rule's condition can still be evaluated: a request whose origin the first matching rule denies could be granted Access-Control-* headers by a later, broader rule")
		}
		if n == 0 {
			c.Check("first-match", hname, fn.Pos(), false, "no rule-condition test found in "+hname)
		}
	}
	// matchOriginAllowed: a return that can report "allowed" is not reachable from the entry without
	// crossing a branch edge that establishes a successful lookup in the rule's
	// AccessControlAllowOriginMap (decided on paths: the shape of the if-chain, merged returns and
	// named lookup results do not matter). One obligation per (success return, lookup that leads to it).
	if match != nil {
		for _, r := range core.Returns(match) {
			rv := core.RetVals(r)
			if len(rv) != 2 {
				continue
			}
			if cb, isConst := c52constBool(rv[0]); isConst && !cb {
				continue
			}
			ok := !a.reachableWithoutHit(match, r, 3)
			if b, pol := c52normBool(rv[0]); !ok && pol && a.impliesHit(b, 3) {
				ok = true // returns the lookup result itself
			}
			msg := "matchOriginAllowed returns allowed=" + core.Render(rv[0]) + " on a path without a successful lookup in the rule's AccessControlAllowOriginMap; guards: " + strings.Join(core.GuardStrs(r.Block()), " && ")
			hits := a.hitEdgesReaching(match, r, 3)
			if len(hits) == 0 || !ok {
				c.Check("allow-return", "matchOriginAllowed:"+core.Render(rv[1]), r.Pos(), ok, msg)
			}
			if ok {
				for _, h := range hits {
					c.Check("allow-return", "matchOriginAllowed:"+core.Render(rv[1])+":"+h, r.Pos(), true, "")
				}
			}
		}
		c.Min("allow-return", 3)
	}
	// (2) addVaryHeader paths (branches on the result of a helper count as an observation of
	// Origin / * when every path of the helper yielding that result observed it; edges excluded by
	// the contract of strings.Split are not paths).
	if vary != nil {
		c.Analysed(core.FuncKey(vary))
		n, complete, bad := a.varyPaths(vary, true, false, 2)
		c.Check("vary-path", "addVaryHeader", vary.Pos(), complete && bad == "" && n >= 3,
			fmt.Sprintf("%d feasible paths enumerated (complete=%v); a path returns without Header.Set/Add(\"Vary\", …) although it did not observe Origin or * in the existing value; branches taken: %s", n, complete, bad))
		c.Note("addVaryHeader: %d feasible paths enumerated", n)
		c.Min("vary-path", 1)
	}
}

func allInstrs(fn *ssa.Function) []ssa.Instruction {
	var out []ssa.Instruction
	core.Instrs(fn, func(in ssa.Instruction) { out = append(out, in) })
	return out
}

// isExtractOfCall: v is result #i of a call to the named function.
func isExtractOfCall(v ssa.Value, i int, name string) bool {
	v = core.StripConv(v)
	if u, ok := v.(*ssa.UnOp); ok && u.Op.String() == "!" {
		return false
	}
	ex, ok := v.(*ssa.Extract)
	if !ok || ex.Index != i {
		return false
	}
	call, ok := ex.Tuple.(*ssa.Call)
	return ok && core.CallIs(&call.Call, name)
}

// pathSig is a line-free signature of a path: the rendered conditions with
// polarity, in order, deduplicated.
func pathSig(p *core.Path) string {
	var parts []string
	seen := map[string]bool{}
	p.Edges(func(cond ssa.Value, taken bool) {
		s := core.Render(cond)
		if !taken {
			s = "!" + s
		}
		if !seen[s] {
			seen[s] = true
			parts = append(parts, s)
		}
	})
	return strings.Join(parts, " & ")
}
