package rules

import (
	"fmt"
	"go/token"
	"go/types"
	"strings"

	"golang.org/x/tools/go/ssa"

	"verif/internal/core"
)

// C52 — CORS headers are granted only to allowed origins and vary on Origin.
func init() {
	Register(&Rule{
		ID: "C52", Section: "5 C52", Technique: "control-dependence (guard) analysis and feasible-path enumeration on go/ssa",
		Meta: core.Meta{
			Level:       "other",
			Explanation: "Decides two structural clauses in bfe_modules/mod_cors: (1) every Header.Set/Add of an Access-Control-* response header is control-dependent on matchOriginAllowed() having returned true in the same function, the Allow-Origin value is that call's second result, and every `return true` of matchOriginAllowed is guarded by a successful lookup in the rule's AccessControlAllowOriginMap; (2) on every feasible path through addVaryHeader (flag variables propagated through phis) either a Header.Set/Add(\"Vary\", …) is executed or the path observed that Vary already lists Origin or is \"*\"; every function that grants Access-Control-Allow-Origin calls addVaryHeader afterwards. Not covered: the string content of the Vary value, browsers' interpretation, rule matching (C16-C18).",
			RuleText:    "obligations = each Access-Control-* header store, each success return of matchOriginAllowed, each exit path of addVaryHeader, each granting function; keyed by function and header/path signature",
			Assumptions: []string{"bfe_http.Header.Set/Add are the only ways mod_cors writes response headers (checked: no index stores into a Header in the package)"},
		},
		Run: runC52,
		Mutants: []Mutant{
			{Name: "drop-allow-test", File: "bfe_modules/mod_cors/mod_cors.go", Old: "	if !allow {\n		m.state.ReqNotAllowOriginHit.Inc(1)\n		return\n	}\n	m.state.ReqAllowOriginHit.Inc(1)\n\n	rspHeader.Set(HeaderAccessControlAllowOrigin, matchedOrigin)\n\n	if rule.AccessControlAllowCredentials {\n		rspHeader.Set(HeaderAccessControlAllowCredentials, \"true\")\n	}\n\n	if len(rule.AccessControlExposeHeaders)", New: "	if !allow {\n		m.state.ReqNotAllowOriginHit.Inc(1)\n	}\n	m.state.ReqAllowOriginHit.Inc(1)\n\n	rspHeader.Set(HeaderAccessControlAllowOrigin, matchedOrigin)\n\n	if rule.AccessControlAllowCredentials {\n		rspHeader.Set(HeaderAccessControlAllowCredentials, \"true\")\n	}\n\n	if len(rule.AccessControlExposeHeaders)", Expect: "acao-guard"},
			{Name: "echo-origin", File: "bfe_modules/mod_cors/mod_cors.go", Old: "	return false, \"\"\n}", New: "	return true, origin\n}", Expect: "allow-return"},
			{Name: "vary-dead-store", File: "bfe_modules/mod_cors/mod_cors.go", Old: "		rspHeader.Set(HeaderVary, varyValue+\",\"+HeaderOrigin)", New: "		varyValue += \",\" + HeaderOrigin", Expect: "vary-path"},
			{Name: "fallthrough-to-later-rule", File: "bfe_modules/mod_cors/mod_cors.go", Old: "			m.setRespHeaderForNonPreflight(request, response.Header, &rule)\n			break", New: "			m.setRespHeaderForNonPreflight(request, response.Header, &rule)\n			if response.Header.Get(HeaderAccessControlAllowOrigin) != \"\" {\n				break\n			}", Expect: "first-match"},
			{Name: "keep-backend-grant-early-return", File: "bfe_modules/mod_cors/mod_cors.go", Old: "	m.state.ReqAllowOriginHit.Inc(1)\n\n	rspHeader.Set(HeaderAccessControlAllowOrigin, matchedOrigin)\n\n	if rule.AccessControlAllowCredentials {\n		rspHeader.Set(HeaderAccessControlAllowCredentials, \"true\")\n	}\n\n	if len(rule.AccessControlExposeHeaders) > 0 {", New: "	m.state.ReqAllowOriginHit.Inc(1)\n\n	if rspHeader.Get(HeaderAccessControlAllowOrigin) != \"\" {\n		return\n	}\n	rspHeader.Set(HeaderAccessControlAllowOrigin, matchedOrigin)\n\n	if rule.AccessControlAllowCredentials {\n		rspHeader.Set(HeaderAccessControlAllowCredentials, \"true\")\n	}\n\n	if len(rule.AccessControlExposeHeaders) > 0 {", Expect: "vary-after-allow"},
			{Name: "table-merged-on-reload", File: "bfe_modules/mod_cors/cors_rule_table.go", Old: "	t.productRule = ruleConf.Config\n", New: "	for product, ruleList := range ruleConf.Config {\n		t.productRule[product] = ruleList\n	}\n", Expect: "table-replaced"},
			{Name: "vary-call-dropped", File: "bfe_modules/mod_cors/mod_cors.go", Old: "		rspHeader.Set(HeaderAccessControlExposeHeaders, strings.Join(rule.AccessControlExposeHeaders, \",\"))\n	}\n\n	addVaryHeader(rspHeader)", New: "		rspHeader.Set(HeaderAccessControlExposeHeaders, strings.Join(rule.AccessControlExposeHeaders, \",\"))\n	}\n", Expect: "vary-after-grant"},
		},
	})
}

func headerWrite(in ssa.Instruction) (name string, call *ssa.CallCommon, ok bool) {
	c, isCall := in.(ssa.CallInstruction)
	if !isCall || !core.CallIs(c.Common(), "bfe_http.Header.Set", "bfe_http.Header.Add") {
		return "", nil, false
	}
	args := c.Common().Args
	if len(args) < 3 {
		return "", nil, false
	}
	s, isConst := core.ConstString(args[1])
	if !isConst {
		return "?", c.Common(), true
	}
	return s, c.Common(), true
}

func runC52(c *core.Ctx) {
	const pkg = "bfe_modules/mod_cors"
	if c.P.Pkg(pkg) == nil {
		c.Missing(pkg)
		return
	}
	match := c.P.Func(pkg, "matchOriginAllowed")
	vary := c.P.Func(pkg, "addVaryHeader")
	if match == nil {
		c.Missing(pkg + ".matchOriginAllowed")
	}
	if vary == nil {
		c.Missing(pkg + ".addVaryHeader")
	}
	fns := c.P.SrcFuncs(pkg)
	// (1) Access-Control-* stores are guarded by matchOriginAllowed()#0.
	for _, fn := range fns {
		c.Analysed(core.FuncKey(fn))
		granted := false
		core.Instrs(fn, func(in ssa.Instruction) {
			// raw map stores into a Header would bypass the rule
			if mu, ok := in.(*ssa.MapUpdate); ok && core.TypeStr(mu.Map.Type()) == "bfe_http.Header" {
				c.Check("header-raw-store", core.FuncKey(fn), in.Pos(), false, "raw map store into a bfe_http.Header in mod_cors: header writes must go through Set/Add so that the grant rule sees them")
			}
			name, call, ok := headerWrite(in)
			if !ok || !(strings.HasPrefix(name, "Access-Control-") || name == "?") {
				return
			}
			guarded := core.HasGuard(in.Block(), func(g core.Guard) bool {
				return g.Pol && isExtractOfCall(g.Cond, 0, pkg+".matchOriginAllowed")
			})
			c.Check("acao-guard", core.FuncKey(fn)+":"+name, in.Pos(), guarded,
				"Header write of "+name+" is not control-dependent on matchOriginAllowed() == true; guards here: "+strings.Join(core.GuardStrs(in.Block()), " && "))
			if name == "Access-Control-Allow-Origin" {
				granted = true
				c.Check("acao-value", core.FuncKey(fn), in.Pos(), isExtractOfCall(call.Args[2], 1, pkg+".matchOriginAllowed"),
					"Access-Control-Allow-Origin value is "+core.Render(call.Args[2])+", expected the origin returned by matchOriginAllowed")
			}
		})
		if granted && vary != nil {
			// every path from a grant to return passes addVaryHeader
			for _, in := range allInstrs(fn) {
				name, _, ok := headerWrite(in)
				if !ok || name != "Access-Control-Allow-Origin" {
					continue
				}
				bad := core.MustPass(fn, in, func(x ssa.Instruction) bool {
					ci, ok := x.(ssa.CallInstruction)
					return ok && core.CallIs(ci.Common(), pkg+".addVaryHeader")
				})
				c.Check("vary-after-grant", core.FuncKey(fn), in.Pos(), bad == nil,
					"a path from granting Access-Control-Allow-Origin reaches return without calling addVaryHeader")
			}
		}
	}
	// (1b) once the handler has branched on "origin allowed", the response depends on the request
	// Origin whatever it does next (also when it decides to keep a header the backend supplied):
	// every path from the allowed edge to a return passes addVaryHeader, and passes the store of
	// the origin the rule yields (a stale or backend-supplied Access-Control-Allow-Origin is not
	// what the matching rule configured).
	for _, fn := range fns {
		for _, in := range allInstrs(fn) {
			ifi, ok := in.(*ssa.If)
			if !ok {
				continue
			}
			cond := ifi.Cond
			allowedSucc := 0
			if u, isU := cond.(*ssa.UnOp); isU && u.Op == token.NOT {
				cond = u.X
				allowedSucc = 1
			}
			if !isExtractOfCall(cond, 0, pkg+".matchOriginAllowed") {
				continue
			}
			ab := ifi.Block().Succs[allowedSucc]
			if len(ab.Instrs) == 0 {
				continue
			}
			isVary := func(x ssa.Instruction) bool {
				ci, ok := x.(ssa.CallInstruction)
				return ok && core.CallIs(ci.Common(), pkg+".addVaryHeader")
			}
			isGrant := func(x ssa.Instruction) bool {
				name, call, ok := headerWrite(x)
				return ok && name == "Access-Control-Allow-Origin" && isExtractOfCall(call.Args[2], 1, pkg+".matchOriginAllowed")
			}
			isRet := func(x ssa.Instruction) bool { _, r := x.(*ssa.Return); return r }
			for _, spec := range []struct {
				rule string
				pred func(ssa.Instruction) bool
				msg  string
			}{
				{"vary-after-allow", isVary, "after matchOriginAllowed() reported the origin as allowed a return is reachable without addVaryHeader: the response depends on the request Origin but Vary does not list it"},
				{"grant-after-allow", isGrant, "after matchOriginAllowed() reported the origin as allowed a return is reachable without storing the origin the rule yields into Access-Control-Allow-Origin: the response keeps whatever value was there instead of the configured grant"},
			} {
				okPath := spec.pred(ab.Instrs[0]) || core.ReachAvoiding(fn, ab.Instrs[0], spec.pred, isRet) == nil
				c.Check(spec.rule, core.FuncKey(fn), ifi.Pos(), okPath, spec.msg)
			}
		}
	}
	// (1c) the rule table is replaced as a whole on reload: rules dropped from the file must stop granting
	if tn, ok := c.P.Obj(pkg, "CorsRuleTable").(*types.TypeName); !ok {
		c.Missing(pkg + ".CorsRuleTable")
	} else if upd := c.P.Func(pkg, "CorsRuleTable.Update"); upd == nil {
		c.Missing(pkg + ".CorsRuleTable.Update")
	} else if st, isSt := tn.Type().Underlying().(*types.Struct); isSt {
		var lockField *types.Var
		for i := 0; i < st.NumFields(); i++ {
			if ts := st.Field(i).Type().String(); ts == "sync.RWMutex" || ts == "sync.Mutex" {
				lockField = st.Field(i)
			}
		}
		probs := tableUpdateProblems(upd, st, lockField)
		for _, pr := range probs {
			c.Check("table-replaced", "CorsRuleTable.Update:"+pr.key, pr.pos, false, "CorsRuleTable.Update "+pr.msg+" (origins that no current rule allows keep receiving Access-Control-* headers)")
		}
		c.Check("table-replaced", "CorsRuleTable.Update", upd.Pos(), true, "")
	}
	c.Min("acao-guard", 7)
	c.Min("vary-after-grant", 2)
	c.Min("vary-after-allow", 2)
	c.Min("grant-after-allow", 2)
	// first matching rule decides: once a rule's condition matched, no later rule is consulted
	for _, hname := range []string{"ModuleCors.corsHandler", "ModuleCors.corsPreflightHandler"} {
		fn := c.P.Func(pkg, hname)
		if fn == nil {
			c.Missing(pkg + "." + hname)
			continue
		}
		n := 0
		for _, in := range allInstrs(fn) {
			ifi, ok := in.(*ssa.If)
			if !ok {
				continue
			}
			call, ok := ifi.Cond.(*ssa.Call)
			if !ok || !call.Call.IsInvoke() || call.Call.Method.Name() != "Match" {
				continue
			}
			n++
			matched := ifi.Block().Succs[0]
			again := core.ReachAvoiding(fn, matched.Instrs[0], nil, func(x ssa.Instruction) bool { return x == ssa.Instruction(call) })
			c.Check("first-match", hname, ifi.Pos(), again == nil && matched.Instrs[0] != ssa.Instruction(call),
				"after a CORS rule's condition matched, another rule's condition can still be evaluated: a request whose origin the first matching rule denies could be granted Access-Control-* headers by a later, broader rule")
		}
		if n == 0 {
			c.Check("first-match", hname, fn.Pos(), false, "no rule-condition test found in "+hname)
		}
	}
	// matchOriginAllowed: each return true is guarded by a map hit.
	if match != nil {
		for _, r := range core.Returns(match) {
			if len(r.Results) != 2 {
				continue
			}
			k, isConst := r.Results[0].(*ssa.Const)
			if isConst && k.Value != nil && k.Value.ExactString() == "false" {
				continue
			}
			ok := core.HasGuard(r.Block(), func(g core.Guard) bool {
				s := core.Render(g.Cond)
				return g.Pol && strings.Contains(s, "rule.AccessControlAllowOriginMap[") && strings.HasSuffix(s, "#1")
			})
			c.Check("allow-return", "matchOriginAllowed:"+core.Render(r.Results[1]), r.Pos(), ok,
				"matchOriginAllowed returns allowed="+core.Render(r.Results[0])+" without a successful lookup in rule.AccessControlAllowOriginMap; guards: "+strings.Join(core.GuardStrs(r.Block()), " && "))
		}
		c.Min("allow-return", 3)
	}
	// (2) addVaryHeader paths.
	if vary != nil {
		c.Analysed(core.FuncKey(vary))
		n, bad := 0, ""
		complete := core.EnumPaths(vary, 2, 5000, func(p *core.Path) {
			n++
			set := p.Has(func(in ssa.Instruction) bool {
				name, _, ok := headerWrite(in)
				return ok && name == "Vary"
			})
			observed := ""
			p.Edges(func(cond ssa.Value, taken bool) {
				if !taken {
					return
				}
				if b, ok := cond.(*ssa.BinOp); ok && b.Op.String() == "==" {
					for _, o := range []ssa.Value{b.X, b.Y} {
						if s, ok := core.ConstString(o); ok && (s == "Origin" || s == "*") {
							observed = s
						}
					}
				}
			})
			if !set && observed == "" && bad == "" {
				bad = pathSig(p)
			}
		})
		c.Check("vary-path", "addVaryHeader", vary.Pos(), complete && bad == "" && n >= 3,
			fmt.Sprintf("%d feasible paths enumerated (complete=%v); a path returns without Header.Set/Add(\"Vary\", …) although it did not observe Origin or * in the existing value; branches taken: %s", n, complete, bad))
		c.Note("addVaryHeader: %d feasible paths enumerated", n)
		c.Min("vary-path", 1)
	}
}

func allInstrs(fn *ssa.Function) []ssa.Instruction {
	var out []ssa.Instruction
	core.Instrs(fn, func(in ssa.Instruction) { out = append(out, in) })
	return out
}

// isExtractOfCall: v is result #i of a call to the named function.
func isExtractOfCall(v ssa.Value, i int, name string) bool {
	v = core.StripConv(v)
	if u, ok := v.(*ssa.UnOp); ok && u.Op.String() == "!" {
		return false
	}
	ex, ok := v.(*ssa.Extract)
	if !ok || ex.Index != i {
		return false
	}
	call, ok := ex.Tuple.(*ssa.Call)
	return ok && core.CallIs(&call.Call, name)
}

// pathSig is a line-free signature of a path: the rendered conditions with
// polarity, in order, deduplicated.
func pathSig(p *core.Path) string {
	var parts []string
	seen := map[string]bool{}
	p.Edges(func(cond ssa.Value, taken bool) {
		s := core.Render(cond)
		if !taken {
			s = "!" + s
		}
		if !seen[s] {
			seen[s] = true
			parts = append(parts, s)
		}
	})
	return strings.Join(parts, " & ")
}
