package rules

import (
	"go/constant"
	"go/token"
	"go/types"
	"sync"

	"golang.org/x/tools/go/ssa"

	"verif/internal/core"
)

// Helpers that make the balancer rules (C01-C04) robust against
// behaviour-preserving refactorings: predicate helpers are expanded into the
// facts they establish, values are followed through the parameters and
// results of private helpers, and variables are identified by their role
// (what flows into them / where they flow to), never by their name.

// ---- regions ---------------------------------------------------------------
//
// core.Prog.Region / CallSites keep one program-wide index for the program
// that asked last; the thorough tier analyses a dozen mutant programs
// concurrently, which would rebuild that index over and over. The balancer
// rules therefore keep their own per-program index, alive only while one of
// their entry points runs (balAcquire).

type balCache struct {
	refs   int
	once   sync.Once
	sites  map[*ssa.Function][]ssa.CallInstruction
	taken  map[*ssa.Function]bool // used as a value somewhere (not only called)
	rmu    sync.Mutex
	region map[*ssa.Function][]*ssa.Function
}

var (
	balMu     sync.Mutex
	balCaches = map[*core.Prog]*balCache{}
)

// balAcquire pins the per-program index for the duration of a rule run; the
// returned function releases it (the index is dropped with the last user, so
// that analysed programs can be collected).
func balAcquire(p *core.Prog) func() {
	balMu.Lock()
	c := balCaches[p]
	if c == nil {
		c = &balCache{region: map[*ssa.Function][]*ssa.Function{}}
		balCaches[p] = c
	}
	c.refs++
	balMu.Unlock()
	return func() {
		balMu.Lock()
		c.refs--
		if c.refs <= 0 && balCaches[p] == c {
			delete(balCaches, p)
		}
		balMu.Unlock()
	}
}

func balIndex(p *core.Prog) *balCache {
	balMu.Lock()
	c := balCaches[p]
	if c == nil {
		// no entry point pinned it (a helper used on its own): index without retaining it
		c = &balCache{region: map[*ssa.Function][]*ssa.Function{}}
	}
	balMu.Unlock()
	c.once.Do(func() {
		c.sites = map[*ssa.Function][]ssa.CallInstruction{}
		c.taken = map[*ssa.Function]bool{}
		for _, fn := range p.SrcFuncs("") {
			core.Instrs(fn, func(in ssa.Instruction) {
				ci, isCall := in.(ssa.CallInstruction)
				if isCall {
					if sc := ci.Common().StaticCallee(); sc != nil {
						c.sites[sc] = append(c.sites[sc], ci)
					}
				}
				for _, op := range in.Operands(nil) {
					if op == nil || *op == nil {
						continue
					}
					if g, ok := (*op).(*ssa.Function); ok {
						if isCall && ci.Common().Value == ssa.Value(g) {
							continue
						}
						c.taken[g] = true
					}
				}
			})
		}
	})
	return c
}

// balSites: the static call sites (call, go, defer) of f in the module.
func balSites(p *core.Prog, f *ssa.Function) []ssa.CallInstruction { return balIndex(p).sites[f] }

// balRegion returns fn followed by its private helpers — unexported functions
// and methods of the same package, reached through static calls from the
// region (depth <= 4), never used as values, whose every static call site lies
// inside the region — and the closures of all of them. Extracting such a
// helper from fn or inlining it back does not change behaviour, so a rule
// anchored in fn looks at all of them. (Same definition as core.Prog.Region.)
func balRegion(p *core.Prog, fn *ssa.Function) []*ssa.Function {
	if fn == nil {
		return nil
	}
	c := balIndex(p)
	c.rmu.Lock()
	defer c.rmu.Unlock()
	if r, ok := c.region[fn]; ok {
		return r
	}
	in := map[*ssa.Function]bool{}
	var out []*ssa.Function
	add := func(f *ssa.Function) {
		for _, g := range core.WithClosures(f) {
			if !in[g] {
				in[g] = true
				out = append(out, g)
			}
		}
	}
	add(fn)
	for depth := 0; depth < 4; depth++ {
		grew := false
		for _, f := range append([]*ssa.Function(nil), out...) {
			core.Instrs(f, func(x ssa.Instruction) {
				ci, ok := x.(ssa.CallInstruction)
				if !ok {
					return
				}
				h := ci.Common().StaticCallee()
				if h == nil || in[h] || h.Blocks == nil || h.Pkg == nil || h.Pkg != fn.Pkg || h.Parent() != nil {
					return
				}
				if h.Object() == nil || h.Object().Exported() || c.taken[h] {
					return
				}
				for _, s := range c.sites[h] {
					if !in[s.Parent()] {
						return
					}
				}
				add(h)
				grew = true
			})
		}
		if !grew {
			break
		}
	}
	c.region[fn] = out
	return out
}

// balGuardsCtx returns the guards established at b and, when b's function is a
// private helper (or a closure) with exactly one static call site, the guards
// established at that call site, and so on outwards (depth <= 4). Guards of
// an outer frame speak about that frame's values.
func balGuardsCtx(p *core.Prog, b *ssa.BasicBlock) []core.Guard {
	out := core.GuardsAt(b)
	c := balIndex(p)
	f := b.Parent()
	for depth := 0; depth < 4 && f != nil; depth++ {
		if f.Object() != nil && f.Object().Exported() {
			break
		}
		sites := c.sites[f]
		if len(sites) != 1 || (f.Parent() == nil && c.taken[f]) {
			break
		}
		if _, isCall := sites[0].(*ssa.Call); !isCall {
			break
		}
		sb := sites[0].Block()
		out = append(out, core.GuardsAt(sb)...)
		f = sb.Parent()
	}
	return out
}

// balRegionCalls: the calls of fn's region whose callee matches one of names.
func balRegionCalls(p *core.Prog, fn *ssa.Function, names ...string) []ssa.CallInstruction {
	var out []ssa.CallInstruction
	for _, g := range balRegion(p, fn) {
		out = append(out, core.Calls(g, names...)...)
	}
	return out
}

// balInRegion reports whether f is root or one of root's private helpers / closures.
func balInRegion(p *core.Prog, root, f *ssa.Function) bool {
	for _, g := range balRegion(p, root) {
		if g == f {
			return true
		}
	}
	return false
}

// balInAnyRegion: f belongs to the region of one of the functions named by keys.
func balInAnyRegion(p *core.Prog, f *ssa.Function, roots []*ssa.Function) *ssa.Function {
	for _, r := range roots {
		if r != nil && balInRegion(p, r, f) {
			return r
		}
	}
	return nil
}

func balOutermost(f *ssa.Function) *ssa.Function {
	for f != nil && f.Parent() != nil {
		f = f.Parent()
	}
	return f
}

// balSingleSite returns the only static call site of h when h is a private
// helper (member of the region of the function that contains that site).
func balSingleSite(p *core.Prog, h *ssa.Function) ssa.CallInstruction {
	if h == nil || h.Parent() != nil || h.Blocks == nil {
		return nil
	}
	sites := balSites(p, h)
	if len(sites) != 1 {
		return nil
	}
	if _, isCall := sites[0].(*ssa.Call); !isCall {
		return nil // go / defer: not executed at the site
	}
	caller := balOutermost(sites[0].Parent())
	if caller == nil || caller == h || !balInRegion(p, caller, h) {
		return nil
	}
	return sites[0]
}

// balRootInstr maps an instruction of root's region to the instruction of root
// itself during which it executes (the call of the private helper that
// contains it, transitively). nil when in lies in a helper with several call
// sites or in a closure.
func balRootInstr(p *core.Prog, root *ssa.Function, in ssa.Instruction) ssa.Instruction {
	for depth := 0; depth < 5; depth++ {
		if in.Parent() == root {
			return in
		}
		s := balSingleSite(p, in.Parent())
		if s == nil {
			return nil
		}
		in = s.(ssa.Instruction)
	}
	return nil
}

func balParamIndex(pa *ssa.Parameter) int {
	for i, q := range pa.Parent().Params {
		if q == pa {
			return i
		}
	}
	return -1
}

// balAsParam: v is a parameter (possibly converted, or re-loaded from the spill slot of a captured parameter).
func balAsParam(v ssa.Value) *ssa.Parameter {
	v = core.StripConv(v)
	if u, ok := v.(*ssa.UnOp); ok && u.Op == token.MUL {
		if a, ok := u.X.(*ssa.Alloc); ok {
			if pa := core.SpilledParam(a); pa != nil {
				return pa
			}
		}
	}
	pa, _ := v.(*ssa.Parameter)
	return pa
}

// balUp follows a parameter of a private helper to the argument passed at the
// helper's only call site, repeatedly: the value denoted in the frame of the
// function the rule is anchored in.
func balUp(p *core.Prog, v ssa.Value) ssa.Value {
	for depth := 0; depth < 5; depth++ {
		pa := balAsParam(v)
		if pa == nil {
			return core.StripConv(v)
		}
		s := balSingleSite(p, pa.Parent())
		i := balParamIndex(pa)
		if s == nil || i < 0 || i >= len(s.Common().Args) {
			return pa
		}
		v = s.Common().Args[i]
	}
	return core.StripConv(v)
}

// balIsParam: v denotes parameter #idx of fn, directly or through private helpers of fn.
func balIsParam(p *core.Prog, v ssa.Value, fn *ssa.Function, idx int) bool {
	for depth := 0; depth < 5; depth++ {
		pa := balAsParam(v)
		if pa == nil {
			return false
		}
		if pa.Parent() == fn {
			return balParamIndex(pa) == idx
		}
		s := balSingleSite(p, pa.Parent())
		i := balParamIndex(pa)
		if s == nil || i < 0 || i >= len(s.Common().Args) {
			return false
		}
		v = s.Common().Args[i]
	}
	return false
}

// balParamOf: the index of the parameter of fn that v denotes (directly or
// handed down to a private helper of fn), or -1.
func balParamOf(p *core.Prog, v ssa.Value, fn *ssa.Function) int {
	for i := range fn.Params {
		if balIsParam(p, v, fn, i) {
			return i
		}
	}
	return -1
}

// balCallee returns the callee (with a body) and result index that produce v:
// the value of a single-result call, or an Extract of a multi-result call.
func balCallee(v ssa.Value) (call *ssa.Call, h *ssa.Function, idx int) {
	v = core.StripConv(v)
	switch x := v.(type) {
	case *ssa.Call:
		call = x
	case *ssa.Extract:
		c, ok := x.Tuple.(*ssa.Call)
		if !ok {
			return nil, nil, 0
		}
		call, idx = c, x.Index
	default:
		return nil, nil, 0
	}
	h = call.Call.StaticCallee()
	if h == nil || h.Blocks == nil || core.FuncPkgRel(h) == "" {
		return nil, nil, 0
	}
	return call, h, idx
}

// balResults lists the values returned as result #idx by h (defer spills resolved).
func balResults(h *ssa.Function, idx int) []ssa.Value {
	var out []ssa.Value
	for _, r := range core.Returns(h) {
		rv := core.RetVals(r)
		if idx < len(rv) {
			out = append(out, rv[idx])
		}
	}
	return out
}

// balOrigins follows v backwards through conversions, phis, results of helper
// calls and parameters of private helpers and returns the leaves reached
// (values that are none of these). Cycles are cut.
func balOrigins(p *core.Prog, v ssa.Value) []ssa.Value {
	var out []ssa.Value
	seen := map[ssa.Value]bool{}
	var walk func(v ssa.Value, d int)
	walk = func(v ssa.Value, d int) {
		v = core.StripConv(v)
		if v == nil || seen[v] {
			return
		}
		seen[v] = true
		if d > 12 {
			out = append(out, v)
			return
		}
		switch x := v.(type) {
		case *ssa.Phi:
			for _, e := range x.Edges {
				walk(e, d+1)
			}
			return
		case *ssa.Call, *ssa.Extract:
			if _, h, idx := balCallee(x); h != nil {
				rs := balResults(h, idx)
				if len(rs) > 0 {
					for _, r := range rs {
						walk(r, d+1)
					}
					return
				}
			}
		case *ssa.Parameter:
			if u := balUp(p, x); u != ssa.Value(x) {
				walk(u, d+1)
				return
			}
		}
		out = append(out, v)
	}
	walk(v, 0)
	return out
}

// ---- facts -------------------------------------------------------------------

// balEnv binds the parameters of a helper frame to the arguments of one call;
// up describes the frame the arguments live in.
type balEnv struct {
	fn   *ssa.Function
	args []ssa.Value
	up   *balEnv
}

// balFact is a condition known to hold (Pol) or not to hold. Env is nil for a
// condition of the frame the facts were collected in; otherwise Cond lives in
// the frame of a predicate helper and Env maps its parameters outwards.
type balFact struct {
	Cond ssa.Value
	Pol  bool
	Env  *balEnv
}

// G gives the fact as a core.Guard (for Cmp/CmpIs); operands still need res().
func (f balFact) G() core.Guard { return core.Guard{Cond: f.Cond, Pol: f.Pol} }

// res resolves an operand of the fact's condition into the frame the facts were collected in.
func (f balFact) res(v ssa.Value) ssa.Value {
	env := f.Env
	for {
		v = core.StripConv(v)
		pa := balAsParam(v)
		if pa == nil || env == nil || pa.Parent() != env.fn {
			return v
		}
		i := balParamIndex(pa)
		if i < 0 || i >= len(env.args) {
			return v
		}
		v, env = env.args[i], env.up
	}
}

func balIsBool(t types.Type) bool {
	b, ok := t.Underlying().(*types.Basic)
	return ok && b.Info()&types.IsBoolean != 0
}

func balConstBool(v ssa.Value) (val, ok bool) {
	k, isK := v.(*ssa.Const)
	if !isK || k.Value == nil || k.Value.Kind() != constant.Bool {
		return false, false
	}
	return constant.BoolVal(k.Value), true
}

func balIntersect(a, b []core.Guard) []core.Guard {
	var out []core.Guard
	for _, x := range a {
		for _, y := range b {
			if x.Cond == y.Cond && x.Pol == y.Pol {
				out = append(out, x)
				break
			}
		}
	}
	return out
}

// balValueFacts: conditions (of v's frame) that certainly held when the
// boolean v evaluated to pol: v itself, and for a phi produced by && / || /
// if-else the branch conditions of every edge that can deliver pol.
func balValueFacts(v ssa.Value, pol bool, seen map[ssa.Value]bool) []core.Guard {
	switch x := v.(type) {
	case *ssa.Const:
		return nil
	case *ssa.UnOp:
		if x.Op == token.NOT {
			return balValueFacts(x.X, !pol, seen)
		}
	case *ssa.Phi:
		if seen[x] {
			return nil
		}
		seen[x] = true
		var acc []core.Guard
		first := true
		for i, e := range x.Edges {
			if kv, isK := balConstBool(e); isK && kv != pol {
				continue
			}
			set := append(core.GuardsOnEdge(x.Block().Preds[i], x.Block()), balValueFacts(e, pol, seen)...)
			if first {
				acc, first = set, false
			} else {
				acc = balIntersect(acc, set)
			}
		}
		delete(seen, x)
		return append(acc, core.Guard{Cond: v, Pol: pol})
	}
	return []core.Guard{{Cond: v, Pol: pol}}
}

// balRetFacts: conditions of h's frame that held whenever the boolean function h returned pol.
func balRetFacts(h *ssa.Function, pol bool) []core.Guard {
	var acc []core.Guard
	first := true
	for _, r := range core.Returns(h) {
		rv := core.RetVals(r)
		if len(rv) != 1 {
			return nil
		}
		if kv, isK := balConstBool(rv[0]); isK && kv != pol {
			continue
		}
		set := append(core.GuardsAt(r.Block()), balValueFacts(rv[0], pol, map[ssa.Value]bool{})...)
		if first {
			acc, first = set, false
		} else {
			acc = balIntersect(acc, set)
		}
	}
	return acc
}

func balExpandCond(v ssa.Value, pol bool, env *balEnv, depth int, out *[]balFact) {
	switch x := v.(type) {
	case *ssa.UnOp:
		if x.Op == token.NOT {
			balExpandCond(x.X, !pol, env, depth, out)
			return
		}
	case *ssa.Phi:
		*out = append(*out, balFact{v, pol, env})
		if depth > 0 && balIsBool(x.Type()) {
			for _, g := range balValueFacts(x, pol, map[ssa.Value]bool{}) {
				if g.Cond != v {
					balExpandCond(g.Cond, g.Pol, env, depth-1, out)
				}
			}
		}
		return
	case *ssa.Call:
		*out = append(*out, balFact{v, pol, env})
		h := x.Call.StaticCallee()
		if depth > 0 && h != nil && h.Blocks != nil && core.FuncPkgRel(h) != "" && h.Signature.Results().Len() == 1 && balIsBool(h.Signature.Results().At(0).Type()) {
			for e := env; e != nil; e = e.up {
				if e.fn == h {
					return // recursive predicate
				}
			}
			env2 := &balEnv{fn: h, args: x.Call.Args, up: env}
			for _, g := range balRetFacts(h, pol) {
				balExpandCond(g.Cond, g.Pol, env2, depth-1, out)
			}
		}
		return
	}
	*out = append(*out, balFact{v, pol, env})
}

// balExpand turns guards into facts: negations are folded, named booleans
// built from && / || and calls of boolean predicate helpers are replaced by
// (added to) the conditions they imply, with the helper's parameters bound to
// the call's arguments.
func balExpand(gs []core.Guard) []balFact {
	var out []balFact
	for _, g := range gs {
		balExpandCond(g.Cond, g.Pol, nil, 3, &out)
	}
	return out
}

// balFactsAt: facts established at block b.
func balFactsAt(b *ssa.BasicBlock) []balFact { return balExpand(core.GuardsAt(b)) }

// balFactsCtx: facts established at b and, outwards, at the single call site
// of the private helper b belongs to (those speak about the outer frame).
func balFactsCtx(p *core.Prog, b *ssa.BasicBlock) []balFact { return balExpand(balGuardsCtx(p, b)) }

// balFactsOnEdge: facts established when control moves from pred to succ.
func balFactsOnEdge(pred, succ *ssa.BasicBlock) []balFact {
	return balExpand(core.GuardsOnEdge(pred, succ))
}

// balValueFn: the function a value belongs to (nil for constants/globals).
func balValueFn(v ssa.Value) *ssa.Function {
	switch x := v.(type) {
	case ssa.Instruction:
		return x.Parent()
	case *ssa.Parameter:
		return x.Parent()
	case *ssa.FreeVar:
		return x.Parent()
	}
	return nil
}

// balSame: a (operand of fact f) and e denote the same element: same SSA
// value after resolving helper parameters, or the same access path inside
// one function.
func balSame(f balFact, a, e ssa.Value) bool {
	a, e = f.res(a), core.StripConv(e)
	if a == e {
		return true
	}
	fa, fe := balValueFn(a), balValueFn(e)
	return fa != nil && fa == fe && sameElem(a, e)
}

const balAvailKey = "bfe_balance/backend.BfeBackend.Avail"

func balIsOne(v ssa.Value) bool {
	k, ok := v.(*ssa.Const)
	return ok && k.Value != nil && k.Value.ExactString() == "1"
}

// balCmpOf normalises the comparison a fact establishes to "<field fld of base> op <other>".
func balFieldCmp(f balFact, flds ...string) (base ssa.Value, fld string, op token.Token, other ssa.Value, ok bool) {
	o, x, y, isCmp := f.G().Cmp()
	if !isCmp {
		return nil, "", 0, nil, false
	}
	for _, fl := range flds {
		if b := fieldLoadOf(x, fl); b != nil {
			return b, fl, o, y, true
		}
		if b := fieldLoadOf(y, fl); b != nil {
			return b, fl, balMirror[o], x, true
		}
	}
	return nil, "", 0, nil, false
}

var balMirror = map[token.Token]token.Token{token.LSS: token.GTR, token.GTR: token.LSS, token.LEQ: token.GEQ, token.GEQ: token.LEQ, token.EQL: token.EQL, token.NEQ: token.NEQ}

// balEligible: the facts prove Avail(e.backend) and e.weight > 0 (or e.current > 0).
func balEligible(e ssa.Value, facts []balFact) (avail, positive bool) {
	for _, f := range facts {
		if call, ok := f.Cond.(*ssa.Call); ok && f.Pol && core.CallIs(&call.Call, balAvailKey) && len(call.Call.Args) > 0 {
			if x := fieldLoadOf(call.Call.Args[0], "backend"); x != nil && balSame(f, x, e) {
				avail = true
			}
		}
		if b, _, op, other, ok := balFieldCmp(f, "weight", "current"); ok && balSame(f, b, e) {
			if (op == token.GTR && isZero(other)) || (op == token.GEQ && balIsOne(other)) {
				positive = true
			}
		}
	}
	return
}

// balEligibleAt: e is known eligible at block b, by the facts at b or — e being
// a parameter of a private helper — by the facts at the helper's call site
// about the argument.
func balEligibleAt(p *core.Prog, e ssa.Value, b *ssa.BasicBlock) (avail, positive bool) {
	for depth := 0; depth < 4 && b != nil; depth++ {
		a, q := balEligible(e, balFactsAt(b))
		avail, positive = avail || a, positive || q
		if avail && positive {
			return
		}
		pa := balAsParam(e)
		if pa == nil {
			return
		}
		s := balSingleSite(p, pa.Parent())
		i := balParamIndex(pa)
		if s == nil || i < 0 {
			return
		}
		e, b = s.Common().Args[i], s.Block()
	}
	return
}

// balNilTest: the fact establishes v == nil (isNil) or v != nil, either operand order.
func balNilTest(f balFact) (v ssa.Value, isNil bool, ok bool) {
	op, x, y, isCmp := f.G().Cmp()
	if !isCmp || (op != token.EQL && op != token.NEQ) {
		return nil, false, false
	}
	switch {
	case isNilConst(y):
		return f.res(x), op == token.EQL, true
	case isNilConst(x):
		return f.res(y), op == token.EQL, true
	}
	return nil, false, false
}

// balEdgeHolds: on every way of reaching succ through pred a fact accepted by
// match is established (handles `a || b` conditions, whose then-block has one
// predecessor per disjunct, and merges after added logging).
func balEdgeHolds(pred, succ *ssa.BasicBlock, match func(f balFact) bool) bool {
	for _, f := range balFactsOnEdge(pred, succ) {
		if match(f) {
			return true
		}
	}
	return balAllWays(pred, match, map[*ssa.BasicBlock]bool{})
}

// balAllWays: every path into b establishes a fact accepted by match.
func balAllWays(b *ssa.BasicBlock, match func(f balFact) bool, seen map[*ssa.BasicBlock]bool) bool {
	if seen[b] {
		return false
	}
	seen[b] = true
	defer delete(seen, b)
	for _, f := range balFactsAt(b) {
		if match(f) {
			return true
		}
	}
	if len(b.Preds) < 2 {
		return false
	}
	for _, q := range b.Preds {
		ok := false
		for _, f := range balFactsOnEdge(q, b) {
			if match(f) {
				ok = true
				break
			}
		}
		if !ok && !balAllWays(q, match, seen) {
			return false
		}
	}
	return true
}

// ---- loops ---------------------------------------------------------------------

func balInLoop(b *ssa.BasicBlock) bool {
	for _, l := range core.Loops(b.Parent()) {
		if l.Body[b] {
			return true
		}
	}
	return false
}

// balLoopsOf: loops of b's function that contain b.
func balLoopsOf(b *ssa.BasicBlock) []*core.Loop {
	var out []*core.Loop
	for _, l := range core.Loops(b.Parent()) {
		if l.Body[b] {
			out = append(out, l)
		}
	}
	return out
}

func balRegionInstrs(p *core.Prog, fn *ssa.Function) []ssa.Instruction {
	var out []ssa.Instruction
	for _, g := range balRegion(p, fn) {
		core.Instrs(g, func(in ssa.Instruction) { out = append(out, in) })
	}
	return out
}

// balFieldIs: v is a load of the field named fld of some struct value; returns the base.
func balFieldAddrObj(v ssa.Value) *types.Var {
	if fa, ok := v.(*ssa.FieldAddr); ok {
		return core.FieldObj(fa.X, fa.Field)
	}
	return nil
}

// balLoadOfField: v is a load of struct field obj; returns the struct base value.
func balLoadOfField(v ssa.Value, obj *types.Var) ssa.Value {
	v = core.StripConv(v)
	if u, ok := v.(*ssa.UnOp); ok && u.Op == token.MUL {
		if fa, ok := u.X.(*ssa.FieldAddr); ok && obj != nil && core.FieldObj(fa.X, fa.Field) == obj {
			return fa.X
		}
	}
	if f, ok := v.(*ssa.Field); ok && obj != nil && core.FieldObj(f.X, f.Field) == obj {
		return f.X
	}
	return nil
}

// balElemOfList: v is a load of an element of a slice; returns the slice value and the index.
func balElemOfList(v ssa.Value) (list, index ssa.Value) {
	v = core.StripConv(v)
	if u, ok := v.(*ssa.UnOp); ok && u.Op == token.MUL {
		if ia, ok := u.X.(*ssa.IndexAddr); ok {
			return ia.X, ia.Index
		}
	}
	if ix, ok := v.(*ssa.Index); ok {
		return ix.X, ix.Index
	}
	return nil, nil
}

// ---- calls seen from the anchor function ----------------------------------------

// balCtxCall is a call instruction of a region together with one chain of call
// sites that leads to it from the region's root (empty when the call is in
// the root itself). A private helper called from two places yields two
// balCtxCalls for each call it contains: the rule sees what the root executes.
type balCtxCall struct {
	Call  ssa.CallInstruction
	Chain []ssa.CallInstruction // outermost first
}

// balCtxCalls enumerates the calls of root's region accepted by match.
func balCtxCalls(p *core.Prog, root *ssa.Function, match func(ssa.CallInstruction) bool) []balCtxCall {
	var out []balCtxCall
	reg := map[*ssa.Function]bool{}
	for _, g := range balRegion(p, root) {
		reg[g] = true
	}
	var chains func(g *ssa.Function, depth int) [][]ssa.CallInstruction
	chains = func(g *ssa.Function, depth int) [][]ssa.CallInstruction {
		if g == root {
			return [][]ssa.CallInstruction{nil}
		}
		if g.Parent() != nil {
			// a closure runs within its enclosing function; parameters of the closure are not resolved
			return chains(balOutermost(g), depth)
		}
		if depth > 4 {
			return nil
		}
		var res [][]ssa.CallInstruction
		for _, s := range balSites(p, g) {
			if !reg[s.Parent()] {
				continue
			}
			for _, c := range chains(s.Parent(), depth+1) {
				res = append(res, append(append([]ssa.CallInstruction(nil), c...), s))
			}
		}
		return res
	}
	for _, g := range balRegion(p, root) {
		for _, ci := range core.AllCalls(g) {
			if !match(ci) {
				continue
			}
			for _, ch := range chains(g, 0) {
				out = append(out, balCtxCall{ci, ch})
				if len(out) > 64 {
					return out
				}
			}
		}
	}
	return out
}

// RootInstr is the instruction of the root function during which the call executes.
func (cc balCtxCall) RootInstr() ssa.Instruction {
	if len(cc.Chain) > 0 {
		return cc.Chain[0].(ssa.Instruction)
	}
	return cc.Call.(ssa.Instruction)
}

// Out resolves a value of the frame of cc.Call outwards along the chain while
// it is a parameter of the helper entered at that level.
func (cc balCtxCall) Out(v ssa.Value) ssa.Value {
	for k := len(cc.Chain) - 1; k >= 0; k-- {
		pa := balAsParam(v)
		if pa == nil || pa.Parent() != cc.Chain[k].Common().StaticCallee() {
			break
		}
		i := balParamIndex(pa)
		if i < 0 || i >= len(cc.Chain[k].Common().Args) {
			break
		}
		v = cc.Chain[k].Common().Args[i]
	}
	return core.StripConv(v)
}

// Arg is argument i of the call, resolved outwards.
func (cc balCtxCall) Arg(i int) ssa.Value { return cc.Out(cc.Call.Common().Args[i]) }

// Frames calls visit with the value v as denoted in each frame from the call's
// own frame outwards (as long as v is a parameter of the frame being left),
// together with the block at which control sits in that frame. It stops and
// returns true as soon as visit does.
func (cc balCtxCall) Frames(v ssa.Value, visit func(v ssa.Value, b *ssa.BasicBlock) bool) bool {
	b := cc.Call.Block()
	v = core.StripConv(v)
	if visit(v, b) {
		return true
	}
	for k := len(cc.Chain) - 1; k >= 0; k-- {
		pa := balAsParam(v)
		if pa == nil || pa.Parent() != cc.Chain[k].Common().StaticCallee() {
			return false
		}
		i := balParamIndex(pa)
		if i < 0 || i >= len(cc.Chain[k].Common().Args) {
			return false
		}
		v, b = core.StripConv(cc.Chain[k].Common().Args[i]), cc.Chain[k].Block()
		if visit(v, b) {
			return true
		}
	}
	return false
}

func balCallMatcher(names ...string) func(ssa.CallInstruction) bool {
	return func(ci ssa.CallInstruction) bool { return core.CallIs(ci.Common(), names...) }
}

// balConstIs: v is the constant with the given exact string.
func balConstIs(v ssa.Value, exact string) bool {
	k, ok := core.StripConv(v).(*ssa.Const)
	return ok && k.Value != nil && k.Value.ExactString() == exact
}

// balConstOf: exact string of the package-level constant pkg.name ("" when absent).
func balConstOf(p *core.Prog, pkg, name string) string {
	if k, ok := p.Obj(pkg, name).(*types.Const); ok {
		return k.Val().ExactString()
	}
	return ""
}

// ---- sorted lists and indices into them -------------------------------------------

// balSortEvent: after At (an instruction of the function examined) the slice
// value List is sorted: sort.Sort(XSorter{List}) itself, or a call of a helper
// that applies sort.Sort to its parameter on every path.
type balSortEvent struct {
	At   ssa.Instruction
	List ssa.Value
}

func balSortEvents(fn *ssa.Function) []balSortEvent {
	var out []balSortEvent
	for _, ci := range core.AllCalls(fn) {
		if _, isCall := ci.(*ssa.Call); !isCall {
			continue
		}
		if core.CallIs(ci.Common(), "sort.Sort") || core.CallIs(ci.Common(), "sort.Stable") {
			if l := sortedList(ci); l != nil {
				out = append(out, balSortEvent{ci.(ssa.Instruction), l})
			}
			continue
		}
		h := ci.Common().StaticCallee()
		if h == nil || h.Blocks == nil || core.FuncPkgRel(h) == "" {
			continue
		}
		for _, s := range append(core.Calls(h, "sort.Sort"), core.Calls(h, "sort.Stable")...) {
			l := sortedList(s)
			if l == nil {
				continue
			}
			pa := balAsParam(l)
			if pa == nil || pa.Parent() != h {
				continue
			}
			i := balParamIndex(pa)
			si := s.(ssa.Instruction)
			if i < 0 || i >= len(ci.Common().Args) || !core.AlwaysPasses(h, func(x ssa.Instruction) bool { return x == si }, 1) {
				continue
			}
			out = append(out, balSortEvent{ci.(ssa.Instruction), ci.Common().Args[i]})
		}
	}
	return out
}

// balSameList: two slice values of one function denote the same list.
func balSameList(a, b ssa.Value) bool {
	a, b = core.StripConv(a), core.StripConv(b)
	if a == b {
		return true
	}
	fa, fb := balValueFn(a), balValueFn(b)
	return fa != nil && fa == fb && sameElem(a, b)
}

// balSortedBefore: the list value (of at's function) was sorted by an event
// that dominates at; a list received as parameter of a private helper is
// looked up at the helper's call site.
func balSortedBefore(p *core.Prog, list ssa.Value, at ssa.Instruction) bool {
	for depth := 0; depth < 4; depth++ {
		for _, ev := range balSortEvents(at.Parent()) {
			if balSameList(ev.List, list) && core.Dominates(ev.At, at) {
				return true
			}
		}
		pa := balAsParam(list)
		if pa == nil || pa.Parent() != at.Parent() {
			return false
		}
		s := balSingleSite(p, pa.Parent())
		i := balParamIndex(pa)
		if s == nil || i < 0 {
			return false
		}
		list, at = s.Common().Args[i], s.(ssa.Instruction)
	}
	return false
}

// balIndexOfSorted decides where the value stored as "index of the only
// sub-cluster with positive weight" comes from. Followed backwards through
// phis, helper results and helper parameters, every non-constant origin must
// be the index i of a loop element list[i] that was tested weight > 0 on the
// way (positive), with list sorted before that loop (sorted).
func balIndexOfSorted(p *core.Prog, v ssa.Value, facts []balFact) (sorted, positive bool, why string) {
	sorted, positive = true, true
	leaves := 0
	seen := map[ssa.Value]bool{}
	var walk func(v ssa.Value, facts []balFact, d int)
	walk = func(v ssa.Value, facts []balFact, d int) {
		v = core.StripConv(v)
		if seen[v] || d > 8 {
			return
		}
		seen[v] = true
		switch x := v.(type) {
		case *ssa.Const:
			return
		case *ssa.Phi:
			for i, e := range x.Edges {
				walk(e, balFactsOnEdge(x.Block().Preds[i], x.Block()), d+1)
			}
			return
		case *ssa.Call, *ssa.Extract:
			if _, h, idx := balCallee(x); h != nil {
				for _, r := range core.Returns(h) {
					if rv := core.RetVals(r); idx < len(rv) {
						walk(rv[idx], balFactsAt(r.Block()), d+1)
					}
				}
				return
			}
		case *ssa.Parameter:
			if s := balSingleSite(p, x.Parent()); s != nil {
				if i := balParamIndex(x); i >= 0 && i < len(s.Common().Args) {
					walk(s.Common().Args[i], balFactsAt(s.Block()), d+1)
					return
				}
			}
		}
		leaves++
		fn := balValueFn(v)
		var ias []*ssa.IndexAddr
		if fn != nil {
			core.Instrs(fn, func(in ssa.Instruction) {
				if ia, ok := in.(*ssa.IndexAddr); ok && core.StripConv(ia.Index) == v {
					ias = append(ias, ia)
				}
			})
		}
		if len(ias) == 0 {
			sorted, positive = false, false
			why = "the stored index " + core.Render(v) + " is not the index of a loop over the sub-cluster list"
			return
		}
		pos, srt := false, false
		for _, ia := range ias {
			if ia.Referrers() != nil {
				for _, r := range *ia.Referrers() {
					if u, ok := r.(*ssa.UnOp); ok && u.Op == token.MUL {
						if _, q := balEligible(u, facts); q {
							pos = true
						}
					}
				}
			}
			if balSortedBefore(p, ia.X, ia) {
				srt = true
			}
		}
		if !pos {
			positive = false
		}
		if !srt {
			sorted = false
		}
	}
	walk(v, facts, 0)
	if leaves == 0 {
		return false, false, "the stored index is a constant"
	}
	return
}
