package rules

import (
	"fmt"
	"go/token"
	"go/types"
	"strings"

	"golang.org/x/tools/go/ssa"

	"verif/internal/core"
)

// C06 — backend health state machine follows the configured thresholds.
func init() {
	Register(&Rule{
		ID: "C06", Section: "3 C06",
		Technique: "guarded-by lock-set analysis of BfeBackend's state fields, control-dependence (guard) census of the down/up transitions, must-pass path rules on the checker loop, who-may-spawn / who-may-close census",
		Meta: core.Meta{
			Level:       "other",
			Explanation: "Decides the shape of the health state machine in bfe_balance/backend: (a) every access to avail/restarted/connNum/failNum/succNum happens under the backend's RWMutex (stores and read-modify-writes under the write lock; a private method that touches them without locking \u2014 setAvail today \u2014 transfers the requirement to each of its call sites); in the region of BfeBackend.UpdateStatus (the method plus its private helpers) every write of avail is `false`, control-dependent on failNum >= threshold (any spelling of the comparison, also through named booleans and helper results) and under the write lock, and on every enumerated path on which the method can answer true the threshold branch was taken and the answer depends on a load of avail made under the write lock before avail is written, with no unlock in between; (b) every `go` of a function that probes (CheckConnect) is in the region of backend.UpdateStatus, control-dependent on BfeBackend.UpdateStatus(*conf.FailNum) == true for that backend, and every return of backend.UpdateStatus either passed that call or is guarded by a nil check conf; OnFail always counts the failure before it evaluates the status; OnSuccess resets failNum; every function that can store avail=true resets failNum when it does; (c) in the checker (the function started by that `go`, with its private helpers, followed interprocedurally): SetAvail(true) is control-dependent on CheckAvail(*conf.SuccNum) == true and not reachable without SetRestart(true); AddSuccNum is control-dependent on a successful probe; from a probe neither the next probe nor the end of the checker is reachable without AddSuccNum/ResetSuccNum, nor CheckAvail without AddSuccNum, nor the next probe without polling the close channel; every cycle of the unbounded checker loop polls the close channel; CheckAvail answers true only on paths that established succNum >= threshold and reset succNum; (d) close(closeChan) only in BfeBackend.Close. Not covered: wall-clock behaviour, the probe itself (CheckConnect), fairness of the scheduler; a previous-availability read that is moved out of the function holding UpdateStatus's body into a separate helper is reported (the load must be visible on the enumerated path).",
			RuleText:    "obligations = each access to a guarded field, each transition site (spawn, SetAvail, thresholds), each loop path class of check()",
		},
		Run: runC06,
		Mutants: []Mutant{
			{Name: "updatestatus-split-critical-section", File: "bfe_balance/backend/bfe_backend.go", Old: "func (back *BfeBackend) UpdateStatus(failThreshold int) bool {\n	back.Lock()\n	defer back.Unlock()\n\n	prevStatus := back.avail", New: "func (back *BfeBackend) UpdateStatus(failThreshold int) bool {\n	prevStatus := back.Avail()\n	back.Lock()\n	defer back.Unlock()\n", Expect: "test-and-set"},
			{Name: "threshold-exact", File: "bfe_balance/backend/bfe_backend.go", Old: "	if back.failNum >= failThreshold {", New: "	if back.failNum == failThreshold {", Expect: "fail-threshold"},
			{Name: "spawn-always", File: "bfe_balance/backend/health_check.go", Old: "	if backend.UpdateStatus(*checkConf.FailNum) {\n		go check(backend, cluster)\n		return true\n	}", New: "	backend.UpdateStatus(*checkConf.FailNum)\n	if !backend.Avail() {\n		go check(backend, cluster)\n		return true\n	}", Expect: "spawn-guard"},
			{Name: "skip-status-eval", File: "bfe_balance/backend/health_check.go", Old: "	// UpdateStatus update backend status.\n", New: "	if backend.FailNum() != *checkConf.FailNum {\n		return false\n	}\n", Expect: "status-evaluated"},
			{Name: "no-reset-on-failed-probe", File: "bfe_balance/backend/health_check.go", Old: "			backend.ResetSuccNum()\n", New: "", Expect: "probe-fail-reset"},
			{Name: "up-without-threshold", File: "bfe_balance/backend/health_check.go", Old: "		if !backend.CheckAvail(*checkConf.SuccNum) {", New: "		if backend.SuccNum() < 1 {", Expect: "up-guard"},
			{Name: "setavail-keeps-failnum", File: "bfe_balance/backend/bfe_backend.go", Old: "	if back.avail {\n		back.failNum = 0\n	}", New: "", Expect: "avail-resets-failnum"},
			{Name: "unlocked-read", File: "bfe_balance/backend/bfe_backend.go", Old: "	back.RLock()\n	failNum := back.failNum\n	back.RUnlock()\n", New: "	failNum := back.failNum\n", Expect: "guarded-by"},
			{Name: "onsuccess-noop", File: "bfe_balance/backend/bfe_backend.go", Old: "	// reset backend failnum\n	back.ResetFailNum()", New: "	// reset backend failnum", Expect: "onsuccess-reset"},
			{Name: "close-poll-after-conf-retry", File: "bfe_balance/backend/health_check.go", Old: "		select {\n		case <-c: // backend deleted\n			break loop\n		default:\n		}\n\n		// get the latest conf to do health check\n		checkConf := getCheckConf(cluster)\n		if checkConf == nil {\n			// never come here\n			time.Sleep(time.Second)\n			continue\n		}\n", New: "		// get the latest conf to do health check\n		checkConf := getCheckConf(cluster)\n		if checkConf == nil {\n			// never come here\n			time.Sleep(time.Second)\n			continue\n		}\n\n		select {\n		case <-c: // backend deleted\n			break loop\n		default:\n		}\n", Expect: "close-poll"},
			{Name: "close-poll-dropped", File: "bfe_balance/backend/health_check.go", Old: "		select {\n		case <-c: // backend deleted\n			break loop\n		default:\n		}\n", New: "		_ = c\n", Expect: "close-poll"},
			{Name: "silent-extract-mark-recovered", File: "bfe_balance/backend/health_check.go", Old: "\t\tbackend.SetRestart(true)\n\t\tbackend.SetAvail(true)\n\t\tbreak loop\n\t}\n}\n", New: "\t\tmarkRecovered(backend)\n\t\tbreak loop\n\t}\n}\n\nfunc markRecovered(b *BfeBackend) {\n\tb.SetRestart(true)\n\tb.SetAvail(true)\n}\n", Silent: true},
			{Name: "silent-extract-start-checker", File: "bfe_balance/backend/health_check.go", Old: "\t\tgo check(backend, cluster)\n\t\treturn true\n\t}\n\n\treturn false\n}\n", New: "\t\tstartChecker(backend, cluster)\n\t\treturn true\n\t}\n\n\treturn false\n}\n\nfunc startChecker(b *BfeBackend, name string) {\n\tgo check(b, name)\n}\n", Silent: true},
			{Name: "silent-updatestatus-early-return-mirrored", File: "bfe_balance/backend/bfe_backend.go", Old: "\tif back.failNum >= failThreshold {\n\t\tback.setAvail(false)\n\t\tif prevStatus {\n\t\t\treturn true\n\t\t}\n\t}\n\n\treturn false\n}", New: "\tif failThreshold > back.failNum {\n\t\treturn false\n\t}\n\tback.setAvail(false)\n\treturn prevStatus\n}", Silent: true},
			{Name: "silent-named-boolean-eq-false", File: "bfe_balance/backend/health_check.go", Old: "\t\tif !backend.CheckAvail(*checkConf.SuccNum) {", New: "\t\tneeded := *checkConf.SuccNum\n\t\tenough := backend.CheckAvail(needed)\n\t\tif enough == false {", Silent: true},
			{Name: "silent-defer-unlock-plus-equals", File: "bfe_balance/backend/bfe_backend.go", Old: "\tback.Lock()\n\tback.succNum++\n\tback.Unlock()\n", New: "\tback.Lock()\n\tdefer back.Unlock()\n\tback.succNum += 1\n", Silent: true},
			{Name: "silent-debug-log-on-success", File: "bfe_balance/backend/health_check.go", Old: "\t\tbackend.AddSuccNum()\n", New: "\t\tbackend.AddSuccNum()\n\t\tif bfe_debug.DebugHealthCheck {\n\t\t\tlog.Logger.Debug(\"backend %s probe ok\", backend.Name)\n\t\t}\n", Silent: true},
			{Name: "silent-checkavail-renamed-named-result", File: "bfe_balance/backend/bfe_backend.go", Old: "func (back *BfeBackend) CheckAvail(succThreshold int) bool {\n\tback.Lock()\n\tdefer back.Unlock()\n\n\tif back.succNum >= succThreshold {\n\t\tback.succNum = 0\n\t\treturn true\n\t}\n\n\treturn false\n}", New: "func (b *BfeBackend) CheckAvail(need int) bool {\n\tb.Lock()\n\tdefer b.Unlock()\n\n\treached := b.succNum >= need\n\tif reached {\n\t\tb.succNum = 0\n\t}\n\treturn reached\n}", Silent: true},
			{Name: "silent-probe-if-else", File: "bfe_balance/backend/health_check.go", Old: "\t\tif ok, err := CheckConnect(backend, checkConf); !ok {\n\t\t\tbackend.ResetSuccNum()\n\t\t\tif bfe_debug.DebugHealthCheck {\n\t\t\t\tlog.Logger.Debug(\"backend %s still not avail (check failure: %s)\", backend.Name, err)\n\t\t\t}\n\t\t\ttime.Sleep(checkInterval)\n\t\t\tcontinue\n\t\t}\n", New: "\t\tconnected, cerr := CheckConnect(backend, checkConf)\n\t\tfailed := !connected\n\t\tif failed {\n\t\t\tbackend.ResetSuccNum()\n\t\t\tif bfe_debug.DebugHealthCheck {\n\t\t\t\tlog.Logger.Debug(\"backend %s still not avail (check failure: %s)\", backend.Name, cerr)\n\t\t\t}\n\t\t\ttime.Sleep(checkInterval)\n\t\t\tcontinue\n\t\t}\n", Silent: true},
		},
	})
}

func runC06(c *core.Ctx) {
	const pkg = "bfe_balance/backend"
	const bkT = "backend.BfeBackend"
	if c.P.Pkg(pkg) == nil {
		c.Missing(pkg)
		return
	}
	p := c.P
	T := func(n string) string { return pkg + ".BfeBackend." + n }
	fns := p.SrcFuncs(pkg)
	guarded := map[string]bool{"avail": true, "restarted": true, "connNum": true, "failNum": true, "succNum": true}
	// ---- (a) guarded-by -------------------------------------------------------
	// A private method that touches guarded fields without taking any lock itself
	// (setAvail today) transfers the requirement to every one of its call sites.
	needCallerLock := map[*ssa.Function]string{}
	for _, fn := range fns {
		k := core.FuncKey(fn)
		if k == pkg+".NewBfeBackend" {
			continue // pre-publication
		}
		ls := core.ComputeLockSets(fn)
		ord := map[string]int{}
		locksItself := false
		core.Instrs(fn, func(in ssa.Instruction) {
			if ci, ok := in.(ssa.CallInstruction); ok {
				if _, _, isLock := core.LockEvent(ci.Common()); isLock {
					locksItself = true
				}
			}
		})
		core.Instrs(fn, func(in ssa.Instruction) {
			fa, ok := in.(*ssa.FieldAddr)
			if !ok {
				return
			}
			fv := core.FieldObj(fa.X, fa.Field)
			if fv == nil || !guarded[fv.Name()] || !strings.HasSuffix(core.TypeStr(fa.X.Type()), bkT) {
				return
			}
			c.Analysed(k)
			write := false
			for _, r := range *fa.Referrers() {
				if st, ok := r.(*ssa.Store); ok && st.Addr == fa {
					write = true
				}
			}
			mode := "R"
			if write {
				mode = "W"
			}
			lock := core.Render(fa.X) + ".RWMutex"
			held := ls.Holds(in, lock, mode)
			ord[fv.Name()+mode]++
			key := fmt.Sprintf("%s:%s:%s#%d", k, fv.Name(), mode, ord[fv.Name()+mode])
			if !held && !locksItself && rbPrivateCallee(p, fn) {
				if mode == "W" || needCallerLock[fn] == "" {
					needCallerLock[fn] = mode
				}
				c.Check("guarded-by", key, in.Pos(), true, "requirement transferred to the callers of "+fn.Name())
				return
			}
			c.Check("guarded-by", key, in.Pos(), held, fmt.Sprintf("BfeBackend.%s is accessed (%s) without %s held (%s needed); held: %v", fv.Name(), map[bool]string{true: "write", false: "read"}[write], lock, mode, ls.Held(in)))
		})
	}
	c.Min("guarded-by", 15)
	for callee, mode := range needCallerLock {
		for _, fn := range p.SrcFuncs("") {
			sites := core.Calls(fn, core.FuncKey(callee))
			if len(sites) == 0 {
				continue
			}
			ls := core.ComputeLockSets(fn)
			for i, ci := range sites {
				if len(ci.Common().Args) == 0 {
					continue
				}
				lock := core.Render(ci.Common().Args[0]) + ".RWMutex"
				_, plain := ci.(*ssa.Call)
				c.Check("guarded-by", fmt.Sprintf("%s:call-%s#%d", core.FuncKey(fn), callee.Name(), i), ci.Pos(), plain && ls.Holds(ci.(ssa.Instruction), lock, mode),
					callee.Name()+" (which accesses guarded fields without locking) is called without the lock "+lock+" ("+mode+")")
			}
		}
	}
	// role predicates on BfeBackend's state
	storeTo := func(in ssa.Instruction, field string) (*ssa.Store, ssa.Value) {
		st, ok := in.(*ssa.Store)
		if !ok {
			return nil, nil
		}
		base, ok := rbFieldAddr(st.Addr, bkT, field)
		if !ok {
			return nil, nil
		}
		return st, base
	}
	isStoreZero := func(field string) func(ssa.Instruction) bool {
		return func(in ssa.Instruction) bool {
			st, _ := storeTo(in, field)
			return st != nil && isZero(st.Val)
		}
	}
	isAvailStore := func(in ssa.Instruction) bool { st, _ := storeTo(in, "avail"); return st != nil }
	isUnlock := func(in ssa.Instruction) bool {
		call, ok := in.(*ssa.Call)
		if !ok {
			return false
		}
		k, _, ok := core.LockEvent(&call.Call)
		return ok && (k == "Unlock" || k == "RUnlock")
	}
	// ---- (a) test-and-set in BfeBackend.UpdateStatus ----------------------------
	if top := p.Func(pkg, "BfeBackend.UpdateStatus"); top == nil {
		c.Missing(T("UpdateStatus"))
	} else if len(top.Params) < 2 {
		c.Missing(T("UpdateStatus") + " (receiver, threshold)")
	} else {
		recv, thr := ssa.Value(top.Params[0]), ssa.Value(top.Params[1])
		fn := rbUnwrapTail(p, top) // the function that holds the body (a private helper when the body was extracted)
		region := rbRegion(p, top)
		for _, g := range region {
			c.Analysed(core.FuncKey(g))
		}
		isFailNum := func(v ssa.Value) bool {
			base, ok := rbFieldLoad(rbRoot(p, v), bkT, "failNum")
			return ok && rbRoot(p, base) == recv
		}
		thrAtom := rbCmpAtom(token.GEQ, isFailNum, func(v ssa.Value) bool { return rbRoot(p, v) == thr })
		// the down transition: every write of avail in the region is `false`, under the threshold test, under the write lock
		writes := rbAvailWrites(p, region, isAvailStore)
		nw := 0
		for _, w := range writes {
			allFalse := len(w.vals) > 0
			for _, v := range w.vals {
				if k, ok := rbBoolConst(rbRoot(p, v)); !ok || k {
					allFalse = false
				}
			}
			nw++
			key := "BfeBackend.UpdateStatus:setAvail"
			if nw > 1 {
				key = fmt.Sprintf("%s#%d", key, nw)
			}
			okThr := rbGuarded(p, w.in.Block(), thrAtom)
			okLock := rbHoldsUp(p, w.in, ".RWMutex", "W", 3)
			c.Check("fail-threshold", key, w.in.Pos(), allFalse && okThr && okLock,
				fmt.Sprintf("the down transition must set avail=false under failNum >= failThreshold inside the write-locked section (false: %v, threshold guard: %v, write lock: %v); guards: %s", allFalse, okThr, okLock, strings.Join(core.GuardStrs(w.in.Block()), " && ")))
		}
		c.Min("fail-threshold", 1)
		// `true` is answered only on paths that (1) took the threshold branch, (2) observed avail==true by a load made
		// under the write lock before avail was written, (3) with no unlock between that load and the return
		isWrite := map[ssa.Instruction]bool{}
		for _, w := range writes {
			isWrite[w.in] = true
		}
		mayUnlock := core.LiftMay(isUnlock, 2)
		type verdict struct {
			ok     bool
			detail string
		}
		perRet := map[*ssa.Return]*verdict{}
		complete := rbResultPaths(fn, 0, true, func(r *ssa.Return, path *core.Path, facts []rbFact) {
			v := perRet[r]
			if v == nil {
				v = &verdict{ok: true}
				perRet[r] = v
			}
			if !rbFactsImply(p, facts, thrAtom) {
				v.ok, v.detail = false, "a path answers true without having taken the failNum >= failThreshold branch"
				return
			}
			found := false
			for _, ft := range facts {
				if !ft.Pol {
					continue
				}
				u, ok := rbRoot(p, ft.V).(*ssa.UnOp)
				if !ok {
					continue
				}
				base, isAvail := rbFieldLoad(u, bkT, "avail")
				if !isAvail || rbRoot(p, base) != recv || u.Parent() != fn {
					continue
				}
				if !rbHoldsUp(p, u, ".RWMutex", "W", 3) {
					continue
				}
				// order on the path: load, then the writes, no unlock after the load
				seenLoad, bad := false, false
				path.Instrs(func(in ssa.Instruction) bool {
					if in == ssa.Instruction(u) {
						seenLoad = true
						return true
					}
					if !seenLoad && isWrite[in] {
						bad = true
					}
					if seenLoad && mayUnlock(in) {
						bad = true
					}
					return true
				})
				if seenLoad && !bad {
					found = true
				}
			}
			if !found {
				v.ok, v.detail = false, "a path answers true without depending on the previous availability read under the write lock before avail is written (or the lock is released in between)"
			}
		})
		nRet := 0
		for i, r := range core.Returns(fn) {
			v := perRet[r]
			if v == nil {
				continue
			}
			nRet++
			c.Check("test-and-set", fmt.Sprintf("BfeBackend.UpdateStatus:return#%d", i), r.Pos(), v.ok && complete,
				"`true` (start a checker) must depend on the previous availability read inside the same write-locked section that executes setAvail(false), and on the threshold being reached; otherwise two concurrent failures both start a checker: "+v.detail)
		}
		if nRet == 0 {
			c.Check("test-and-set", "BfeBackend.UpdateStatus:never-true", fn.Pos(), false, "UpdateStatus can never answer true (or its paths could not be enumerated): no checker would ever be started")
		}
		c.Min("test-and-set", 1)
	}
	// ---- (b) spawn census -----------------------------------------------------------
	isProbe := func(in ssa.Instruction) bool { _, ok := rbCallTo(in, pkg+".CheckConnect"); return ok }
	upd := p.Func(pkg, "UpdateStatus")
	var updRegion []*ssa.Function
	if upd != nil {
		updRegion = rbRegion(p, upd)
	}
	var checker *ssa.Function
	for _, fn := range p.SrcFuncs("") {
		core.Instrs(fn, func(in ssa.Instruction) {
			g, ok := in.(*ssa.Go)
			if !ok {
				return
			}
			callee := g.Call.StaticCallee()
			if callee == nil {
				if mc, isMC := g.Call.Value.(*ssa.MakeClosure); isMC {
					callee, _ = mc.Fn.(*ssa.Function)
				}
			}
			if !core.CallIs(&g.Call, pkg+".check") && !core.MayPass(callee, isProbe, 3) {
				return
			}
			okFn := false
			for _, r := range updRegion {
				if r == fn {
					okFn = true
				}
			}
			if okFn && callee != nil && checker == nil {
				checker = callee
			}
			var who ssa.Value
			for _, a := range g.Call.Args {
				if who == nil && strings.HasSuffix(core.TypeStr(a.Type()), bkT) {
					who = a
				}
			}
			guard := who != nil && rbGuarded(p, in.Block(), func(v ssa.Value, pol bool) bool {
				call, ok := v.(*ssa.Call)
				return ok && pol && core.CallIs(&call.Call, T("UpdateStatus")) && len(call.Call.Args) == 2 &&
					rbDerefOfField(p, call.Call.Args[1], "FailNum") && rbSame(p, call.Call.Args[0], who)
			})
			c.Check("spawn-guard", core.FuncKey(fn), in.Pos(), okFn && guard, "a health checker is started outside backend.UpdateStatus or without BfeBackend.UpdateStatus(*conf.FailNum) having returned true for that backend; guards: "+strings.Join(core.GuardStrs(in.Block()), " && "))
		})
	}
	c.Min("spawn-guard", 1)
	isUpdCall := func(in ssa.Instruction) bool {
		_, ok := in.(*ssa.Call)
		if !ok {
			return false
		}
		_, ok = rbCallTo(in, T("UpdateStatus"))
		return ok
	}
	if upd == nil {
		c.Missing(pkg + ".UpdateStatus")
	} else {
		c.Analysed(core.FuncKey(upd))
		// every return either is guarded by conf == nil or passed the BfeBackend.UpdateStatus call
		mustUpd := core.LiftMust(isUpdCall, 3)
		nilConf := rbCmpAtom(token.EQL, func(v ssa.Value) bool {
			return strings.HasSuffix(core.TypeStr(v.Type()), "cluster_conf.BackendCheck") && !isNilConst(v)
		}, isNilConst)
		for i, r := range core.Returns(upd) {
			skipped := core.ReachAvoiding(upd, nil, mustUpd, func(x ssa.Instruction) bool { return x == ssa.Instruction(r) }) != nil
			c.Check("status-evaluated", fmt.Sprintf("UpdateStatus:return#%d", i), r.Pos(), !skipped || rbGuarded(p, r.Block(), nilConf), "backend.UpdateStatus returns without evaluating BfeBackend.UpdateStatus although a check conf exists: the backend may pass its failure threshold unnoticed")
		}
		c.Min("status-evaluated", 2)
	}
	if fn := p.Func(pkg, "BfeBackend.OnFail"); fn == nil {
		c.Missing(T("OnFail"))
	} else {
		c.Analysed(core.FuncKey(fn))
		recv := ssa.Value(fn.Params[0])
		isAdd := func(in ssa.Instruction) bool {
			ci, ok := rbCallTo(in, T("AddFailNum"))
			return ok && rbSame(p, ci.Common().Args[0], recv)
		}
		isEval := func(in ssa.Instruction) bool {
			if _, plain := in.(*ssa.Call); !plain {
				return false
			}
			ci, ok := rbCallTo(in, pkg+".UpdateStatus")
			return ok && rbSame(p, ci.Common().Args[0], recv)
		}
		evaluated := core.MustPass(fn, nil, core.LiftMust(isEval, 2)) == nil
		// the status is never evaluated before the failure has been counted
		early := newRbReach(p, isAdd, isEval).FromEntry(fn)
		c.Check("onfail", "BfeBackend.OnFail", fn.Pos(), evaluated && early == nil, "OnFail must count the failure (AddFailNum) and then evaluate the status (UpdateStatus) of the same backend on every path")
	}
	if fn := p.Func(pkg, "BfeBackend.OnSuccess"); fn == nil {
		c.Missing(T("OnSuccess"))
	} else {
		c.Analysed(core.FuncKey(fn))
		bad := core.MustPass(fn, nil, core.LiftMust(func(x ssa.Instruction) bool {
			if _, ok := rbCallTo(x, T("ResetFailNum")); ok {
				_, plain := x.(*ssa.Call)
				return plain
			}
			return isStoreZero("failNum")(x)
		}, 2))
		c.Check("onsuccess-reset", "BfeBackend.OnSuccess", fn.Pos(), bad == nil, "OnSuccess must reset the consecutive-failure counter on every path")
	}
	if fn := p.Func(pkg, "BfeBackend.ResetFailNum"); fn != nil {
		recv := ssa.Value(fn.Params[0])
		ok := core.AlwaysPasses(fn, func(in ssa.Instruction) bool {
			st, base := storeTo(in, "failNum")
			return st != nil && isZero(st.Val) && rbRoot(p, base) == recv
		}, 2)
		c.Check("onsuccess-reset", "BfeBackend.ResetFailNum", fn.Pos(), ok, "ResetFailNum must store 0 into failNum")
	} else {
		c.Missing(T("ResetFailNum"))
	}
	if fn := p.Func(pkg, "BfeBackend.AddFailNum"); fn != nil {
		recv := ssa.Value(fn.Params[0])
		ok := core.AlwaysPasses(fn, func(in ssa.Instruction) bool {
			st, base := storeTo(in, "failNum")
			if st == nil || rbRoot(p, base) != recv {
				return false
			}
			b, isB := st.Val.(*ssa.BinOp)
			if !isB || b.Op != token.ADD {
				return false
			}
			one := func(v ssa.Value) bool {
				k, ok := v.(*ssa.Const)
				return ok && k.Value != nil && k.Value.ExactString() == "1"
			}
			old := func(v ssa.Value) bool {
				ob, ok := rbFieldLoad(v, bkT, "failNum")
				return ok && rbRoot(p, ob) == recv
			}
			return (old(b.X) && one(b.Y)) || (old(b.Y) && one(b.X))
		}, 2)
		c.Check("onfail", "BfeBackend.AddFailNum", fn.Pos(), ok, "AddFailNum must increment failNum by one")
	} else {
		c.Missing(T("AddFailNum"))
	}
	// every function that can make a published backend available resets failNum when it does
	// (today: setAvail, reached from SetAvail(true) of the checker)
	nAvailFns := 0
	for _, fn := range fns {
		var stores []*ssa.Store
		core.Instrs(fn, func(in ssa.Instruction) {
			st, base := storeTo(in, "avail")
			if st == nil {
				return
			}
			if al, isAl := base.(*ssa.Alloc); isAl && al.Heap {
				return // object under construction
			}
			if k, isK := rbBoolConst(st.Val); isK && !k {
				return // a down transition
			}
			stores = append(stores, st)
		})
		if len(stores) == 0 {
			continue
		}
		nAvailFns++
		c.Analysed(core.FuncKey(fn))
		for i, st := range stores {
			base, _ := rbFieldAddr(st.Addr, bkT, "avail")
			okReset := false
			core.Instrs(fn, func(in ssa.Instruction) {
				z, zb := storeTo(in, "failNum")
				if z == nil || !isZero(z.Val) || !rbSame(p, zb, base) {
					return
				}
				if !st.Block().Dominates(z.Block()) && !z.Block().Dominates(st.Block()) {
					return
				}
				// the reset is executed whenever the new value is true: its guards (beyond those of the
				// store) only test the new value / the field just written
				outer := map[*ssa.If]bool{}
				for _, g := range core.GuardsAt(st.Block()) {
					outer[g.If] = true
				}
				good := true
				for _, g := range core.GuardsAt(z.Block()) {
					if outer[g.If] {
						continue
					}
					v, pol := rbNorm(g.Cond, g.Pol)
					isNew := v == st.Val
					if lb, isLoad := rbFieldLoad(v, bkT, "avail"); isLoad && rbSame(p, lb, base) {
						if u, isU := v.(*ssa.UnOp); isU && core.Dominates(st, u) {
							isNew = true
						}
					}
					if !isNew || !pol {
						good = false
					}
				}
				if good {
					okReset = true
				}
			})
			key := "BfeBackend." + fn.Name()
			if i > 0 {
				key = fmt.Sprintf("%s#%d", key, i+1)
			}
			c.Check("avail-resets-failnum", key, st.Pos(), okReset, fn.Name()+" can set avail=true without resetting failNum: one later failure re-trips the threshold instead of the configured number of consecutive failures")
		}
	}
	if nAvailFns == 0 {
		c.Check("avail-resets-failnum", "none", token.NoPos, false, "no function makes a backend available again")
	}
	// ---- (c) checker loop ---------------------------------------------------------------
	if checker == nil {
		checker = p.Func(pkg, "check")
	}
	if fn := checker; fn == nil {
		c.Missing(pkg + ".check")
	} else {
		region := rbRegion(p, fn)
		inRegion := map[*ssa.Function]bool{}
		for _, g := range region {
			inRegion[g] = true
			c.Analysed(core.FuncKey(g))
		}
		who := ssa.Value(nil)
		for _, prm := range fn.Params {
			if who == nil && strings.HasSuffix(core.TypeStr(prm.Type()), bkT) {
				who = prm
			}
		}
		sameBackend := func(v ssa.Value) bool { return who == nil || rbSame(p, v, who) }
		callOn := func(in ssa.Instruction, name string) (ssa.CallInstruction, bool) {
			if _, plain := in.(*ssa.Call); !plain {
				return nil, false
			}
			ci, ok := rbCallTo(in, T(name))
			if !ok || len(ci.Common().Args) == 0 || !sameBackend(ci.Common().Args[0]) {
				return nil, false
			}
			return ci, true
		}
		isAdd := func(in ssa.Instruction) bool { _, ok := callOn(in, "AddSuccNum"); return ok }
		isReset := func(in ssa.Instruction) bool { _, ok := callOn(in, "ResetSuccNum"); return ok }
		isCheckAvail := func(in ssa.Instruction) bool { _, ok := callOn(in, "CheckAvail"); return ok }
		isCloseChan := func(v ssa.Value) bool {
			v = rbRoot(p, v)
			if call, ok := v.(*ssa.Call); ok {
				return core.CallIs(&call.Call, T("CloseChan")) && len(call.Call.Args) > 0 && sameBackend(call.Call.Args[0])
			}
			base, ok := rbFieldLoad(v, bkT, "closeChan")
			return ok && sameBackend(base)
		}
		isPoll := func(x ssa.Instruction) bool {
			switch s := x.(type) {
			case *ssa.Select:
				for _, st := range s.States {
					if st.Dir == types.RecvOnly && isCloseChan(st.Chan) {
						return true
					}
				}
			case *ssa.UnOp:
				return s.Op == token.ARROW && isCloseChan(s.X)
			}
			return false
		}
		var probes []*ssa.Call
		var ups, adds, avails []ssa.CallInstruction
		for _, g := range region {
			core.Instrs(g, func(in ssa.Instruction) {
				if call, ok := in.(*ssa.Call); ok && isProbe(in) {
					probes = append(probes, call)
				}
				if ci, ok := callOn(in, "SetAvail"); ok {
					ups = append(ups, ci)
				}
				if ci, ok := callOn(in, "AddSuccNum"); ok {
					adds = append(adds, ci)
				}
				if ci, ok := callOn(in, "CheckAvail"); ok {
					avails = append(avails, ci)
				}
			})
		}
		c.Check("probe", "check:probe-sites", fn.Pos(), len(probes) >= 1, fmt.Sprintf("expected a CheckConnect site in the checker loop, found %d", len(probes)))
		nUp := 0
		for _, ci := range ups {
			in := ci.(ssa.Instruction)
			if k, isK := rbBoolConst(rbRoot(p, ci.Common().Args[1])); isK && !k {
				c.Check("up-guard", "check:SetAvail-false", in.Pos(), false, "the checker must never mark a backend unavailable")
				continue
			}
			nUp++
			sfx := ""
			if nUp > 1 {
				sfx = fmt.Sprintf("#%d", nUp)
			}
			g := rbGuarded(p, in.Block(), func(v ssa.Value, pol bool) bool {
				call, ok := v.(*ssa.Call)
				return ok && pol && core.CallIs(&call.Call, T("CheckAvail")) && len(call.Call.Args) == 2 &&
					rbDerefOfField(p, call.Call.Args[1], "SuccNum") && rbSame(p, call.Call.Args[0], ci.Common().Args[0])
			})
			c.Check("up-guard", "check:SetAvail-true"+sfx, in.Pos(), g, "SetAvail(true) is not control-dependent on CheckAvail(*conf.SuccNum) == true; guards: "+strings.Join(core.GuardStrs(in.Block()), " && "))
			// restart flag set before availability: SetAvail(true) is not reachable without SetRestart(true)
			noFlag := newRbReach(p, func(x ssa.Instruction) bool {
				r, ok := callOn(x, "SetRestart")
				if !ok {
					return false
				}
				k, isK := rbBoolConst(rbRoot(p, r.Common().Args[1]))
				return isK && k
			}, func(x ssa.Instruction) bool { return x == in }).FromEntry(fn)
			c.Check("up-guard", "check:restart-flag"+sfx, in.Pos(), noFlag == nil, "SetRestart(true) must precede SetAvail(true) so that slow start sees the recovery")
		}
		if nUp == 0 {
			c.Check("up-guard", "check:SetAvail-true", fn.Pos(), false, "the checker never marks the backend available")
		}
		// a success is counted only after a successful probe ...
		probeOK := func(v ssa.Value, pol bool) bool {
			ex, ok := v.(*ssa.Extract)
			if !ok || !pol || ex.Index != 0 {
				return false
			}
			call, ok := ex.Tuple.(*ssa.Call)
			return ok && isProbe(call)
		}
		for i, a := range adds {
			key := "check:counted-on-success"
			if i > 0 {
				key = fmt.Sprintf("%s#%d", key, i+1)
			}
			c.Check("probe-success-count", key, a.Pos(), rbGuarded(p, a.(ssa.Instruction).Block(), probeOK), "AddSuccNum is executed on a path that did not establish a successful probe: failed probes would count towards the success threshold")
		}
		for i, probe := range probes {
			sfx := ""
			if i > 0 {
				sfx = fmt.Sprintf("#%d", i+1)
			}
			// ... every probe outcome is recorded before the next probe (or before the checker ends): a
			// failed probe can only pass ResetSuccNum because AddSuccNum sits on the success branch
			rr := newRbReach(p, func(x ssa.Instruction) bool { return isAdd(x) || isReset(x) }, isProbe)
			rr.exitTarget = true
			bad := rr.From(probe)
			c.Check("probe-fail-reset", "check:failed-probe"+sfx, probe.Pos(), bad == nil && len(adds) > 0, "after a failed probe the consecutive-success counter is not reset before the next probe: successes separated by failures would add up to the threshold")
			// ... and a successful probe is counted before CheckAvail is consulted
			uncounted := newRbReach(p, isAdd, isCheckAvail).From(probe)
			c.Check("probe-success-count", "check:success"+sfx, probe.Pos(), uncounted == nil && len(avails) > 0, "a successful probe must be counted (AddSuccNum, on the success branch) before CheckAvail is consulted")
			// every iteration polls the close channel: from the probe back to a probe passes a select/recv on CloseChan()
			unpolled := newRbReach(p, isPoll, isProbe).From(probe)
			c.Check("close-poll", "check:loop"+sfx, probe.Pos(), unpolled == nil, "a loop iteration can reach the next probe without polling the backend's close channel: a released backend's checker would run forever")
		}
		c.Min("probe-fail-reset", 1)
		c.Min("probe-success-count", 2)
		// every cycle of the checker loop (also those that never reach the probe, e.g. the
		// "no check conf" retry) passes the poll
		mayProbe := core.LiftMay(isProbe, 3)
		mustPoll := core.LiftMust(isPoll, 2)
		nCyc := 0
		for _, g := range region {
			for _, l := range core.Loops(g) {
				if kind, _ := core.LoopKind(l); kind != "" {
					continue // bounded loop (range / counted): not the checker loop
				}
				has := false
				for b := range l.Body {
					for _, in := range b.Instrs {
						if mayProbe(in) {
							has = true
						}
					}
				}
				if !has {
					continue
				}
				nCyc++
				h := l.Header.Instrs[0]
				cyc := core.ReachAvoiding(g, h, mustPoll, func(x ssa.Instruction) bool { return x == h })
				if mustPoll(h) {
					cyc = nil
				}
				key := "check:every-cycle"
				if nCyc > 1 {
					key = fmt.Sprintf("%s#%d", key, nCyc)
				}
				c.Check("close-poll", key, h.Pos(), cyc == nil, "the checker loop has a cycle that does not poll the backend's close channel (e.g. a retry path that `continue`s before the poll): the checker of a released backend never stops on that path")
			}
		}
		c.Min("close-poll", 2)
	}
	if fn := p.Func(pkg, "BfeBackend.CheckAvail"); fn == nil {
		c.Missing(T("CheckAvail"))
	} else if len(fn.Params) < 2 {
		c.Missing(T("CheckAvail") + " (receiver, threshold)")
	} else {
		c.Analysed(core.FuncKey(fn))
		recv, thr := ssa.Value(fn.Params[0]), ssa.Value(fn.Params[1])
		body := rbUnwrapTail(p, fn)
		isSucc := func(v ssa.Value) bool {
			base, ok := rbFieldLoad(rbRoot(p, v), bkT, "succNum")
			return ok && rbRoot(p, base) == recv
		}
		thrAtom := rbCmpAtom(token.GEQ, isSucc, func(v ssa.Value) bool { return rbRoot(p, v) == thr })
		resets := core.LiftMust(func(in ssa.Instruction) bool {
			st, base := storeTo(in, "succNum")
			return st != nil && isZero(st.Val) && rbRoot(p, base) == recv
		}, 2)
		type verdict struct{ thr, reset bool }
		perRet := map[*ssa.Return]*verdict{}
		complete := rbResultPaths(body, 0, true, func(r *ssa.Return, path *core.Path, facts []rbFact) {
			v := perRet[r]
			if v == nil {
				v = &verdict{true, true}
				perRet[r] = v
			}
			if !rbFactsImply(p, facts, thrAtom) {
				v.thr = false
			}
			if !path.Has(resets) {
				v.reset = false
			}
		})
		for i, r := range core.Returns(body) {
			v := perRet[r]
			if v == nil {
				continue
			}
			c.Check("succ-threshold", fmt.Sprintf("BfeBackend.CheckAvail:return#%d", i), r.Pos(), complete && v.thr && v.reset, fmt.Sprintf("CheckAvail must answer true only under succNum >= succThreshold and reset succNum when it does (threshold established: %v, counter reset on the path: %v)", v.thr, v.reset))
		}
		c.Min("succ-threshold", 1)
	}
	// ---- (d) close census -------------------------------------------------------------------
	if fld, ok := p.Obj(pkg, "BfeBackend.closeChan").(*types.Var); ok {
		n := 0
		for _, fn := range p.SrcFuncs("") {
			core.Instrs(fn, func(in ssa.Instruction) {
				ci, ok := in.(ssa.CallInstruction)
				if !ok {
					return
				}
				if b, isB := ci.Common().Value.(*ssa.Builtin); !isB || b.Name() != "close" {
					return
				}
				u, ok := ci.Common().Args[0].(*ssa.UnOp)
				if !ok {
					return
				}
				fa, ok := u.X.(*ssa.FieldAddr)
				if !ok || core.FieldObj(fa.X, fa.Field) != fld {
					return
				}
				n++
				c.Check("close-census", core.FuncKey(fn), in.Pos(), core.FuncKey(fn) == T("Close"), "closeChan is closed outside BfeBackend.Close")
			})
		}
		if n == 0 {
			c.Check("close-census", "none", token.NoPos, false, "closeChan is never closed: removed backends' checkers cannot stop")
		}
	} else {
		c.Missing(T("closeChan"))
	}
}
