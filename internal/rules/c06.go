package rules

import (
	"fmt"
	"go/token"
	"go/types"
	"strings"

	"golang.org/x/tools/go/ssa"

	"verif/internal/core"
)

// C06 — backend health state machine follows the configured thresholds.
func init() {
	Register(&Rule{
		ID: "C06", Section: "3 C06",
		Technique: "guarded-by lock-set analysis of BfeBackend's state fields, control-dependence (guard) census of the down/up transitions, must-pass path rules on the checker loop, who-may-spawn / who-may-close census",
		Meta: core.Meta{
			Level: "other",
			Explanation: "Decides the shape of the health state machine in bfe_balance/backend: (a) every access to avail/restarted/connNum/failNum/succNum happens under the backend's RWMutex (stores and read-modify-writes under the write lock; setAvail's requirement is discharged at each caller); BfeBackend.UpdateStatus tests failNum >= threshold, calls setAvail(false) and reads the previous availability inside one write-locked section and returns true only when the previous value was true; (b) the only `go check(...)` is in backend.UpdateStatus, control-dependent on BfeBackend.UpdateStatus(*conf.FailNum) == true, and every path with a non-nil check conf reaches that call; OnFail always counts the failure and then evaluates the status; OnSuccess resets failNum; setAvail(true) resets failNum; (c) in the checker loop SetAvail(true) is dominated by CheckAvail(*conf.SuccNum) == true, every failed probe passes ResetSuccNum before the next iteration, every successful probe passes AddSuccNum before CheckAvail, every iteration polls the close channel, CheckAvail compares succNum >= threshold and resets it; (d) close(closeChan) only in BfeBackend.Close. Not covered: wall-clock behaviour, the probe itself (CheckConnect), fairness of the scheduler.",
			RuleText:    "obligations = each access to a guarded field, each transition site (spawn, SetAvail, thresholds), each loop path class of check()",
		},
		Run: runC06,
		Mutants: []Mutant{
			{Name: "updatestatus-split-critical-section", File: "bfe_balance/backend/bfe_backend.go", Old: "func (back *BfeBackend) UpdateStatus(failThreshold int) bool {\n	back.Lock()\n	defer back.Unlock()\n\n	prevStatus := back.avail", New: "func (back *BfeBackend) UpdateStatus(failThreshold int) bool {\n	prevStatus := back.Avail()\n	back.Lock()\n	defer back.Unlock()\n", Expect: "test-and-set"},
			{Name: "threshold-exact", File: "bfe_balance/backend/bfe_backend.go", Old: "	if back.failNum >= failThreshold {", New: "	if back.failNum == failThreshold {", Expect: "fail-threshold"},
			{Name: "spawn-always", File: "bfe_balance/backend/health_check.go", Old: "	if backend.UpdateStatus(*checkConf.FailNum) {\n		go check(backend, cluster)\n		return true\n	}", New: "	backend.UpdateStatus(*checkConf.FailNum)\n	if !backend.Avail() {\n		go check(backend, cluster)\n		return true\n	}", Expect: "spawn-guard"},
			{Name: "skip-status-eval", File: "bfe_balance/backend/health_check.go", Old: "	// UpdateStatus update backend status.\n", New: "	if backend.FailNum() != *checkConf.FailNum {\n		return false\n	}\n", Expect: "status-evaluated"},
			{Name: "no-reset-on-failed-probe", File: "bfe_balance/backend/health_check.go", Old: "			backend.ResetSuccNum()\n", New: "", Expect: "probe-fail-reset"},
			{Name: "up-without-threshold", File: "bfe_balance/backend/health_check.go", Old: "		if !backend.CheckAvail(*checkConf.SuccNum) {", New: "		if backend.SuccNum() < 1 {", Expect: "up-guard"},
			{Name: "setavail-keeps-failnum", File: "bfe_balance/backend/bfe_backend.go", Old: "	if back.avail {\n		back.failNum = 0\n	}", New: "", Expect: "avail-resets-failnum"},
			{Name: "unlocked-read", File: "bfe_balance/backend/bfe_backend.go", Old: "	back.RLock()\n	failNum := back.failNum\n	back.RUnlock()\n", New: "	failNum := back.failNum\n", Expect: "guarded-by"},
			{Name: "onsuccess-noop", File: "bfe_balance/backend/bfe_backend.go", Old: "	// reset backend failnum\n	back.ResetFailNum()", New: "	// reset backend failnum", Expect: "onsuccess-reset"},
			{Name: "close-poll-after-conf-retry", File: "bfe_balance/backend/health_check.go", Old: "		select {\n		case <-c: // backend deleted\n			break loop\n		default:\n		}\n\n		// get the latest conf to do health check\n		checkConf := getCheckConf(cluster)\n		if checkConf == nil {\n			// never come here\n			time.Sleep(time.Second)\n			continue\n		}\n", New: "		// get the latest conf to do health check\n		checkConf := getCheckConf(cluster)\n		if checkConf == nil {\n			// never come here\n			time.Sleep(time.Second)\n			continue\n		}\n\n		select {\n		case <-c: // backend deleted\n			break loop\n		default:\n		}\n", Expect: "close-poll"},
			{Name: "close-poll-dropped", File: "bfe_balance/backend/health_check.go", Old: "		select {\n		case <-c: // backend deleted\n			break loop\n		default:\n		}\n", New: "		_ = c\n", Expect: "close-poll"},
		},
	})
}

func runC06(c *core.Ctx) {
	const pkg = "bfe_balance/backend"
	if c.P.Pkg(pkg) == nil {
		c.Missing(pkg)
		return
	}
	T := func(n string) string { return pkg + ".BfeBackend." + n }
	fns := c.P.SrcFuncs(pkg)
	guarded := map[string]bool{"avail": true, "restarted": true, "connNum": true, "failNum": true, "succNum": true}
	// ---- (a) guarded-by -------------------------------------------------------
	needCallerLock := map[*ssa.Function]bool{}
	for _, fn := range fns {
		k := core.FuncKey(fn)
		if k == pkg+".NewBfeBackend" {
			continue // pre-publication
		}
		ls := core.ComputeLockSets(fn)
		ord := map[string]int{}
		core.Instrs(fn, func(in ssa.Instruction) {
			fa, ok := in.(*ssa.FieldAddr)
			if !ok {
				return
			}
			fv := core.FieldObj(fa.X, fa.Field)
			if fv == nil || !guarded[fv.Name()] || !strings.HasSuffix(core.TypeStr(fa.X.Type()), "backend.BfeBackend") {
				return
			}
			c.Analysed(k)
			write := false
			for _, r := range *fa.Referrers() {
				if st, ok := r.(*ssa.Store); ok && st.Addr == fa {
					write = true
				}
			}
			mode := "R"
			if write {
				mode = "W"
			}
			lock := core.Render(fa.X) + ".RWMutex"
			held := ls.Holds(in, lock, mode)
			ord[fv.Name()+mode]++
			key := fmt.Sprintf("%s:%s:%s#%d", k, fv.Name(), mode, ord[fv.Name()+mode])
			if !held && len(ls.Held(in)) == 0 && fn.Name() == "setAvail" {
				needCallerLock[fn] = true
				c.Check("guarded-by", key, in.Pos(), true, "requirement transferred to callers of setAvail")
				return
			}
			c.Check("guarded-by", key, in.Pos(), held, fmt.Sprintf("BfeBackend.%s is accessed (%s) without %s held (%s needed); held: %v", fv.Name(), map[bool]string{true: "write", false: "read"}[write], lock, mode, ls.Held(in)))
		})
	}
	c.Min("guarded-by", 15)
	for callee := range needCallerLock {
		for _, fn := range c.P.SrcFuncs("") {
			ls := core.ComputeLockSets(fn)
			for i, ci := range core.Calls(fn, core.FuncKey(callee)) {
				lock := core.Render(ci.Common().Args[0]) + ".RWMutex"
				c.Check("guarded-by", fmt.Sprintf("%s:call-%s#%d", core.FuncKey(fn), callee.Name(), i), ci.Pos(), ls.Holds(ci.(ssa.Instruction), lock, "W"),
					callee.Name()+" (which writes guarded fields without locking) is called without the write lock "+lock)
			}
		}
	}
	// ---- (a) test-and-set in BfeBackend.UpdateStatus ----------------------------
	if fn := c.P.Func(pkg, "BfeBackend.UpdateStatus"); fn == nil {
		c.Missing(T("UpdateStatus"))
	} else {
		c.Analysed(core.FuncKey(fn))
		ls := core.ComputeLockSets(fn)
		sets := core.Calls(fn, T("setAvail"))
		okSet := len(sets) >= 1
		for _, s := range sets {
			in := s.(ssa.Instruction)
			isFalse := core.Render(s.Common().Args[1]) == "false"
			thr := core.HasGuard(in.Block(), func(g core.Guard) bool {
				b, ok := g.Cond.(*ssa.BinOp)
				return ok && g.Pol && b.Op == token.GEQ && core.Render(b.X) == "back.failNum" && core.Render(b.Y) == "failThreshold"
			})
			c.Check("fail-threshold", "BfeBackend.UpdateStatus:setAvail", in.Pos(), isFalse && thr, "the down transition must be setAvail(false) under failNum >= failThreshold; guards: "+strings.Join(core.GuardStrs(in.Block()), " && "))
			if !ls.Holds(in, "back.RWMutex", "W") {
				okSet = false
			}
		}
		c.Min("fail-threshold", 1)
		// return true only when the previous value (loaded under the same write lock, before setAvail) was true
		for i, r := range core.Returns(fn) {
			rv := core.RetVals(r)
			if core.Render(rv[0]) != "true" {
				if core.Render(rv[0]) != "false" {
					c.Check("test-and-set", fmt.Sprintf("BfeBackend.UpdateStatus:return#%d", i), r.Pos(), false, "UpdateStatus returns a non-constant "+core.Render(rv[0]))
				}
				continue
			}
			ok := false
			for _, g := range core.GuardsAt(r.Block()) {
				u, isLoad := g.Cond.(*ssa.UnOp)
				if !g.Pol || !isLoad || core.Render(u) != "back.avail" {
					continue
				}
				// the load is under the write lock and precedes every setAvail
				before := true
				for _, s := range sets {
					if !core.Dominates(u, s.(ssa.Instruction)) {
						before = false
					}
				}
				if ls.Holds(u, "back.RWMutex", "W") && before && okSet {
					// no unlock between the load and the return
					rel := core.ReachAvoiding(fn, u, nil, func(x ssa.Instruction) bool {
						call, ok := x.(*ssa.Call)
						if !ok {
							return false
						}
						k, _, ok := core.LockEvent(&call.Call)
						return ok && (k == "Unlock" || k == "RUnlock")
					})
					ok = rel == nil
				}
			}
			downGuard := core.HasGuard(r.Block(), func(g core.Guard) bool {
				b, ok := g.Cond.(*ssa.BinOp)
				return ok && g.Pol && b.Op == token.GEQ && core.Render(b.X) == "back.failNum"
			})
			c.Check("test-and-set", fmt.Sprintf("BfeBackend.UpdateStatus:return#%d", i), r.Pos(), ok && downGuard,
				"`return true` (start a checker) must depend on the previous availability read inside the same write-locked section that executes setAvail(false), and on the threshold being reached; otherwise two concurrent failures both start a checker")
		}
		c.Min("test-and-set", 1)
	}
	// ---- (b) spawn census -----------------------------------------------------------
	spawns := 0
	for _, fn := range c.P.SrcFuncs("") {
		core.Instrs(fn, func(in ssa.Instruction) {
			g, ok := in.(*ssa.Go)
			if !ok || !core.CallIs(&g.Call, pkg+".check") {
				return
			}
			spawns++
			okFn := core.FuncKey(fn) == pkg+".UpdateStatus"
			guard := core.HasGuard(in.Block(), func(gd core.Guard) bool {
				call, ok := gd.Cond.(*ssa.Call)
				return ok && gd.Pol && core.CallIs(&call.Call, T("UpdateStatus")) && strings.HasSuffix(core.Render(call.Call.Args[1]), ".FailNum") && sameElem(call.Call.Args[0], g.Call.Args[0])
			})
			c.Check("spawn-guard", core.FuncKey(fn), in.Pos(), okFn && guard, "a health checker is started outside backend.UpdateStatus or without BfeBackend.UpdateStatus(*conf.FailNum) having returned true for that backend; guards: "+strings.Join(core.GuardStrs(in.Block()), " && "))
		})
	}
	c.Min("spawn-guard", 1)
	if fn := c.P.Func(pkg, "UpdateStatus"); fn == nil {
		c.Missing(pkg + ".UpdateStatus")
	} else {
		c.Analysed(core.FuncKey(fn))
		// every return either is guarded by conf == nil or passed the BfeBackend.UpdateStatus call
		for i, r := range core.Returns(fn) {
			passed := false
			for _, ci := range core.Calls(fn, T("UpdateStatus")) {
				if core.Dominates(ci.(ssa.Instruction), r) {
					passed = true
				}
			}
			nilConf := core.HasGuard(r.Block(), func(g core.Guard) bool {
				b, ok := g.Cond.(*ssa.BinOp)
				return ok && isNilConst(b.Y) && strings.Contains(core.Render(b.X), "getCheckConf(") && ((b.Op == token.EQL && g.Pol) || (b.Op == token.NEQ && !g.Pol))
			})
			c.Check("status-evaluated", fmt.Sprintf("UpdateStatus:return#%d", i), r.Pos(), passed || nilConf, "backend.UpdateStatus returns without evaluating BfeBackend.UpdateStatus although a check conf exists: the backend may pass its failure threshold unnoticed")
		}
		c.Min("status-evaluated", 2)
	}
	if fn := c.P.Func(pkg, "BfeBackend.OnFail"); fn == nil {
		c.Missing(T("OnFail"))
	} else {
		c.Analysed(core.FuncKey(fn))
		add := core.Calls(fn, T("AddFailNum"))
		upd := core.Calls(fn, pkg+".UpdateStatus")
		ok := len(add) == 1 && len(upd) == 1 && core.Dominates(add[0].(ssa.Instruction), upd[0].(ssa.Instruction)) &&
			core.MustPass(fn, nil, func(x ssa.Instruction) bool { return x == upd[0].(ssa.Instruction) }) == nil &&
			sameElem(add[0].Common().Args[0], upd[0].Common().Args[0])
		c.Check("onfail", "BfeBackend.OnFail", fn.Pos(), ok, "OnFail must count the failure (AddFailNum) and then evaluate the status (UpdateStatus) of the same backend on every path")
	}
	if fn := c.P.Func(pkg, "BfeBackend.OnSuccess"); fn == nil {
		c.Missing(T("OnSuccess"))
	} else {
		c.Analysed(core.FuncKey(fn))
		bad := core.MustPass(fn, nil, func(x ssa.Instruction) bool {
			ci, ok := x.(ssa.CallInstruction)
			return ok && core.CallIs(ci.Common(), T("ResetFailNum"))
		})
		c.Check("onsuccess-reset", "BfeBackend.OnSuccess", fn.Pos(), bad == nil, "OnSuccess must reset the consecutive-failure counter on every path")
	}
	if fn := c.P.Func(pkg, "BfeBackend.ResetFailNum"); fn != nil {
		ok := false
		core.Instrs(fn, func(in ssa.Instruction) {
			if st, isSt := in.(*ssa.Store); isSt && core.Render(st.Addr) == "back.failNum" && isZero(st.Val) {
				ok = true
			}
		})
		c.Check("onsuccess-reset", "BfeBackend.ResetFailNum", fn.Pos(), ok, "ResetFailNum must store 0 into failNum")
	} else {
		c.Missing(T("ResetFailNum"))
	}
	if fn := c.P.Func(pkg, "BfeBackend.AddFailNum"); fn != nil {
		ok := false
		core.Instrs(fn, func(in ssa.Instruction) {
			if st, isSt := in.(*ssa.Store); isSt && core.Render(st.Addr) == "back.failNum" && core.Render(st.Val) == "(back.failNum + 1)" {
				ok = true
			}
		})
		c.Check("onfail", "BfeBackend.AddFailNum", fn.Pos(), ok, "AddFailNum must increment failNum by one")
	} else {
		c.Missing(T("AddFailNum"))
	}
	if fn := c.P.Func(pkg, "BfeBackend.setAvail"); fn == nil {
		c.Missing(T("setAvail"))
	} else {
		c.Analysed(core.FuncKey(fn))
		stored, reset := false, false
		core.Instrs(fn, func(in ssa.Instruction) {
			st, ok := in.(*ssa.Store)
			if !ok {
				return
			}
			if core.Render(st.Addr) == "back.avail" && core.Render(st.Val) == "avail" {
				stored = true
			}
			if core.Render(st.Addr) == "back.failNum" && isZero(st.Val) {
				// executed whenever the new value is true
				reset = core.HasGuard(in.Block(), func(g core.Guard) bool {
					return g.Pol && (g.Str == "back.avail" || g.Str == "avail")
				}) || len(core.GuardsAt(in.Block())) == 0
			}
		})
		c.Check("avail-resets-failnum", "BfeBackend.setAvail", fn.Pos(), stored && reset, "setAvail must store the new availability and reset failNum when the backend becomes available (otherwise one later failure re-trips the threshold)")
	}
	// ---- (c) checker loop ---------------------------------------------------------------
	if fn := c.P.Func(pkg, "check"); fn == nil {
		c.Missing(pkg + ".check")
	} else {
		c.Analysed(core.FuncKey(fn))
		probes := core.Calls(fn, pkg+".CheckConnect")
		c.Check("probe", "check:probe-sites", fn.Pos(), len(probes) == 1, fmt.Sprintf("expected one CheckConnect site in the checker loop, found %d", len(probes)))
		ups := 0
		for _, ci := range core.Calls(fn, T("SetAvail")) {
			in := ci.(ssa.Instruction)
			if core.Render(ci.Common().Args[1]) != "true" {
				c.Check("up-guard", "check:SetAvail-false", in.Pos(), false, "the checker must never mark a backend unavailable")
				continue
			}
			ups++
			g := core.HasGuard(in.Block(), func(gd core.Guard) bool {
				call, ok := gd.Cond.(*ssa.Call)
				return ok && gd.Pol && core.CallIs(&call.Call, T("CheckAvail")) && strings.HasSuffix(core.Render(call.Call.Args[1]), ".SuccNum")
			})
			c.Check("up-guard", "check:SetAvail-true", in.Pos(), g, "SetAvail(true) is not control-dependent on CheckAvail(*conf.SuccNum) == true; guards: "+strings.Join(core.GuardStrs(in.Block()), " && "))
			// restart flag set before availability
			rs := core.Calls(fn, T("SetRestart"))
			okR := false
			for _, r := range rs {
				if core.Render(r.Common().Args[1]) == "true" && core.Dominates(r.(ssa.Instruction), in) {
					okR = true
				}
			}
			c.Check("up-guard", "check:restart-flag", in.Pos(), okR, "SetRestart(true) must precede SetAvail(true) so that slow start sees the recovery")
		}
		if ups == 0 {
			c.Check("up-guard", "check:SetAvail-true", fn.Pos(), false, "the checker never marks the backend available")
		}
		if len(probes) == 1 {
			probe := probes[0].(*ssa.Call)
			// find the branch on the probe's ok result
			for _, in := range allInstrs(fn) {
				ifi, ok := in.(*ssa.If)
				if !ok {
					continue
				}
				ex, ok := ifi.Cond.(*ssa.Extract)
				if !ok || ex.Tuple != probe || ex.Index != 0 {
					continue
				}
				okBlk, failBlk := ifi.Block().Succs[0], ifi.Block().Succs[1]
				// failed probe: before probing again (or leaving), ResetSuccNum is passed
				bad := core.ReachAvoiding(fn, failBlk.Instrs[0], func(x ssa.Instruction) bool {
					ci, ok := x.(ssa.CallInstruction)
					return ok && core.CallIs(ci.Common(), T("ResetSuccNum"))
				}, func(x ssa.Instruction) bool { return x == probe || core.IsReturn(x) })
				if ci, ok := failBlk.Instrs[0].(ssa.CallInstruction); ok && core.CallIs(ci.Common(), T("ResetSuccNum")) {
					bad = nil
				}
				c.Check("probe-fail-reset", "check:failed-probe", ifi.Pos(), bad == nil, "after a failed probe the consecutive-success counter is not reset before the next probe: successes separated by failures would add up to the threshold")
				// successful probe: AddSuccNum precedes CheckAvail
				for _, ca := range core.Calls(fn, T("CheckAvail")) {
					adds := core.Calls(fn, T("AddSuccNum"))
					okA := false
					for _, a := range adds {
						ai := a.(ssa.Instruction)
						if core.Dominates(ai, ca.(ssa.Instruction)) && (ai.Block() == okBlk || okBlk.Dominates(ai.Block())) {
							okA = true
						}
					}
					c.Check("probe-success-count", "check:success", ca.Pos(), okA, "a successful probe must be counted (AddSuccNum, on the success branch) before CheckAvail is consulted")
				}
			}
			c.Min("probe-fail-reset", 1)
			c.Min("probe-success-count", 1)
			// every iteration polls the close channel: from the probe back to the probe passes a select/recv on CloseChan()
			bad := core.ReachAvoiding(fn, probe, func(x ssa.Instruction) bool {
				switch s := x.(type) {
				case *ssa.Select:
					for _, st := range s.States {
						if strings.Contains(core.Render(st.Chan), "CloseChan(") {
							return true
						}
					}
				case *ssa.UnOp:
					return s.Op == token.ARROW && strings.Contains(core.Render(s.X), "CloseChan(")
				}
				return false
			}, func(x ssa.Instruction) bool { return x == probe })
			c.Check("close-poll", "check:loop", probe.Pos(), bad == nil, "a loop iteration can reach the next probe without polling the backend's close channel: a released backend's checker would run forever")
			// every cycle of the checker loop (also those that never reach the probe, e.g. the
			// "no check conf" retry) passes the poll
			isPoll := func(x ssa.Instruction) bool {
				switch s := x.(type) {
				case *ssa.Select:
					for _, st := range s.States {
						if strings.Contains(core.Render(st.Chan), "CloseChan(") {
							return true
						}
					}
				case *ssa.UnOp:
					return s.Op == token.ARROW && strings.Contains(core.Render(s.X), "CloseChan(")
				}
				return false
			}
			for _, l := range core.Loops(fn) {
				if !l.Body[probe.Block()] {
					continue
				}
				h := l.Header.Instrs[0]
				cyc := core.ReachAvoiding(fn, h, isPoll, func(x ssa.Instruction) bool { return x == h })
				if isPoll(h) {
					cyc = nil
				}
				c.Check("close-poll", "check:every-cycle", h.Pos(), cyc == nil, "the checker loop has a cycle that does not poll the backend's close channel (e.g. a retry path that `continue`s before the poll): the checker of a released backend never stops on that path")
			}
		}
	}
	if fn := c.P.Func(pkg, "BfeBackend.CheckAvail"); fn == nil {
		c.Missing(T("CheckAvail"))
	} else {
		c.Analysed(core.FuncKey(fn))
		for i, r := range core.Returns(fn) {
			rv := core.RetVals(r)
			if core.Render(rv[0]) != "true" {
				continue
			}
			g := core.HasGuard(r.Block(), func(gd core.Guard) bool {
				b, ok := gd.Cond.(*ssa.BinOp)
				return ok && gd.Pol && b.Op == token.GEQ && core.Render(b.X) == "back.succNum" && core.Render(b.Y) == "succThreshold"
			})
			reset := false
			for _, in := range r.Block().Instrs {
				if st, ok := in.(*ssa.Store); ok && core.Render(st.Addr) == "back.succNum" && isZero(st.Val) {
					reset = true
				}
			}
			c.Check("succ-threshold", fmt.Sprintf("BfeBackend.CheckAvail:return#%d", i), r.Pos(), g && reset, "CheckAvail must answer true only under succNum >= succThreshold and reset succNum when it does")
		}
		c.Min("succ-threshold", 1)
	}
	// ---- (d) close census -------------------------------------------------------------------
	if fld, ok := c.P.Obj(pkg, "BfeBackend.closeChan").(*types.Var); ok {
		n := 0
		for _, fn := range c.P.SrcFuncs("") {
			core.Instrs(fn, func(in ssa.Instruction) {
				ci, ok := in.(ssa.CallInstruction)
				if !ok {
					return
				}
				if b, isB := ci.Common().Value.(*ssa.Builtin); !isB || b.Name() != "close" {
					return
				}
				u, ok := ci.Common().Args[0].(*ssa.UnOp)
				if !ok {
					return
				}
				fa, ok := u.X.(*ssa.FieldAddr)
				if !ok || core.FieldObj(fa.X, fa.Field) != fld {
					return
				}
				n++
				c.Check("close-census", core.FuncKey(fn), in.Pos(), core.FuncKey(fn) == T("Close"), "closeChan is closed outside BfeBackend.Close")
			})
		}
		if n == 0 {
			c.Check("close-census", "none", token.NoPos, false, "closeChan is never closed: removed backends' checkers cannot stop")
		}
	} else {
		c.Missing(T("closeChan"))
	}
}
