package rules

import (
	"fmt"
	"go/ast"
	"go/constant"
	"go/token"
	"go/types"
	"math/big"
	"sort"
	"strings"

	"golang.org/x/tools/go/ssa"

	"verif/internal/core"
)

// C31 — HPACK decoding conforms to RFC 7541.
func init() {
	Register(&Rule{
		ID: "C31", Section: "5 C31",
		Technique: "wire-integer hygiene and guard/dominance rules on go/ssa (relational reading of branch conditions), error-discipline path queries, table agreement with RFC 7541 Appendix A/B",
		Meta: core.Meta{
			Level:       "other",
			Explanation: "Decides structural necessary conditions of RFC 7541 decoding in bfe_http2/hpack: (1) readVarInt: every cycle through the accumulator shift passes a bound test that keeps the shift amount <= 56 and whose failing branch returns a fatal (non-errNeedMore) error; 7-bit payload mask, continuation bit 0x80, step 7; exhausted input yields errNeedMore; the prefix ends the integer only when strictly below 2^N-1. (2) Decoder.at answers ok only under 1 <= i <= len(static)+len(dynamic), the two index expressions are i-1 and len(ents)-(i-61) as affine forms and are guarded, and both callers use the entry only under ok and return a DecodingError otherwise. (3) the dynamic table size update reaches setMaxSize only under size <= allowedMaxSize; census of setMaxSize callers and of the writers of maxSize/allowedMaxSize; an integer read from the wire (readVarInt result, also when passed on as a parameter inside the package) is converted to a narrower integer type only under a guard that bounds the full-width value by something fitting that type, so limit/index/length tests are never made on truncated values. (4) the representation dispatch (bit patterns, prefix lengths, index type) agrees with RFC 7541 section 6. (5) every readVarInt/readString/huffmanDecode error is tested before any decoder state is changed, d.buf is advanced only after the last read and on every success path, no read follows a state change (incremental re-parse is idempotent). (6) readString slices only under strLen <= len(p), enforces maxStrLen, reports errNeedMore on truncation; Decoder.Write saves the unparsed rest on errNeedMore and Close reports truncated blocks. (7) huffmanDecode: every child-node dereference is guarded by a nil test (an encoded EOS is an error, not a panic), the in-loop output is bounded by maxLen, after the byte loop some branch whose one edge leads to error returns only must test the residual bit count (> 7 bits) and some such branch the residual bits (padding not all ones), and both tests are total: once an input byte has been read no return that may report success is reachable without passing them (a return the guards place under no-bits-left needs no value test), so an early success exit or a test folded into a loop that may not run is reported. (8) the static table and the Huffman code/length tables equal RFC 7541 Appendix A/B and the code is prefix-free and complete with EOS. (9) dynamic-table entry size is len(name)+len(value)+32 and add/setMaxSize evict; the insertion is unconditional: a success return of parseFieldLiteral is reachable without dynamicTable.add only over the false edge of an it.indexed() test (no size or other side condition, RFC 7541 section 4.4: an oversize entry empties the table), dynamicTable.add appends its parameter, accounts the size and evicts on every path from its entry, and every return of evict is placed by the guards under size <= maxSize. Not covered: equality with a reference decoder on all inputs (only the clauses above), the correctness of the Huffman tree construction, which of the two bit counters of huffmanDecode the length test reads (a test of the buffered-bit counter instead of the symbol-prefix counter is not told apart), that the value inserted by parseFieldLiteral is the field emitted, eviction arithmetic over histories, general panic-freedom (only constant-index/slice bounds in the wire readers and the nil dereferences in huffmanDecode are decided), the size-update-only-at-block-start rule of RFC 7541 section 4.2; value changes of wire integers other than truncating conversions (masking, same-width sign reinterpretation such as uint64->int on 64-bit targets). Robustness: every anchor function is read together with its private helpers (unexported functions of the package that are not used as values, are not anchors themselves and are called only from inside the anchor's region); a parameter of a helper with one call site is the argument passed there, the guards at that site hold inside the helper, path rules follow calls into helpers and come back through their returns (`return helper()` and `if err := helper(); err != nil { return err }` are read with the error of the helper's own return), comparisons are read with polarity and operand order folded in, a branch on a named boolean built with && or || is read as the facts it stands for, reviewed-caller censuses attribute a private helper to its anchor. Not decided after such a restructuring (reported as a violation, by policy): logic moved into a helper that is shared by two anchors or called from several sites and whose parameters carry the checked values (no call-site context), into closures, or handed over through struct fields instead of parameters/results; a never-firing early return placed inside dynamicTable.add/evict or before the padding tests of huffmanDecode is indistinguishable from a real one.",
			RuleText:    "obligations = each accumulator shift, each success/truncation return of readVarInt, each ok-return and table index expression of Decoder.at, each Decoder.at call site, each setMaxSize call and table-size field writer, each truncating conversion of a wire integer, each row of the representation dispatch, each read call of the parse functions (error tested before effects), each consumption store and success return, each wire-length slice in readString, each need-more return of Write, each child lookup, the two tail clauses and each success return (passes both tail tests) of huffmanDecode, the three RFC tables, the indexed-implies-add path query of parseFieldLiteral, the three insertion steps of dynamicTable.add, each return of evict",
			Assumptions: []string{"package-level error variables (errNeedMore, ErrInvalidHuffman, ErrStringLength, errVarintOverflow) are initialised non-nil and never reassigned", "bytes.Buffer and append behave as documented"},
		},
		Run: runC31,
		Mutants: []Mutant{
			{Name: "varint-bound-64", File: "bfe_http2/hpack/hpack.go", Old: "		if m >= 63 { // TODO: proper overflow check. making this up.", New: "		if m > 63 { // TODO: proper overflow check. making this up.", Expect: "varint-bound|readVarInt:shift"},
			{Name: "varint-overflow-as-needmore", File: "bfe_http2/hpack/hpack.go", Old: "			return 0, origP, errVarintOverflow", New: "			return 0, origP, errNeedMore", Expect: "varint-bound|readVarInt:shift"},
			{Name: "varint-prefix-le", File: "bfe_http2/hpack/hpack.go", Old: "	if i < (1<<uint64(n))-1 {\n		return i, p[1:], nil", New: "	if i <= (1<<uint64(n))-1 {\n		return i, p[1:], nil", Expect: "varint-format|readVarInt:prefix-terminates"},
			{Name: "index-zero-accepted", File: "bfe_http2/hpack/hpack.go", Old: "	if i < 1 {\n		return\n	}\n	if i > uint64(d.maxTableIndex()) {", New: "	if i > uint64(d.maxTableIndex()) {", Expect: "table-index"},
			{Name: "index-upper-off-by-one", File: "bfe_http2/hpack/hpack.go", Old: "	if i > uint64(d.maxTableIndex()) {", New: "	if i > uint64(d.maxTableIndex())+1 {", Expect: "table-index"},
			{Name: "index-ok-ignored", File: "bfe_http2/hpack/hpack.go", Old: "		ihf, ok := d.at(nameIdx)\n		if !ok {\n			return DecodingError{InvalidIndexError(nameIdx)}\n		}", New: "		ihf, _ := d.at(nameIdx)", Expect: "index-checked|bfe_http2/hpack.Decoder.parseFieldLiteral"},
			{Name: "size-update-unbounded", File: "bfe_http2/hpack/hpack.go", Old: "	if size > uint64(d.dynTab.allowedMaxSize) {", New: "	if size > uint64(d.dynTab.allowedMaxSize) && d.maxStrLen < 0 {", Expect: "size-update|"},
			{Name: "consume-before-value-read", File: "bfe_http2/hpack/hpack.go", Old: "	hf.Value, buf, err = d.readString(buf, wantStr)\n	if err != nil {\n		return err\n	}\n	d.buf = buf\n	if it.indexed() {", New: "	d.buf = buf\n	hf.Value, buf, err = d.readString(buf, wantStr)\n	if err != nil {\n		return err\n	}\n	d.buf = buf\n	if it.indexed() {", Expect: "consume|"},
			{Name: "string-length-check-dropped", File: "bfe_http2/hpack/hpack.go", Old: "	if uint64(len(p)) < strLen {\n		return \"\", p, errNeedMore\n	}", New: "	if uint64(len(p)) < strLen && d.maxStrLen < 0 {\n		return \"\", p, errNeedMore\n	}", Expect: "string-length|"},
			{Name: "dispatch-never-indexed-prefix", File: "bfe_http2/hpack/hpack.go", Old: "		return d.parseFieldLiteral(4, indexedNever)", New: "		return d.parseFieldLiteral(6, indexedNever)", Expect: "repr-dispatch|"},
			{Name: "huffman-eos-nil-unchecked", File: "bfe_http2/hpack/huffman.go", Old: "			n = n.children[idx]\n			if n == nil {\n				return ErrInvalidHuffman\n			}\n			if n.children == nil {", New: "			n = n.children[idx]\n			if n.children == nil {", Expect: "huffman-nil|huffmanDecode:child-lookup:loop"},
			{Name: "static-table-entry-changed", File: "bfe_http2/hpack/tables.go", Old: "	pair(\":status\", \"304\"),", New: "	pair(\":status\", \"302\"),", Expect: "rfc-table|static-table"},
			{Name: "huffman-length-changed", File: "bfe_http2/hpack/tables.go", Old: "var huffmanCodeLen = [256]uint8{\n	13,", New: "var huffmanCodeLen = [256]uint8{\n	14,", Expect: "rfc-table|huffman"},
			{Name: "need-more-rest-dropped", File: "bfe_http2/hpack/hpack.go", Old: "			d.saveBuf.Write(d.buf)\n			return len(p), nil", New: "			return len(p), nil", Expect: "write-incremental|"},
			{Name: "string-limit-on-truncated-length", File: "bfe_http2/hpack/hpack.go", Old: "	if d.maxStrLen != 0 && strLen > uint64(d.maxStrLen) {", New: "	if d.maxStrLen != 0 && int32(strLen) > int32(d.maxStrLen) {", Expect: "wire-narrowing|bfe_http2/hpack.Decoder.readString"},
			{Name: "index-range-on-truncated-index", File: "bfe_http2/hpack/hpack.go", Old: "	if i > uint64(d.maxTableIndex()) {", New: "	if uint32(i) > uint32(d.maxTableIndex()) {", Expect: "wire-narrowing|bfe_http2/hpack.Decoder.at"},
			{Name: "size-update-compared-after-truncation", File: "bfe_http2/hpack/hpack.go", Old: "	if size > uint64(d.dynTab.allowedMaxSize) {\n		return DecodingError{errors.New(\"dynamic table size update too large\")}\n	}\n	d.dynTab.setMaxSize(uint32(size))", New: "	newSize := uint32(size)\n	if newSize > d.dynTab.allowedMaxSize {\n		return DecodingError{errors.New(\"dynamic table size update too large\")}\n	}\n	d.dynTab.setMaxSize(newSize)", Expect: "wire-narrowing|bfe_http2/hpack.Decoder.parseDynamicTableSizeUpdate"},
			{Name: "silent-narrow-after-check-skip-unchanged", File: "bfe_http2/hpack/hpack.go", Old: "	d.dynTab.setMaxSize(uint32(size))\n", New: "	if newSize := uint32(size); newSize != d.dynTab.maxSize {\n		d.dynTab.setMaxSize(newSize)\n	}\n", Silent: true},
			{Name: "silent-rename-and-log", File: "bfe_http2/hpack/hpack.go", Old: "	size, buf, err := readVarInt(5, buf)\n	if err != nil {\n		return err\n	}\n	if size > uint64(d.dynTab.allowedMaxSize) {\n		return DecodingError{errors.New(\"dynamic table size update too large\")}\n	}\n	d.dynTab.setMaxSize(uint32(size))", New: "	newSize, buf, err := readVarInt(5, buf)\n	if err != nil {\n		return err\n	}\n	limit := uint64(d.dynTab.allowedMaxSize)\n	if limit < newSize {\n		return DecodingError{errors.New(\"dynamic table size update too large\")}\n	}\n	d.dynTab.setMaxSize(uint32(newSize))", Silent: true},
			{Name: "huffman-tail-early-success-no-bits-left", File: "bfe_http2/hpack/huffman.go", Old: "	if sbits > 7 {\n		// Either there was", New: "	if nbits == 0 {\n		return nil\n	}\n	if sbits > 7 {\n		// Either there was", Expect: "huffman-tail|huffmanDecode:success-return"},
			{Name: "huffman-tail-break-becomes-success", File: "bfe_http2/hpack/huffman.go", Old: "n.codeLen > nbits {\n			break", New: "n.codeLen > nbits {\n			return nil", Expect: "huffman-tail|huffmanDecode:success-return"},
			{Name: "huffman-tail-value-test-skipped-for-short-rest", File: "bfe_http2/hpack/huffman.go", Old: "	if mask := uint(1<<nbits - 1); cur&mask != mask {", New: "	if nbits < 4 {\n		return nil\n	}\n	if mask := uint(1<<nbits - 1); cur&mask != mask {", Expect: "passes-padding-value-test"},
			{Name: "silent-huffman-tail-one-disjunction", File: "bfe_http2/hpack/huffman.go", Old: "	if sbits > 7 {\n		// Either there was an incomplete symbol, or overlong padding.\n		// Both are decoding errors per RFC 7541 section 5.2.\n		return ErrInvalidHuffman\n	}\n	if mask := uint(1<<nbits - 1); cur&mask != mask {", New: "	if mask := uint(1<<nbits - 1); sbits > 7 || cur&mask != mask {", Silent: true},
			{Name: "silent-huffman-tail-no-bits-shortcut-after-length-test", File: "bfe_http2/hpack/huffman.go", Old: "	if mask := uint(1<<nbits - 1); cur&mask != mask {", New: "	if nbits == 0 {\n		return nil\n	}\n	if mask := uint(1<<nbits - 1); cur&mask != mask {", Silent: true},
			{Name: "literal-add-only-if-it-fits", File: "bfe_http2/hpack/hpack.go", Old: "	if it.indexed() {\n		d.dynTab.add(hf)", New: "	if uint32(len(hf.Value)) <= d.dynTab.maxSize && it.indexed() {\n		d.dynTab.add(hf)", Expect: "literal-indexing|parseFieldLiteral:indexed-implies-add"},
			{Name: "table-add-skips-oversize-entry", File: "bfe_http2/hpack/hpack.go", Old: "func (dt *dynamicTable) add(f HeaderField) {\n", New: "func (dt *dynamicTable) add(f HeaderField) {\n	if f.Size() > dt.maxSize {\n		return\n	}\n", Expect: "dyn-table|dynamicTable.add:unconditional"},
			{Name: "evict-keeps-last-entry", File: "bfe_http2/hpack/hpack.go", Old: "	for dt.size > dt.maxSize {", New: "	for dt.size > dt.maxSize && len(dt.ents) > 1 {", Expect: "dyn-table|dynamicTable.evict:return-fits"},
			{Name: "silent-literal-add-early-exit-form", File: "bfe_http2/hpack/hpack.go", Old: "	if it.indexed() {\n		d.dynTab.add(hf)\n	}", New: "	if !it.indexed() {\n		hf.Sensitive = it.sensitive()\n		return d.callEmit(hf)\n	}\n	d.dynTab.add(hf)", Silent: true},
			// robustness classes (negative controls): behaviour-preserving restructurings at other sites than the recorded controls
			{Name: "silent-helper-size-update-tail-call", File: "bfe_http2/hpack/hpack.go", Old: "	if size > uint64(d.dynTab.allowedMaxSize) {\n		return DecodingError{errors.New(\"dynamic table size update too large\")}\n	}\n	d.dynTab.setMaxSize(uint32(size))\n	d.buf = buf\n	return nil\n}", New: "	return d.applySizeUpdate(size, buf)\n}\n\nfunc (d *Decoder) applySizeUpdate(newSize uint64, rest []byte) error {\n	if newSize > uint64(d.dynTab.allowedMaxSize) {\n		return DecodingError{errors.New(\"dynamic table size update too large\")}\n	}\n	d.dynTab.setMaxSize(uint32(newSize))\n	d.buf = rest\n	return nil\n}", Silent: true},
			{Name: "silent-helper-huffman-padding-checked-call", File: "bfe_http2/hpack/huffman.go", Old: "	if sbits > 7 {\n		// Either there was an incomplete symbol, or overlong padding.\n		// Both are decoding errors per RFC 7541 section 5.2.\n		return ErrInvalidHuffman\n	}\n	if mask := uint(1<<nbits - 1); cur&mask != mask {\n		// Trailing bits must be a prefix of EOS per RFC 7541 section 5.2.\n		return ErrInvalidHuffman\n	}\n	return nil\n}", New: "	if err := checkPadding(cur, nbits, sbits); err != nil {\n		return err\n	}\n	return nil\n}\n\nfunc checkPadding(bitBuf uint, left, prefix uint8) error {\n	if prefix > 7 {\n		return ErrInvalidHuffman\n	}\n	if mask := uint(1<<left - 1); bitBuf&mask != mask {\n		return ErrInvalidHuffman\n	}\n	return nil\n}", Silent: true},
			{Name: "silent-huffman-index-loop", File: "bfe_http2/hpack/huffman.go", Old: "	for _, b := range v {\n		cur = cur<<8 | uint(b)", New: "	for k := 0; k < len(v); k++ {\n		cur = cur<<8 | uint(v[k])", Silent: true},
			{Name: "silent-close-switch-form", File: "bfe_http2/hpack/hpack.go", Old: "	if d.saveBuf.Len() > 0 {\n		d.saveBuf.Reset()\n		return DecodingError{errors.New(\"truncated headers\")}\n	}\n	return nil", New: "	switch pending := d.saveBuf.Len(); {\n	case pending == 0:\n		return nil\n	default:\n		d.saveBuf.Reset()\n		return DecodingError{errors.New(\"truncated headers\")}\n	}", Silent: true},
			{Name: "silent-indexed-named-bool-defensive-check-reorder", File: "bfe_http2/hpack/hpack.go", Old: "	hf, ok := d.at(idx)\n	if !ok {\n		return DecodingError{InvalidIndexError(idx)}\n	}\n	d.buf = buf\n	return d.callEmit(HeaderField{Name: hf.Name, Value: hf.Value})", New: "	if len(buf) > len(d.buf) {\n		// cannot happen: readVarInt returns a suffix of its input\n		return DecodingError{errors.New(\"internal error\")}\n	}\n	entry, found := d.at(idx)\n	missing := found == false\n	if missing {\n		return DecodingError{InvalidIndexError(idx)}\n	}\n	out := HeaderField{Name: entry.Name, Value: entry.Value}\n	d.buf = buf\n	return d.callEmit(out)", Silent: true},
			{Name: "silent-string-mirrored-comparisons", File: "bfe_http2/hpack/hpack.go", Old: "	if uint64(len(p)) < strLen {\n		return \"\", p, errNeedMore\n	}", New: "	if avail := uint64(len(p)); !(strLen <= avail) {\n		return \"\", p, errNeedMore\n	}", Silent: true},
			{Name: "silent-at-switch-static-first", File: "bfe_http2/hpack/hpack.go", Old: "\tif i < 1 {\n\t\treturn\n\t}\n\tif i > uint64(d.maxTableIndex()) {\n\t\treturn\n\t}\n\tif i <= uint64(len(staticTable)) {\n\t\treturn staticTable[i-1], true\n\t}\n", New: "\tswitch {\n\tcase i < 1:\n\t\treturn\n\tcase i <= uint64(len(staticTable)):\n\t\treturn staticTable[i-1], true\n\tcase i > uint64(d.maxTableIndex()):\n\t\treturn\n\t}\n", Silent: true},
			{Name: "silent-evict-endless-loop-with-break", File: "bfe_http2/hpack/hpack.go", Old: "\tfor dt.size > dt.maxSize {\n\t\tdt.size -= dt.ents[0].Size()\n\t\tdt.ents = dt.ents[1:]\n\t}\n", New: "\tfor {\n\t\tif dt.size <= dt.maxSize {\n\t\t\tbreak\n\t\t}\n\t\tdt.size -= dt.ents[0].Size()\n\t\tdt.ents = dt.ents[1:]\n\t}\n", Silent: true},
			{Name: "silent-size-update-reordered-effects", File: "bfe_http2/hpack/hpack.go", Old: "\td.dynTab.setMaxSize(uint32(size))\n\td.buf = buf\n\treturn nil", New: "\td.buf = buf\n\td.dynTab.setMaxSize(uint32(size))\n\treturn nil", Silent: true},
			{Name: "silent-at-rewritten", File: "bfe_http2/hpack/hpack.go", Old: "	if i < 1 {\n		return\n	}\n	if i > uint64(d.maxTableIndex()) {\n		return\n	}", New: "	if i == 0 || uint64(d.maxTableIndex()) < i {\n		return\n	}", Silent: true},
		},
	})
}

const hxHpack = "bfe_http2/hpack"

func runC31(c *core.Ctx) {
	if c.P.Pkg(hxHpack) == nil {
		c.Missing(hxHpack)
		return
	}
	env := hxOpen(c.P, c31Anchors()...)
	defer env.close()
	// build every anchor's region first: the parameter/argument and call-site
	// tables of private helpers are then complete for all rules
	for _, a := range c31AnchorNames {
		if fn := c.P.Func(hxHpack, a); fn != nil {
			hxRegionOf(c.P, fn)
		}
	}
	c31VarInt(c)
	c31Index(c)
	c31SizeUpdate(c)
	c31Narrowing(c)
	c31Dispatch(c)
	c31Reads(c)
	c31String(c)
	c31Write(c)
	c31Huffman(c)
	c31Tables(c)
	c31DynTab(c)
}

// c31AnchorNames are the functions of bfe_http2/hpack that the rules analyse in
// their own right (named by the property's anchors or exported); a call of one
// of them is an opaque event for the others, everything else that is private
// to one of them belongs to its region.
var c31AnchorNames = []string{"readVarInt", "Decoder.at", "Decoder.maxTableIndex", "Decoder.parseHeaderFieldRepr", "Decoder.parseFieldIndexed",
	"Decoder.parseFieldLiteral", "Decoder.parseDynamicTableSizeUpdate", "Decoder.readString", "Decoder.callEmit", "Decoder.Write", "Decoder.Close",
	"huffmanDecode", "HuffmanDecode", "HuffmanDecodeToString", "dynamicTable.add", "dynamicTable.setMaxSize", "dynamicTable.evict",
	"HeaderField.Size", "indexType.indexed", "indexType.sensitive"}

func c31Anchors() []string {
	var out []string
	for _, a := range c31AnchorNames {
		out = append(out, hxHpack+"."+a)
	}
	return out
}

func hxFn(c *core.Ctx, pkg, name string) *ssa.Function {
	fn := c.P.Func(pkg, name)
	if fn == nil || fn.Blocks == nil {
		c.Missing(pkg + "." + name)
		return nil
	}
	c.Analysed(core.FuncKey(fn))
	return fn
}

func hxField(c *core.Ctx, pkg, name string) *types.Var {
	f, ok := c.P.Obj(pkg, name).(*types.Var)
	if !ok {
		c.Missing(pkg + "." + name)
		return nil
	}
	return f
}

func hxParam(fn *ssa.Function, name string) *ssa.Parameter {
	for _, p := range fn.Params {
		if p.Name() == name {
			return p
		}
	}
	return nil
}

// hxIsCallTo: in is a call (not go/defer) of one of the named functions.
func hxIsCallTo(in ssa.Instruction, names ...string) *ssa.Call {
	call, ok := in.(*ssa.Call)
	if ok && core.CallIs(&call.Call, names...) {
		return call
	}
	return nil
}

func hxGlobalLoad(v ssa.Value, name string) bool {
	u, ok := hxResolve(v).(*ssa.UnOp)
	if !ok || u.Op != token.MUL {
		return false
	}
	g, ok := u.X.(*ssa.Global)
	return ok && g.Name() == name
}

// ---------------------------------------------------------------- readVarInt

func c31VarInt(c *core.Ctx) {
	fn := hxFn(c, hxHpack, "readVarInt")
	if fn == nil {
		return
	}
	g := hxRegionOf(c.P, fn)
	var shifts []*ssa.BinOp
	for _, in := range g.Instrs() {
		if b, ok := in.(*ssa.BinOp); ok && b.Op == token.SHL {
			if _, isPhi := core.StripConv(b.Y).(*ssa.Phi); isPhi {
				shifts = append(shifts, b)
			}
		}
	}
	for k, s := range shifts {
		key := fmt.Sprintf("readVarInt:shift#%d", k)
		m := core.StripConv(s.Y).(*ssa.Phi)
		sf := s.Parent() // the frame of the continuation loop (readVarInt or a private helper of it)
		// N = M + step on the back edge
		var next *ssa.BinOp
		var step int64
		for _, e := range m.Edges {
			if b, ok := e.(*ssa.BinOp); ok && b.Op == token.ADD && b.X == ssa.Value(m) {
				if st, ok := hxConstInt(b.Y); ok && st > 0 {
					next, step = b, st
				}
			}
		}
		if next == nil {
			c.Check("varint-bound", key, s.Pos(), false, "the shift amount of the varint accumulator is not a loop counter advanced by a positive constant; the bound cannot be established")
			continue
		}
		c.Check("varint-format", "readVarInt:step", next.Pos(), step == 7, fmt.Sprintf("the shift amount advances by %d per continuation byte, RFC 7541 section 5.1 requires 7", step))
		mask := int64(-1)
		if a, ok := core.StripConv(s.X).(*ssa.BinOp); ok && a.Op == token.AND {
			if k, ok := hxConstInt(a.Y); ok {
				mask = k
			} else if k, ok := hxConstInt(a.X); ok {
				mask = k
			}
		}
		c.Check("varint-format", "readVarInt:payload-mask", s.Pos(), mask == 127, fmt.Sprintf("the accumulator adds (byte & %d) << m, RFC 7541 section 5.1 requires the low 7 bits (127)", mask))
		// the test on every cycle
		isM := func(v ssa.Value) bool { return core.StripConv(v) == ssa.Value(m) }
		isN := func(v ssa.Value) bool { return core.StripConv(v) == ssa.Value(next) }
		var verdict string
		found := false
		for _, in := range hxInstrs(sf) {
			ifi, ok := in.(*ssa.If)
			if !ok {
				continue
			}
			r0, ok := hxRelOf(ifi.Cond, true)
			if !ok || !(isM(r0.L) || isM(r0.R) || isN(r0.L) || isN(r0.R)) {
				continue
			}
			b := ifi.Block()
			reach0, reach1 := hxReach(b.Succs[0])[s.Block()], hxReach(b.Succs[1])[s.Block()]
			if reach0 == reach1 {
				continue
			}
			cont, errS := b.Succs[0], b.Succs[1]
			if reach1 {
				cont, errS = b.Succs[1], b.Succs[0]
			}
			found = true
			rel, _ := hxRelOf(ifi.Cond, cont == b.Succs[0])
			ub, okN := hxUpper([]hxRel{rel}, isN)
			if !okN {
				if u, okM := hxUpper([]hxRel{rel}, isM); okM {
					ub, okN = u+step, true
				}
			}
			switch {
			case !okN:
				verdict = "the loop test " + rel.String() + " puts no upper bound on the shift amount"
			case (ub/step)*step+7 > 63:
				verdict = fmt.Sprintf("the loop continues with a shift amount up to %d: 7 payload bits shifted by %d do not fit 64 bits, over-long integers wrap instead of being rejected", (ub/step)*step, (ub/step)*step)
			}
			if bad := core.ReachAvoiding(sf, s, func(x ssa.Instruction) bool { return x == ssa.Instruction(ifi) }, func(x ssa.Instruction) bool { return x == ssa.Instruction(s) }); bad != nil {
				verdict = "a cycle through the accumulator shift avoids the bound test"
			}
			for bb := range hxReach(errS) {
				for _, x := range bb.Instrs {
					if r, ok := x.(*ssa.Return); ok {
						e := hxErrOf(hxErrResult(r))
						if !e.NonNil || e.Global == "errNeedMore" {
							verdict = "the branch taken when the bound is exceeded returns " + core.Render(hxErrResult(r)) + ": an over-long integer must be a fatal decoding error"
						}
					}
				}
			}
			break
		}
		if !found {
			verdict = "no test of the shift amount against a constant separates the loop from an error exit"
		}
		c.Check("varint-bound", key, s.Pos(), verdict == "", verdict)

		// success returns after the shift: continuation bit clear, value includes this byte
		var byteV ssa.Value
		if ax, _, ok := hxAnd(s.X); ok {
			byteV = ax
		}
		n := 0
		for _, r := range core.Returns(sf) {
			if !hxErrOf(hxErrResult(r)).Nil {
				continue
			}
			if !core.Dominates(s, r) {
				continue
			}
			ok := false
			for _, rel := range hxRelsAt(r.Block()) {
				if ax, k1, isAnd := hxAnd(rel.L); isAnd && rel.Op == token.EQL {
					k0, isZero := hxConstInt(rel.R)
					if k1 == 128 && isZero && k0 == 0 && byteV != nil && hxSame(ax, byteV) {
						ok = true
					}
				}
			}
			if !ok && byteV != nil {
				if ub, has := hxUpper(hxRelsAt(r.Block()), func(v ssa.Value) bool { return hxSame(v, byteV) }); has && ub == 127 {
					ok = true
				}
			}
			carries := hxSliceHas(core.RetVals(r)[0], func(v ssa.Value) bool { return v == ssa.Value(s) })
			c.Check("varint-format", fmt.Sprintf("readVarInt:continuation-end#%d", n), r.Pos(), ok && carries,
				"a successful return inside the continuation loop must be guarded by (byte & 0x80) == 0 and return the accumulated value including this byte; guards: "+hxRelStrs(hxRelsAt(r.Block()))+"; value: "+core.Render(core.RetVals(r)[0]))
			n++
		}
		if n == 0 {
			c.Check("varint-format", "readVarInt:continuation-end#0", s.Pos(), false, "no successful return follows the accumulator shift")
		}
	}
	c.Min("varint-bound", 1)
	// prefix: return before the loop only when i < 2^N-1
	var np *ssa.Parameter
	for _, p := range fn.Params {
		if b, ok := p.Type().Underlying().(*types.Basic); ok && b.Kind() == types.Uint8 {
			np = p
		}
	}
	n := 0
	for _, r := range g.Returns() {
		if !hxErrOf(hxErrResult(r)).Nil {
			continue
		}
		after := false
		for _, s := range shifts {
			if g.dominates(s, r) {
				after = true
			}
		}
		if after {
			continue
		}
		ok := false
		for _, rel := range hxRelsAt(r.Block()) {
			l, rr, op := rel.L, rel.R, rel.Op
			if op == token.GTR {
				l, rr, op = rr, l, token.LSS
			}
			if op != token.LSS {
				continue
			}
			// rr = (1 << n) - 1
			sub, isSub := hxResolve(rr).(*ssa.BinOp)
			if !isSub || sub.Op != token.SUB {
				continue
			}
			one, _ := hxConstInt(sub.Y)
			sh, isSh := hxResolve(sub.X).(*ssa.BinOp)
			if one != 1 || !isSh || sh.Op != token.SHL {
				continue
			}
			base, _ := hxConstInt(sh.X)
			if base != 1 || np == nil || hxResolve(sh.Y) != ssa.Value(np) {
				continue
			}
			// l derives from the first byte
			if hxSliceHas(l, func(v ssa.Value) bool {
				u, ok := v.(*ssa.UnOp)
				if !ok || u.Op != token.MUL {
					return false
				}
				ia, ok := u.X.(*ssa.IndexAddr)
				if !ok {
					return false
				}
				k, isK := hxConstInt(ia.Index)
				return isK && k == 0
			}) && hxSame(core.RetVals(r)[0], l) {
				ok = true
			}
		}
		c.Check("varint-format", fmt.Sprintf("readVarInt:prefix-terminates#%d", n), r.Pos(), ok,
			"the integer may end at the prefix byte only when the prefix value is strictly below 2^N-1 (RFC 7541 section 5.1) and that value is returned; guards: "+hxRelStrs(hxRelsAt(r.Block())))
		n++
	}
	c.Min("varint-format", 4)
	// truncation -> errNeedMore
	n = 0
	for _, r := range g.Returns() {
		rels := hxRelsAt(r.Block())
		ub, has := hxUpper(rels, func(v ssa.Value) bool { return hxLenArg(v) != nil })
		if !has || ub > 0 {
			continue
		}
		c.Check("varint-truncated", fmt.Sprintf("readVarInt:exhausted#%d", n), r.Pos(), hxGlobalLoad(hxErrResult(r), "errNeedMore"),
			"input exhausted inside an integer must be reported as errNeedMore (incremental delivery), returns "+core.Render(hxErrResult(r)))
		n++
	}
	c.Min("varint-truncated", 2)
	for _, f := range g.Fns {
		hxIndexBounds(c, "wire-index-bounds", f)
	}
}

// ---------------------------------------------------------------- table index

func c31Index(c *core.Ctx) {
	at := hxFn(c, hxHpack, "Decoder.at")
	mti := hxFn(c, hxHpack, "Decoder.maxTableIndex")
	staticLen := int64(-1)
	var staticG *ssa.Global
	if pk := c.P.SPkg[hxHpack]; pk != nil {
		if g, ok := pk.Members["staticTable"].(*ssa.Global); ok {
			staticG = g
			if p, ok := g.Type().(*types.Pointer); ok {
				if a, ok := p.Elem().Underlying().(*types.Array); ok {
					staticLen = a.Len()
				}
			}
		}
	}
	if staticG == nil || staticLen < 0 {
		c.Missing(hxHpack + ".staticTable (array)")
		return
	}
	entsF := hxField(c, hxHpack, "dynamicTable.ents")
	isEntsLen := func(v ssa.Value) bool {
		a := hxLenArg(v)
		return a != nil && hxIsField(a, entsF)
	}
	isMaxExpr := func(v ssa.Value) bool {
		if call, _ := hxCallOf(v); call != nil && core.CallIs(&call.Call, hxHpack+".Decoder.maxTableIndex") {
			return true
		}
		t, k := hxAffine(v)
		if k != staticLen || len(t) != 1 {
			return false
		}
		for key, n := range t {
			if n != 1 || !strings.HasPrefix(key, "builtin:len(") || !strings.HasSuffix(key, ".ents)") {
				return false
			}
		}
		return true
	}
	if mti != nil {
		for i, r := range core.Returns(mti) {
			t, k := hxAffine(r.Results[0])
			ok := k == staticLen && len(t) == 1
			if ok {
				ok = false
				// the single atom must be len(<...>.ents)
				if b, isB := hxResolve(r.Results[0]).(*ssa.BinOp); isB {
					ok = isEntsLen(b.X) || isEntsLen(b.Y)
				}
			}
			c.Check("table-index", fmt.Sprintf("Decoder.maxTableIndex:return#%d", i), r.Pos(), ok,
				fmt.Sprintf("the index space must be len(dynTab.ents) + %d static entries; returns %s", staticLen, hxAffineStr(t, k)))
		}
	}
	if at == nil {
		return
	}
	ip := hxParam(at, "i")
	if ip == nil && len(at.Params) == 2 {
		ip = at.Params[1]
	}
	if ip == nil {
		c.Missing("Decoder.at: index parameter")
		return
	}
	isI := func(v ssa.Value) bool { return hxResolve(v) == ssa.Value(ip) }
	ga := hxRegionOf(c.P, at)
	n := 0
	for _, r := range ga.Returns() {
		if len(r.Results) != 2 {
			continue
		}
		k, isK := hxResolve(core.RetVals(r)[1]).(*ssa.Const)
		if isK && k.Value != nil && !constant.BoolVal(k.Value) {
			continue
		}
		rels := hxRelsAt(r.Block())
		lo, hasLo := hxLower(rels, isI)
		_, le := hxLE(rels, isI, isMaxExpr)
		if hi, hasHi := hxUpper(rels, isI); hasHi && hi <= staticLen {
			le = true // i <= len(staticTable) <= maxTableIndex()
		}
		c.Check("table-index", fmt.Sprintf("Decoder.at:return-ok#%d", n), r.Pos(), hasLo && lo >= 1 && le,
			"Decoder.at answers ok although the guards do not establish 1 <= i <= maxTableIndex(): "+hxRelStrs(rels))
		n++
	}
	if n == 0 {
		c.Check("table-index", "Decoder.at:return-ok#0", at.Pos(), false, "Decoder.at has no ok=true return")
	}
	// index expressions
	ns, nd := 0, 0
	for _, in := range ga.Instrs() {
		ia, ok := in.(*ssa.IndexAddr)
		if !ok {
			continue
		}
		rels := hxRelsAt(ia.Block())
		t, k := hxAffine(ia.Index)
		switch {
		case ia.X == ssa.Value(staticG):
			lo, hasLo := hxLower(rels, isI)
			hi, hasHi := hxUpper(rels, isI)
			form := len(t) == 1 && t[ip.Name()] == 1 && k == -1
			c.Check("table-index", fmt.Sprintf("Decoder.at:static-entry#%d", ns), ia.Pos(), form && hasLo && lo >= 1 && hasHi && hi <= staticLen,
				fmt.Sprintf("static entry i must be staticTable[i-1] under 1 <= i <= %d; index is %s under %s", staticLen, hxAffineStr(t, k), hxRelStrs(rels)))
			ns++
		case hxIsField(ia.X, entsF):
			lo, hasLo := hxLower(rels, isI)
			_, le := hxLE(rels, isI, isMaxExpr)
			form := len(t) == 2 && t[ip.Name()] == -1 && k == staticLen
			for key, coef := range t {
				if key != ip.Name() && !(coef == 1 && strings.HasPrefix(key, "builtin:len(") && strings.HasSuffix(key, ".ents)")) {
					form = false
				}
			}
			c.Check("table-index", fmt.Sprintf("Decoder.at:dynamic-entry#%d", nd), ia.Pos(), form && hasLo && lo >= staticLen+1 && le,
				fmt.Sprintf("dynamic entry i must be ents[len(ents)-(i-%d)] under %d < i <= maxTableIndex(); index is %s under %s", staticLen, staticLen, hxAffineStr(t, k), hxRelStrs(rels)))
			nd++
		}
	}
	c.Min("table-index", 5)
	// census: the decoder reads the static table only in Decoder.at
	if w := c.P.Func(hxHpack, "Decoder.Write"); w != nil {
		for _, fn := range core.TransitiveCallees(w, 5) {
			if fn == at || ga.In[fn] || core.FuncPkgRel(fn) != hxHpack {
				continue
			}
			for _, in := range hxInstrs(fn) {
				if ia, ok := in.(*ssa.IndexAddr); ok && ia.X == ssa.Value(staticG) {
					c.Check("table-index", core.FuncKey(fn)+":static-table-read", ia.Pos(), false, "the decoder reads staticTable outside Decoder.at, bypassing the index range check")
				}
			}
		}
	}
	// call sites
	for _, name := range []string{"Decoder.parseFieldIndexed", "Decoder.parseFieldLiteral"} {
		fn := hxFn(c, hxHpack, name)
		if fn == nil {
			continue
		}
		k := 0
		gf := hxRegionOf(c.P, fn)
		for _, in := range gf.Instrs() {
			call := hxIsCallTo(in, hxHpack+".Decoder.at")
			if call == nil {
				continue
			}
			key := fmt.Sprintf("%s:at-call#%d", core.FuncKey(fn), k)
			k++
			var why []string
			if src, idx := hxCallOf(call.Call.Args[1]); src == nil || idx != 0 || !core.CallIs(&src.Call, hxHpack+".readVarInt") {
				why = append(why, "the index "+core.Render(call.Call.Args[1])+" is not the integer just read by readVarInt")
			}
			okv, hfv := hxExtract(call, 1), hxExtract(call, 0)
			if okv == nil {
				why = append(why, "the ok result of Decoder.at is discarded")
			}
			guardedByOK := func(b *ssa.BasicBlock) bool {
				return okv != nil && hxHasGuard(b, func(g core.Guard) bool { return g.Pol && g.Cond == okv })
			}
			if hfv != nil && hfv.Referrers() != nil {
				var uses []ssa.Instruction
				for _, r := range *hfv.Referrers() {
					switch x := r.(type) {
					case *ssa.Store:
						if a, ok := x.Addr.(*ssa.Alloc); ok && a.Referrers() != nil {
							for _, ar := range *a.Referrers() {
								switch y := ar.(type) {
								case *ssa.FieldAddr:
									uses = append(uses, y)
								case *ssa.UnOp:
									uses = append(uses, y)
								}
							}
						} else {
							uses = append(uses, x)
						}
					case *ssa.DebugRef:
					default:
						uses = append(uses, r)
					}
				}
				for _, u := range uses {
					if !guardedByOK(u.Block()) {
						why = append(why, "the table entry is used where ok is not established")
						break
					}
				}
			}
			hasErr := false
			for _, r := range gf.Returns() {
				if okv != nil && hxHasGuard(r.Block(), func(g core.Guard) bool { return !g.Pol && g.Cond == okv }) {
					hasErr = true
					if e := hxErrOf(hxErrResult(r)); !e.NonNil {
						why = append(why, "the !ok branch returns "+core.Render(hxErrResult(r)))
					}
				}
			}
			if !hasErr {
				why = append(why, "no return is guarded by !ok")
			}
			c.Check("index-checked", key, call.Pos(), len(why) == 0, "an index outside the tables must be a decoding error: "+strings.Join(why, "; "))
		}
	}
	c.Min("index-checked", 2)
}

// ---------------------------------------------------------------- size update

func c31SizeUpdate(c *core.Ctx) {
	fn := hxFn(c, hxHpack, "Decoder.parseDynamicTableSizeUpdate")
	allowedF := hxField(c, hxHpack, "dynamicTable.allowedMaxSize")
	maxF := hxField(c, hxHpack, "dynamicTable.maxSize")
	if fn != nil && allowedF != nil {
		k := 0
		g := hxRegionOf(c.P, fn)
		for _, in := range g.Instrs() {
			call := hxIsCallTo(in, hxHpack+".dynamicTable.setMaxSize")
			if call == nil {
				continue
			}
			size := hxResolve(call.Call.Args[1])
			src, idx := hxCallOf(size)
			fromWire := src != nil && idx == 0 && core.CallIs(&src.Call, hxHpack+".readVarInt")
			rels := hxRelsAt(call.Block())
			_, le := hxLE(rels, func(v ssa.Value) bool { return hxResolve(v) == size }, func(v ssa.Value) bool { return hxIsField(v, allowedF) })
			c.Check("size-update", fmt.Sprintf("parseDynamicTableSizeUpdate:setMaxSize#%d", k), call.Pos(), fromWire && le,
				"the new dynamic table size "+core.Render(size)+" must be the integer read from the wire and be applied only under size <= allowedMaxSize; guards: "+hxRelStrs(rels))
			k++
		}
		if k == 0 {
			c.Check("size-update", "parseDynamicTableSizeUpdate:setMaxSize#0", fn.Pos(), false, "parseDynamicTableSizeUpdate does not call setMaxSize")
		}
		// the rejecting branch
		found := false
		for _, r := range g.Returns() {
			for _, rel := range hxRelsAt(r.Block()) {
				l, rr, op := rel.L, rel.R, rel.Op
				if op == token.LSS {
					l, rr, op = rr, l, token.GTR
				}
				if op == token.GTR && hxIsField(rr, allowedF) {
					if src, idx := hxCallOf(l); src != nil && idx == 0 {
						found = true
						e := hxErrOf(hxErrResult(r))
						c.Check("size-update", "parseDynamicTableSizeUpdate:too-large-return", r.Pos(), e.NonNil && e.Global != "errNeedMore",
							"a size update above the allowed maximum must be a fatal decoding error; returns "+core.Render(hxErrResult(r)))
					}
				}
			}
		}
		if !found {
			c.Check("size-update", "parseDynamicTableSizeUpdate:too-large-return", fn.Pos(), false, "no return is guarded by size > allowedMaxSize")
		}
	}
	// census
	allowedCallers := map[string]string{
		hxHpack + ".NewDecoder":                            "initial size chosen by the local endpoint",
		hxHpack + ".Decoder.SetMaxDynamicTableSize":        "local API (SETTINGS_HEADER_TABLE_SIZE acknowledged by the local endpoint)",
		hxHpack + ".Decoder.parseDynamicTableSizeUpdate":   "wire update, guarded (see size-update)",
		hxHpack + ".NewEncoder":                            "encoder side",
		hxHpack + ".Encoder.SetMaxDynamicTableSize":        "encoder side",
		hxHpack + ".Encoder.SetMaxDynamicTableSizeLimit":   "encoder side",
		hxHpack + ".dynamicTable.setMaxSize":               "the setter itself",
		hxHpack + ".Decoder.SetAllowedMaxDynamicTableSize": "local API",
	}
	fns := c.P.SrcFuncs(hxHpack)
	for _, f := range fns {
		for _, in := range hxInstrs(f) {
			if ci, ok := in.(ssa.CallInstruction); ok && core.CallIs(ci.Common(), hxHpack+".dynamicTable.setMaxSize") {
				// a private helper of a reviewed caller counts as that caller
				owner := hxOwner(c.P, hxHpack, f, allowedCallers)
				key := owner
				if owner == "" {
					key = core.FuncKey(f)
				}
				c.Check("size-census", key+":calls-setMaxSize", in.Pos(), owner != "", "unreviewed caller of dynamicTable.setMaxSize: the table limit can be changed outside the reviewed paths")
			}
		}
	}
	if maxF != nil {
		for _, st := range core.FieldStores(fns, maxF) {
			k := hxOwner(c.P, hxHpack, st.Fn, map[string]string{hxHpack + ".dynamicTable.setMaxSize": ""})
			if k == "" {
				k = core.FuncKey(st.Fn)
			}
			c.Check("size-census", k+":writes-maxSize", st.Store.Pos(), k == hxHpack+".dynamicTable.setMaxSize", "dynamicTable.maxSize is written outside setMaxSize (no eviction follows)")
		}
	}
	if allowedF != nil {
		for _, st := range core.FieldStores(fns, allowedF) {
			k := hxOwner(c.P, hxHpack, st.Fn, map[string]string{hxHpack + ".NewDecoder": "", hxHpack + ".Decoder.SetAllowedMaxDynamicTableSize": ""})
			if k == "" {
				k = core.FuncKey(st.Fn)
			}
			ok := k == hxHpack+".NewDecoder" || k == hxHpack+".Decoder.SetAllowedMaxDynamicTableSize"
			c.Check("size-census", k+":writes-allowedMaxSize", st.Store.Pos(), ok, "dynamicTable.allowedMaxSize is written by an unreviewed function; the peer must not be able to raise its own limit")
		}
	}
	c.Min("size-update", 2)
	c.Min("size-census", 6)
}

// ---------------------------------------------------------------- dispatch

func c31Dispatch(c *core.Ctx) {
	fn := hxFn(c, hxHpack, "Decoder.parseHeaderFieldRepr")
	bufF := hxField(c, hxHpack, "Decoder.buf")
	if fn == nil || bufF == nil {
		return
	}
	itVal := func(name string) int64 {
		k, ok := c.P.Obj(hxHpack, name).(*types.Const)
		if !ok {
			c.Missing(hxHpack + "." + name)
			return -99
		}
		n, _ := constant.Int64Val(k.Val())
		return n
	}
	type row struct {
		name      string
		callee    string
		mask, val int64
		prefix    int64
		it        int64
	}
	rows := []row{
		{"indexed(1xxxxxxx)", "Decoder.parseFieldIndexed", 0x80, 0x80, 7, -1},
		{"literal-incremental(01xxxxxx)", "Decoder.parseFieldLiteral", 0xc0, 0x40, 6, itVal("indexedTrue")},
		{"literal-without-indexing(0000xxxx)", "Decoder.parseFieldLiteral", 0xf0, 0x00, 4, itVal("indexedFalse")},
		{"literal-never-indexed(0001xxxx)", "Decoder.parseFieldLiteral", 0xf0, 0x10, 4, itVal("indexedNever")},
		{"size-update(001xxxxx)", "Decoder.parseDynamicTableSizeUpdate", 0xe0, 0x20, 5, -1},
	}
	// prefix used by a callee: first argument of its readVarInt on d.buf
	calleePrefix := func(callee *ssa.Function, arg ssa.Value) (int64, bool) {
		for _, in := range hxRegionOf(c.P, callee).Instrs() {
			if call := hxIsCallTo(in, hxHpack+".readVarInt"); call != nil {
				a := hxResolve(call.Call.Args[0])
				if k, ok := hxConstInt(a); ok {
					return k, true
				}
				if p, ok := a.(*ssa.Parameter); ok && arg != nil && len(callee.Params) > 1 && p == callee.Params[1] {
					return hxConstInt(arg)
				}
				return 0, false
			}
		}
		return 0, false
	}
	seen := map[string]bool{}
	for _, in := range hxRegionOf(c.P, fn).Instrs() {
		call, ok := in.(*ssa.Call)
		if !ok {
			continue
		}
		callee := call.Call.StaticCallee()
		if callee == nil {
			continue
		}
		ck := core.FuncKey(callee)
		var cand []row
		for _, r := range rows {
			if ck == hxHpack+"."+r.callee {
				cand = append(cand, r)
			}
		}
		if len(cand) == 0 {
			continue
		}
		// the pattern established at the call
		mask, val, havePat := int64(-1), int64(-1), false
		for _, rel := range hxRelsAt(call.Block()) {
			ax, m, isAnd := hxAnd(rel.L)
			if !isAnd || !hxIsFirstByteOf(ax, bufF) {
				continue
			}
			v, ok2 := hxConstInt(rel.R)
			if !ok2 {
				continue
			}
			switch {
			case rel.Op == token.EQL:
				mask, val, havePat = m, v, true
			case rel.Op == token.NEQ && v == 0 && m&(m-1) == 0:
				mask, val, havePat = m, m, true
			}
			if havePat {
				break
			}
		}
		var it int64 = -1
		var narg ssa.Value
		if len(call.Call.Args) == 3 {
			narg = call.Call.Args[1]
			it, _ = hxConstInt(call.Call.Args[2])
		}
		prefix, havePrefix := calleePrefix(callee, narg)
		var hit *row
		for i := range cand {
			if cand[i].it == it {
				hit = &cand[i]
			}
		}
		if hit == nil {
			c.Check("repr-dispatch", fmt.Sprintf("parseHeaderFieldRepr:%s(it=%d)", ck, it), call.Pos(), false, "call with an index type that RFC 7541 section 6 does not define")
			continue
		}
		seen[hit.name] = true
		ok = havePat && mask == hit.mask && val == hit.val && havePrefix && prefix == hit.prefix
		c.Check("repr-dispatch", "parseHeaderFieldRepr:"+hit.name, call.Pos(), ok,
			fmt.Sprintf("representation %s must be selected by (b & %#x) == %#x and read a %d-bit prefix integer; found mask=%#x value=%#x (pattern found=%v) prefix=%d (found=%v)", hit.name, hit.mask, hit.val, hit.prefix, mask, val, havePat, prefix, havePrefix))
	}
	for _, r := range rows {
		if !seen[r.name] {
			c.Check("repr-dispatch", "parseHeaderFieldRepr:"+r.name, fn.Pos(), false, "no call handles representation "+r.name)
		}
	}
	c.Min("repr-dispatch", 5)
	// index type semantics
	for _, m := range [][2]string{{"indexType.indexed", "indexedTrue"}, {"indexType.sensitive", "indexedNever"}} {
		f := hxFn(c, hxHpack, m[0])
		if f == nil {
			continue
		}
		want := itVal(m[1])
		ok := false
		for _, r := range core.Returns(f) {
			if b, isB := hxResolve(r.Results[0]).(*ssa.BinOp); isB && b.Op == token.EQL && len(f.Params) == 1 {
				for _, pair := range [][2]ssa.Value{{b.X, b.Y}, {b.Y, b.X}} {
					if k, isK := hxConstInt(pair[1]); isK && k == want && hxResolve(pair[0]) == ssa.Value(f.Params[0]) {
						ok = true
					}
				}
			}
		}
		c.Check("literal-indexing", m[0], f.Pos(), ok, m[0]+" must be `v == "+m[1]+"`")
	}
	if lit := hxFn(c, hxHpack, "Decoder.parseFieldLiteral"); lit != nil {
		n := 0
		gl := hxRegionOf(c.P, lit)
		for _, in := range gl.Instrs() {
			if call := hxIsCallTo(in, hxHpack+".dynamicTable.add"); call != nil {
				ok := hxHasGuard(call.Block(), func(g core.Guard) bool {
					cc, _ := hxCallOf(g.Cond)
					return g.Pol && cc != nil && core.CallIs(&cc.Call, hxHpack+".indexType.indexed")
				})
				c.Check("literal-indexing", fmt.Sprintf("parseFieldLiteral:add#%d", n), call.Pos(), ok, "a literal is inserted into the dynamic table only for the incremental-indexing representation (it.indexed())")
				n++
			}
		}
		if n == 0 {
			c.Check("literal-indexing", "parseFieldLiteral:add#0", lit.Pos(), false, "parseFieldLiteral never inserts into the dynamic table: incremental indexing is lost")
		}
		c31IndexedImpliesAdd(c, lit)
		if sf := hxField(c, hxHpack, "HeaderField.Sensitive"); sf != nil {
			for i, st := range core.FieldStores(gl.Fns, sf) {
				cc, _ := hxCallOf(st.Store.Val)
				c.Check("literal-indexing", fmt.Sprintf("parseFieldLiteral:sensitive#%d", i), st.Store.Pos(), cc != nil && core.CallIs(&cc.Call, hxHpack+".indexType.sensitive"), "HeaderField.Sensitive must be it.sensitive()")
			}
		}
	}
	c.Min("literal-indexing", 5)
}

// ---------------------------------------------------------------- reads / consumption

func c31Reads(c *core.Ctx) {
	bufF := hxField(c, hxHpack, "Decoder.buf")
	readNames := []string{hxHpack + ".readVarInt", hxHpack + ".Decoder.readString", hxHpack + ".huffmanDecode"}
	isBufStore := func(in ssa.Instruction) bool {
		st, ok := in.(*ssa.Store)
		if !ok {
			return false
		}
		fa, ok := st.Addr.(*ssa.FieldAddr)
		return ok && bufF != nil && core.FieldObj(fa.X, fa.Field) == bufF
	}
	isEffect := func(in ssa.Instruction) bool {
		if isBufStore(in) {
			return true
		}
		ci, ok := in.(ssa.CallInstruction)
		return ok && core.CallIs(ci.Common(), hxHpack+".dynamicTable.add", hxHpack+".dynamicTable.setMaxSize", hxHpack+".Decoder.callEmit")
	}
	isRead := func(in ssa.Instruction) bool { return hxIsCallTo(in, readNames...) != nil }
	isReadCall := func(call *ssa.Call) bool { return core.CallIs(&call.Call, readNames...) }
	parseFns := []string{"Decoder.parseFieldIndexed", "Decoder.parseFieldLiteral", "Decoder.parseDynamicTableSizeUpdate"}
	for _, name := range append(append([]string{}, parseFns...), "Decoder.readString", "HuffmanDecode", "HuffmanDecodeToString") {
		fn := hxFn(c, hxHpack, name)
		if fn == nil {
			continue
		}
		g := hxRegionOf(c.P, fn)
		// in the frame of the call an effect is also a call of a private helper that may perform one
		effectHere := g.liftMay(isEffect)
		cnt := map[string]int{}
		for _, call := range g.errCalls(isReadCall) {
			ck := core.CalleeKey(&call.Call)
			key := fmt.Sprintf("%s:%s#%d", core.FuncKey(fn), strings.TrimPrefix(ck, hxHpack+"."), cnt[ck])
			cnt[ck]++
			why := hxErrChecked(fn, call, effectHere)
			c.Check("read-err-checked", key, call.Pos(), why == "", "the error of "+ck+" must be tested, and returned, before any decoder state changes: "+why)
		}
	}
	c.Min("read-err-checked", 9)
	for _, name := range parseFns {
		fn := c.P.Func(hxHpack, name)
		if fn == nil {
			continue
		}
		g := hxRegionOf(c.P, fn)
		fk := core.FuncKey(fn)
		var stores []*ssa.Store
		n := 0
		for _, in := range g.Instrs() {
			if !isEffect(in) {
				continue
			}
			bad := g.reachI(in, nil, isRead)
			c.Check("consume", fmt.Sprintf("%s:no-read-after-effect#%d", fk, n), in.Pos(), bad == nil,
				"after "+hxDescribe(in)+" another wire read can fail with errNeedMore; the representation would be re-parsed and the effect applied twice")
			n++
			if isBufStore(in) {
				stores = append(stores, in.(*ssa.Store))
			}
		}
		for i, st := range stores {
			src, idx := hxCallOf(hxResolveDeep(st.Val))
			ok := src != nil && idx == 1 && core.CallIs(&src.Call, readNames[:2]...)
			c.Check("consume", fmt.Sprintf("%s:advance#%d", fk, i), st.Pos(), ok, "d.buf must advance to the remainder returned by the last read; stores "+core.Render(st.Val))
		}
		if len(stores) == 0 {
			c.Check("consume", fk+":advance#0", fn.Pos(), false, "the representation is never consumed (d.buf is not advanced): Decoder.Write would loop forever")
		}
		k := 0
		for _, r := range g.Returns() {
			ev := hxErrResult(r)
			cc, _ := hxCallOf(ev)
			if !(hxErrOf(ev).Nil || (cc != nil && core.CallIs(&cc.Call, hxHpack+".Decoder.callEmit"))) {
				continue
			}
			dom := false
			for _, st := range stores {
				if g.dominates(st, r) {
					dom = true
				}
			}
			c.Check("consume", fmt.Sprintf("%s:success-return#%d", fk, k), r.Pos(), dom, "a successful return does not pass the advance of d.buf")
			k++
		}
	}
	c.Min("consume", 10)
}

// ---------------------------------------------------------------- readString

func c31String(c *core.Ctx) {
	fn := hxFn(c, hxHpack, "Decoder.readString")
	maxF := hxField(c, hxHpack, "Decoder.maxStrLen")
	if fn == nil {
		return
	}
	// strLen: #0 of the readVarInt call
	g := hxRegionOf(c.P, fn)
	var lenCall *ssa.Call
	for _, in := range g.Instrs() {
		if call := hxIsCallTo(in, hxHpack+".readVarInt"); call != nil && lenCall == nil {
			lenCall = call
		}
	}
	if lenCall == nil {
		c.Missing("Decoder.readString: readVarInt call")
		return
	}
	strLen := hxExtract(lenCall, 0)
	isStrLen := func(v ssa.Value) bool { return strLen != nil && hxResolve(v) == strLen }
	n := 0
	for _, in := range g.Instrs() {
		sl, ok := in.(*ssa.Slice)
		if !ok {
			continue
		}
		uses := (sl.Low != nil && isStrLen(sl.Low)) || (sl.High != nil && isStrLen(sl.High))
		if !uses {
			continue
		}
		rels := hxRelsAt(sl.Block())
		_, le := hxLE(rels, isStrLen, func(v ssa.Value) bool { return hxIsLenOf(v, sl.X) })
		fromRemain := false
		if src, idx := hxCallOf(sl.X); src == lenCall && idx == 1 {
			fromRemain = true
		}
		c.Check("string-length", fmt.Sprintf("readString:slice#%d", n), sl.Pos(), le && fromRemain,
			"the buffer is cut at the wire-supplied string length without strLen <= len(buffer) being established (or not the buffer left after the length prefix); guards: "+hxRelStrs(rels))
		n++
	}
	c.Min("string-length", 3)
	// errors
	foundMax, foundTrunc, foundEmpty := false, false, false
	for _, r := range g.Returns() {
		rels := hxRelsAt(r.Block())
		ev := hxErrResult(r)
		for _, rel := range rels {
			l, rr, op := rel.L, rel.R, rel.Op
			if op == token.LSS {
				l, rr, op = rr, l, token.GTR
			}
			if op != token.GTR {
				continue
			}
			if isStrLen(l) && hxIsField(rr, maxF) {
				foundMax = true
				c.Check("string-limit", "readString:over-max-return", r.Pos(), hxGlobalLoad(ev, "ErrStringLength"), "a string longer than maxStrLen must yield ErrStringLength; returns "+core.Render(ev))
			}
			if isStrLen(l) && hxLenArg(rr) != nil {
				foundTrunc = true
				c.Check("string-limit", "readString:truncated-return", r.Pos(), hxGlobalLoad(ev, "errNeedMore"), "a string longer than the buffered data must yield errNeedMore; returns "+core.Render(ev))
			}
		}
		if ub, has := hxUpper(rels, func(v ssa.Value) bool { return hxLenArg(v) != nil }); has && ub <= 0 {
			foundEmpty = true
			c.Check("string-limit", "readString:empty-return", r.Pos(), hxGlobalLoad(ev, "errNeedMore"), "an empty buffer must yield errNeedMore; returns "+core.Render(ev))
		}
	}
	if !foundMax {
		c.Check("string-limit", "readString:over-max-return", fn.Pos(), false, "no return is guarded by strLen > maxStrLen")
	}
	if !foundTrunc {
		c.Check("string-limit", "readString:truncated-return", fn.Pos(), false, "no return is guarded by strLen > len(buffer)")
	}
	if !foundEmpty {
		c.Check("string-limit", "readString:empty-return", fn.Pos(), false, "no return is guarded by len(buffer) == 0")
	}
	// huffman call: flag and limit
	k := 0
	for _, in := range g.Instrs() {
		call := hxIsCallTo(in, hxHpack+".huffmanDecode")
		if call == nil {
			continue
		}
		flag := false
		for _, rel := range hxRelsAt(call.Block()) {
			ax, m, isAnd := hxAnd(rel.L)
			if !isAnd {
				continue
			}
			z, isZ := hxConstInt(rel.R)
			first := false
			if u, ok := hxResolve(ax).(*ssa.UnOp); ok {
				if ia, ok := u.X.(*ssa.IndexAddr); ok {
					if i0, ok := hxConstInt(ia.Index); ok && i0 == 0 {
						first = true
					}
				}
			}
			if m == 128 && first && ((rel.Op == token.NEQ && isZ && z == 0) || (rel.Op == token.EQL && z == 128)) {
				flag = true
			}
		}
		lim := len(call.Call.Args) == 3 && hxIsField(call.Call.Args[1], maxF)
		c.Check("string-limit", fmt.Sprintf("readString:huffman-call#%d", k), call.Pos(), flag && lim,
			fmt.Sprintf("Huffman decoding must be selected by the H bit (first byte & 0x80) [%v] and be bounded by d.maxStrLen [%v]", flag, lim))
		k++
	}
	c.Min("string-limit", 4)
	for _, f := range g.Fns {
		hxIndexBounds(c, "wire-index-bounds", f)
	}
	c.Min("wire-index-bounds", 5)
}

// ---------------------------------------------------------------- Write / Close

func c31Write(c *core.Ctx) {
	fn := hxFn(c, hxHpack, "Decoder.Write")
	saveF := hxField(c, hxHpack, "Decoder.saveBuf")
	bufF := hxField(c, hxHpack, "Decoder.buf")
	if saveF == nil || bufF == nil {
		return
	}
	if fn != nil {
		g := hxRegionOf(c.P, fn)
		var parse *ssa.Call
		for _, in := range g.Instrs() {
			if call := hxIsCallTo(in, hxHpack+".Decoder.parseHeaderFieldRepr"); call != nil {
				parse = call
			}
		}
		if parse == nil {
			c.Missing("Decoder.Write: call of parseHeaderFieldRepr")
		} else {
			isNeedMore := func(b *ssa.BasicBlock) bool {
				for _, rel := range hxRelsAt(b) {
					if rel.Op == token.EQL && ((hxResolve(rel.L) == ssa.Value(parse) && hxGlobalLoad(rel.R, "errNeedMore")) || (hxResolve(rel.R) == ssa.Value(parse) && hxGlobalLoad(rel.L, "errNeedMore"))) {
						return true
					}
				}
				return false
			}
			n := 0
			for _, r := range g.Returns() {
				if !isNeedMore(r.Block()) {
					continue
				}
				ev := hxErrResult(r)
				ok := hxGlobalLoad(ev, "ErrStringLength")
				if !ok && hxErrOf(ev).Nil {
					for _, in := range g.Instrs() {
						call := hxIsCallTo(in, "bytes.Buffer.Write")
						if call == nil || len(call.Call.Args) != 2 {
							continue
						}
						if hxIsField(call.Call.Args[0], saveF) && hxIsField(call.Call.Args[1], bufF) && g.dominates(call, r) && isNeedMore(call.Block()) {
							ok = true
						}
					}
				}
				c.Check("write-incremental", fmt.Sprintf("Decoder.Write:need-more-return#%d", n), r.Pos(), ok,
					"when a representation is incomplete (errNeedMore) Write must keep the unparsed rest in saveBuf (or fail with ErrStringLength); this return does neither")
				n++
			}
			if n == 0 {
				c.Check("write-incremental", "Decoder.Write:need-more-return#0", fn.Pos(), false, "Decoder.Write has no branch for errNeedMore")
			}
			// fatal errors leave the loop and are returned
			leaves, returned := false, false
			for _, in := range g.Instrs() {
				ifi, ok := in.(*ssa.If)
				if !ok {
					continue
				}
				rel, ok := hxRelOf(ifi.Cond, true)
				if !ok || hxResolve(rel.L) != ssa.Value(parse) || !hxIsNil(rel.R) || (rel.Op != token.NEQ && rel.Op != token.EQL) {
					continue
				}
				errS := ifi.Block().Succs[0]
				if rel.Op == token.EQL {
					errS = ifi.Block().Succs[1]
				}
				leaves = !g.blockReaches(errS, parse.Block())
			}
			for _, r := range g.Returns() {
				if hxSliceHas(hxErrResult(r), func(v ssa.Value) bool { return v == ssa.Value(parse) }) {
					returned = true
				}
			}
			c.Check("write-incremental", "Decoder.Write:fatal-error", parse.Pos(), leaves && returned,
				fmt.Sprintf("a fatal error of parseHeaderFieldRepr must stop the loop [%v] and be returned [%v]", leaves, returned))
		}
	}
	if cl := hxFn(c, hxHpack, "Decoder.Close"); cl != nil {
		found := false
		for _, r := range hxRegionOf(c.P, cl).Returns() {
			lo, has := hxLower(hxRelsAt(r.Block()), func(v ssa.Value) bool {
				cc, _ := hxCallOf(v)
				return cc != nil && core.CallIs(&cc.Call, "bytes.Buffer.Len") && hxIsField(cc.Call.Args[0], saveF)
			})
			if has && lo >= 1 {
				found = true
				c.Check("write-incremental", "Decoder.Close:truncated", r.Pos(), hxErrOf(hxErrResult(r)).NonNil, "Close with buffered unparsed data must report a decoding error")
			}
		}
		if !found {
			c.Check("write-incremental", "Decoder.Close:truncated", cl.Pos(), false, "Close has no return guarded by saveBuf.Len() > 0")
		}
	}
	c.Min("write-incremental", 4)
}

// ---------------------------------------------------------------- huffman

func c31Huffman(c *core.Ctx) {
	fn := hxFn(c, hxHpack, "huffmanDecode")
	if fn == nil {
		return
	}
	childF := hxField(c, hxHpack, "node.children")
	var input *ssa.Parameter
	for _, p := range fn.Params {
		if s, ok := p.Type().Underlying().(*types.Slice); ok && types.Identical(s.Elem(), types.Typ[types.Byte]) {
			input = p
		}
	}
	g := hxRegionOf(c.P, fn)
	var byteLoad *ssa.UnOp
	for _, in := range g.Instrs() {
		if u, ok := in.(*ssa.UnOp); ok && u.Op == token.MUL {
			if ia, ok := u.X.(*ssa.IndexAddr); ok && input != nil && hxResolve(ia.X) == ssa.Value(input) {
				byteLoad = u
			}
		}
	}
	if byteLoad == nil || childF == nil {
		c.Missing("huffmanDecode: loop over the input bytes")
		return
	}
	loopB := byteLoad.Block()
	// a block belongs to the byte loop when the byte load reaches it and it reaches the byte load again (calls of private helpers followed)
	loopMemo := map[*ssa.BasicBlock]bool{}
	inLoop := func(b *ssa.BasicBlock) bool {
		v, ok := loopMemo[b]
		if !ok {
			v = b == loopB || (g.blockReaches(b, loopB) && g.blockReaches(loopB, b))
			loopMemo[b] = v
		}
		return v
	}
	isBitBuf := func(v ssa.Value) bool {
		return hxSliceHas(v, func(x ssa.Value) bool { return x == ssa.Value(byteLoad) })
	}
	isCounter := func(v ssa.Value) bool {
		if isBitBuf(v) {
			return false
		}
		if b, ok := v.Type().Underlying().(*types.Basic); !ok || b.Info()&types.IsInteger == 0 {
			return false
		}
		return hxSliceHas(v, func(x ssa.Value) bool {
			b, ok := x.(*ssa.BinOp)
			if !ok || b.Op != token.ADD {
				return false
			}
			k, ok := hxConstInt(b.Y)
			return ok && k == 8
		})
	}
	// (a) child lookups
	nLoop, nTail := 0, 0
	for _, in := range g.Instrs() {
		u, ok := in.(*ssa.UnOp)
		if !ok || u.Op != token.MUL {
			continue
		}
		ia, ok := u.X.(*ssa.IndexAddr)
		if !ok || !hxIsField(ia.X, childF) {
			continue
		}
		var key string
		switch {
		case inLoop(u.Block()):
			key = fmt.Sprintf("huffmanDecode:child-lookup:loop#%d", nLoop)
			nLoop++
		default:
			key = fmt.Sprintf("huffmanDecode:child-lookup:tail#%d", nTail)
			nTail++
		}
		nonNilAt := func(b *ssa.BasicBlock) bool {
			for _, rel := range hxRelsAt(b) {
				if rel.Op == token.NEQ && ((hxResolve(rel.L) == ssa.Value(u) && hxIsNil(rel.R)) || (hxResolve(rel.R) == ssa.Value(u) && hxIsNil(rel.L))) {
					return true
				}
			}
			return false
		}
		var why []string
		if u.Referrers() != nil {
			for _, r := range *u.Referrers() {
				switch x := r.(type) {
				case *ssa.FieldAddr:
					if !nonNilAt(x.Block()) {
						why = append(why, "dereferenced (."+core.FieldObj(x.X, x.Field).Name()+") without a nil test")
					}
				case *ssa.Phi:
					for i, e := range x.Edges {
						if e == ssa.Value(u) && !nonNilAt(x.Block().Preds[i]) {
							why = append(why, "carried to the next step without a nil test")
						}
					}
				}
			}
		}
		// the nil branch is an error
		hasNilErr := false
		for _, r := range g.Returns() {
			for _, rel := range hxRelsAt(r.Block()) {
				if rel.Op == token.EQL && hxResolve(rel.L) == ssa.Value(u) && hxIsNil(rel.R) {
					hasNilErr = true
					if !hxErrOf(hxErrResult(r)).NonNil {
						why = append(why, "the nil branch returns "+core.Render(hxErrResult(r)))
					}
				}
			}
		}
		if len(why) == 0 && !hasNilErr {
			why = append(why, "no error return for a missing child")
		}
		sort.Strings(why)
		c.Check("huffman-nil", key, u.Pos(), len(why) == 0,
			"the decoding tree has no leaf for EOS, so a child looked up with input bits can be nil (an encoded EOS or a prefix of it): "+strings.Join(hxUniq(why), "; ")+"; input such as fe 3f ff ff ff panics with a nil dereference instead of returning ErrInvalidHuffman")
	}
	c.Min("huffman-nil", 2)
	// (b) tail clauses: existence and totality (x_hpack3.go)
	c31HuffmanTail(c, g, byteLoad, isCounter, isBitBuf)
	// (c) output bound inside the loop
	n := 0
	for _, in := range g.Instrs() {
		call := hxIsCallTo(in, "bytes.Buffer.WriteByte")
		if call == nil || !inLoop(call.Block()) {
			continue
		}
		var ml *ssa.Parameter
		for _, p := range fn.Params {
			if b, ok := p.Type().Underlying().(*types.Basic); ok && b.Kind() == types.Int {
				ml = p
			}
		}
		ok := ml != nil && hxAllEdgesGuarded(call.Block(), func(g core.Guard) bool {
			rel, ok := hxRelOf(g.Cond, g.Pol)
			if !ok {
				return false
			}
			if rel.Op == token.EQL && hxResolve(rel.L) == ssa.Value(ml) {
				k, isK := hxConstInt(rel.R)
				return isK && k == 0
			}
			l, r, op := rel.L, rel.R, rel.Op
			if hxResolve(l) == ssa.Value(ml) { // maxLen > buf.Len()
				l, r, op = r, l, hxFlipOp(op)
			}
			if op == token.NEQ || op == token.LSS {
				cc, _ := hxCallOf(l)
				return cc != nil && core.CallIs(&cc.Call, "bytes.Buffer.Len") && hxResolve(r) == ssa.Value(ml)
			}
			return false
		})
		c.Check("huffman-maxlen", fmt.Sprintf("huffmanDecode:loop-output#%d", n), call.Pos(), ok, "a decoded byte is appended inside the byte loop without `maxLen == 0 || buf.Len() != maxLen`: the string limit is not enforced during decompression")
		n++
	}
	c.Min("huffman-maxlen", 1)
}

// ---------------------------------------------------------------- tables

func c31Tables(c *core.Ctx) {
	// static table
	if lit, info := hxVarLit(c.P, hxHpack, "staticTable"); lit == nil {
		c.Missing(hxHpack + ".staticTable literal")
	} else {
		var got [][2]string
		bad := ""
		for i, e := range lit.Elts {
			var a, b constant.Value
			switch x := e.(type) {
			case *ast.CallExpr:
				if len(x.Args) == 2 {
					a, b = hxConstOf(info, x.Args[0]), hxConstOf(info, x.Args[1])
				}
			case *ast.CompositeLit:
				for j, el := range x.Elts {
					v := el
					name := ""
					if kv, ok := el.(*ast.KeyValueExpr); ok {
						v = kv.Value
						if id, ok := kv.Key.(*ast.Ident); ok {
							name = id.Name
						}
					}
					switch {
					case name == "Name" || (name == "" && j == 0):
						a = hxConstOf(info, v)
					case name == "Value" || (name == "" && j == 1):
						b = hxConstOf(info, v)
					}
				}
				if b == nil {
					b = constant.MakeString("")
				}
			}
			if a == nil || b == nil || a.Kind() != constant.String || b.Kind() != constant.String {
				bad = fmt.Sprintf("entry %d is not a constant name/value pair", i+1)
				break
			}
			got = append(got, [2]string{constant.StringVal(a), constant.StringVal(b)})
		}
		if bad == "" {
			if len(got) != len(hxStaticTable) {
				bad = fmt.Sprintf("%d entries, RFC 7541 Appendix A has %d", len(got), len(hxStaticTable))
			} else {
				for i := range got {
					if got[i] != hxStaticTable[i] {
						bad = fmt.Sprintf("entry %d is (%q, %q), RFC 7541 Appendix A has (%q, %q)", i+1, got[i][0], got[i][1], hxStaticTable[i][0], hxStaticTable[i][1])
						break
					}
				}
			}
		}
		c.CheckAt("rfc-table", "static-table", c.P.Pos(lit.Pos()), bad == "", "staticTable differs from the RFC 7541 static table: "+bad)
	}
	// huffman tables
	ints := func(name string) ([]uint64, token.Pos, string) {
		lit, info := hxVarLit(c.P, hxHpack, name)
		if lit == nil {
			c.Missing(hxHpack + "." + name + " literal")
			return nil, token.NoPos, "missing"
		}
		var out []uint64
		for i, e := range lit.Elts {
			if _, isKV := e.(*ast.KeyValueExpr); isKV {
				return nil, lit.Pos(), "keyed elements are not supported"
			}
			v := hxConstOf(info, e)
			if v == nil || v.Kind() != constant.Int {
				return nil, lit.Pos(), fmt.Sprintf("element %d is not an integer constant", i)
			}
			u, _ := constant.Uint64Val(v)
			out = append(out, u)
		}
		return out, lit.Pos(), ""
	}
	codes, cpos, cbad := ints("huffmanCodes")
	lens, lpos, lbad := ints("huffmanCodeLen")
	if cbad == "" {
		if len(codes) != 256 {
			cbad = fmt.Sprintf("%d entries, expected 256", len(codes))
		} else {
			for i := range codes {
				if codes[i] != uint64(hxHuffCodes[i]) {
					cbad = fmt.Sprintf("code of symbol %d is %#x, RFC 7541 Appendix B has %#x", i, codes[i], hxHuffCodes[i])
					break
				}
			}
		}
	}
	if lbad == "" {
		if len(lens) != 256 {
			lbad = fmt.Sprintf("%d entries, expected 256", len(lens))
		} else {
			for i := range lens {
				if lens[i] != uint64(hxHuffLens[i]) {
					lbad = fmt.Sprintf("code length of symbol %d is %d, RFC 7541 Appendix B has %d", i, lens[i], hxHuffLens[i])
					break
				}
			}
		}
	}
	if cbad != "missing" {
		c.CheckAt("rfc-table", "huffman-codes", c.P.Pos(cpos), cbad == "", "huffmanCodes differs from RFC 7541 Appendix B: "+cbad)
	}
	if lbad != "missing" {
		c.CheckAt("rfc-table", "huffman-code-lengths", c.P.Pos(lpos), lbad == "", "huffmanCodeLen differs from RFC 7541 Appendix B: "+lbad)
	}
	if len(codes) == 256 && len(lens) == 256 {
		// Kraft equality with EOS (30 bits) and prefix-freeness
		sum := new(big.Int)
		one := big.NewInt(1)
		bad := ""
		type cw struct {
			code uint64
			n    uint
		}
		var all []cw
		for i := range codes {
			if lens[i] == 0 || lens[i] > 30 || codes[i]>>lens[i] != 0 {
				bad = fmt.Sprintf("symbol %d: code %#x does not fit %d bits", i, codes[i], lens[i])
				break
			}
			sum.Add(sum, new(big.Int).Lsh(one, uint(30-lens[i])))
			all = append(all, cw{codes[i], uint(lens[i])})
		}
		if bad == "" {
			sum.Add(sum, one) // EOS
			all = append(all, cw{0x3fffffff, 30})
			if sum.Cmp(new(big.Int).Lsh(one, 30)) != 0 {
				bad = "the code is not complete (Kraft sum with the 30-bit EOS differs from 1)"
			}
			sort.Slice(all, func(i, j int) bool {
				return all[i].code<<(30-all[i].n) < all[j].code<<(30-all[j].n) || (all[i].code<<(30-all[i].n) == all[j].code<<(30-all[j].n) && all[i].n < all[j].n)
			})
			for i := 0; i+1 < len(all) && bad == ""; i++ {
				a, b := all[i], all[i+1]
				if a.n <= b.n && b.code>>(b.n-a.n) == a.code {
					bad = fmt.Sprintf("code %#x/%d is a prefix of %#x/%d", a.code, a.n, b.code, b.n)
				}
			}
		}
		c.CheckAt("rfc-table", "huffman-prefix-free-complete", c.P.Pos(cpos), bad == "", "the Huffman code (with EOS = 30 ones) must be prefix-free and complete: "+bad)
	}
	c.Min("rfc-table", 4)
}

// ---------------------------------------------------------------- dynamic table

func c31DynTab(c *core.Ctx) {
	if fn := hxFn(c, hxHpack, "HeaderField.Size"); fn != nil {
		for i, r := range hxRegionOf(c.P, fn).Returns() {
			t, k := hxAffine(core.RetVals(r)[0])
			ok := k == 32 && len(t) == 2
			for key, coef := range t {
				if coef != 1 || !(strings.HasPrefix(key, "builtin:len(") && (strings.HasSuffix(key, ".Name)") || strings.HasSuffix(key, ".Value)"))) {
					ok = false
				}
			}
			c.Check("dyn-table", fmt.Sprintf("HeaderField.Size:return#%d", i), r.Pos(), ok, "entry size must be len(Name)+len(Value)+32 (RFC 7541 section 4.1); is "+hxAffineStr(t, k))
		}
	}
	sizeF := hxField(c, hxHpack, "dynamicTable.size")
	maxF := hxField(c, hxHpack, "dynamicTable.maxSize")
	isEvict := func(in ssa.Instruction) bool {
		ci, ok := in.(ssa.CallInstruction)
		return ok && core.CallIs(ci.Common(), hxHpack+".dynamicTable.evict")
	}
	if fn := hxFn(c, hxHpack, "dynamicTable.add"); fn != nil && sizeF != nil {
		g := hxRegionOf(c.P, fn)
		isExit := func(in ssa.Instruction) bool { return core.IsReturn(in) && in.Parent() == fn }
		sts := core.FieldStores(g.Fns, sizeF)
		ok := len(sts) > 0
		for _, st := range sts {
			b, isB := st.Store.Val.(*ssa.BinOp)
			good := false
			if isB && b.Op == token.ADD {
				for _, pair := range [][2]ssa.Value{{b.X, b.Y}, {b.Y, b.X}} {
					cc, _ := hxCallOf(pair[1])
					if hxIsField(pair[0], sizeF) && cc != nil && core.CallIs(&cc.Call, hxHpack+".HeaderField.Size") && len(fn.Params) == 2 && hxResolve(cc.Call.Args[0]) == ssa.Value(fn.Params[1]) {
						good = true
					}
				}
			}
			if !good || g.reachI(st.Store, isEvict, isExit) != nil {
				ok = false
			}
		}
		c.Check("dyn-table", "dynamicTable.add:size-and-evict", fn.Pos(), ok, "add must account size += f.Size() and evict afterwards on every path")
		c31AddUnconditional(c, fn)
	}
	if fn := hxFn(c, hxHpack, "dynamicTable.setMaxSize"); fn != nil && maxF != nil {
		g := hxRegionOf(c.P, fn)
		isExit := func(in ssa.Instruction) bool { return core.IsReturn(in) && in.Parent() == fn }
		sts := core.FieldStores(g.Fns, maxF)
		ok := len(sts) > 0
		for _, st := range sts {
			if len(fn.Params) != 2 || hxResolve(st.Store.Val) != ssa.Value(fn.Params[1]) || g.reachI(st.Store, isEvict, isExit) != nil {
				ok = false
			}
		}
		c.Check("dyn-table", "dynamicTable.setMaxSize:store-and-evict", fn.Pos(), ok, "setMaxSize must store the new limit and evict afterwards on every path")
	}
	if fn := hxFn(c, hxHpack, "dynamicTable.evict"); fn != nil && sizeF != nil && maxF != nil {
		ok := false
		g := hxRegionOf(c.P, fn)
		for _, st := range core.FieldStores(g.Fns, sizeF) {
			b, isB := st.Store.Val.(*ssa.BinOp)
			if !isB || b.Op != token.SUB || !hxIsField(b.X, sizeF) {
				continue
			}
			for _, rel := range hxRelsAt(st.Store.Block()) {
				l, r, op := rel.L, rel.R, rel.Op
				if op == token.LSS {
					l, r, op = r, l, token.GTR
				}
				if op == token.GTR && hxIsField(l, sizeF) && hxIsField(r, maxF) {
					ok = true
				}
			}
		}
		// the loop is left only when size <= maxSize
		exitOK := false
		for _, in := range g.Instrs() {
			ifi, isIf := in.(*ssa.If)
			if !isIf {
				continue
			}
			// the successor taken under size > maxSize must loop back, the other one must not (either spelling / polarity of the test)
			for i, pol := range []bool{true, false} {
				rel, okR := hxRelOf(ifi.Cond, pol)
				if !okR {
					continue
				}
				l, r, op := rel.L, rel.R, rel.Op
				if op == token.LSS {
					l, r, op = r, l, token.GTR
				}
				if op == token.GTR && hxIsField(l, sizeF) && hxIsField(r, maxF) {
					exitOK = hxReach(ifi.Block().Succs[i])[ifi.Block()] && !hxReach(ifi.Block().Succs[1-i])[ifi.Block()]
				}
			}
		}
		c.Check("dyn-table", "dynamicTable.evict:until-fits", fn.Pos(), ok && exitOK, "evict must remove the oldest entries (size -= entry size) while size > maxSize and stop only when size <= maxSize")
		c31EvictFits(c, fn)
	}
	c.Min("dyn-table", 6)
}

// hxStaticTable is RFC 7541 Appendix A (cross-checked against golang.org/x/net v0.34.0 http2/hpack).
var hxStaticTable = [][2]string{
	{":authority", ""},
	{":method", "GET"},
	{":method", "POST"},
	{":path", "/"},
	{":path", "/index.html"},
	{":scheme", "http"},
	{":scheme", "https"},
	{":status", "200"},
	{":status", "204"},
	{":status", "206"},
	{":status", "304"},
	{":status", "400"},
	{":status", "404"},
	{":status", "500"},
	{"accept-charset", ""},
	{"accept-encoding", "gzip, deflate"},
	{"accept-language", ""},
	{"accept-ranges", ""},
	{"accept", ""},
	{"access-control-allow-origin", ""},
	{"age", ""},
	{"allow", ""},
	{"authorization", ""},
	{"cache-control", ""},
	{"content-disposition", ""},
	{"content-encoding", ""},
	{"content-language", ""},
	{"content-length", ""},
	{"content-location", ""},
	{"content-range", ""},
	{"content-type", ""},
	{"cookie", ""},
	{"date", ""},
	{"etag", ""},
	{"expect", ""},
	{"expires", ""},
	{"from", ""},
	{"host", ""},
	{"if-match", ""},
	{"if-modified-since", ""},
	{"if-none-match", ""},
	{"if-range", ""},
	{"if-unmodified-since", ""},
	{"last-modified", ""},
	{"link", ""},
	{"location", ""},
	{"max-forwards", ""},
	{"proxy-authenticate", ""},
	{"proxy-authorization", ""},
	{"range", ""},
	{"referer", ""},
	{"refresh", ""},
	{"retry-after", ""},
	{"server", ""},
	{"set-cookie", ""},
	{"strict-transport-security", ""},
	{"transfer-encoding", ""},
	{"user-agent", ""},
	{"vary", ""},
	{"via", ""},
	{"www-authenticate", ""},
}

// hxHuffCodes / hxHuffLens are RFC 7541 Appendix B, symbols 0..255 (cross-checked against x/net v0.34.0).
var hxHuffCodes = [256]uint32{
	0x1ff8, 0x7fffd8, 0xfffffe2, 0xfffffe3, 0xfffffe4, 0xfffffe5, 0xfffffe6, 0xfffffe7,
	0xfffffe8, 0xffffea, 0x3ffffffc, 0xfffffe9, 0xfffffea, 0x3ffffffd, 0xfffffeb, 0xfffffec,
	0xfffffed, 0xfffffee, 0xfffffef, 0xffffff0, 0xffffff1, 0xffffff2, 0x3ffffffe, 0xffffff3,
	0xffffff4, 0xffffff5, 0xffffff6, 0xffffff7, 0xffffff8, 0xffffff9, 0xffffffa, 0xffffffb,
	0x14, 0x3f8, 0x3f9, 0xffa, 0x1ff9, 0x15, 0xf8, 0x7fa,
	0x3fa, 0x3fb, 0xf9, 0x7fb, 0xfa, 0x16, 0x17, 0x18,
	0x0, 0x1, 0x2, 0x19, 0x1a, 0x1b, 0x1c, 0x1d,
	0x1e, 0x1f, 0x5c, 0xfb, 0x7ffc, 0x20, 0xffb, 0x3fc,
	0x1ffa, 0x21, 0x5d, 0x5e, 0x5f, 0x60, 0x61, 0x62,
	0x63, 0x64, 0x65, 0x66, 0x67, 0x68, 0x69, 0x6a,
	0x6b, 0x6c, 0x6d, 0x6e, 0x6f, 0x70, 0x71, 0x72,
	0xfc, 0x73, 0xfd, 0x1ffb, 0x7fff0, 0x1ffc, 0x3ffc, 0x22,
	0x7ffd, 0x3, 0x23, 0x4, 0x24, 0x5, 0x25, 0x26,
	0x27, 0x6, 0x74, 0x75, 0x28, 0x29, 0x2a, 0x7,
	0x2b, 0x76, 0x2c, 0x8, 0x9, 0x2d, 0x77, 0x78,
	0x79, 0x7a, 0x7b, 0x7ffe, 0x7fc, 0x3ffd, 0x1ffd, 0xffffffc,
	0xfffe6, 0x3fffd2, 0xfffe7, 0xfffe8, 0x3fffd3, 0x3fffd4, 0x3fffd5, 0x7fffd9,
	0x3fffd6, 0x7fffda, 0x7fffdb, 0x7fffdc, 0x7fffdd, 0x7fffde, 0xffffeb, 0x7fffdf,
	0xffffec, 0xffffed, 0x3fffd7, 0x7fffe0, 0xffffee, 0x7fffe1, 0x7fffe2, 0x7fffe3,
	0x7fffe4, 0x1fffdc, 0x3fffd8, 0x7fffe5, 0x3fffd9, 0x7fffe6, 0x7fffe7, 0xffffef,
	0x3fffda, 0x1fffdd, 0xfffe9, 0x3fffdb, 0x3fffdc, 0x7fffe8, 0x7fffe9, 0x1fffde,
	0x7fffea, 0x3fffdd, 0x3fffde, 0xfffff0, 0x1fffdf, 0x3fffdf, 0x7fffeb, 0x7fffec,
	0x1fffe0, 0x1fffe1, 0x3fffe0, 0x1fffe2, 0x7fffed, 0x3fffe1, 0x7fffee, 0x7fffef,
	0xfffea, 0x3fffe2, 0x3fffe3, 0x3fffe4, 0x7ffff0, 0x3fffe5, 0x3fffe6, 0x7ffff1,
	0x3ffffe0, 0x3ffffe1, 0xfffeb, 0x7fff1, 0x3fffe7, 0x7ffff2, 0x3fffe8, 0x1ffffec,
	0x3ffffe2, 0x3ffffe3, 0x3ffffe4, 0x7ffffde, 0x7ffffdf, 0x3ffffe5, 0xfffff1, 0x1ffffed,
	0x7fff2, 0x1fffe3, 0x3ffffe6, 0x7ffffe0, 0x7ffffe1, 0x3ffffe7, 0x7ffffe2, 0xfffff2,
	0x1fffe4, 0x1fffe5, 0x3ffffe8, 0x3ffffe9, 0xffffffd, 0x7ffffe3, 0x7ffffe4, 0x7ffffe5,
	0xfffec, 0xfffff3, 0xfffed, 0x1fffe6, 0x3fffe9, 0x1fffe7, 0x1fffe8, 0x7ffff3,
	0x3fffea, 0x3fffeb, 0x1ffffee, 0x1ffffef, 0xfffff4, 0xfffff5, 0x3ffffea, 0x7ffff4,
	0x3ffffeb, 0x7ffffe6, 0x3ffffec, 0x3ffffed, 0x7ffffe7, 0x7ffffe8, 0x7ffffe9, 0x7ffffea,
	0x7ffffeb, 0xffffffe, 0x7ffffec, 0x7ffffed, 0x7ffffee, 0x7ffffef, 0x7fffff0, 0x3ffffee,
}

var hxHuffLens = [256]uint8{
	13, 23, 28, 28, 28, 28, 28, 28, 28, 24, 30, 28, 28, 30, 28, 28,
	28, 28, 28, 28, 28, 28, 30, 28, 28, 28, 28, 28, 28, 28, 28, 28,
	6, 10, 10, 12, 13, 6, 8, 11, 10, 10, 8, 11, 8, 6, 6, 6,
	5, 5, 5, 6, 6, 6, 6, 6, 6, 6, 7, 8, 15, 6, 12, 10,
	13, 6, 7, 7, 7, 7, 7, 7, 7, 7, 7, 7, 7, 7, 7, 7,
	7, 7, 7, 7, 7, 7, 7, 7, 8, 7, 8, 13, 19, 13, 14, 6,
	15, 5, 6, 5, 6, 5, 6, 6, 6, 5, 7, 7, 6, 6, 6, 5,
	6, 7, 6, 5, 5, 6, 7, 7, 7, 7, 7, 15, 11, 14, 13, 28,
	20, 22, 20, 20, 22, 22, 22, 23, 22, 23, 23, 23, 23, 23, 24, 23,
	24, 24, 22, 23, 24, 23, 23, 23, 23, 21, 22, 23, 22, 23, 23, 24,
	22, 21, 20, 22, 22, 23, 23, 21, 23, 22, 22, 24, 21, 22, 23, 23,
	21, 21, 22, 21, 23, 22, 23, 23, 20, 22, 22, 22, 23, 22, 22, 23,
	26, 26, 20, 19, 22, 23, 22, 25, 26, 26, 26, 27, 27, 26, 24, 25,
	19, 21, 26, 27, 27, 26, 27, 24, 21, 21, 26, 26, 28, 27, 27, 27,
	20, 24, 20, 21, 22, 21, 21, 23, 22, 22, 25, 25, 24, 24, 26, 23,
	26, 27, 26, 26, 27, 27, 27, 27, 27, 28, 27, 27, 27, 27, 27, 26,
}

// ---------------------------------------------------------------- narrowing of wire integers

var c31Sizes = types.SizesFor("gc", "amd64")

// c31IntInfo: bit width and signedness of an integer type.
func c31IntInfo(t types.Type) (bits int64, unsigned, ok bool) {
	b, isB := t.Underlying().(*types.Basic)
	if !isB || b.Info()&types.IsInteger == 0 {
		return 0, false, false
	}
	return c31Sizes.Sizeof(b) * 8, b.Info()&types.IsUnsigned != 0, true
}

// c31Widen peels value-preserving steps only: type changes, integer
// conversions to a type of at least the same width (never a truncation), and
// loads of single-assignment locals. Unlike hxResolve it stops at a
// truncating conversion: uint32(x) is not x.
func c31Widen(v ssa.Value) ssa.Value {
	for i := 0; i < 12; i++ {
		switch x := v.(type) {
		case *ssa.Parameter:
			if a, ok := hxParamArg(x); ok { // private helper with a single call site: the argument
				v = a
				continue
			}
		case *ssa.ChangeType:
			v = x.X
			continue
		case *ssa.Convert:
			fb, _, ok1 := c31IntInfo(x.X.Type())
			tb, _, ok2 := c31IntInfo(x.Type())
			if ok1 && ok2 && tb >= fb {
				v = x.X
				continue
			}
		case *ssa.UnOp:
			if a, ok := x.X.(*ssa.Alloc); ok && x.Op == token.MUL {
				if p := core.SpilledParam(a); p != nil {
					return p
				}
				var last ssa.Value
				for _, in := range x.Block().Instrs {
					if in == ssa.Instruction(x) {
						break
					}
					if st, ok := in.(*ssa.Store); ok && st.Addr == ssa.Value(a) {
						last = st.Val
					}
				}
				if last == nil {
					last = hxDominatingStore(a, x)
				}
				if last != nil {
					v = last
					continue
				}
			}
		}
		break
	}
	return v
}

// c31Narrowing: an integer decoded from the wire (result #0 of readVarInt, and
// every parameter of a package function that receives such a value) may be
// converted to a narrower integer type only where the guards already bound
// the un-narrowed value by something that fits the target type. Otherwise the
// high bits are dropped before the limit/index/length test that follows and
// the test decides about a different number than the one the peer sent (RFC
// 7541 sections 5.1, 6.3: an integer above the limit is a decoding error,
// whatever its low bits are).
func c31Narrowing(c *core.Ctx) {
	fns := c.P.SrcFuncs(hxHpack)
	wire := map[ssa.Value]bool{}
	for _, f := range fns {
		for _, in := range hxInstrs(f) {
			if call := hxIsCallTo(in, hxHpack+".readVarInt"); call != nil {
				if e := hxExtract(call, 0); e != nil {
					wire[e] = true
				}
			}
		}
	}
	if len(wire) == 0 {
		c.Missing(hxHpack + ".readVarInt: no call whose integer result is used")
		return
	}
	// one level of context per call edge, to a fixpoint: parameters fed with wire integers
	for changed := true; changed; {
		changed = false
		for _, f := range fns {
			for _, in := range hxInstrs(f) {
				ci, ok := in.(ssa.CallInstruction)
				if !ok {
					continue
				}
				callee := ci.Common().StaticCallee()
				if callee == nil || callee.Blocks == nil || core.FuncPkgRel(callee) != hxHpack {
					continue
				}
				for i, a := range ci.Common().Args {
					if i < len(callee.Params) && wire[c31Widen(a)] && !wire[callee.Params[i]] {
						if _, _, isInt := c31IntInfo(callee.Params[i].Type()); isInt {
							wire[callee.Params[i]] = true
							changed = true
						}
					}
				}
			}
		}
	}
	for _, f := range fns {
		k := 0
		for _, in := range hxInstrs(f) {
			cv, ok := in.(*ssa.Convert)
			if !ok {
				continue
			}
			fb, _, ok1 := c31IntInfo(cv.X.Type())
			tb, tUns, ok2 := c31IntInfo(cv.Type())
			if !ok1 || !ok2 || tb >= fb {
				continue
			}
			x := c31Widen(cv.X)
			if !wire[x] {
				continue
			}
			// largest value of the target type
			maxBits := tb
			if !tUns {
				maxBits--
			}
			fits := func(b ssa.Value, strict bool) bool {
				if kc, isK := core.StripConv(b).(*ssa.Const); isK && kc.Value != nil && kc.Value.Kind() == constant.Int {
					lim := new(big.Int).Lsh(big.NewInt(1), uint(maxBits)) // 2^maxBits
					kv, okv := new(big.Int).SetString(kc.Value.ExactString(), 10)
					if !okv || kv.Sign() < 0 {
						return false
					}
					if strict {
						return kv.Cmp(lim) <= 0
					}
					return kv.Cmp(lim) < 0
				}
				w := c31Widen(b)
				wb, wUns, okw := c31IntInfo(w.Type())
				if !okw || !wUns {
					return false // a negative bound converted to unsigned is huge
				}
				if tUns {
					return wb <= tb
				}
				return wb < tb
			}
			bounded := false
			var rels []hxRel
			for _, g := range hxGuardsAt(cv.Block()) {
				r, ok := hxRelOf(g.Cond, g.Pol)
				if !ok {
					continue
				}
				rels = append(rels, r)
				l, rr, op := r.L, r.R, r.Op
				if c31Widen(rr) == x && c31Widen(l) != x {
					l, rr, op = rr, l, hxFlipOp(op)
				}
				if c31Widen(l) != x {
					continue
				}
				switch op {
				case token.LSS:
					bounded = bounded || fits(rr, true)
				case token.LEQ, token.EQL:
					bounded = bounded || fits(rr, false)
				}
			}
			c.Check("wire-narrowing", fmt.Sprintf("%s:%s->%s#%d", core.FuncKey(f), core.TypeStr(cv.X.Type()), core.TypeStr(cv.Type()), k), cv.Pos(), bounded,
				"the wire integer "+core.Render(x)+" is truncated to "+core.TypeStr(cv.Type())+" where no guard bounds the full-width value by something that fits that type; tests made on the truncated value accept integers whose low bits look valid (e.g. 2^32+r) instead of rejecting them; guards: "+hxRelStrs(rels))
			k++
		}
	}
	c.Min("wire-narrowing", 1)
}
