package rules

import (
	"fmt"
	"go/token"
	"go/types"
	"strings"

	"golang.org/x/tools/go/ssa"

	"verif/internal/core"
)

// C46 — PROXY protocol headers are parsed per specification.
func init() {
	Register(&Rule{
		ID: "C46", Section: "5 C46",
		Technique: "path queries (must-pass / control dependence) on go/ssa, value-flow of header fields, who-may-write census, table agreement with the PROXY protocol specification constants",
		Meta: core.Meta{
			Level: "other",
			Explanation: "Decides structural necessary conditions in bfe_proxy: (v2) every success return of parseVersion2 lies behind the read of the 16-bit length and a drain of that many bytes from the stream, non-LOCAL successes additionally behind the command/family table lookups, validateLength and a successful Peek(length); validateLength compares length >= the per-family minimum under the matching family predicate, the minima and the _addr4/_addr6 layouts agree with the specification (12/36/216 bytes, src,dst,sport,dport), Header address/port fields are filled from the like-named wire fields after a checked binary.Read; family/command predicates use the specification's mask/value pairs. " +
				"(dispatch) bfe_proxy.Read only Peeks before a signature matched, compares the peeked prefix of the signature's full length with SIGV1/SIGV2 (whose bytes equal the specification), calls parseVersion1/2 only under the matching comparison and reports ErrNoProxyProtocol only after both signatures compared unequal. " +
				"(v1) parseVersion1 succeeds only behind the CRLF test, the token-count test and an err==nil test of each of the four field validators, fields come from tokens 2..5 in specification order, TCP4/TCP6 map to TCPv4/TCPv6; parseV1PortNumber narrows to uint16 only under 0<=v<=65535 on success paths; parseV1IPAddress returns an error whenever net.ParseIP fails for TCP4 and TCP6. " +
				"(conn) every non-nil error return of Conn.checkProxyHeader lies behind p.Close() and a store to p.headerErr; headerErr/srcAddr/dstAddr are written only there, srcAddr/dstAddr derive from the header's source/destination fields; Conn.Read hands out buffered bytes only after checkProxyHeaderOnce and under headerErr == nil, address getters read srcAddr/dstAddr only after checkProxyHeaderOnce; the header byte limit and read deadline are lifted by a deferred function on every exit; bufReader wraps the LimitedReader that wraps the socket; checkProxyHeader is called from the once-closure only. " +
				"Robustness: guards are read through named booleans, negations and phi-merged `a && b` / `a || b` values and through the call site of a private helper; the v2 address block may be decoded in a private helper of parseVersion2 (region), values are followed through helper parameters/results; a mismatch of a single peeked byte with the signature byte at the same index counts as `signature compared unequal` (never as a match). " +
				"Not covered: numerical correctness of address decoding (binary.Read), a success return of parseVersion2 that itself sits inside an extracted helper (the return census is per function), split deliveries (blocking behaviour of Peek), TLV contents, absence of panics for arbitrary bytes, the timeout path of ReadTimeout.",
			RuleText:    "obligations = each success return of parseVersion2 x {length read, drain, lookups}, each Header field store, each validateLength return, each predicate, each reader call and signature comparison in Read, each validator call/field store/return in the v1 parser, each error return / writer / reader site of Conn, each specification table row",
			Assumptions: []string{"binary.Read decodes struct fields in declaration order, big endian (encoding/binary contract)", "bfe_bufio.Reader.Peek does not consume; Reader.Read after a successful Peek(n) returns the buffered bytes"},
		},
		Run: runC46,
		Mutants: []Mutant{
			{Name: "header-err-not-sticky", File: "bfe_proxy/conn.go", Old: "		p.Close()\n		p.headerErr = err\n		return err", New: "		p.Close()\n		return err", Expect: "hdr-err-sticky|checkProxyHeader:err@bfe_proxy.Read"},
			{Name: "v2-no-drain", File: "bfe_proxy/v2.go", Old: "	payloadReader.Read(make([]byte, length))\n", New: "", Expect: "v2-drain"},
			{Name: "v2-swap-src-dst-v6", File: "bfe_proxy/v2.go", Old: "		var addr _addr6\n		if err := binary.Read(payloadReader, binary.BigEndian, &addr); err != nil {\n			state.ProxyErrReadHeader.Inc(1)\n			return nil, ErrInvalidAddress\n		}\n		header.SourceAddress = addr.Src[:]\n		header.DestinationAddress = addr.Dst[:]", New: "		var addr _addr6\n		if err := binary.Read(payloadReader, binary.BigEndian, &addr); err != nil {\n			state.ProxyErrReadHeader.Inc(1)\n			return nil, ErrInvalidAddress\n		}\n		header.SourceAddress = addr.Dst[:]\n		header.DestinationAddress = addr.Src[:]", Expect: "v2-field-flow"},
			{Name: "v2-min-length-strict", File: "bfe_proxy/v2.go", Old: "		return length >= lengthV6", New: "		return length > lengthV6", Expect: "v2-min-length"},
			{Name: "v2-length-unchecked", File: "bfe_proxy/v2.go", Old: "	if !header.validateLength(length) {\n		state.ProxyErrInvalidHeader.Inc(1)\n		return nil, ErrInvalidLength\n	}\n", New: "", Expect: "v2-validated"},
			{Name: "dispatch-first-byte-or", File: "bfe_proxy/header.go", Old: "if !bytes.Equal(b1[:1], SIGV1[:1]) && !bytes.Equal(b1[:1], SIGV2[:1]) {", New: "if !bytes.Equal(b1[:1], SIGV1[:1]) || !bytes.Equal(b1[:1], SIGV2[:1]) {", Expect: "noproxy-return"},
			{Name: "dispatch-consumes", File: "bfe_proxy/header.go", Old: "	signature, err := reader.Peek(5)\n", New: "	reader.ReadByte()\n	signature, err := reader.Peek(5)\n", Expect: "peek-only"},
			{Name: "dispatch-short-compare", File: "bfe_proxy/header.go", Old: "bytes.Equal(signature[:12], SIGV2)", New: "bytes.Equal(signature[:11], SIGV2[:11])", Expect: "sig-compare"},
			{Name: "v1-swap-ports", File: "bfe_proxy/v1.go", Old: "header.SourcePort, err = parseV1PortNumber(tokens[4])", New: "header.SourcePort, err = parseV1PortNumber(tokens[5])", Expect: "v1-token-flow"},
			{Name: "v1-port-range-off-by-one", File: "bfe_proxy/v1.go", Old: "pval > 65535", New: "pval > 65536", Expect: "v1-port-range"},
			{Name: "v1-unchecked-dst", File: "bfe_proxy/v1.go", Old: "	header.DestinationAddress, err = parseV1IPAddress(header.TransportProtocol, tokens[3])\n	if err != nil {\n		state.ProxyErrInvalidHeader.Inc(1)\n		return nil, err\n	}\n", New: "	header.DestinationAddress, err = parseV1IPAddress(header.TransportProtocol, tokens[3])\n", Expect: "v1-validated"},
			{Name: "read-ignores-header-error", File: "bfe_proxy/conn.go", Old: "	p.checkProxyHeaderOnce()\n	if p.headerErr != nil {\n		return 0, p.headerErr\n	}\n	return p.bufReader.Read(b)", New: "	p.checkProxyHeaderOnce()\n	return p.bufReader.Read(b)", Expect: "read-guard"},
			{Name: "limit-not-lifted", File: "bfe_proxy/conn.go", Old: "		p.lmtReader.N = noLimit\n", New: "", Expect: "limit-reset"},
			{Name: "src-from-dst", File: "bfe_proxy/conn.go", Old: "srcAddr := net.JoinHostPort(hdr.SourceAddress.String(), fmt.Sprintf(\"%d\", hdr.SourcePort))", New: "srcAddr := net.JoinHostPort(hdr.DestinationAddress.String(), fmt.Sprintf(\"%d\", hdr.SourcePort))", Expect: "addr-flow"},
			{Name: "silent-reorder-close-and-store", File: "bfe_proxy/conn.go", Old: "		p.Close()\n		p.headerErr = err\n		return err", New: "		p.headerErr = err\n		p.Close()\n		return err", Silent: true},
			{Name: "silent-rename-local", File: "bfe_proxy/v1.go", Old: "	pval, err := strconv.Atoi(portStr)\n	if err == nil {\n		if pval < 0 || pval > 65535 {\n			err = ErrInvalidPortNumber\n		}\n		port = uint16(pval)", New: "	value, err := strconv.Atoi(portStr)\n	if err == nil {\n		if value > 65535 || value < 0 {\n			err = ErrInvalidPortNumber\n		}\n		port = uint16(value)", Silent: true},
			{Name: "silent-named-bool-keep", File: "bfe_proxy/conn.go", Old: "	if hdr.Command.IsLocal() || hdr.TransportProtocol.IsUnspec() {\n		return nil\n	}", New: "	keepSocket := hdr.Command.IsLocal() || hdr.TransportProtocol.IsUnspec()\n	if keepSocket {\n		return nil\n	}", Silent: true},
			{Name: "silent-first-byte-compare", File: "bfe_proxy/header.go", Old: "	if !bytes.Equal(b1[:1], SIGV1[:1]) && !bytes.Equal(b1[:1], SIGV2[:1]) {\n", New: "	if b1[0] != SIGV1[0] && b1[0] != SIGV2[0] {\n", Silent: true},
			{Name: "silent-v1-addr-named-bools", File: "bfe_proxy/v1.go", Old: "	if (protocol == TCPv4 && tryV4 == nil) || (protocol == TCPv6 && (addr == nil || tryV4 != nil)) {\n", New: "	wrongV4 := protocol == TCPv4 && tryV4 == nil\n	wrongV6 := protocol == TCPv6 && (addr == nil || tryV4 != nil)\n	if wrongV4 || wrongV6 {\n", Silent: true},
		},
	})
}

const c46pkg = "bfe_proxy"

func runC46(c *core.Ctx) {
	defer nxEnter(c)()
	if c.P.Pkg(c46pkg) == nil {
		c.Missing(c46pkg)
		return
	}
	c46v2(c)
	c46tables(c)
	c46dispatch(c)
	c46v1(c)
	c46conn(c)
}

// ---------------------------------------------------------------- v2 parser

// c46lenCells: local uint16 cells filled by encoding/binary.Read (the wire length).
func c46lenCells(fn *ssa.Function) (cells map[*ssa.Alloc]bool, reads []ssa.Instruction) {
	cells = map[*ssa.Alloc]bool{}
	var calls []ssa.CallInstruction
	for _, g := range nxRegion(fn) {
		calls = append(calls, core.Calls(g, "encoding/binary.Read")...)
	}
	for _, call := range calls {
		args := call.Common().Args
		if len(args) != 3 {
			continue
		}
		a, ok := core.StripConv(args[2]).(*ssa.Alloc)
		if !ok {
			continue
		}
		if b, ok := a.Type().Underlying().(*types.Pointer).Elem().Underlying().(*types.Basic); ok && b.Kind() == types.Uint16 {
			cells[a] = true
			reads = append(reads, call.(ssa.Instruction))
		}
	}
	return
}

func c46fromLen(v ssa.Value, cells map[*ssa.Alloc]bool) bool {
	return nxFlows(v, func(x ssa.Value) bool {
		u, ok := x.(*ssa.UnOp)
		if !ok || u.Op != token.MUL {
			return false
		}
		a, ok := u.X.(*ssa.Alloc)
		return ok && cells[a]
	}, func(x ssa.Value) bool {
		// do not walk into the stores of the cell itself
		a, ok := x.(*ssa.Alloc)
		return ok && cells[a]
	})
}

func c46v2(c *core.Ctx) {
	fn := nxFuncOrMissing(c, c46pkg, "parseVersion2")
	if fn == nil {
		return
	}
	cells, lenReads := c46lenCells(fn)
	isLenRead := core.LiftMust(func(in ssa.Instruction) bool {
		for _, r := range lenReads {
			if r == in {
				return true
			}
		}
		return false
	}, 3)
	// drains: consuming calls whose amount derives from the wire length
	isDrain0 := func(in ssa.Instruction) bool {
		call, ok := in.(ssa.CallInstruction)
		if !ok {
			return false
		}
		cc := call.Common()
		if !core.CallIs(cc, "io.Reader.Read", "io.ReadFull", "io.ReadAtLeast", "io.CopyN", "io.Copy", "io/ioutil.ReadAll", "io.ReadAll",
			"bfe_bufio.Reader.Read", "bfe_bufio.Reader.Discard") {
			return false
		}
		vals := append([]ssa.Value{}, cc.Args...)
		if cc.IsInvoke() {
			vals = append(vals, cc.Value)
		}
		for _, v := range vals {
			if c46fromLen(v, cells) {
				return true
			}
		}
		return false
	}
	// a private helper that drains on all of its paths drains
	isDrain := core.LiftMust(isDrain0, 3)
	ords := map[string]int{}
	for _, r := range nxSuccessReturns(fn, 1) {
		rv := core.RetVals(r)
		if isNilConst(rv[0]) {
			continue
		}
		local := nxHolds(r.Block(), func(g core.Guard) bool {
			call, _ := nxCallResult(g.Cond)
			return g.Pol && call != nil && core.CallIs(&call.Call, c46pkg+".ProtocolVersionAndCommand.IsLocal")
		})
		key := "parseVersion2:return@IsLocal"
		if !local {
			key = fmt.Sprintf("parseVersion2:return@end#%d", ords["end"])
			ords["end"]++
		} else if ords["local"] > 0 {
			key = fmt.Sprintf("parseVersion2:return@IsLocal#%d", ords["local"])
		}
		if local {
			ords["local"]++
		}
		c.Check("v2-length-read", key, r.Pos(), len(lenReads) > 0 && nxAllPathsPass(fn, r, isLenRead),
			"a success return of parseVersion2 is reachable without reading the 16-bit length field: the specification has a fixed 16-byte header (signature, ver/cmd, family, length) for every command, the unread bytes stay in the stream and are handed to the application; guards: "+nxGuardList(r.Block()))
		c.Check("v2-drain", key, r.Pos(), nxAllPathsPass(fn, r, isDrain),
			"a success return of parseVersion2 is reachable without draining `length` bytes (addresses + TLVs/padding) from the stream: the remainder of the header is handed to the application as payload")
		// supportedCommand lookup
		c.Check("v2-validated", key+":command", r.Pos(), c46hasLookupGuard(r.Block(), "supportedCommand"),
			"success return not guarded by a successful lookup of the ver/cmd byte in supportedCommand")
		if local {
			continue
		}
		c.Check("v2-validated", key+":family", r.Pos(), c46hasLookupGuard(r.Block(), "supportedTransportProtocol"),
			"success return not guarded by a successful lookup of the family byte in supportedTransportProtocol")
		okLen := nxHolds(r.Block(), func(g core.Guard) bool {
			call, _ := nxCallResult(g.Cond)
			return g.Pol && call != nil && core.CallIs(&call.Call, c46pkg+".Header.validateLength") && len(call.Call.Args) == 2 && c46fromLen(call.Call.Args[1], cells)
		})
		c.Check("v2-validated", key+":length", r.Pos(), okLen,
			"success return not guarded by validateLength(<wire length>) == true: a PROXY header shorter than the address block of its family would be accepted")
		// the single Read drain relies on the bytes being buffered: Peek(length) must have succeeded,
		// unless the drain is a full-read primitive
		full := nxAllPathsPass(fn, r, func(in ssa.Instruction) bool {
			return isDrain0(in) && !nxIsCall(in, "io.Reader.Read", "bfe_bufio.Reader.Read")
		})
		peeked := nxHolds(r.Block(), func(g core.Guard) bool {
			bo, ok := g.Cond.(*ssa.BinOp)
			if !ok {
				return false
			}
			for _, op := range []ssa.Value{bo.X, bo.Y} {
				if call, i := nxCallResult(op); call != nil && i == 1 && core.CallIs(&call.Call, "bfe_bufio.Reader.Peek") &&
					c46fromLen(call.Call.Args[1], cells) && nxCondErrNil(g.Cond, g.Pol, op) {
					return true
				}
			}
			return false
		})
		c.Check("v2-drain", key+":complete", r.Pos(), full || peeked,
			"the drain is a single Read call and no successful Peek(length) guards the return: a short read would leave header bytes in the stream")
	}
	c.Min("v2-length-read", 2)
	c.Min("v2-drain", 3)
	// size of the drain buffer
	for _, in := range nxRegionInstrs(fn) {
		if !isDrain0(in) || !nxIsCall(in, "io.Reader.Read", "bfe_bufio.Reader.Read") {
			continue
		}
		cc := in.(ssa.CallInstruction).Common()
		buf := cc.Args[len(cc.Args)-1]
		ms, ok := core.StripConv(buf).(*ssa.MakeSlice)
		c.Check("v2-drain", "parseVersion2:drain-buffer", in.Pos(), ok && c46fromLen(ms.Len, cells),
			"the buffer of the draining Read is not make([]byte, length): fewer than `length` bytes may be consumed")
	}
	// the limit reader of the payload is built on the wire length
	var limits []ssa.CallInstruction
	for _, g := range nxRegion(fn) {
		limits = append(limits, core.Calls(g, "io.LimitReader")...)
	}
	for _, call := range limits {
		n := call.Common().Args[1]
		if k, ok := nxConstInt(n); ok {
			c.Check("v2-length-read", "parseVersion2:length-width", call.Pos(), k == 2, fmt.Sprintf("the length field is read through a %d-byte window, the specification says 2 bytes", k))
			continue
		}
		c.Check("v2-drain", "parseVersion2:payload-window", call.Pos(), c46fromLen(n, cells), "payload LimitReader is not bounded by the wire length: "+core.Render(n))
	}
	// Header field stores
	want := map[string]string{"SourceAddress": "Src", "DestinationAddress": "Dst", "SourcePort": "SrcPort", "DestinationPort": "DstPort"}
	nflow := 0
	for _, in := range nxRegionInstrs(fn) {
		st, ok := in.(*ssa.Store)
		if !ok {
			continue
		}
		fa, ok := st.Addr.(*ssa.FieldAddr)
		if !ok {
			continue
		}
		fld := core.FieldObj(fa.X, fa.Field)
		if fld == nil || want[fld.Name()] == "" || core.TypeStr(fa.X.Type()) != "*"+c46pkg+".Header" {
			continue
		}
		src, root := c46wireField(st.Val)
		rootName := "?"
		okRead := false
		if root != nil {
			rootName = core.TypeStr(root.Type().Underlying().(*types.Pointer).Elem())
			// the struct was filled by a binary.Read whose error is tested
			for _, call := range core.Calls(st.Parent(), "encoding/binary.Read") {
				if a, ok := core.StripConv(call.Common().Args[2]).(*ssa.Alloc); ok && a == root {
					if v, ok := call.(ssa.Value); ok && nxGuardNilErr(st.Block(), v) && c46fromLen(call.Common().Args[0], cells) {
						okRead = true
					}
				}
			}
		}
		nflow++
		key := "parseVersion2:" + fld.Name() + "@" + strings.TrimPrefix(rootName, c46pkg+".")
		c.Check("v2-field-flow", key, st.Pos(), src == want[fld.Name()],
			"Header."+fld.Name()+" is filled from wire field "+src+", expected "+want[fld.Name()])
		c.Check("v2-field-read", key, st.Pos(), okRead,
			"Header."+fld.Name()+" is filled from a struct that was not read by a checked binary.Read from the length-limited payload reader")
	}
	c.Min("v2-field-flow", 8)

	// validateLength
	if vl := nxFuncOrMissing(c, c46pkg, "Header.validateLength"); vl != nil {
		pair := map[string]string{"IsIPv4": "lengthV4", "IsIPv6": "lengthV6", "IsUnix": "lengthUnix"}
		seen := map[string]bool{}
		for _, r := range core.Returns(vl) {
			v := r.Results[0]
			if k, ok := v.(*ssa.Const); ok {
				c.Check("v2-min-length", "validateLength:default", r.Pos(), k.Value != nil && k.Value.ExactString() == "false", "validateLength accepts a length for an unknown family")
				continue
			}
			pred := ""
			for _, g := range core.GuardsAt(r.Block()) {
				if call, _ := nxCallResult(g.Cond); call != nil && g.Pol {
					if sc := call.Call.StaticCallee(); sc != nil && pair[sc.Name()] != "" {
						pred = sc.Name()
						break
					}
				}
			}
			bo, ok := v.(*ssa.BinOp)
			okCmp := false
			glob := "?"
			if ok {
				x, y, op := bo.X, bo.Y, bo.Op
				if _, isParam := x.(*ssa.Parameter); !isParam {
					x, y = y, x
					if op == token.GEQ {
						op = token.LEQ + 1000 // never matches
					} else if op == token.LEQ {
						op = token.GEQ
					}
				}
				if u, ok := y.(*ssa.UnOp); ok {
					if g, ok := u.X.(*ssa.Global); ok {
						glob = g.Name()
					}
				}
				_, isParam := x.(*ssa.Parameter)
				okCmp = isParam && op == token.GEQ && pred != "" && glob == pair[pred]
			}
			seen[pred] = true
			c.Check("v2-min-length", "validateLength:"+pred, r.Pos(), okCmp,
				"under "+pred+" validateLength returns "+core.Render(v)+"; the specification requires length >= "+pair[pred]+" (exactly the address block is valid, more is TLV/padding)")
		}
		for p := range pair {
			if !seen[p] {
				c.Check("v2-min-length", "validateLength:"+p, vl.Pos(), false, "no return of validateLength is controlled by "+p)
			}
		}
	}
}

func c46hasLookupGuard(b *ssa.BasicBlock, global string) bool {
	return nxHolds(b, func(g core.Guard) bool {
		ex, ok := g.Cond.(*ssa.Extract)
		if !ok || ex.Index != 1 || !g.Pol {
			return false
		}
		lk, ok := ex.Tuple.(*ssa.Lookup)
		if !ok {
			return false
		}
		u, ok := lk.X.(*ssa.UnOp)
		if !ok {
			return false
		}
		gl, ok := u.X.(*ssa.Global)
		return ok && gl.Name() == global
	})
}

// c46wireField: the innermost struct field a stored value is taken from and
// the local struct it belongs to ("Src" of addr for addr.Src[:]).
func c46wireField(v ssa.Value) (string, *ssa.Alloc) {
	v = core.StripConv(v)
	if sl, ok := v.(*ssa.Slice); ok {
		v = sl.X
	}
	if u, ok := v.(*ssa.UnOp); ok && u.Op == token.MUL {
		v = u.X
	}
	fa, ok := v.(*ssa.FieldAddr)
	if !ok {
		return core.Render(v), nil
	}
	name := "?"
	if f := core.FieldObj(fa.X, fa.Field); f != nil {
		name = f.Name()
	}
	root := fa.X
	for {
		if inner, ok := root.(*ssa.FieldAddr); ok {
			root = inner.X
			continue
		}
		break
	}
	a, _ := root.(*ssa.Alloc)
	return name, a
}

// ---------------------------------------------------------------- tables

type c46flat struct {
	name string
	size int64
}

func c46flatten(t types.Type, out *[]c46flat, name string) {
	switch u := t.Underlying().(type) {
	case *types.Struct:
		for i := 0; i < u.NumFields(); i++ {
			c46flatten(u.Field(i).Type(), out, u.Field(i).Name())
		}
	case *types.Array:
		if b, ok := u.Elem().Underlying().(*types.Basic); ok && b.Kind() == types.Uint8 {
			*out = append(*out, c46flat{name, u.Len()})
		} else {
			*out = append(*out, c46flat{name, -1})
		}
	case *types.Basic:
		sz := int64(-1)
		switch u.Kind() {
		case types.Uint8, types.Int8:
			sz = 1
		case types.Uint16, types.Int16:
			sz = 2
		case types.Uint32, types.Int32:
			sz = 4
		}
		*out = append(*out, c46flat{name, sz})
	default:
		*out = append(*out, c46flat{name, -1})
	}
}

func c46tables(c *core.Ctx) {
	// minimum lengths (specification 2.2: 12, 36, 216)
	spec := []struct {
		name string
		val  int64
	}{{"lengthV4", 12}, {"lengthV6", 36}, {"lengthUnix", 216}}
	for _, s := range spec {
		v, ok := nxGlobalInit(c, c46pkg, s.name)
		c.CheckAt("v2-family-length", s.name, "bfe_proxy/v2.go", ok && v == s.val,
			fmt.Sprintf("%s is initialised to %d (resolved=%v); the specification's address block for this family is %d bytes, so a conformant header with len=%d is rejected by validateLength", s.name, v, ok, s.val, s.val))
	}
	// wire layouts
	layouts := []struct {
		typ   string
		sizes []c46flat
		glob  string
	}{
		{"_addr4", []c46flat{{"Src", 4}, {"Dst", 4}, {"SrcPort", 2}, {"DstPort", 2}}, "lengthV4"},
		{"_addr6", []c46flat{{"Src", 16}, {"Dst", 16}, {"SrcPort", 2}, {"DstPort", 2}}, "lengthV6"},
	}
	for _, l := range layouts {
		tn, ok := c.P.Obj(c46pkg, l.typ).(*types.TypeName)
		if !ok {
			c.Missing(c46pkg + "." + l.typ)
			continue
		}
		var got []c46flat
		c46flatten(tn.Type(), &got, "")
		same := len(got) == len(l.sizes)
		total := int64(0)
		for i := range got {
			total += got[i].size
			if same && got[i] != l.sizes[i] {
				same = false
			}
		}
		min, _ := nxGlobalInit(c, c46pkg, l.glob)
		c.CheckAt("v2-layout", l.typ, "bfe_proxy/v2.go", same && total == min,
			fmt.Sprintf("wire layout of %s is %v (total %d, %s=%d); the specification orders src addr, dst addr, src port, dst port", l.typ, got, total, l.glob, min))
	}
	// predicates: value == receiver & mask
	preds := []struct {
		fn        string
		val, mask int64
	}{
		{"AddressFamilyAndProtocol.IsIPv4", 0x10, 0xF0}, {"AddressFamilyAndProtocol.IsIPv6", 0x20, 0xF0}, {"AddressFamilyAndProtocol.IsUnix", 0x30, 0xF0},
		{"AddressFamilyAndProtocol.IsStream", 0x01, 0x0F}, {"AddressFamilyAndProtocol.IsDatagram", 0x02, 0x0F},
	}
	for _, p := range preds {
		fn := nxFuncOrMissing(c, c46pkg, p.fn)
		if fn == nil {
			continue
		}
		ok := false
		if rs := core.Returns(fn); len(rs) == 1 {
			ok = c46maskEq(rs[0].Results[0], p.val, p.mask)
		}
		c.Check("v2-predicate", p.fn, fn.Pos(), ok, fmt.Sprintf("%s is not `recv & %#x == %#x`", p.fn, p.mask, p.val))
	}
	// IsLocal / IsProxy: version nibble 2 and command nibble 0 / 1
	for _, p := range []struct {
		fn  string
		cmd int64
	}{{"ProtocolVersionAndCommand.IsLocal", 0}, {"ProtocolVersionAndCommand.IsProxy", 1}} {
		fn := nxFuncOrMissing(c, c46pkg, p.fn)
		if fn == nil {
			continue
		}
		// shape: if (recv&0xF0 == 0x20) then (recv&0x0F == cmd) else false
		var conds []ssa.Value
		for _, in := range allInstrs(fn) {
			if bo, ok := in.(*ssa.BinOp); ok && (bo.Op == token.EQL) {
				conds = append(conds, bo)
			}
		}
		hasVer, hasCmd := false, false
		for _, cd := range conds {
			if c46maskEq(cd, 0x20, 0xF0) {
				hasVer = true
			}
			if c46maskEq(cd, p.cmd, 0x0F) {
				hasCmd = true
			}
		}
		c.Check("v2-predicate", p.fn, fn.Pos(), hasVer && hasCmd && len(conds) == 2, fmt.Sprintf("%s does not test version nibble 0x2 and command nibble %#x", p.fn, p.cmd))
	}
	// network names used for address resolution
	if fn := nxFuncOrMissing(c, c46pkg, "AddressFamilyAndProtocol.String"); fn != nil {
		for _, w := range []struct{ s, fam string }{{"tcp4", "IsIPv4"}, {"tcp6", "IsIPv6"}} {
			found := false
			for _, r := range core.Returns(fn) {
				if s, ok := core.ConstString(r.Results[0]); ok && s == w.s {
					fam, stream := false, false
					for _, g := range core.GuardsAt(r.Block()) {
						if call, _ := nxCallResult(g.Cond); call != nil && g.Pol {
							if sc := call.Call.StaticCallee(); sc != nil {
								fam = fam || sc.Name() == w.fam
								stream = stream || sc.Name() == "IsStream"
							}
						}
					}
					found = fam && stream
				}
			}
			c.Check("v2-predicate", "AddressFamilyAndProtocol.String:"+w.s, fn.Pos(), found, "String() does not return \""+w.s+"\" under "+w.fam+" && IsStream: ResolveTCPAddr would get the wrong network")
		}
	}
	// signatures
	for _, s := range []struct {
		name string
		want string
	}{{"SIGV1", "PROXY"}, {"SIGV2", "\r\n\r\n\x00\r\nQUIT\n"}} {
		b, ok := nxGlobalBytes(c, c46pkg, s.name)
		c.CheckAt("sig-bytes", s.name, "bfe_proxy/header.go", ok && string(b) == s.want, fmt.Sprintf("%s = %q, the specification's signature is %q", s.name, b, s.want))
	}
}

// c46maskEq: v is (x & mask) == val in either operand order.
func c46maskEq(v ssa.Value, val, mask int64) bool {
	bo, ok := v.(*ssa.BinOp)
	if !ok || bo.Op != token.EQL {
		return false
	}
	for _, pair := range [][2]ssa.Value{{bo.X, bo.Y}, {bo.Y, bo.X}} {
		k, ok := nxConstInt(pair[0])
		if !ok || k != val {
			continue
		}
		and, ok := core.StripConv(pair[1]).(*ssa.BinOp)
		if !ok || and.Op != token.AND {
			continue
		}
		for _, p2 := range [][2]ssa.Value{{and.X, and.Y}, {and.Y, and.X}} {
			if m, ok := nxConstInt(p2[0]); ok && m == mask {
				if _, isParam := core.StripConv(p2[1]).(*ssa.Parameter); isParam {
					return true
				}
			}
		}
	}
	return false
}

// ---------------------------------------------------------------- dispatch

// c46sigOf: v is SIGV1/SIGV2 or a slice of it; returns the global's name and the slice bound (-1 = whole).
func c46sigOf(v ssa.Value) (string, int64) {
	hi := int64(-1)
	if sl, ok := v.(*ssa.Slice); ok {
		if sl.Low != nil {
			return "", 0
		}
		if sl.High != nil {
			k, ok := nxConstInt(sl.High)
			if !ok {
				return "", 0
			}
			hi = k
		}
		v = sl.X
	}
	u, ok := v.(*ssa.UnOp)
	if !ok || u.Op != token.MUL {
		return "", 0
	}
	g, ok := u.X.(*ssa.Global)
	if !ok || (g.Name() != "SIGV1" && g.Name() != "SIGV2") {
		return "", 0
	}
	return g.Name(), hi
}

// c46equalCall decodes bytes.Equal(peeked[:n], SIG[:m]).
type c46cmp struct {
	sig     string
	sigLen  int64 // bytes of the signature compared (-1 whole)
	peekN   int64 // argument of the Peek the other operand comes from
	peekLen int64 // slice bound of the peeked operand
	prefix  bool  // bytes.HasPrefix(peeked, SIG)
	ok      bool
}

func c46decodeEqual(v ssa.Value) c46cmp {
	call, _ := nxCallResult(v)
	if call == nil || !core.CallIs(&call.Call, "bytes.Equal", "bytes.HasPrefix") || len(call.Call.Args) != 2 {
		return c46cmp{}
	}
	prefix := core.CallIs(&call.Call, "bytes.HasPrefix")
	orders := [][2]ssa.Value{{call.Call.Args[0], call.Call.Args[1]}, {call.Call.Args[1], call.Call.Args[0]}}
	if prefix {
		orders = orders[:1] // HasPrefix(peeked, SIG) only
	}
	for _, pr := range orders {
		sig, n := c46sigOf(pr[1])
		if sig == "" {
			continue
		}
		out := c46cmp{sig: sig, sigLen: n, peekLen: -1, ok: true}
		o := pr[0]
		if sl, ok := o.(*ssa.Slice); ok {
			if sl.Low != nil {
				return c46cmp{}
			}
			if sl.High != nil {
				k, ok := nxConstInt(sl.High)
				if !ok {
					return c46cmp{}
				}
				out.peekLen = k
			}
			o = sl.X
		}
		pc, i := nxCallResult(o)
		if pc == nil || i != 0 || !core.CallIs(&pc.Call, "bfe_bufio.Reader.Peek") {
			return c46cmp{}
		}
		k, ok := nxConstInt(pc.Call.Args[1])
		if !ok {
			return c46cmp{}
		}
		out.peekN = k
		if out.peekLen == -1 {
			out.peekLen = k // the whole peeked slice
		}
		if prefix && out.sigLen == -1 && out.peekLen > 0 {
			// HasPrefix compares exactly len(SIG) bytes when enough were peeked
			out.prefix = true
		}
		return out
	}
	return c46cmp{}
}

// c46decodeGuard decodes a guard that compares peeked bytes with a signature:
// bytes.Equal/HasPrefix of slices, or a comparison of one peeked byte with the
// signature byte at the same index (a mismatch of any byte is a mismatch of
// the signature; a match of one byte is a match of a 1-byte prefix at most).
// equal tells which outcome the guard establishes.
func c46decodeGuard(g core.Guard) (d c46cmp, equal bool) {
	if d = c46decodeEqual(g.Cond); d.ok {
		return d, g.Pol
	}
	op, x, y, ok := g.Cmp()
	if !ok || (op != token.EQL && op != token.NEQ) {
		return c46cmp{}, false
	}
	byteAt := func(v ssa.Value) (base ssa.Value, idx int64, ok bool) {
		u, isU := core.StripConv(v).(*ssa.UnOp)
		if !isU || u.Op != token.MUL {
			return nil, 0, false
		}
		ia, isIa := u.X.(*ssa.IndexAddr)
		if !isIa {
			return nil, 0, false
		}
		k, isK := nxConstInt(ia.Index)
		return ia.X, k, isK
	}
	for _, pr := range [][2]ssa.Value{{x, y}, {y, x}} {
		sb, si, ok1 := byteAt(pr[1])
		pb, pi, ok2 := byteAt(pr[0])
		if !ok1 || !ok2 || si != pi || si < 0 {
			continue
		}
		sig, _ := c46sigOf(sb)
		if sig == "" {
			continue
		}
		if sl, isSl := pb.(*ssa.Slice); isSl && sl.Low == nil {
			pb = sl.X
		}
		pc, ri := nxCallResult(pb)
		if pc == nil || ri != 0 || !core.CallIs(&pc.Call, "bfe_bufio.Reader.Peek") {
			continue
		}
		n, isK := nxConstInt(pc.Call.Args[1])
		if !isK || pi >= n {
			continue
		}
		d = c46cmp{sig: sig, sigLen: 0, peekN: n, peekLen: 0, ok: true}
		if si == 0 {
			d.sigLen, d.peekLen = 1, 1
		}
		return d, op == token.EQL
	}
	return c46cmp{}, false
}

func c46dispatch(c *core.Ctx) {
	fn := nxFuncOrMissing(c, c46pkg, "Read")
	if fn == nil {
		return
	}
	sigLen := map[string]int64{}
	for _, s := range []string{"SIGV1", "SIGV2"} {
		if b, ok := nxGlobalBytes(c, c46pkg, s); ok {
			sigLen[s] = int64(len(b))
		}
	}
	reader := fn.Params[0]
	ords := nxOrdinals(fn)
	// (1) the reader is only peeked, or handed to the version parsers
	for _, in := range allInstrs(fn) {
		call, ok := in.(ssa.CallInstruction)
		if !ok {
			continue
		}
		cc := call.Common()
		uses := false
		for _, a := range cc.Args {
			if core.StripConv(a) == reader {
				uses = true
			}
		}
		if cc.IsInvoke() && core.StripConv(cc.Value) == reader {
			uses = true
		}
		if !uses {
			continue
		}
		ok2 := core.CallIs(cc, "bfe_bufio.Reader.Peek", "bfe_bufio.Reader.Buffered", c46pkg+".parseVersion1", c46pkg+".parseVersion2")
		c.Check("peek-only", "Read:"+ords[in], in.Pos(), ok2,
			"Read uses the connection's reader through "+core.CalleeKey(cc)+" before a signature matched: only Peek may touch a stream that may not carry a PROXY header (pass-through untouched)")
	}
	c.Min("peek-only", 5)
	// (2) parser calls are guarded by the full-length comparison of the right signature
	for _, w := range []struct{ parser, sig string }{{"parseVersion1", "SIGV1"}, {"parseVersion2", "SIGV2"}} {
		calls := core.Calls(fn, c46pkg+"."+w.parser)
		if len(calls) == 0 {
			c.Check("sig-compare", "Read:"+w.parser, fn.Pos(), false, "Read never calls "+w.parser+": headers of this version are not recognised")
			continue
		}
		for i, call := range calls {
			in := call.(ssa.Instruction)
			detail := ""
			ok := nxHolds(in.Block(), func(g core.Guard) bool {
				d := c46decodeEqual(g.Cond)
				if !d.ok || !g.Pol || d.sig != w.sig {
					return false
				}
				full := sigLen[w.sig]
				detail = fmt.Sprintf("compares %d peeked bytes (Peek(%d)) with %s[:%d]", d.peekLen, d.peekN, d.sig, d.sigLen)
				if d.prefix {
					return full > 0 && d.peekLen >= full && d.peekN >= full
				}
				return full > 0 && (d.sigLen == -1 || d.sigLen == full) && d.peekLen == full && d.peekN >= full
			})
			c.Check("sig-compare", fmt.Sprintf("Read:%s#%d", w.parser, i), in.Pos(), ok,
				w.parser+" must be called only when the first len("+w.sig+") peeked bytes equal "+w.sig+"; "+detail+"; guards: "+nxGuardList(in.Block()))
		}
	}
	// (3) ErrNoProxyProtocol only after both signatures compared unequal
	n := 0
	for _, r := range core.Returns(fn) {
		rv := core.RetVals(r)
		u, ok := rv[1].(*ssa.UnOp)
		if !ok {
			continue
		}
		g, ok := u.X.(*ssa.Global)
		if !ok || g.Name() != "ErrNoProxyProtocol" {
			continue
		}
		neg := map[string]bool{}
		for _, sig := range []string{"SIGV1", "SIGV2"} {
			sig := sig
			neg[sig] = nxHolds(r.Block(), func(gd core.Guard) bool {
				d, equal := c46decodeGuard(gd)
				return d.ok && !equal && d.sig == sig
			})
		}
		c.Check("noproxy-return", fmt.Sprintf("Read:return#%d", n), r.Pos(), neg["SIGV1"] && neg["SIGV2"],
			"Read reports `no PROXY header` although not both signatures were compared unequal on the way: a stream starting like a header would be passed to the application with the header in it; guards: "+nxGuardList(r.Block()))
		n++
	}
	c.Min("noproxy-return", 2)
	// (4) a success of Read is a success of a parser
	for _, r := range core.Returns(fn) {
		rv := core.RetVals(r)
		if isNilConst(rv[0]) {
			continue
		}
		call, i := nxCallResult(rv[0])
		ecall, j := nxCallResult(rv[1])
		ok := call != nil && call == ecall && i == 0 && j == 1 && core.CallIs(&call.Call, c46pkg+".parseVersion1", c46pkg+".parseVersion2")
		name := "?"
		if call != nil && call.Call.StaticCallee() != nil {
			name = call.Call.StaticCallee().Name()
		}
		c.Check("sig-compare", "Read:header-origin@"+name, r.Pos(), ok, "Read returns a header that is not the (header, err) pair of a version parser")
	}
}

// ---------------------------------------------------------------- v1 parser

func c46v1(c *core.Ctx) {
	fn := nxFuncOrMissing(c, c46pkg, "parseVersion1")
	if fn != nil {
		succ := nxSuccessReturns(fn, 1)
		var okRets []*ssa.Return
		for _, r := range succ {
			if !isNilConst(core.RetVals(r)[0]) {
				okRets = append(okRets, r)
			}
		}
		c.Check("v1-validated", "parseVersion1:success-returns", fn.Pos(), len(okRets) >= 1, "no success return found in parseVersion1")
		validators := append(core.Calls(fn, c46pkg+".parseV1IPAddress"), core.Calls(fn, c46pkg+".parseV1PortNumber")...)
		ords := nxOrdinals(fn)
		sixTokens := func(b *ssa.BasicBlock) bool {
			return nxHolds(b, func(g core.Guard) bool {
				lb, ok := nxLower(g.Cond, g.Pol, func(x ssa.Value) bool {
					arg, isLen := nxIsLen(x)
					if !isLen {
						return false
					}
					call, _ := nxCallResult(arg)
					return call != nil && core.CallIs(&call.Call, "strings.Split", "strings.Fields", "strings.SplitN")
				})
				return ok && lb >= 6
			})
		}
		// an arm for the UNKNOWN protocol (addresses to be ignored): guarded by token == "UNKNOWN"
		unknownArm := func(b *ssa.BasicBlock) bool {
			return nxHolds(b, func(g core.Guard) bool {
				bo, ok := g.Cond.(*ssa.BinOp)
				if !ok || !((bo.Op == token.EQL && g.Pol) || (bo.Op == token.NEQ && !g.Pol)) {
					return false
				}
				for _, o := range []ssa.Value{bo.X, bo.Y} {
					if s, ok := core.ConstString(o); ok && s == "UNKNOWN" {
						return true
					}
				}
				return false
			})
		}
		short := false
		nfull := 0
		for _, r := range okRets {
			if !sixTokens(r.Block()) {
				short = true
			}
		}
		c.Check("v1-unknown-short", "parseVersion1", fn.Pos(), short,
			"every success return of parseVersion1 lies behind the test len(tokens) >= 6: the header `PROXY UNKNOWN\\r\\n` (specification 2.1: for UNKNOWN the rest of the line may be omitted and must be ignored) is rejected and the connection closed")
		for _, r := range okRets {
			if unknownArm(r.Block()) {
				continue
			}
			sfx := ""
			if nfull > 0 {
				sfx = fmt.Sprintf("@return#%d", nfull)
			}
			nfull++
			for _, call := range validators {
				in := call.(ssa.Instruction)
				v, isCall := call.(*ssa.Call)
				if !isCall || v.Referrers() == nil {
					c.Check("v1-validated", "parseVersion1:"+ords[in]+sfx, in.Pos(), false, "validator is not called as a plain call")
					continue
				}
				var errv ssa.Value
				for _, ref := range *v.Referrers() {
					if ex, ok := ref.(*ssa.Extract); ok && ex.Index == 1 {
						errv = ex
					}
				}
				ok := errv != nil && nxGuardNilErr(r.Block(), errv)
				if !ok && !in.Block().Dominates(r.Block()) {
					// a validator not on the way to this return
					ok = core.ReachAvoiding(fn, in, nil, func(x ssa.Instruction) bool { return x == r }) == nil
				}
				c.Check("v1-validated", "parseVersion1:"+ords[in]+sfx, in.Pos(), ok,
					"parseVersion1 can return success although the error of "+ords[in]+" was not tested to be nil: a malformed address/port is accepted")
			}
			// CRLF and token count
			crlf := nxHolds(r.Block(), func(g core.Guard) bool {
				call, _ := nxCallResult(g.Cond)
				if call == nil || !g.Pol || !core.CallIs(&call.Call, "strings.HasSuffix") {
					return false
				}
				s, ok := core.ConstString(call.Call.Args[1])
				return ok && s == "\r\n"
			})
			c.Check("v1-validated", "parseVersion1:crlf"+sfx, r.Pos(), crlf, "success return not guarded by strings.HasSuffix(line, \"\\r\\n\")")
			c.Check("v1-validated", "parseVersion1:token-count"+sfx, r.Pos(), sixTokens(r.Block()), "success return (not in an UNKNOWN arm) not guarded by a test that the line has at least 6 tokens (PROXY proto src dst sport dport): tokens[5] may be out of range")
		}
		// the CRLF test applies to every success, including UNKNOWN
		for i, r := range okRets {
			if !unknownArm(r.Block()) {
				continue
			}
			crlf := nxHolds(r.Block(), func(g core.Guard) bool {
				call, _ := nxCallResult(g.Cond)
				if call == nil || !g.Pol || !core.CallIs(&call.Call, "strings.HasSuffix") {
					return false
				}
				s, ok := core.ConstString(call.Call.Args[1])
				return ok && s == "\r\n"
			})
			c.Check("v1-validated", fmt.Sprintf("parseVersion1:crlf@unknown#%d", i), r.Pos(), crlf, "UNKNOWN success return not guarded by the CRLF test")
		}
		c.Min("v1-validated", 7)
		// field <- token index
		wantIdx := map[string]int64{"SourceAddress": 2, "DestinationAddress": 3, "SourcePort": 4, "DestinationPort": 5}
		wantFn := map[string]string{"SourceAddress": "parseV1IPAddress", "DestinationAddress": "parseV1IPAddress", "SourcePort": "parseV1PortNumber", "DestinationPort": "parseV1PortNumber"}
		for _, in := range allInstrs(fn) {
			st, ok := in.(*ssa.Store)
			if !ok {
				continue
			}
			fa, ok := st.Addr.(*ssa.FieldAddr)
			if !ok {
				continue
			}
			fld := core.FieldObj(fa.X, fa.Field)
			if fld == nil || core.TypeStr(fa.X.Type()) != "*"+c46pkg+".Header" {
				continue
			}
			if idx, ok := wantIdx[fld.Name()]; ok {
				call, i := nxCallResult(st.Val)
				good := false
				got := core.Render(st.Val)
				if call != nil && i == 0 && core.CallIs(&call.Call, c46pkg+"."+wantFn[fld.Name()]) {
					arg := call.Call.Args[len(call.Call.Args)-1]
					if u, ok := arg.(*ssa.UnOp); ok {
						if ia, ok := u.X.(*ssa.IndexAddr); ok {
							if k, ok := nxConstInt(ia.Index); ok {
								got = fmt.Sprintf("token[%d]", k)
								good = k == idx
							}
						}
					}
				}
				c.Check("v1-token-flow", "parseVersion1:"+fld.Name(), st.Pos(), good,
					fmt.Sprintf("Header.%s is parsed from %s; the v1 line is `PROXY proto src dst sport dport`, expected %s(token[%d])", fld.Name(), got, wantFn[fld.Name()], idx))
			}
			if fld.Name() == "TransportProtocol" {
				k, isK := nxConstInt(st.Val)
				if !isK {
					c.Check("v1-proto-map", "parseVersion1:TransportProtocol:dynamic", st.Pos(), false, "TransportProtocol is set from a non-constant in the v1 parser")
					continue
				}
				tok := ""
				for _, g := range core.GuardsAt(st.Block()) {
					if bo, ok := g.Cond.(*ssa.BinOp); ok && bo.Op == token.EQL && g.Pol {
						for _, o := range []ssa.Value{bo.X, bo.Y} {
							if s, ok := core.ConstString(o); ok {
								tok = s
							}
						}
					}
					if tok != "" {
						break
					}
				}
				want := map[int64]string{0x11: "TCP4", 0x21: "TCP6", 0x00: ""}
				w, known := want[k]
				if k == 0 && tok == "UNKNOWN" {
					w = tok
				}
				c.Check("v1-proto-map", fmt.Sprintf("parseVersion1:TransportProtocol=%#x", k), st.Pos(), known && w == tok,
					fmt.Sprintf("TransportProtocol %#x is chosen under token %q; the specification maps TCP4->0x11, TCP6->0x21", k, tok))
			}
		}
		c.Min("v1-token-flow", 4)
		c.Min("v1-proto-map", 3)
	}
	// port range
	if pf := nxFuncOrMissing(c, c46pkg, "parseV1PortNumber"); pf != nil {
		n := 0
		for _, in := range allInstrs(pf) {
			cv, ok := in.(*ssa.Convert)
			if !ok {
				continue
			}
			to, ok1 := cv.Type().Underlying().(*types.Basic)
			from, ok2 := cv.X.Type().Underlying().(*types.Basic)
			if !ok1 || !ok2 || to.Kind() != types.Uint16 || from.Info()&types.IsInteger == 0 || from.Kind() == types.Uint16 || from.Kind() == types.Uint8 {
				continue
			}
			bad := ""
			paths := 0
			complete := nxEnumPaths(pf.Blocks[0], nil, 2, 2000, nil, func(p *core.Path) {
				if !p.Has(func(x ssa.Instruction) bool { return x == in }) {
					return
				}
				ret, ok := p.Last().(*ssa.Return)
				if !ok || len(ret.Results) < 2 {
					return
				}
				paths++
				errv := nxPathVal(p, ret.Results[1])
				// error path?
				if u, ok := errv.(*ssa.UnOp); ok {
					if _, ok := u.X.(*ssa.Global); ok {
						return
					}
				}
				lo, hi := false, false
				p.Edges(func(cond ssa.Value, taken bool) {
					same := func(x ssa.Value) bool { return x == cv.X }
					if lb, ok := nxLower(cond, taken, same); ok && lb >= 0 {
						lo = true
					}
					if ub, ok := nxUpper(cond, taken, same); ok && ub <= 65535 {
						hi = true
					}
				})
				if (!lo || !hi) && bad == "" {
					bad = fmt.Sprintf("lower-bound=%v upper-bound=%v on path {%s}", lo, hi, pathSig(p))
				}
			})
			c.Check("v1-port-range", fmt.Sprintf("parseV1PortNumber:narrow#%d", n), in.Pos(), complete && bad == "" && paths > 0,
				"a path returns a nil error with the port narrowed to uint16 without 0 <= value <= 65535 having been established: "+bad)
			n++
		}
		// using ParseUint(..., 16) instead would leave no narrowing; then require that form
		if n == 0 {
			ok := false
			for _, call := range core.Calls(pf, "strconv.ParseUint") {
				if k, isK := nxConstInt(call.Common().Args[2]); isK && k == 16 {
					ok = true
				}
			}
			c.Check("v1-port-range", "parseV1PortNumber:narrow#0", pf.Pos(), ok, "no range-checked narrowing and no strconv.ParseUint(s, 10, 16) found")
		}
	}
	// ParseIP failure => error, for TCP4 and TCP6
	if af := nxFuncOrMissing(c, c46pkg, "parseV1IPAddress"); af != nil && len(af.Params) == 2 {
		var parsed ssa.Value
		for _, call := range core.Calls(af, "net.ParseIP") {
			parsed, _ = call.(ssa.Value)
		}
		if parsed == nil {
			c.Check("v1-addr-nil", "parseV1IPAddress:ParseIP", af.Pos(), false, "parseV1IPAddress does not call net.ParseIP")
		} else {
			nilDerived := func(v ssa.Value) bool {
				for i := 0; i < 4; i++ {
					v = core.StripConv(v)
					if v == parsed {
						return true
					}
					call, ok := v.(*ssa.Call)
					if !ok || !core.CallIs(&call.Call, "net.IP.To4", "net.IP.To16") {
						return false
					}
					v = call.Call.Args[0]
				}
				return false
			}
			for _, fam := range []struct {
				name string
				val  int64
			}{{"TCPv4", 0x11}, {"TCPv6", 0x21}} {
				assume := func(cond ssa.Value) (bool, bool) {
					bo, ok := cond.(*ssa.BinOp)
					if !ok || (bo.Op != token.EQL && bo.Op != token.NEQ) {
						return false, false
					}
					for _, pr := range [][2]ssa.Value{{bo.X, bo.Y}, {bo.Y, bo.X}} {
						if nilDerived(pr[0]) && isNilConst(pr[1]) {
							return bo.Op == token.EQL, true
						}
						if core.StripConv(pr[0]) == af.Params[0] {
							if k, ok := nxConstInt(pr[1]); ok {
								return (k == fam.val) == (bo.Op == token.EQL), true
							}
						}
						if arg, isLen := nxIsLen(pr[0]); isLen && nilDerived(arg) {
							if k, ok := nxConstInt(pr[1]); ok {
								return (k == 0) == (bo.Op == token.EQL), true
							}
						}
					}
					return false, false
				}
				bad := ""
				paths := 0
				complete := nxEnumPaths(af.Blocks[0], nil, 2, 2000, assume, func(p *core.Path) {
					ret, ok := p.Last().(*ssa.Return)
					if !ok || len(ret.Results) < 2 {
						return
					}
					paths++
					if isNilConst(nxPathVal(p, core.RetVals(ret)[1])) && bad == "" {
						bad = pathSig(p)
					}
				})
				c.Check("v1-addr-nil", "parseV1IPAddress:"+fam.name, af.Pos(), complete && paths > 0 && bad == "",
					"with protocol="+fam.name+" and net.ParseIP(addr) == nil a path returns a nil error: the malformed address is accepted (Header address nil); branches taken: "+bad)
			}
		}
	}
}

// ---------------------------------------------------------------- Conn

func c46conn(c *core.Ctx) {
	fHdrErr := nxFieldVar(c, c46pkg, "Conn.headerErr")
	fSrc := nxFieldVar(c, c46pkg, "Conn.srcAddr")
	fDst := nxFieldVar(c, c46pkg, "Conn.dstAddr")
	fBuf := nxFieldVar(c, c46pkg, "Conn.bufReader")
	fLmt := nxFieldVar(c, c46pkg, "Conn.lmtReader")
	fConn := nxFieldVar(c, c46pkg, "Conn.conn")
	chk := nxFuncOrMissing(c, c46pkg, "Conn.checkProxyHeader")
	if fHdrErr == nil || fSrc == nil || fDst == nil || fBuf == nil || fLmt == nil || fConn == nil || chk == nil {
		return
	}
	const chkKey = c46pkg + ".Conn.checkProxyHeader"
	ords := nxOrdinals(chk)
	isHdrErrStore := func(in ssa.Instruction) bool {
		st, ok := in.(*ssa.Store)
		return ok && nxIsFieldAddr(st.Addr, fHdrErr) && !isNilConst(st.Val)
	}
	isClose := func(in ssa.Instruction) bool {
		if nxIsCall(in, c46pkg+".Conn.Close") {
			return true
		}
		call, ok := in.(ssa.CallInstruction)
		return ok && call.Common().IsInvoke() && call.Common().Method.Name() == "Close" && nxLoadsField(call.Common().Value, fConn)
	}
	nerr := 0
	for _, r := range core.Returns(chk) {
		rv := core.RetVals(r)
		if len(rv) != 1 || isNilConst(rv[0]) {
			continue
		}
		origin := core.Render(rv[0])
		if call, _ := nxCallResult(rv[0]); call != nil {
			origin = ords[call]
		}
		nerr++
		key := "checkProxyHeader:err@" + origin
		c.Check("hdr-err-sticky", key, r.Pos(), nxAllPathsPass(chk, r, isHdrErrStore),
			"checkProxyHeader returns the error of "+origin+" without recording it in p.headerErr: Conn.Read consults only headerErr, so the bytes already buffered behind the rejected header are still handed to the application (on a closed socket)")
		c.Check("hdr-err-close", key, r.Pos(), nxAllPathsPass(chk, r, isClose),
			"checkProxyHeader returns the error of "+origin+" without closing the connection")
		// the recorded error is the returned one
		for _, in := range allInstrs(chk) {
			if st, ok := in.(*ssa.Store); ok && isHdrErrStore(in) && st.Block() == r.Block() {
				c.Check("hdr-err-sticky", key+":value", st.Pos(), st.Val == rv[0], "p.headerErr is set to "+core.Render(st.Val)+", the function returns "+core.Render(rv[0]))
			}
		}
	}
	c.Min("hdr-err-sticky", 3)
	nkeep := 0
	// the ignored error is exactly ErrNoProxyProtocol, tested on Read's error
	for _, r := range core.Returns(chk) {
		rv := core.RetVals(r)
		if len(rv) != 1 || !isNilConst(rv[0]) {
			continue
		}
		// every nil return is either after both addresses were resolved or under err == ErrNoProxyProtocol
		noHdr := nxHolds(r.Block(), func(g core.Guard) bool {
			bo, ok := g.Cond.(*ssa.BinOp)
			if !ok || bo.Op != token.EQL || !g.Pol {
				return false
			}
			s := core.Render(bo.X) + "|" + core.Render(bo.Y)
			return strings.Contains(s, "ErrNoProxyProtocol") && strings.Contains(s, c46pkg+".Read(")
		})
		resolved := 0
		for _, call := range core.Calls(chk, "net.ResolveTCPAddr") {
			if v, ok := call.(*ssa.Call); ok {
				for _, ref := range *v.Referrers() {
					if ex, ok := ref.(*ssa.Extract); ok && ex.Index == 1 && nxGuardNilErr(r.Block(), ex) {
						resolved++
					}
				}
			}
		}
		kind := "resolved"
		if noHdr {
			kind = "no-header"
		}
		// LOCAL (v2) / UNKNOWN (v1) keep the socket's addresses
		keep := !noHdr && resolved < 2 && nxHolds(r.Block(), func(g core.Guard) bool {
			call, _ := nxCallResult(g.Cond)
			return call != nil && g.Pol && core.CallIs(&call.Call, c46pkg+".ProtocolVersionAndCommand.IsLocal", c46pkg+".AddressFamilyAndProtocol.IsUnspec")
		})
		if keep {
			kind = fmt.Sprintf("local#%d", nkeep)
			nkeep++
		}
		c.Check("hdr-ok-return", "checkProxyHeader:nil@"+kind, r.Pos(), noHdr || resolved >= 2 || keep,
			"checkProxyHeader reports success although neither `no PROXY header` was observed, nor both addresses were resolved without error, nor the header is LOCAL/UNSPEC; guards: "+nxGuardList(r.Block()))
	}
	c.Min("hdr-ok-return", 2)
	// the address block of a LOCAL header is to be ignored: no resolution of header addresses for LOCAL
	for i, call := range core.Calls(chk, "net.ResolveTCPAddr") {
		in := call.(ssa.Instruction)
		guarded := nxHolds(in.Block(), func(g core.Guard) bool {
			gc, _ := nxCallResult(g.Cond)
			if gc == nil {
				return false
			}
			return (!g.Pol && core.CallIs(&gc.Call, c46pkg+".ProtocolVersionAndCommand.IsLocal")) || (g.Pol && core.CallIs(&gc.Call, c46pkg+".ProtocolVersionAndCommand.IsProxy"))
		})
		c.Check("local-ignored", fmt.Sprintf("checkProxyHeader:ResolveTCPAddr#%d", i), in.Pos(), guarded,
			"the header's addresses are resolved without the command having been tested not to be LOCAL: for a v2 LOCAL header (addresses absent, family UNSPEC) ResolveTCPAddr(\"unspec\", \"<nil>:0\") fails and the connection is closed, whereas the specification says the receiver must use the real socket addresses and pass the data through")
	}
	c.Min("local-ignored", 2)

	// who may write the header state
	for _, w := range []struct {
		f     *types.Var
		allow map[string]bool
	}{
		{fHdrErr, map[string]bool{chkKey: true}}, {fSrc, map[string]bool{chkKey: true}}, {fDst, map[string]bool{chkKey: true}},
		{fBuf, map[string]bool{c46pkg + ".NewConn": true}}, {fLmt, map[string]bool{c46pkg + ".NewConn": true}},
	} {
		ws := nxWriters(c, w.f)
		ok := len(ws) > 0
		for _, k := range ws {
			if !w.allow[k] {
				ok = false
			}
		}
		c.Check("conn-writers", "Conn."+w.f.Name(), w.f.Pos(), ok, "Conn."+w.f.Name()+" is written by "+strings.Join(ws, ", ")+"; reviewed writers: checkProxyHeader (header state) / NewConn (readers)")
	}
	// srcAddr / dstAddr derive from the like-named header fields
	for _, w := range []struct {
		f          *types.Var
		need, deny string
	}{{fSrc, "Source", "Destination"}, {fDst, "Destination", "Source"}} {
		for i, st := range core.FieldStores([]*ssa.Function{chk}, w.f) {
			got := map[string]bool{}
			nxFlows(st.Store.Val, func(v ssa.Value) bool {
				if fa, ok := v.(*ssa.FieldAddr); ok {
					if f := core.FieldObj(fa.X, fa.Field); f != nil && core.TypeStr(fa.X.Type()) == "*"+c46pkg+".Header" {
						got[f.Name()] = true
					}
				}
				return false
			}, nil)
			call, ri := nxCallResult(st.Store.Val)
			ok := call != nil && ri == 0 && core.CallIs(&call.Call, "net.ResolveTCPAddr") && got[w.need+"Address"] && got[w.need+"Port"] && !got[w.deny+"Address"] && !got[w.deny+"Port"]
			var names []string
			for k := range got {
				names = append(names, k)
			}
			c.Check("addr-flow", fmt.Sprintf("checkProxyHeader:%s#%d", w.f.Name(), i), st.Store.Pos(), ok,
				fmt.Sprintf("Conn.%s must be the TCP address resolved from Header.%sAddress/%sPort; it derives from header fields %v", w.f.Name(), w.need, w.need, names))
		}
	}
	c.Min("addr-flow", 2)

	// deferred reset of limit and deadline, registered before the header is read
	var dfr *ssa.Defer
	for _, in := range allInstrs(chk) {
		if d, ok := in.(*ssa.Defer); ok && dfr == nil {
			dfr = d
		}
	}
	resetLimit, resetDeadline := false, false
	beforeRead := false
	if dfr != nil {
		var body []*ssa.Function
		if mc, ok := dfr.Call.Value.(*ssa.MakeClosure); ok {
			body = core.TransitiveCallees(mc.Fn.(*ssa.Function), 1)
		} else if sc := dfr.Call.StaticCallee(); sc != nil {
			body = core.TransitiveCallees(sc, 1)
		}
		for _, f := range body {
			for _, in := range allInstrs(f) {
				if st, ok := in.(*ssa.Store); ok {
					if fa, ok := st.Addr.(*ssa.FieldAddr); ok {
						if fld := core.FieldObj(fa.X, fa.Field); fld != nil && fld.Name() == "N" && core.TypeStr(fa.X.Type()) == "*io.LimitedReader" {
							if k, ok := nxConstInt(st.Val); ok && k >= 1<<62 {
								resetLimit = true
							}
						}
					}
				}
				if call, ok := in.(ssa.CallInstruction); ok && call.Common().IsInvoke() && call.Common().Method.Name() == "SetReadDeadline" {
					if k, ok := call.Common().Args[0].(*ssa.Const); ok && k.Value == nil {
						resetDeadline = true
					}
				}
			}
		}
		beforeRead = true
		for _, call := range core.Calls(chk, c46pkg+".Read") {
			if !core.Dominates(dfr, call.(ssa.Instruction)) {
				beforeRead = false
			}
		}
	}
	pos := chk.Pos()
	if dfr != nil {
		pos = dfr.Pos()
	}
	c.Check("limit-reset", "checkProxyHeader:limit", pos, dfr != nil && resetLimit && beforeRead,
		"no deferred function registered before the header is read lifts lmtReader.N to `no limit`: after the header the application could read at most headerLimit bytes")
	c.Check("limit-reset", "checkProxyHeader:deadline", pos, dfr != nil && resetDeadline && beforeRead,
		"no deferred function registered before the header is read clears the read deadline set for the header")

	// NewConn wiring
	if nc := nxFuncOrMissing(c, c46pkg, "NewConn"); nc != nil {
		okBuf, okLmt := false, false
		var lmtVal ssa.Value
		for _, st := range core.FieldStores([]*ssa.Function{nc}, fLmt) {
			lmtVal = st.Store.Val
			okLmt = nxFlows(st.Store.Val, func(v ssa.Value) bool {
				call, ok := v.(*ssa.Call)
				return ok && core.CallIs(&call.Call, "io.LimitReader") && core.StripConv(call.Call.Args[0]) == nc.Params[0]
			}, nil)
		}
		for _, st := range core.FieldStores([]*ssa.Function{nc}, fBuf) {
			call, _ := nxCallResult(st.Store.Val)
			okBuf = call != nil && core.CallIs(&call.Call, "bfe_bufio.NewReader", "bfe_bufio.NewReaderSize") &&
				nxFlows(call.Call.Args[0], func(v ssa.Value) bool { return v == lmtVal || nxLoadsField(v, fLmt) }, nil)
		}
		c.Check("conn-wiring", "NewConn:lmtReader", nc.Pos(), okLmt, "Conn.lmtReader is not io.LimitReader(conn, …) over the wrapped socket")
		c.Check("conn-wiring", "NewConn:bufReader", nc.Pos(), okBuf, "Conn.bufReader is not a buffered reader over Conn.lmtReader: lifting the limit would not affect the reader the parser and the application use")
	}

	// readers of the buffered stream and of the resolved addresses
	once := c46pkg + ".Conn.checkProxyHeaderOnce"
	fns := c.P.SrcFuncs(c46pkg)
	nread, naddr := 0, 0
	for _, fn := range fns {
		k := core.FuncKey(fn)
		if k == c46pkg+".NewConn" || strings.HasPrefix(k, chkKey) {
			continue
		}
		onceCalls := core.Calls(fn, once)
		dominated := func(in ssa.Instruction) bool {
			for _, oc := range onceCalls {
				if core.Dominates(oc.(ssa.Instruction), in) {
					return true
				}
			}
			return false
		}
		nth := map[string]int{}
		for _, in := range allInstrs(fn) {
			u, ok := in.(*ssa.UnOp)
			if !ok || u.Op != token.MUL {
				continue
			}
			switch {
			case nxIsFieldAddr(u.X, fBuf):
				nread++
				guarded := nxHolds(in.Block(), func(g core.Guard) bool {
					bo, ok := g.Cond.(*ssa.BinOp)
					if !ok {
						return false
					}
					for _, o := range []ssa.Value{bo.X, bo.Y} {
						if nxLoadsField(o, fHdrErr) && nxCondErrNil(g.Cond, g.Pol, o) {
							return true
						}
					}
					return false
				})
				c.Check("read-guard", fmt.Sprintf("%s:bufReader#%d", nxShort(fn), nth["buf"]), in.Pos(), guarded && dominated(in),
					"the buffered stream is used in "+k+" without (a) a preceding checkProxyHeaderOnce() and (b) the guard p.headerErr == nil: bytes behind a rejected or unparsed header reach the application")
				nth["buf"]++
			case nxIsFieldAddr(u.X, fSrc), nxIsFieldAddr(u.X, fDst):
				naddr++
				name := "srcAddr"
				if nxIsFieldAddr(u.X, fDst) {
					name = "dstAddr"
				}
				c.Check("addr-after-check", fmt.Sprintf("%s:%s#%d", nxShort(fn), name, nth[name]), in.Pos(), dominated(in),
					"Conn."+name+" is read in "+k+" before checkProxyHeaderOnce(): the address of the proxy instead of the client's would be reported")
				nth[name]++
			}
		}
		// raw reads of the socket bypass the buffer
		for _, call := range core.AllCalls(fn) {
			cc := call.Common()
			if cc.IsInvoke() && cc.Method.Name() == "Read" && nxLoadsField(cc.Value, fConn) {
				c.Check("read-guard", nxShort(fn)+":raw-socket-read", call.Pos(), false, "direct Read on the wrapped socket in "+k+" bypasses the bytes buffered while parsing the header")
			}
		}
	}
	c.Min("read-guard", 1)
	c.Min("addr-after-check", 3)
	_ = naddr
	_ = nread
	// checkProxyHeader runs at most once: only the once-closure calls it, through sync.Once.Do
	var callers []string
	for _, fn := range fns {
		if len(core.Calls(fn, chkKey)) > 0 {
			callers = append(callers, core.FuncKey(fn))
		}
	}
	okOnce := len(callers) == 1 && strings.HasPrefix(callers[0], once+"$")
	if of := nxFuncOrMissing(c, c46pkg, "Conn.checkProxyHeaderOnce"); of != nil {
		doCalls := core.Calls(of, "sync.Once.Do")
		okOnce = okOnce && len(doCalls) == 1
		if len(doCalls) == 1 {
			mc, ok := doCalls[0].Common().Args[1].(*ssa.MakeClosure)
			okOnce = okOnce && ok && core.FuncKey(mc.Fn.(*ssa.Function)) == callers[0]
		}
	}
	c.Check("check-once", "Conn.checkProxyHeader", chk.Pos(), okOnce,
		"checkProxyHeader must be called only from the closure handed to p.once.Do in checkProxyHeaderOnce; callers: "+strings.Join(callers, ", "))
}
