package rules

// Effect rules of C49 that can be stated structurally:
//
//   - raw-query editors (QUERY_RENAME, QUERY_DEL, QUERY_DEL_ALL_EXCEPT) treat
//     every occurrence of a key: a removal located by a search is iterated,
//     the next search covers the position of the removal, the loop only stops
//     for a reason computed from the current string, the search pattern is
//     anchored at a pair boundary; a replacement replaces all occurrences;
//   - the parsed query (url.Values) and URL.RawQuery are edited with the same
//     key (sibling agreement of the two representations);
//   - a redirect Location (bfe_basic.RedirectInfo.Url) is never computed from
//     the decoded URL.Path, and the "original uri" actions build it from the
//     configured string followed by the escaped request URI.
//
// Everything is decided on SSA values (data-flow slices, loop-header phis,
// call operands); no rule looks at source text or positions.

import (
	"fmt"
	"go/token"
	"go/types"
	"strings"

	"golang.org/x/tools/go/ssa"

	"verif/internal/core"
)

// ---------------------------------------------------------------------------
// interprocedural backward data-flow slice

// mdSliceCtx is one activation of an inlined callee: parameters are bound to
// the arguments of call.
type mdSliceCtx struct {
	call   *ssa.Call
	parent *mdSliceCtx
	depth  int
}

type mdSliceKey struct {
	v   ssa.Value
	ctx *mdSliceCtx
}

// mdSlicer computes the values a value is computed from: operands
// (transitively), the stores into local cells, and - for statically called
// module functions, to the given depth - the returned values with parameters
// bound to the arguments of the call. Control dependence is not followed.
type mdSlicer struct {
	stop     func(v ssa.Value) bool // recorded, operands not followed
	maxDepth int
	out      map[ssa.Value]*mdSliceCtx // value -> an activation it was seen in
	seen     map[mdSliceKey]bool
	// callers, when set, lets a parameter that no activation binds stand for
	// the arguments of all static call sites of its function (two levels up).
	callers map[*ssa.Function][]ssa.CallInstruction
	up      int
}

func mdNewSlicer(maxDepth int, stop func(v ssa.Value) bool) *mdSlicer {
	return &mdSlicer{stop: stop, maxDepth: maxDepth, out: map[ssa.Value]*mdSliceCtx{}, seen: map[mdSliceKey]bool{}}
}

func (s *mdSlicer) has(pred func(ssa.Value) bool) bool {
	for v := range s.out {
		if pred(v) {
			return true
		}
	}
	return false
}

func (s *mdSlicer) inlinable(c *ssa.CallCommon, ctx *mdSliceCtx) *ssa.Function {
	if c.IsInvoke() {
		return nil
	}
	sc := c.StaticCallee()
	if sc == nil || sc.Blocks == nil || core.FuncPkgRel(sc) == "" {
		return nil
	}
	d := 0
	if ctx != nil {
		d = ctx.depth
	}
	if d >= s.maxDepth {
		return nil
	}
	for x := ctx; x != nil; x = x.parent {
		if x.call.Call.StaticCallee() == sc {
			return nil // recursion
		}
	}
	return sc
}

func (s *mdSlicer) walkReturns(call *ssa.Call, sc *ssa.Function, idx int, ctx *mdSliceCtx) {
	d := 0
	if ctx != nil {
		d = ctx.depth
	}
	nctx := &mdSliceCtx{call: call, parent: ctx, depth: d + 1}
	for _, r := range core.Returns(sc) {
		rv := core.RetVals(r)
		if idx < len(rv) {
			s.walk(rv[idx], nctx)
		}
	}
}

func (s *mdSlicer) walk(v ssa.Value, ctx *mdSliceCtx) {
	if v == nil {
		return
	}
	k := mdSliceKey{v, ctx}
	if s.seen[k] || len(s.seen) > 20000 {
		return
	}
	s.seen[k] = true
	if _, ok := s.out[v]; !ok {
		s.out[v] = ctx
	}
	if s.stop != nil && s.stop(v) {
		return
	}
	switch x := v.(type) {
	case *ssa.Parameter:
		for c := ctx; c != nil; c = c.parent {
			sc := c.call.Call.StaticCallee()
			if sc != x.Parent() {
				continue
			}
			for i, p := range sc.Params {
				if p == x && i < len(c.call.Call.Args) {
					s.walk(c.call.Call.Args[i], c.parent)
				}
			}
			return
		}
		if s.callers != nil && s.up < 2 {
			for i, p := range x.Parent().Params {
				if p != x {
					continue
				}
				for _, cs := range s.callers[x.Parent()] {
					if a := cs.Common().Args; !cs.Common().IsInvoke() && i < len(a) {
						s.up++
						s.walk(a[i], nil)
						s.up--
					}
				}
			}
		}
	case *ssa.Call:
		if sc := s.inlinable(&x.Call, ctx); sc != nil {
			s.walkReturns(x, sc, 0, ctx)
			return
		}
		if x.Call.IsInvoke() || x.Call.StaticCallee() == nil {
			s.walk(x.Call.Value, ctx)
		}
		for _, a := range x.Call.Args {
			s.walk(a, ctx)
		}
	case *ssa.Extract:
		if call, ok := x.Tuple.(*ssa.Call); ok {
			if sc := s.inlinable(&call.Call, ctx); sc != nil {
				s.walkReturns(call, sc, x.Index, ctx)
				return
			}
		}
		s.walk(x.Tuple, ctx)
	case *ssa.UnOp:
		s.walk(x.X, ctx)
		if x.Op != token.MUL {
			return
		}
		if a, ok := x.X.(*ssa.Alloc); ok {
			for _, st := range mdStoresTo(a) {
				s.walk(st.Val, ctx)
			}
		}
		if fa, ok := x.X.(*ssa.FieldAddr); ok {
			if a, ok := fa.X.(*ssa.Alloc); ok && a.Referrers() != nil {
				for _, r := range *a.Referrers() {
					if fa2, ok := r.(*ssa.FieldAddr); ok && fa2.Field == fa.Field {
						for _, st := range mdStoresToAddr(fa2) {
							s.walk(st.Val, ctx)
						}
					}
				}
			}
		}
	case *ssa.Alloc:
		if x.Referrers() == nil {
			return
		}
		for _, r := range *x.Referrers() {
			switch y := r.(type) {
			case *ssa.Store:
				if y.Addr == ssa.Value(x) {
					s.walk(y.Val, ctx)
				}
			case *ssa.IndexAddr:
				for _, st := range mdStoresToAddr(y) {
					s.walk(st.Val, ctx)
				}
			case *ssa.FieldAddr:
				for _, st := range mdStoresToAddr(y) {
					s.walk(st.Val, ctx)
				}
			}
		}
	case ssa.Instruction:
		for _, op := range x.Operands(nil) {
			if *op != nil {
				s.walk(*op, ctx)
			}
		}
	}
}

// mdIsFieldOf: v addresses or selects the field pkgPath.typeName.field.
func mdIsFieldOf(v ssa.Value, pkgPath, typeName, field string) bool {
	var f *types.Var
	var owner types.Type
	switch x := v.(type) {
	case *ssa.FieldAddr:
		f, owner = core.FieldObj(x.X, x.Field), x.X.Type()
	case *ssa.Field:
		f, owner = core.FieldObj(x.X, x.Field), x.X.Type()
	default:
		return false
	}
	if f == nil || f.Name() != field {
		return false
	}
	if p, ok := owner.Underlying().(*types.Pointer); ok {
		owner = p.Elem()
	}
	n, ok := owner.(*types.Named)
	if !ok || n.Obj().Pkg() == nil {
		return false
	}
	return n.Obj().Name() == typeName && n.Obj().Pkg().Path() == pkgPath
}

// mdConcatLeaves flattens a string concatenation a + b + c into its operands,
// left to right.
func mdConcatLeaves(v ssa.Value) []ssa.Value {
	if b, ok := v.(*ssa.BinOp); ok && b.Op == token.ADD {
		if bt, ok := b.Type().Underlying().(*types.Basic); ok && bt.Info()&types.IsString != 0 {
			return append(mdConcatLeaves(b.X), mdConcatLeaves(b.Y)...)
		}
	}
	return []ssa.Value{v}
}

// ---------------------------------------------------------------------------
// raw-query editors

var mdSearchFuncs = []string{"strings.Index", "strings.IndexByte", "strings.IndexRune", "strings.IndexAny", "strings.IndexFunc",
	"strings.LastIndex", "strings.LastIndexByte", "strings.LastIndexAny", "strings.LastIndexFunc"}

// mdLocalSlice is the intraprocedural operand closure of v that does not pass
// through the phis of the block header (the values of the current iteration).
func mdLocalSlice(v ssa.Value, header *ssa.BasicBlock) map[ssa.Value]bool {
	out := map[ssa.Value]bool{}
	var walk func(v ssa.Value, d int)
	walk = func(v ssa.Value, d int) {
		if v == nil || out[v] || d > 16 {
			return
		}
		out[v] = true
		if phi, ok := v.(*ssa.Phi); ok && header != nil && phi.Block() == header {
			return
		}
		if in, ok := v.(ssa.Instruction); ok {
			for _, op := range in.Operands(nil) {
				if *op != nil {
					walk(*op, d+1)
				}
			}
		}
	}
	walk(v, 0)
	return out
}

// mdFlowsByPhi: v is target or a phi (other than stop) one of whose edges is.
func mdFlowsByPhi(v, target ssa.Value, stop ssa.Value, seen map[ssa.Value]bool) bool {
	if v == target {
		return true
	}
	phi, ok := v.(*ssa.Phi)
	if !ok || v == stop || seen[v] {
		return false
	}
	seen[v] = true
	for _, e := range phi.Edges {
		if mdFlowsByPhi(e, target, stop, seen) {
			return true
		}
	}
	return false
}

// mdAnchoredPattern: the search/replace pattern is a concatenation whose first
// operand is a constant starting with the pair delimiter '&'.
func mdAnchoredPattern(v ssa.Value) bool {
	leaves := mdConcatLeaves(v)
	s, ok := core.ConstString(leaves[0])
	return ok && strings.HasPrefix(s, "&")
}

// mdEditFinding is the verdict on one all-occurrences construct.
type mdEditFinding struct {
	what string
	pos  token.Pos
	bad  []string
}

// mdLoopOf returns the natural loop headed by h that contains b.
func mdLoopOf(fn *ssa.Function, h, b *ssa.BasicBlock) *core.Loop {
	for _, l := range core.Loops(fn) {
		if l.Header == h && l.Body[b] {
			return l
		}
	}
	return nil
}

// mdSearchOn classifies a search haystack t relative to the edited string s:
// "full" (t is s), "from" (t is s[off:]), "other" (computed from s in a way
// that is not followed) or "" (unrelated to s).
func mdSearchOn(t, s ssa.Value, header *ssa.BasicBlock) (kind string, off ssa.Value) {
	if t == s {
		return "full", nil
	}
	if sl, ok := t.(*ssa.Slice); ok && sl.X == s && sl.High == nil && sl.Max == nil {
		if sl.Low == nil {
			return "full", nil
		}
		if k, isK := mdIntConst(sl.Low); isK && k == 0 {
			return "full", nil
		}
		return "from", sl.Low
	}
	if mdLocalSlice(t, header)[s] {
		return "other", nil
	}
	return "", nil
}

// mdNotPast: v is provably not greater than a (the same value, zero, or a
// minus a non-negative constant).
func mdNotPast(v, a ssa.Value) bool {
	if v == a {
		return true
	}
	if k, ok := mdIntConst(v); ok && k == 0 {
		return true
	}
	if b, ok := v.(*ssa.BinOp); ok && b.Op == token.SUB && b.X == a {
		if k, ok := mdIntConst(b.Y); ok && k >= 0 {
			return true
		}
	}
	return false
}

// mdCutOf decodes v as a removal `s[:a] + s[b:]` of one string, written in
// place or through a module helper that returns such an expression of its
// parameters.
func mdCutOf(v ssa.Value, depth int) (s, a ssa.Value, ok bool) {
	switch x := v.(type) {
	case *ssa.BinOp:
		if x.Op != token.ADD {
			return nil, nil, false
		}
		left, ok1 := x.X.(*ssa.Slice)
		right, ok2 := x.Y.(*ssa.Slice)
		if !ok1 || !ok2 || left.X != right.X || left.High == nil || right.Low == nil || right.High != nil {
			return nil, nil, false
		}
		if left.Low != nil {
			if k, isK := mdIntConst(left.Low); !isK || k != 0 {
				return nil, nil, false
			}
		}
		if bt, isB := x.Type().Underlying().(*types.Basic); !isB || bt.Info()&types.IsString == 0 {
			return nil, nil, false
		}
		return left.X, left.High, true
	case *ssa.Call:
		sc := x.Call.StaticCallee()
		if depth > 0 || x.Call.IsInvoke() || sc == nil || sc.Blocks == nil || core.FuncPkgRel(sc) == "" {
			return nil, nil, false
		}
		rets := core.Returns(sc)
		if len(rets) != 1 || len(rets[0].Results) != 1 {
			return nil, nil, false
		}
		s0, a0, ok := mdCutOf(core.RetVals(rets[0])[0], depth+1)
		if !ok {
			return nil, nil, false
		}
		for i, p := range sc.Params {
			if i >= len(x.Call.Args) {
				break
			}
			if ssa.Value(p) == s0 {
				s = x.Call.Args[i]
			}
			if ssa.Value(p) == a0 {
				a = x.Call.Args[i]
			}
		}
		return s, a, s != nil && a != nil
	}
	return nil, nil, false
}

// mdCutSites finds the removals `s[:a] + s[b:]` of fn whose position a is
// located by a search over s, and decides for each one that the removal is
// repeated until the search fails and that no position is skipped.
//
// sites: the static call sites (inside the analysed function set) of every
// function, used when the removal is a helper whose caller owns the loop.
func mdCutSites(fn *ssa.Function, sites map[*ssa.Function][]ssa.CallInstruction) []mdEditFinding {
	var out []mdEditFinding
	n := 0
	core.Instrs(fn, func(in ssa.Instruction) {
		add, ok := in.(ssa.Value)
		if !ok {
			return
		}
		s, a, ok := mdCutOf(add, 0)
		if !ok {
			return
		}
		var header *ssa.BasicBlock
		if phi, isPhi := s.(*ssa.Phi); isPhi {
			header = phi.Block()
		}
		// the searches that locate a
		type search struct {
			call *ssa.Call
			kind string
			off  ssa.Value
		}
		var searches []search
		for v := range mdLocalSlice(a, header) {
			call, isCall := v.(*ssa.Call)
			if !isCall || !core.CallIs(&call.Call, mdSearchFuncs...) || len(call.Call.Args) < 2 {
				continue
			}
			if kind, off := mdSearchOn(call.Call.Args[0], s, header); kind != "" {
				searches = append(searches, search{call, kind, off})
			}
		}
		if len(searches) == 0 {
			return // not a removal of something found by searching s
		}
		f := mdEditFinding{what: fmt.Sprintf("%s:cut#%d", core.FuncKey(fn), n), pos: in.Pos()}
		n++
		bad := func(format string, args ...interface{}) { f.bad = append(f.bad, fmt.Sprintf(format, args...)) }
		for _, sr := range searches {
			if !mdAnchoredPattern(sr.call.Call.Args[1]) {
				bad("the search pattern %s does not start with the pair delimiter '&': a key that merely ends with the deleted key would be matched", core.Render(sr.call.Call.Args[1]))
			}
		}
		sphi, isPhi := s.(*ssa.Phi)
		var loop *core.Loop
		if isPhi {
			loop = mdLoopOf(fn, sphi.Block(), in.Block())
		}
		switch {
		case loop != nil:
			// the result must come back to s on a back edge
			var cutEdges []int
			for i, p := range sphi.Block().Preds {
				if loop.Body[p] && mdFlowsByPhi(sphi.Edges[i], add, sphi, map[ssa.Value]bool{}) {
					cutEdges = append(cutEdges, i)
				}
			}
			if len(cutEdges) == 0 {
				bad("the string after the removal is not searched again (the removal does not flow back to the loop head): a second occurrence of the key stays in the raw query")
				break
			}
			// every exit is decided by the current string
			for b := range loop.Body {
				exits := false
				for _, succ := range b.Succs {
					if !loop.Body[succ] {
						exits = true
					}
				}
				if !exits {
					continue
				}
				ifi, isIf := b.Instrs[len(b.Instrs)-1].(*ssa.If)
				if !isIf || !mdBackSlice(ifi.Cond)[s] {
					bad("the removal loop has an exit that does not depend on the current string (it can stop while the key is still present)")
				}
			}
			// the next search covers the position of the removal
			for _, sr := range searches {
				switch sr.kind {
				case "full":
				case "from":
					ophi, isOPhi := sr.off.(*ssa.Phi)
					if !isOPhi || ophi.Block() != sphi.Block() {
						bad("the search starts at %s, which is not followed", core.Render(sr.off))
						continue
					}
					for i, p := range ophi.Block().Preds {
						if !loop.Body[p] {
							if k, isK := mdIntConst(ophi.Edges[i]); !isK || k != 0 {
								bad("the first search does not start at the beginning of the string (starts at %s)", core.Render(ophi.Edges[i]))
							}
						}
					}
					for _, i := range cutEdges {
						if !mdNotPast(ophi.Edges[i], a) {
							bad("after a removal at position p the next search starts at %s instead of at most p: the pair that now starts at p (same key repeated in adjacent pairs) is skipped and stays in the raw query", mdOffStr(ophi.Edges[i], a))
						}
					}
				default:
					bad("a search over %s derived from the edited string is not followed", core.Render(sr.call.Call.Args[0]))
				}
			}
		default:
			// removal without a loop of its own: a helper whose callers iterate it
			par, isPar := s.(*ssa.Parameter)
			calls := sites[fn]
			if !isPar || len(calls) == 0 {
				bad("the removal of the found pair is not repeated: a second occurrence of the key stays in the raw query")
				break
			}
			for _, sr := range searches {
				if sr.kind != "full" {
					bad("a helper that removes one occurrence must search the whole string it is given")
				}
			}
			pi := -1
			for i, p := range fn.Params {
				if p == par {
					pi = i
				}
			}
			for _, cs := range calls {
				call, isCall := cs.(*ssa.Call)
				if !isCall || pi < 0 || pi >= len(call.Call.Args) {
					bad("call site of the removal helper is not followed")
					continue
				}
				caller := call.Parent()
				arg, isArgPhi := call.Call.Args[pi].(*ssa.Phi)
				var l2 *core.Loop
				if isArgPhi {
					l2 = mdLoopOf(caller, arg.Block(), call.Block())
				}
				if l2 == nil {
					bad("%s calls the one-occurrence removal %s outside a loop over its result", core.FuncKey(caller), core.FuncKey(fn))
					continue
				}
				back := false
				for i, p := range arg.Block().Preds {
					if !l2.Body[p] {
						continue
					}
					e := arg.Edges[i]
					if mdFlowsByPhi(e, call, arg, map[ssa.Value]bool{}) {
						back = true
					}
					if ex, isEx := e.(*ssa.Extract); isEx && ex.Tuple == ssa.Value(call) {
						back = true
					}
				}
				if !back {
					bad("%s does not feed the result of %s back into the next call", core.FuncKey(caller), core.FuncKey(fn))
				}
				for b := range l2.Body {
					exits := false
					for _, succ := range b.Succs {
						if !l2.Body[succ] {
							exits = true
						}
					}
					if !exits {
						continue
					}
					ifi, isIf := b.Instrs[len(b.Instrs)-1].(*ssa.If)
					if !isIf || !mdBackSlice(ifi.Cond)[arg] {
						bad("the removal loop in %s has an exit that does not depend on the current string", core.FuncKey(caller))
					}
				}
			}
		}
		out = append(out, f)
	})
	return out
}

func mdOffStr(v, a ssa.Value) string {
	if b, ok := v.(*ssa.BinOp); ok && (b.X == a || b.Y == a) {
		other := b.Y
		if b.Y == a {
			other = b.X
		}
		return "p " + b.Op.String() + " " + core.Render(other)
	}
	return core.Render(v)
}

// mdReplaceSites decides the strings.Replace / ReplaceAll calls of fn that
// edit a string computed from URL.RawQuery: all occurrences are replaced and
// both patterns are anchored at a pair boundary.
func mdReplaceSites(fn *ssa.Function) []mdEditFinding {
	var out []mdEditFinding
	n := 0
	for _, cs := range core.Calls(fn, "strings.Replace", "strings.ReplaceAll") {
		cc := cs.Common()
		if len(cc.Args) < 3 {
			continue
		}
		if !mdSliceHas(cc.Args[0], func(v ssa.Value) bool { return mdIsFieldOf(v, "net/url", "URL", "RawQuery") }) {
			continue
		}
		f := mdEditFinding{what: fmt.Sprintf("%s:replace#%d", core.FuncKey(fn), n), pos: cs.Pos()}
		n++
		if len(cc.Args) == 4 {
			if k, ok := mdIntConst(cc.Args[3]); !ok || k >= 0 {
				f.bad = append(f.bad, "strings.Replace is limited to "+core.Render(cc.Args[3])+" occurrence(s): a repeated key keeps its old name in the raw query")
			}
		}
		for _, i := range []int{1, 2} {
			if !mdAnchoredPattern(cc.Args[i]) {
				f.bad = append(f.bad, "the pattern "+core.Render(cc.Args[i])+" does not start with the pair delimiter '&'")
			}
		}
		out = append(out, f)
	}
	return out
}

// mdPkgClosure: fn and the functions of its own package it reaches through
// static calls (to the given depth).
func mdPkgClosure(fn *ssa.Function, depth int) []*ssa.Function {
	rel := core.FuncPkgRel(fn)
	var out []*ssa.Function
	for _, f := range core.TransitiveCallees(fn, depth) {
		if core.FuncPkgRel(f) == rel {
			out = append(out, f)
		}
	}
	return out
}

// mdC49QueryEffects: obligations on the raw-query editors of bfe_basic/action.
func mdC49QueryEffects(c *core.Ctx) {
	const act = "bfe_basic/action"
	// ---- all occurrences of a key are edited --------------------------------
	for _, ex := range []struct{ cmd, fn string }{
		{"QUERY_RENAME", "ReqQueryRename"}, {"QUERY_DEL", "ReqQueryDel"}, {"QUERY_DEL_ALL_EXCEPT", "ReqQueryDelAllExcept"},
	} {
		fn := c.P.Func(act, ex.fn)
		if fn == nil {
			c.Missing(act + "." + ex.fn)
			continue
		}
		c.Analysed(core.FuncKey(fn))
		fns := mdPkgClosure(fn, 3)
		sites := mdPkgCallSites(fns)
		var finds []mdEditFinding
		for _, f := range fns {
			finds = append(finds, mdCutSites(f, sites)...)
			finds = append(finds, mdReplaceSites(f)...)
		}
		var why []string
		pos := fn.Pos()
		for _, f := range finds {
			for _, b := range f.bad {
				why = append(why, f.what+": "+b)
				pos = f.pos
			}
		}
		if len(finds) == 0 {
			why = append(why, "no construct that edits every occurrence of the key in the raw query was recognised (an iterated search-and-remove over the raw string, or strings.Replace with a negative count)")
		}
		c.Check("rawquery-all-occurrences", ex.cmd, pos, len(why) == 0, "the raw query edit of "+ex.cmd+" ("+ex.fn+") does not provably treat every occurrence of the key: "+strings.Join(mdUniq(why), "; "))
	}
	c.Min("rawquery-all-occurrences", 3)

	// ---- parsed query and raw query are edited with the same key ---------------
	n := 0
	for _, name := range []string{"ReqQueryAdd", "ReqQueryRename", "ReqQueryDel", "ReqQueryDelAllExcept"} {
		fn := c.P.Func(act, name)
		if fn == nil {
			c.Missing(act + "." + name)
			continue
		}
		fns := mdPkgClosure(fn, 3)
		// the value that ends up in URL.RawQuery
		sl := mdNewSlicer(3, nil)
		stores := 0
		for _, f := range fns {
			core.Instrs(f, func(in ssa.Instruction) {
				st, ok := in.(*ssa.Store)
				if !ok || !mdIsFieldOf(st.Addr, "net/url", "URL", "RawQuery") {
					return
				}
				stores++
				if f == fn {
					sl.walk(st.Val, nil)
					return
				}
				bound := false
				for _, cs := range mdPkgCallSites(fns)[f] {
					if call, ok := cs.(*ssa.Call); ok {
						sl.walk(st.Val, &mdSliceCtx{call: call, depth: 1})
						bound = true
					}
				}
				if !bound {
					sl.walk(st.Val, nil)
				}
			})
		}
		if stores == 0 {
			c.Check("query-raw-sync", name+":raw-store", fn.Pos(), false, name+" edits the parsed query but never stores URL.RawQuery: the query string sent to the backend is unchanged")
			continue
		}
		ord := map[string]int{}
		allSites := mdPkgCallSites(fns)
		// a key that is a parameter of a helper stands for the arguments handed in
		resolve := func(f *ssa.Function, v ssa.Value) []ssa.Value {
			par, ok := v.(*ssa.Parameter)
			if !ok || f == fn {
				return []ssa.Value{v}
			}
			var out []ssa.Value
			for i, p := range f.Params {
				if p != par {
					continue
				}
				for _, cs := range allSites[f] {
					if a := cs.Common().Args; i < len(a) {
						out = append(out, a[i])
					}
				}
			}
			if len(out) == 0 {
				out = append(out, v)
			}
			return out
		}
		inSlice := func(f *ssa.Function, v ssa.Value) bool {
			for _, x := range resolve(f, v) {
				if _, ok := sl.out[x]; !ok {
					return false
				}
			}
			return true
		}
		for _, f := range fns {
			f := f
			core.Instrs(f, func(in ssa.Instruction) {
				var key, recv ssa.Value
				var what string
				switch x := in.(type) {
				case *ssa.Call:
					if !core.CallIs(&x.Call, "net/url.Values.Del", "net/url.Values.Set", "net/url.Values.Add") || len(x.Call.Args) < 2 {
						return
					}
					recv, key = x.Call.Args[0], x.Call.Args[1]
					what = strings.TrimPrefix(core.CalleeKey(&x.Call), "net/url.")
				case *ssa.MapUpdate:
					if core.TypeStr(x.Map.Type()) != "net/url.Values" {
						return
					}
					recv, key, what = x.Map, x.Key, "Values[key]="
				default:
					return
				}
				k := fmt.Sprintf("%s:%s#%d", name, what, ord[what])
				ord[what]++
				n++
				c.Check("query-raw-sync", k, in.Pos(), inSlice(f, key) || inSlice(f, recv), fmt.Sprintf("%s changes key %s of the parsed query, but the value stored to URL.RawQuery is not computed from that key (nor from the parsed map): the raw query sent to the backend and req.Query disagree", what, core.Render(key)))
			})
		}
	}
	c.Note("query-raw-sync: %d parsed-query mutations", n)
	c.Min("query-raw-sync", 4)
}

// ---------------------------------------------------------------------------
// redirect Location

var mdURLEscapers = []string{"net/url.PathEscape", "net/url.QueryEscape", "net/url.URL.EscapedPath", "net/url.URL.EscapedFragment",
	"net/url.URL.String", "net/url.URL.RequestURI", "net/url.URL.Redacted", "net/url.JoinPath", "net/url.URL.JoinPath"}

func mdIsEscaperCall(v ssa.Value) bool {
	call, ok := v.(*ssa.Call)
	return ok && core.CallIs(&call.Call, mdURLEscapers...)
}

// mdC49RedirectEffects: obligations on the values stored to
// bfe_basic.RedirectInfo.Url (the Location of the redirect response).
func mdC49RedirectEffects(c *core.Ctx) {
	const rd = "bfe_modules/mod_redirect"
	urlField, _ := c.P.Obj("bfe_basic", "RedirectInfo.Url").(*types.Var)
	if urlField == nil {
		c.Missing("bfe_basic.RedirectInfo.Url")
		return
	}
	isDecodedPath := func(v ssa.Value) bool {
		if call, ok := v.(*ssa.Call); ok && core.CallIs(&call.Call, "net/url.PathUnescape", "net/url.QueryUnescape") {
			return true
		}
		return mdIsFieldOf(v, "net/url", "URL", "Path")
	}
	callers := mdPkgCallSites(c.P.SrcFuncs(""))

	// (a) no Location is computed from the decoded path, anywhere
	ord := map[string]int{}
	for _, st := range core.FieldStores(c.P.SrcFuncs(""), urlField) {
		fk := core.FuncKey(st.Fn)
		key := fmt.Sprintf("%s:Url#%d", fk, ord[fk])
		ord[fk]++
		sl := mdNewSlicer(3, mdIsEscaperCall)
		sl.callers = callers
		sl.walk(st.Store.Val, nil)
		c.Check("redirect-no-decoded-path", key, st.Store.Pos(), !sl.has(isDecodedPath),
			"the redirect Location is computed from URL.Path (the percent-DECODED path) or from an unescaped string, without re-escaping: for a request path with encoded octets (%20, %3F, %0D%0A, non-ASCII) the Location is not the original URI (a space, a '?' that turns path into query, raw CR/LF); use URL.RequestURI() / EscapedPath()")
	}
	c.Min("redirect-no-decoded-path", 1)

	// (b) the "original uri" actions: configured string, then the escaped URI
	for _, ex := range []struct {
		cmd, fn string
		host    bool
	}{{"URL_PREFIX_ADD", "ReqUrlPrefixAdd", false}, {"SCHEME_SET", "ReqSchemeSet", true}} {
		fn := c.P.Func(rd, ex.fn)
		if fn == nil {
			c.Missing(rd + "." + ex.fn)
			continue
		}
		if !mdNeedParams(c, 2, fn) {
			continue
		}
		c.Analysed(core.FuncKey(fn))
		type reached struct {
			st  *ssa.Store
			ctx *mdSliceCtx
		}
		var stores []reached
		find := func(f *ssa.Function, ctx *mdSliceCtx) {
			for _, s := range core.FieldStores([]*ssa.Function{f}, urlField) {
				stores = append(stores, reached{s.Store, ctx})
			}
		}
		find(fn, nil)
		for _, cs := range core.AllCalls(fn) {
			call, ok := cs.(*ssa.Call)
			if sc := cs.Common().StaticCallee(); ok && sc != nil && sc.Blocks != nil && sc != fn && core.FuncPkgRel(sc) == rd {
				find(sc, &mdSliceCtx{call: call, depth: 1})
			}
		}
		var why []string
		if len(stores) == 0 {
			why = append(why, "no store to Redirect.Url found")
		}
		for _, r := range stores {
			sl := mdNewSlicer(3, mdIsEscaperCall)
			sl.walk(r.st.Val, r.ctx)
			if _, ok := sl.out[fn.Params[1]]; !ok {
				why = append(why, "the Location is not computed from the configured "+fn.Params[1].Name())
			}
			// escaped original URI of this request: URL.RequestURI(), or
			// EscapedPath() together with RawQuery
			fromReq := func(v ssa.Value, ctx *mdSliceCtx) bool {
				s2 := mdNewSlicer(3, nil)
				s2.walk(v, ctx)
				_, ok := s2.out[fn.Params[0]]
				return ok
			}
			isURI := func(v ssa.Value) bool {
				call, ok := v.(*ssa.Call)
				return ok && core.CallIs(&call.Call, "net/url.URL.RequestURI") && len(call.Call.Args) > 0 && fromReq(call.Call.Args[0], sl.out[v])
			}
			isEscPath := func(v ssa.Value) bool {
				call, ok := v.(*ssa.Call)
				return ok && core.CallIs(&call.Call, "net/url.URL.EscapedPath") && len(call.Call.Args) > 0 && fromReq(call.Call.Args[0], sl.out[v])
			}
			isRawQuery := func(v ssa.Value) bool { return mdIsFieldOf(v, "net/url", "URL", "RawQuery") }
			hasURI := sl.has(isURI) || (sl.has(isEscPath) && sl.has(isRawQuery))
			if !hasURI {
				why = append(why, "the Location does not contain the escaped original URI of the request (URL.RequestURI(), or EscapedPath() with RawQuery)")
			}
			if ex.host && !sl.has(func(v ssa.Value) bool {
				return mdIsFieldOf(v, "net/url", "URL", "Host") || mdIsFieldOf(v, core.ModPath+"/bfe_http", "Request", "Host")
			}) {
				why = append(why, "the absolute Location does not contain the request's host")
			}
			// order, when the value is a plain concatenation
			if leaves := mdConcatLeaves(r.st.Val); len(leaves) > 1 && hasURI {
				firstP, firstU := -1, -1
				for i, leaf := range leaves {
					ls := mdNewSlicer(3, mdIsEscaperCall)
					ls.walk(leaf, r.ctx)
					if _, ok := ls.out[fn.Params[1]]; ok && firstP < 0 {
						firstP = i
					}
					if (ls.has(isURI) || ls.has(isEscPath)) && firstU < 0 {
						firstU = i
					}
				}
				if firstP >= 0 && firstU >= 0 && firstU <= firstP {
					why = append(why, "the original URI is placed before the configured "+fn.Params[1].Name()+" (documented: "+fn.Params[1].Name()+" first, original URI last)")
				}
				if firstU >= 0 && firstU != len(leaves)-1 {
					why = append(why, "something is appended after the original URI")
				}
			}
		}
		c.Check("redirect-original-uri", ex.cmd, fn.Pos(), len(why) == 0, ex.cmd+" ("+ex.fn+") must set the Location to the configured string followed by the escaped original URI: "+strings.Join(mdUniq(why), "; "))
	}
	c.Min("redirect-original-uri", 2)
}
